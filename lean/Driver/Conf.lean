import Driver.Common
import Ctrmml.Model.Conf
import Ctrmml.Spec.ConfRender
/- stream conf.tree — C20
   request:  conf <hex text | -> [| <decorated tree>]
   decorated tree (read by the judge only), blank-separated tokens:
     top   := <n> node*n gap ( - | f <hex|-> )
     node  := L gap key | C gap okey gap | P gap okey gap node | B gap okey gap <n> node*n gap
     gap   := <n> item*n        item := w <hex c><hex more> | c <hex body|-> <hex nl>
     okey  := - | key           key  := b <hex> | q <n> piece*n
     piece := l <hex c> | e <hex c> | n | r -/
namespace Driver.ConfD
open Ctrmml Ctrmml.ConfSpec Driver

def charsOfBytes (b : Bytes) : List Char := b.map fun x => Char.ofNat x.toNat
def hexOfChars (cs : List Char) : String :=
  if cs.isEmpty then "-" else String.ofList (cs.flatMap fun c => [hexDigit (c.toNat / 16 % 16), hexDigit (c.toNat % 16)])
def charsOfHex (s : String) : Option (List Char) :=
  if s == "-" then some [] else (bytesOfHex s).map charsOfBytes

partial def canon : Conf → String
  | .mk k subs => "(" ++ " ".intercalate (hexOfChars k :: subs.map canon) ++ ")"

def showRes : Except ConfModel.Err Conf → String
  | .ok c => "ok " ++ canon c
  | .error .missingBrace => "exc:runtime_error:missing_}"
  | .error .strayBrace => "exc:runtime_error:unexpected_}"
  | .error .oob => "UB:oob"
  | .error .fuel => "timeout"

/-- a C string ends at the first NUL -/
def cstr (cs : List Char) : List Char := cs.takeWhile (· != Char.ofNat 0)

def model (arg : String) : String :=
  match (words arg).head? >>= charsOfHex with
  | none => "bad-request"
  | some cs => showRes (ConfModel.fromString (cstr cs))

abbrev P := StateT (List String) Option

def tok : P String := do
  match (← get) with
  | [] => failure
  | t :: ts => set ts; pure t

def nat : P Nat := do
  match (← tok).toNat? with
  | some n => pure n
  | none => failure

def hexs : P (List Char) := do
  match charsOfHex (← tok) with
  | some cs => pure cs
  | none => failure

def hex1 : P Char := do
  match (← hexs) with
  | [c] => pure c
  | _ => failure

def rep {α} (p : P α) : Nat → P (List α)
  | 0 => pure []
  | n + 1 => do let x ← p; let xs ← rep p n; pure (x :: xs)

def gapItem : P GapItem := do
  match (← tok) with
  | "w" => match (← hexs) with
    | c :: more => pure (.ws c more)
    | [] => failure
  | "c" => do let b ← hexs; let nl ← hex1; pure (.comment b nl)
  | _ => failure

def gap : P Gap := do rep gapItem (← nat)

def piece : P QPiece := do
  match (← tok) with
  | "l" => do pure (.lit (← hex1))
  | "e" => do pure (.esc (← hex1))
  | "n" => pure .escN
  | "r" => pure .cont
  | _ => failure

def keyAfter (t : String) : P KeyText := do
  match t with
  | "b" => do pure (.bare (← hexs))
  | "q" => do pure (.quoted (← rep piece (← nat)))
  | _ => failure

def key : P KeyText := do keyAfter (← tok)
def okey : P (Option KeyText) := do
  let t ← tok
  if t == "-" then pure none else some <$> keyAfter t

partial def node : P SNode := do
  match (← tok) with
  | "L" => do let p ← gap; let k ← key; pure (.leaf p k)
  | "C" => do let p ← gap; let k ← okey; let m ← gap; pure (.comma p k m)
  | "P" => do let p ← gap; let k ← okey; let m ← gap; let c ← node; pure (.colon p k m c)
  | "B" => do
    let p ← gap; let k ← okey; let m ← gap
    let kids ← rep node (← nat)
    let post ← gap
    pure (.braces p k m kids post)
  | _ => failure

def stop : P STop := do
  let ns ← rep node (← nat)
  let tr ← gap
  let t ← tok
  let lc ← if t == "-" then pure none else if t == "f" then some <$> hexs else failure
  pure { nodes := ns, trail := tr, lastComment := lc }

def splitBar (s : String) : String × String :=
  match s.splitOn "|" with
  | [a] => (a, "")
  | a :: b :: _ => (a, b)
  | [] => ("", "")

/-- spec verdict.  With a decorated tree: it must be legal, the request text must be its
rendering, and the implementation must answer the tree it denotes.  Without one (arbitrary
text): the implementation must return — a tree or one of its two diagnosed errors. -/
def judge (arg impl : String) : String :=
  let (a, deco) := splitBar arg
  match (words a).head? >>= charsOfHex with
  | none => "skip"
  | some cs =>
    if (words deco).isEmpty then
      if impl.startsWith "ok (" || impl.startsWith "exc:runtime_error:" then "ok"
      else "fail did not return a tree or a diagnosed error"
    else
      match (stop.run (words deco)) with
      | some (t, []) =>
        if !t.legal then "fail request decoration is not legal syntax"
        else if t.text != cs then "fail request text is not the rendering of the decorated tree: " ++ hexOfChars t.text
        else
          let want := "ok " ++ canon t.erase
          if impl == want then "ok" else "fail want " ++ want
      | _ => "fail cannot read the decorated tree"

def handlers : List Driver.Handler := [{ cmd := "conf", model := model, judge := judge }]
end Driver.ConfD
