import Driver.Song
import Ctrmml.Spec.Played
import Ctrmml.Model.Optimizer
import Ctrmml.Model.Player
namespace Driver.OptD
open Ctrmml Ctrmml.Expand Driver Tables

def sortTracks (l : List (Nat × List Event)) : List (Nat × List Event) :=
  (l.toArray.qsort (fun a b => a.1 < b.1)).toList

def field (impl k : String) : Option String :=
  ((impl.splitOn " ").find? (·.startsWith k)).map (fun f => (f.drop k.length).toString)

/-- the first `LOOP_END` whose count is outside `0..255` (`[/]<0..255>`, mml_ref.md) -/
def countsIn (song : Song) : Option (Nat × Int) :=
  song.tracks.findSome? fun (id, evs) =>
    (evs.find? fun e => e.type == ev_LOOP_END && (e.param < 0 || e.param > 255)).map fun e => (id, e.param)

/-- the events of a track behind its last loop point (`SEGNO`), as a flat list: where the player resumes, with
an empty stack, when it reaches the end of the track -/
def tailAfterSegno : List Event → Option (List Event)
  | [] => none
  | e :: es =>
    match tailAfterSegno es with
    | some r => some r
    | none => if e.type == ev_SEGNO then some es else none

/-- C01 oracle: the real optimiser's output song, expanded by the spec, plays for every original
track exactly what the input song plays; lengths, loop point times agree; the optimiser did not
throw and the result validates. -/
def judge (arg impl : String) : String :=
  match parseSong (words arg) with
  | none => "skip"
  | some (song0, _) =>
    let song : Song := { tracks := sortTracks song0.tracks }
    -- domain: every track of the input validates (spec)
    let before := song.tracks.map fun (id, evs) => (id, perf song evs)
    if before.any (fun (_, r) => match r with | .error _ => true | .ok _ => false) then "skip" else
    if (field impl "before=").map (·.startsWith "err") == some true then "skip" else
    match field impl "result=" with
    | none => "fail no result"
    | some res =>
      if res != "ok" then s!"fail optimiser did not return normally on a valid song: {res}" else
      match (impl.splitOn " song= ")[1]? with
      | none => "fail no song"
      | some dump =>
        match parseSong (words dump) with
        | none => "fail unreadable song"
        | some (osong0, _) =>
          let osong : Song := { tracks := sortTracks osong0.tracks }
          let bad := before.filterMap fun (id, r) =>
            match r, osong.track? id with
            | .ok items, some oevs =>
              match perf osong oevs with
              | .error _ => some s!"track {id}: optimised track no longer validates"
              | .ok oitems =>
                if played items != played oitems then some s!"track {id}: performance changed"
                else if totalDur items != totalDur oitems then some s!"track {id}: length changed"
                else if loopTime items != loopTime oitems then some s!"track {id}: loop point time changed"
                else
                  -- what is played after the jump back to the loop point: the player resumes behind the `SEGNO`
                  -- with an empty stack, so the flat rest of the track must still be a well-formed section that
                  -- plays the same (a loop point folded into a new loop leaves a `]` without its `[` there)
                  match (song.track? id).bind tailAfterSegno, tailAfterSegno oevs with
                  | some t, some ot =>
                    match perf song t, perf osong ot with
                    | .ok a, .ok b => if played a != played b then some s!"track {id}: the section replayed after the loop-back changed" else none
                    | .ok _, .error _ => some s!"track {id}: the section behind the loop point no longer validates on its own (the loop-back lands inside a new loop)"
                    | _, _ => none
                  | _, _ => none
            | _, none => some s!"track {id} disappeared"
            | _, _ => none
          match bad with
          | [] =>
            if (field impl "after=").map (·.startsWith "err") == some true then "fail optimised song does not validate"
            else match countsIn song, countsIn osong with
              -- the optimiser keeps a song inside the documented domain of loop counts `[/]<0..255>`
              -- (repair of D2; `C01_optimize_counts_le_255`)
              | none, some (id, c) => s!"fail track {id}: loop count {c} outside 0..255 in the optimised song"
              | _, _ => "ok"
          | x :: _ => "fail " ++ x

def playerMsg : Player.PErr → String
  | .stackOverflow => "stack_overflow_(depth_limit_reached)"
  | .unterminatedLoop => "unterminated_'[]'_loop"
  | .unexpectedLoopEnd => "unexpected_']'_loop_end"
  | .drumNoNote => "drum_routine_contains_no_note"
  | .invalidLoopCount => "Invalid_loop_count"
  | .jumpMissing => "jump_destination_doesn't_exist"
  | .drumTrackMissing => "drum_mode_error"
  | .platformMissing => "Platform_command_is_not_defined"
  | .impossible => "MODEL:impossible"
  | .fuel => "MODEL:fuel"

/-- `Song_Validator`: every track in key order; the first failure is the exception -/
def validateAll (song : Song) : Except String String :=
  song.tracks.foldlM (fun acc (p : Nat × List Event) =>
    match Player.runValidator song p.2 3000000 Player.initState with
    | .error e => .error (playerMsg e)
    | .ok s =>
      let r := Player.validatedOf s
      .ok (acc ++ (if acc.isEmpty then "" else ",") ++ s!"{p.1}:{r.playTime}:{r.loopPlayTime}:{r.loopLength}")) ""

def showV (r : Except String String) : String :=
  match r with
  | .ok s => "ok:" ++ s
  | .error m => "err:" ++ m

def dumpSong (song : Song) : String :=
  " ".intercalate (song.tracks.map fun (id, evs) => s!"T{id}:" ++ (if evs.isEmpty then "" else showEvents evs))

def model (arg : String) : String :=
  match parseSong (words arg) with
  | none => "bad-request"
  | some (song0, rest) =>
    let song : Song := { tracks := sortTracks song0.tracks }
    let minScore : Int := ((rest.head?.bind parseInt?).getD 10)
    let before := validateAll song
    match before with
    | .error _ => "before=" ++ showV before
    | .ok _ =>
      let valid (s : Song) : Bool := match validateAll s with | .ok _ => true | .error _ => false
      match Opt.optimize valid minScore 100000 song (Opt.initialSubId song) [] with
      | .error .missingTrack => s!"before={showV before} result=exc:out_of_range"
      | .error (.missingDrum p) => s!"before={showV before} result=threw:drum_mode_error:_track_*{p}_is_not_defined"
      | .error .stackListOOB => s!"before={showV before} result=UB:stack-list-oob"
      | .error .fuel => "MODEL:fuel"
      | .ok r =>
        let after := validateAll r.song
        let res := if r.validated then "ok" else match after with | .error m => "threw:" ++ m | .ok _ => "ok"
        s!"before={showV before} result={res} passes={r.passes.length} after={showV after} song= {dumpSong r.song}"

def handlers : List Driver.Handler :=
  [{ cmd := "opt", model := model, judge := judge },
   { cmd := "optx", model := fun _ => optModelDeclines, judge := judge }]
end Driver.OptD
