import Driver.Song
import Ctrmml.Spec.Played
namespace Driver.OptD
open Ctrmml Ctrmml.Expand Driver Tables

def sortTracks (l : List (Nat × List Event)) : List (Nat × List Event) :=
  (l.toArray.qsort (fun a b => a.1 < b.1)).toList

def field (impl k : String) : Option String :=
  ((impl.splitOn " ").find? (·.startsWith k)).map (fun f => (f.drop k.length).toString)

/-- C01 oracle: the real optimiser's output song, expanded by the spec, plays for every original
track exactly what the input song plays; lengths, loop point times agree; the optimiser did not
throw and the result validates. -/
def judge (arg impl : String) : String :=
  match parseSong (words arg) with
  | none => "skip"
  | some (song0, _) =>
    let song : Song := { tracks := sortTracks song0.tracks }
    -- domain: every track of the input validates (spec)
    let before := song.tracks.map fun (id, evs) => (id, perf song evs)
    if before.any (fun (_, r) => match r with | .error _ => true | .ok _ => false) then "skip" else
    if (field impl "before=").map (·.startsWith "err") == some true then "skip" else
    match field impl "result=" with
    | none => "fail no result"
    | some res =>
      if res != "ok" then s!"fail optimiser did not return normally on a valid song: {res}" else
      match (impl.splitOn " song= ")[1]? with
      | none => "fail no song"
      | some dump =>
        match parseSong (words dump) with
        | none => "fail unreadable song"
        | some (osong0, _) =>
          let osong : Song := { tracks := sortTracks osong0.tracks }
          let bad := before.filterMap fun (id, r) =>
            match r, osong.track? id with
            | .ok items, some oevs =>
              match perf osong oevs with
              | .error _ => some s!"track {id}: optimised track no longer validates"
              | .ok oitems =>
                if played items != played oitems then some s!"track {id}: performance changed"
                else if totalDur items != totalDur oitems then some s!"track {id}: length changed"
                else if loopTime items != loopTime oitems then some s!"track {id}: loop point time changed"
                else none
            | _, none => some s!"track {id} disappeared"
            | _, _ => none
          match bad with
          | [] =>
            if (field impl "after=").map (·.startsWith "err") == some true then "fail optimised song does not validate"
            else "ok"
          | x :: _ => "fail " ++ x

def model (_arg : String) : String := "MODEL:optimizer-not-modelled"

def handlers : List Driver.Handler := [{ cmd := "opt", model := model, judge := judge }]
end Driver.OptD
