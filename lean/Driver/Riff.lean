import Driver.Common
import Ctrmml.Spec.RiffTree
namespace Driver.RiffD
open Ctrmml Ctrmml.Riff Driver

partial def parseTree : List String → Option (Tree × List String)
  | "C" :: ty :: pl :: rest => do
    let ty ← parseHexNat ty
    let p ← payloadOf pl
    pure (.chunk ty p, rest)
  | "L" :: ty :: id :: n :: rest => do
    let ty ← parseHexNat ty
    let id ← parseHexNat id
    let n ← n.toNat?
    let rec kids (k : Nat) (toks : List String) (acc : List Tree) : Option (List Tree × List String) :=
      match k with
      | 0 => some (acc.reverse, toks)
      | k + 1 => do
        let (c, toks') ← parseTree toks
        kids k toks' (c :: acc)
    let (cs, rest') ← kids n rest []
    pure (.list ty id cs, rest')
  | "S" :: ty :: id :: n :: rest => do
    -- a list that is then added to ITSELF (`r.add_chunk(r)`): `add_chunk` takes a copy of the added
    -- chunk, so the result is the list with a copy of itself as one more child
    let ty ← parseHexNat ty
    let id ← parseHexNat id
    let n ← n.toNat?
    let rec kidsS (k : Nat) (toks : List String) (acc : List Tree) : Option (List Tree × List String) :=
      match k with
      | 0 => some (acc.reverse, toks)
      | k + 1 => do
        let (c, toks') ← parseTree toks
        kidsS k toks' (c :: acc)
    let (cs, rest') ← kidsS n rest []
    pure (.list ty id (cs ++ [.list ty id cs]), rest')
  | _ => none

partial def canon : Tree → String
  | .chunk ty p => s!"C:{hex32 ty}:{lenfnv p}"
  | .list ty id cs => s!"L:{hex32 ty}:{hex32 id}:[{",".intercalate (cs.map canon)}]"

def errName : Err → String
  | .outOfRange => "exc:out_of_range"
  | .invalidArgument => "exc:invalid_argument"
  | .oob => "UB:oob"

def setLe32 (b : Bytes) (off v : Nat) : Bytes :=
  if off + 4 ≤ b.length then b.take off ++ le32 v ++ b.drop (off + 4) else b

def applyOps (b : Bytes) (ops : List String) : Bytes :=
  ops.foldl (fun b op =>
    if op.startsWith "trunc:" then
      match (op.drop 6).toString.toNat? with
      | some n => if n < b.length then b.take n else b
      | none => b
    else if op.startsWith "w32:" then
      match (op.drop 4).toString.splitOn ":" with
      | [o, v] => match o.toNat?, v.toNat? with
        | some o, some v => setLe32 b o v
        | _, _ => b
      | _ => b
    else b) b

def splitBar (s : String) : String × String :=
  match s.splitOn "|" with
  | [a] => (a, "")
  | a :: b :: _ => (a, b)
  | [] => ("", "")

/-- model answer: build/to_bytes/RIFF(bytes)/walk/to_bytes of Model/Riff -/
def model (arg : String) : String :=
  let (tp, ops) := splitBar arg
  match parseTree (words tp) with
  | none => "bad-request"
  | some (t, _) =>
    match serialize t with
    | .error e => s!"ser={errName e}"
    | .ok b0 =>
      let b := applyOps b0 (words ops)
      let w := match walkTop b with
        | .ok t' => canon t'
        | .error e => errName e
      let rs := match ofBytes b with
        | .ok r => lenfnv (toBytes r)
        | .error e => errName e
      s!"ser={lenfnv b0} walk={w} reser={rs} in={lenfnv b}"

/-- spec verdict on the implementation's answer: for an unmutated tree the file must be
`Tree.file`, the walk must give the tree back, and re-serialising must reproduce the file -/
def judge (arg impl : String) : String :=
  let (tp, ops) := splitBar arg
  match parseTree (words tp) with
  | none => "skip"
  | some (t, _) =>
    if (words ops).isEmpty then
      let f := lenfnv t.file
      let want := s!"ser={f} walk={canon t} reser={f} in={f}"
      if impl == want then "ok" else s!"fail want {want}"
    else
      if (impl.splitOn "UB:").length > 1 then "fail undefined behaviour" else "ok"

end Driver.RiffD

namespace Driver.RiffD
def handlers : List Driver.Handler := [{ cmd := "riff", model := model, judge := judge }]
end Driver.RiffD
