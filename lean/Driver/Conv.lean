import Driver.Song
import Ctrmml.Model.MdsConv
import Ctrmml.Model.MdsPlatform
import Ctrmml.Spec.Timeline
import Ctrmml.Spec.SeqWf
import Ctrmml.Model.Optimizer
import Ctrmml.Model.MdsFile
import Ctrmml.Spec.PlainFragment
namespace Driver.ConvD
open Ctrmml Ctrmml.Mds Ctrmml.Player Driver Tables

def playerMsg : PErr → String
  | .stackOverflow => "stack_overflow_(depth_limit_reached)"
  | .unterminatedLoop => "unterminated_'[]'_loop"
  | .unexpectedLoopEnd => "unexpected_']'_loop_end"
  | .drumNoNote => "drum_routine_contains_no_note"
  | .invalidLoopCount => "Invalid_loop_count"
  | .jumpMissing => "jump_destination_doesn't_exist"
  | .drumTrackMissing => "drum_mode_error"
  | .platformMissing => "Platform_command_is_not_defined"
  | .impossible => "MODEL:impossible"
  | .fuel => "MODEL:fuel"

def werrMsg : WErr → String
  | .player e => "err:player:" ++ playerMsg e
  | .noteRange => "err:noteRange"
  | .drumNoteInLoop => "err:drumNoteInLoop"
  | .drumMissing => "err:drumMissing"
  | .subMissing => "err:subMissing"
  | .platformMissing => "err:platformMissing"
  | .platformBad => "err:platformBad"
  | .insMissing => "err:insMissing"
  | .insType => "err:insType"
  | .macroMissing => "err:macroMissing"
  | .pitchMissing => "err:pitchMissing"
  | .fuel => "MODEL:fuel"

def showMevs (l : List MEv) : String :=
  if l.isEmpty then "-" else ";".intercalate (l.map fun e => s!"{e.type}.{e.arg}")

def hexNat (l : List Nat) : String :=
  if l.isEmpty then "-" else
  String.ofList (l.flatMap fun x => [hexDigit (x / 16 % 16), hexDigit (x % 16)])

structure Req where
  song : Song
  data : DataInfo
  volume : Option Nat
  platformSpec : Timeline.Platform
  unmodelled : Bool

def sortTracks (l : List (Nat × List Event)) : List (Nat × List Event) :=
  (l.toArray.qsort (fun a b => a.1 < b.1)).toList

/-- tokens: V:<n>, I:<id>=<psg|fm>:<k>:<expected bank index>, P:<id>=<w>,<w>…, T<id>:events,
M:<id>=<c|x|l|v>:<k>:<expected bank index> (a pitch envelope `@M<id>`; `x` = the extended form; the bytes of the
envelope are C11's subject — here only `pitch_map` / `pitch_extend`, which the harness echoes as `peg=`) -/
def parseReq (arg : String) : Option Req := do
  let (song, rest) ← parseSong (words arg)
  let mut d : DataInfo := { insType := [(0, mdsIns_INS_UNDEFINED)], envelopeMap := [(0, 0)] }
  let mut vol : Option Nat := none
  let mut pf : Timeline.Platform := []
  let mut unm := false
  for t in rest do
    if t.startsWith "V:" then vol := (t.drop 2).toString.toNat?
    else if t.startsWith "I:" then
      match (t.drop 2).toString.splitOn "=" with
      | [id, spec] =>
        let id ← parseInt? id
        match spec.splitOn ":" with
        | [ty, _, idx] =>
          let idx ← idx.toNat?
          let tyN := if ty == "psg" then mdsIns_INS_PSG else mdsIns_INS_FM
          d := { d with insType := (d.insType.filter (·.1 ≠ id)) ++ [(id, tyN)],
                        envelopeMap := (d.envelopeMap.filter (·.1 ≠ id)) ++ [(id, idx)] }
        | _ => none
      | _ => none
    else if t.startsWith "M:" then
      match (t.drop 2).toString.splitOn "=" with
      | [id, spec] =>
        let id ← parseInt? id
        match spec.splitOn ":" with
        | [ty, _, idx] =>
          let idx ← idx.toNat?
          d := { d with pitchMap := (d.pitchMap.filter (·.1 ≠ id)) ++ [(id, idx)],
                        pitchExtend := (d.pitchExtend.filter (· ≠ id)) ++ (if ty == "x" then [id] else []) }
        | _ => none
      | _ => none
    else if t.startsWith "P:" then
      match (t.drop 2).toString.splitOn "=" with
      | [id, ws] =>
        let id ← parseInt? id
        let r := parsePlatform ((ws.splitOn ",").filter (· ≠ ""))
        match r with
        | .events l =>
          d := { d with platform := d.platform ++ [(id, some l)] }
          pf := pf ++ [(id, l.flatMap fun e =>
            -- what the bytes of these events denote (same widths as the interpreter reads)
            if e.type = mds_CARRY then [] else [(e.type, if Seq.twoArgOps.contains e.type then e.arg else e.arg % 256)])]
        | .inputError => d := { d with platform := d.platform ++ [(id, none)] }
        | .unmodelled => unm := true
      | _ => none
    else pure ()
  pure { song := { tracks := sortTracks song.tracks }, data := d, volume := vol, platformSpec := pf, unmodelled := unm }

def showIns (d : DataInfo) : String :=
  let ids := (d.insType.map (·.1)).toArray.qsort (· < ·) |>.toList
  ",".intercalate (ids.map fun id =>
    s!"{id}:{(d.insType.lookup id).getD 0}:{match d.envelopeMap.lookup id with | some i => (i : Int) | none => -1}")

def showPeg (d : DataInfo) : String :=
  let ids := (d.pitchMap.map (·.1)).toArray.qsort (· < ·) |>.toList
  if ids.isEmpty then "-" else
  ",".intercalate (ids.map fun id =>
    s!"{id}:{if d.pitchExtend.contains id then 1 else 0}:{(d.pitchMap.lookup id).getD 0}")

def render (r : Req) (conv : Conv) (trackList : List (Nat × List MEv)) (seq : List Nat) : String :=
  let tl := if trackList.isEmpty then "-" else "|".intercalate (trackList.map fun (id, l) => s!"{id}:{showMevs l}")
  let subs := if conv.subList.isEmpty then "-" else "|".intercalate (conv.subList.map showMevs)
  let used := if conv.usedData.isEmpty then "-" else ",".intercalate (conv.usedData.map fun (m, i) => s!"{m}:{i}")
  s!"seq={hexNat seq} tl={tl} subs={subs} macros={conv.macroList.length} used={used} ins={showIns r.data} peg={showPeg r.data}"

def model (arg : String) : String :=
  match parseReq arg with
  | none => "bad-request"
  | some r =>
    if r.unmodelled then "MODEL:unmodelled-platform-command" else
    match convertSong r.song r.data r.volume with
    | .error (.writer e) => werrMsg e
    | .error (.codec .atEmpty) => "exc:out_of_range"
    | .error (.codec .stackEmpty) => "err:loopCmd"
    | .error .macroUnmodelled =>
      -- the first-layer model stops at macro tracks; the constructor model (C09's, over which the whole-song
      -- theorems are stated) has them
      match MdsFile.construct r.song r.data (r.volume.map toString) with
      | .ok b => render r b.conv b.trackList b.seq
      | .error _ => "MODEL:unmodelled-macro-track"
    | .ok c => render r c.conv c.trackList c.seq

def showTk : Seq.Tk → String
  | .on n => s!"N{n}"
  | .hold => "h"
  | .off => "."
  | .cmd op a => s!"c{op}:{a}"
  | .loopMark => "L"

def bytesOfHexNat (s : String) : Option (List Nat) := (bytesOfHex s).map (·.map (·.toNat))

def field (impl k : String) : Option String :=
  ((impl.splitOn " ").find? (·.startsWith k)).map (fun f => (f.drop k.length).toString)

def firstDiff (a b : List Seq.Tk) : Nat := ((a.zip b).takeWhile (fun (x, y) => x == y)).length

/-- the chunk of the constructor model the whole-song theorems are stated over (`MdsFile.construct`,
C09's model), for the cross-check against the real bytes -/
def viaConstruct (r : Req) : Option (List Nat) :=
  match MdsFile.construct r.song r.data (r.volume.map toString) with
  | .ok b => some b.seq
  | .error _ => none

/-- is this case an instance of the hypotheses of `C02_song_roundtrip_partial` /
`C03_song_wellformed_partial`: song in the fragment (with the drum routines the constructor registered
being routine tracks of the fragment, and every loop section ending in the drum-mode state it starts
in), the platform commands defined are ones the theorems cover and the timeline reads them as the
converter does (`Fragment.platAgreeB`), the constructor model accepts and its chunk (= the real bytes
`seq`) is shorter than 64 KiB -/
def provedInstance (r : Req) (seq : List Nat) : Bool :=
  match MdsFile.construct r.song r.data (r.volume.map toString) with
  | .ok b =>
    Fragment.inFragment r.song b.conv.subMap && Fragment.platAgreeB r.data.platform r.platformSpec && b.seq == seq &&
      decide (seq.length < 65536)
  | .error _ => false

/-- C02 oracle: every channel's bytes, interpreted by the MDSDRV sequence rules, give the tick
string of the expanded song track (loop-back followed once); songs outside the encodable domain
are skipped; a song the spec accepts must not be rejected. -/
def judgeC02 (arg impl : String) (same : Bool := true) : String :=
  match parseReq arg with
  | none => "skip"
  | some r =>
    if r.unmodelled then "skip" else
    let chans := r.song.tracks.filter (·.1 < 16)
    if !(chans.all fun (_, root) => Timeline.inDomain r.song root) then "skip" else
    -- a drum routine whose first note is inside a `[]` loop: refused by the converter (repo fix b6d6699),
    -- outside the encodable domain
    if !(chans.all fun (_, root) => Fragment.routineNotesOutsideLoops r.song root) then "skip" else
    -- time in front of a routine's note (a rest or tie in the routine or in a subroutine it calls): not
    -- described by `Timeline.ticksOf`, outside the oracle's domain (model and implementation are still compared)
    if !(chans.all fun (_, root) => Fragment.routineHeadsTimeless r.song root) then "skip" else
    -- expected tick strings
    let exps := chans.map fun (id, root) => (id, Timeline.expected r.song r.platformSpec root)
    if exps.any (fun (_, e) => match e with | .error _ => true | .ok _ => false) then
      if impl.startsWith "err:" then "ok" else "skip"   -- acceptance of invalid songs is C04's subject
    else if r.song.tracks.any (fun (_, t) => t.any fun e =>
        e.type = ev_PITCH_ENVELOPE && e.param != 0 && (r.data.pitchMap.lookup e.param).isNone) then
      -- a pitch envelope that is not defined is an input error where the writer meets it: outside the encodable domain
      if impl.startsWith "err:" then "ok" else "skip"
    else if r.data.platform.any (fun p => p.2.isNone) then
      -- a platform command whose text is malformed (empty, missing or out-of-range argument) is an input
      -- error when it is used: such a song is outside the encodable domain
      if impl == "err:platformBad" then "ok" else "skip"
    else if r.data.platform.any (fun p => match p.2 with
        | some evs => evs.any fun e => [mds_LP, mds_LPB, mds_LPBL, mds_LPF, mds_JUMP, mds_FINISH, mds_PAT, mds_SEGNO, mds_DMFINISH].contains e.type
        | none => false) then
      -- a raw `cmd` that injects a structural sequence command (loop, jump, call, end) bypasses the song
      -- structure the specification speaks about: outside the encodable domain (the converter refuses an
      -- unbalanced loop command since repository fix 3e0ed67)
      "skip"
    else if impl.startsWith "err:" ∨ impl.startsWith "exc:" then
      s!"fail valid encodable song rejected: {impl}"
    else
      match (field impl "seq=").bind bytesOfHexNat with
      | none => "fail no sequence"
      | some seq =>
        -- (`same` = the bytes are those of this very song, not of its optimised form)
        if same && (match viaConstruct r with | some s => s != seq | none => false) then
          "fail the constructor model MdsFile.construct assembles a different chunk" else
        match Seq.tracksOf seq with
        | none => "fail header unreadable"
        | some (base, ts) =>
          let res := exps.filterMap fun (id, e) =>
            match e, ts.lookup id with
            | .ok want, some start =>
              let (got, stop) := Seq.run seq base 1 (want.length + 64) 4000000 { pc := start }
              let got := got.map Timeline.maskTk
              if stop != .finished then some s!"track {id}: interpreter stopped with {repr stop} after {got.length} ticks"
              else if got != want then
                let k := firstDiff got want
                some s!"track {id}: tick {k}: bytes give {(got.drop k).take 6 |>.map showTk} expansion gives {(want.drop k).take 6 |>.map showTk}"
              else none
            | .ok _, none => some s!"track {id} missing from the track table"
            | _, _ => none
          match res with
          | [] => if provedInstance r seq then "ok proved-fragment" else "ok"
          | x :: _ => "fail " ++ x

/-- C03 oracle on the real bytes: every stream decodes instruction by instruction inside the
chunk with balanced loops, break offsets onto the instruction after the loop end, a terminator at
depth 0 and a loop-back target on a depth-0 boundary; interpreting every channel (loop-back
followed twice) ends without reading outside the chunk and passes at least one tick per round. -/
def judgeC03 (arg impl : String) : String :=
  match parseReq arg with
  | none => "skip"
  | some r =>
    if r.unmodelled then "skip" else
    if impl.startsWith "err:" then "ok" else   -- not accepted: outside the quantifier
    if impl.startsWith "exc:" then "fail non-input-error exception " ++ impl else
    let countsOk := r.song.tracks.all fun (_, t) => t.all fun e =>
      e.type ≠ ev_LOOP_END || (decide (1 ≤ e.param) && decide (e.param ≤ 255))
    if !countsOk then "skip" else
    -- a raw `cmd` that injects a structural sequence command writes the stream by hand: not a compiled song
    if r.data.platform.any (fun p => match p.2 with
        | some evs => evs.any fun e => [mds_LP, mds_LPB, mds_LPBL, mds_LPF, mds_JUMP, mds_FINISH, mds_PAT, mds_SEGNO, mds_DMFINISH].contains e.type
        | none => false) then "skip" else
    match (field impl "seq=").bind bytesOfHexNat with
    | none => "fail no sequence"
    | some seq =>
      let nSubs := match field impl "subs=" with
        | some "-" => 0
        | some s => (s.splitOn "|").length
        | none => 0
      match SeqWf.checkAll seq nSubs with
      | .error m => "fail " ++ m
      | .ok _ =>
        match Seq.tracksOf seq with
        | none => "fail header unreadable"
        | some (base, ts) =>
          let res := ts.filterMap fun (id, start) =>
            let (got, stop) := Seq.run seq base 2 300000 8000000 { pc := start }
            if stop == .tooManyTicks ∨ stop == .fuel then none
            else if stop != .finished then some s!"track {id}: interpreter stopped with {repr stop}"
            else match SeqWf.ticksBetweenLoops got with
              | some 0 => some s!"track {id}: the loop-back jump spans no note or rest time"
              | _ => none
          match res with
          | [] =>
            let chans := r.song.tracks.filter (·.1 < 16)
            let inDom := chans.all fun (_, root) => Timeline.inDomain r.song root
            let defined := chans.all fun (_, root) => match Timeline.expected r.song r.platformSpec root with | .ok _ => true | .error _ => false
            if inDom && defined && provedInstance r seq then "ok proved-fragment" else "ok"
          | x :: _ => "fail " ++ x

/-- split `<min_score> rest…` -/
def splitScore (arg : String) : Int × String :=
  match (arg.splitOn " ").filter (· ≠ "") with
  | [] => (10, "")
  | s :: rest => ((parseInt? s).getD 10, " ".intercalate rest)

def renderReq (r : Req) (song : Song) (orig : String) : String :=
  -- re-render the request with the optimised tracks in place of the original ones
  let others := (words orig).filter fun t => !(t.startsWith "T" && (t.drop 1).toString.front.isDigit)
  " ".intercalate (others ++ song.tracks.map fun (id, evs) => s!"T{id}:" ++ (if evs.isEmpty then "" else showEvents evs))

def validAll (s : Song) : Bool :=
  s.tracks.all fun (_, evs) => match Player.runValidator s evs 3000000 Player.initState with | .ok _ => true | .error _ => false

/-- `mmlc -O` then convert: the optimiser model followed by the converter model -/
def modelO (arg : String) : String :=
  let (ms, rest) := splitScore arg
  match parseReq rest with
  | none => "bad-request"
  | some r =>
    match Opt.optimize validAll ms 100000 r.song (Opt.initialSubId r.song) [] with
    | .error .missingTrack => "optexc:out_of_range"
    | .error (.missingDrum p) => s!"opterr:drum_mode_error:_track_*{p}_is_not_defined"
    | .error _ => "MODEL:opt"
    | .ok o =>
      if !o.validated then
        match o.song.tracks.findSome? (fun (_, evs) => match Player.runValidator o.song evs 3000000 Player.initState with | .error e => some e | .ok _ => none) with
        | some e => "opterr:" ++ playerMsg e
        | none => "MODEL:opt"
      else model (renderReq r o.song rest)

/-- is this optimised case an instance of `C02_optimised_song_roundtrip_nodrum_partial` /
`C03_optimised_song_wellformed_partial`: the original song meets C01's hypotheses and has no drum
mode (`Fragment.optOriginalB`), the optimiser model's run validates, its result is in the fragment
with every channel track in the domain, and the constructor model assembles from it exactly the real
bytes (`provedInstance` on the optimised song) -/
def provedInstanceO (ms : Int) (r : Req) (seq : List Nat) : Bool :=
  match Opt.optimize validAll ms 100000 r.song (Opt.initialSubId r.song) [] with
  | .ok o =>
    o.validated && Fragment.optOriginalB r.song (Opt.initialSubId r.song) o.passes.length &&
      ((o.song.tracks.filter (·.1 < 16)).all fun (_, root) => Timeline.inDomain o.song root) &&
      provedInstance { r with song := o.song } seq
  | .error _ => false

/-- C02 on optimised songs: the bytes of the optimised song must play the ORIGINAL song -/
def judgeO (useModel : Bool) (arg impl : String) : String :=
  let (ms, rest) := splitScore arg
  if impl.startsWith "opterr:" ∨ impl.startsWith "optexc:" then "skip"   -- C01's subject
  else
    let j := judgeC02 rest impl false
    if j == "ok" && useModel then
      match parseReq rest, (field impl "seq=").bind bytesOfHexNat with
      | some r, some seq => if provedInstanceO ms r seq then "ok proved-fragment (optimised)" else j
      | _, _ => j
    else j

/-- the optimised song as the model computes it (`none`: the optimiser model fails or the result does not validate) -/
def optimised (ms : Int) (r : Req) : Option Song :=
  match Opt.optimize validAll ms 100000 r.song (Opt.initialSubId r.song) [] with
  | .ok o => if o.validated then some o.song else none
  | .error _ => none

/-- C03 on optimised songs (`convwfo <min_score> …`): the compiled sequence of the OPTIMISED song is judged by the
well-formedness oracle; the song it is the compilation of is recomputed by the optimiser model (agreement of that
model with the real optimiser is C01's correspondence; here the real bytes are compared with `construct` of it
inside `provedInstance`).  `useModel := false` (`convwfox`, songs beyond the reach of the list-based optimiser
model): judged against the original request — loop counts stay in 0..255 by `C01_optimize_counts_le_255` — and
never marked as an instance. -/
def judgeWfO (useModel : Bool) (arg impl : String) : String :=
  let (ms, rest) := splitScore arg
  if impl.startsWith "opterr:" ∨ impl.startsWith "optexc:" then "ok"   -- not accepted: outside the quantifier
  else
    match parseReq rest with
    | none => "skip"
    | some r =>
      match (if useModel then optimised ms r else none) with
      | some song =>
        let j := judgeC03 (renderReq r song rest) impl
        if j == "ok proved-fragment" then
          -- an instance of `C03_optimised_song_wellformed_partial` needs C01's hypotheses on the original song as well
          match (field impl "seq=").bind bytesOfHexNat with
          | some seq => if provedInstanceO ms r seq then "ok proved-fragment (optimised)" else "ok"
          | none => "ok"
        else j
      | none =>
        let j := judgeC03 rest impl
        if j == "ok proved-fragment" then "ok" else j

def handlers : List Driver.Handler :=
  [{ cmd := "conv", model := model, judge := fun a i => judgeC02 a i },
   { cmd := "convo", model := modelO, judge := judgeO true },
   { cmd := "convox", model := fun _ => optModelDeclines, judge := judgeO false },
   { cmd := "convwf", model := model, judge := judgeC03 },
   { cmd := "convwfo", model := modelO, judge := judgeWfO true },
   { cmd := "convwfox", model := fun _ => optModelDeclines, judge := judgeWfO false }]
end Driver.ConvD
