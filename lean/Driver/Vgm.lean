/- C08 driver: streams `vgmw` (operation sequences on VGM_Writer) and `vgmsong`
   (whole-song export; the model answers `song skip`, the judge parses the real bytes).

   vgmw <version> <header_size> op*            (numbers decimal, fields separated by ',')
     w,cmd,port,reg,data | ds,sid,chip,port,reg,db | dp,sid,start,len,freq | dx,sid | L | S
     d,n | B,type,payload,maxsize,offset | p,bits,off,val | T,f1,…,f11 (hex | n*hex | -)
   answer: `len=<n> fnv=<hash> hex=<bytes, data-block payloads > 32 bytes as (len:hash)>`
           or `exc:<name>`;  an indeterminate cell is rendered as the fill byte `be`
           (the harness runs with malloc_fill_byte=0xbe). -/
import Driver.Common
import Ctrmml.Model.Vgm
import Ctrmml.Spec.VgmParse
namespace Driver.VgmD
open Ctrmml Ctrmml.Vgm Driver

def fillByte : UInt8 := 0xbe
def defaultDate : Bytes := "0000-00-00 00:00:00".toUTF8.toList
def defaultNotes : Bytes := "ctrmml (built ??? ?? ???? ??:??:??)".toUTF8.toList

def tagField (s : String) : Option Bytes :=
  if s == "-" then some []
  else match s.splitOn "*" with
    | [h] => bytesOfHex h
    | [n, h] => do
      let n ← n.toNat?
      let b ← bytesOfHex h
      pure (List.replicate n b).flatten
    | _ => none

structure Req where
  version : Nat
  header : Nat
  ops : List Op
  /-- the tag fields as given (before defaulting) -/
  rawTags : Option (List Bytes)

def parseOp (t : String) : Option (Op × Option (List Bytes)) :=
  match t.splitOn "," with
  | ["w", a, b, c, d] => do pure (.write (← a.toNat?) (← b.toNat?) (← c.toNat?) (← d.toNat?), none)
  | ["ds", a, b, c, d, e] => do pure (.dacSetup (← a.toNat?) (← b.toNat?) (← c.toNat?) (← d.toNat?) (← e.toNat?), none)
  | ["dp", a, b, c, d] => do pure (.dacStart (← a.toNat?) (← b.toNat?) (← c.toNat?) (← d.toNat?), none)
  | ["dx", a] => do pure (.dacStop (← a.toNat?), none)
  | ["L"] => some (.setLoop, none)
  | ["S"] => some (.stop, none)
  | ["d", n] => do pure (.delay (← n.toNat?), none)
  | ["B", t, p, m, o] => do pure (.datablock (← t.toNat?) (← payloadOf p) (← m.toNat?) 0 (← o.toNat?), none)
  | ["p", w, o, v] => do
    let w ← w.toNat?; let o ← o.toNat?; let v ← v.toNat?
    let bs := if w = 32 then le32 v else if w = 16 then le16 v else [byteOf v]
    pure (.poke o bs, none)
  | "T" :: fs =>
    if fs.length ≠ 11 then none else do
      let l ← fs.mapM tagField
      match l with
      | [a, b, c, d, e, f, g, h, i, j, k] =>
        let date := if (cstr i).isEmpty || i.isEmpty then defaultDate else i
        let notes := if k.isEmpty then defaultNotes else k
        pure (.writeTag { title := a, titleJ := b, game := c, gameJ := d, system := e, systemJ := f,
                          author := g, authorJ := h, date := date, creator := j, notes := notes }, some l)
      | _ => none
  | _ => none

def parseReq (arg : String) : Option Req :=
  match words arg with
  | v :: h :: toks => do
    let v ← v.toNat?
    let h ← h.toNat?
    let ps ← toks.mapM parseOp
    pure { version := v, header := h, ops := ps.map (·.1), rawTags := (ps.filterMap (·.2)).getLast? }
  | _ => none

def errName : Err → String
  | .heapOverflow => "UB:heap-overflow"
  | .indeterminate => "UB:indeterminate"
  | .rangeError => "exc:range_error"
  | .delayOverflow => "UB:delay-overflow"
  | .pokeOutside => "unmodelled:poke"

def cellHex (c : Cell) : List Char :=
  let x := (c.getD fillByte).toNat
  [hexDigit (x / 16), hexDigit (x % 16)]

/-- hex rendering with the listed (start, len) ranges elided as `(len:fnv)` -/
def renderElided (b : Bytes) (ranges : List (Nat × Nat)) : String :=
  let rec go (b : Bytes) (pos : Nat) (ranges : List (Nat × Nat)) (acc : List String) : List String :=
    match ranges with
    | [] => (hexOfBytes b :: acc).reverse
    | (st, len) :: rs =>
      let pre := b.take (st - pos)
      let rest := b.drop (st - pos)
      go (rest.drop len) (st + len) rs (s!"({lenfnv (rest.take len)})" :: hexOfBytes pre :: acc)
  String.join (go b 0 ranges [])

def elideMin : Nat := 32

/-- run the model step by step, recording where long data-block payloads ended up -/
def runRec (s : W) : List Op → List (Nat × Nat) → Except Err (W × List (Nat × Nat))
  | [], acc => .ok (s, acc.reverse)
  | o :: os, acc =>
    match step s o with
    | .error e => .error e
    | .ok s' =>
      let acc := match o with
        | .datablock _ p _ _ _ => if p.length > elideMin then (s'.pos - p.length, p.length) :: acc else acc
        | _ => acc
      runRec s' os acc

def model (arg : String) : String :=
  match parseReq arg with
  | none => "bad-request"
  | some r =>
    match ctor r.version r.header with
    | .error e => errName e
    | .ok s =>
      match runRec s r.ops [] with
      | .error e => errName e
      | .ok (s, ranges) =>
        -- get_buffer, keeping indeterminate cells visible as the fill byte
        let s' := if s.completed then (match poke32 s 0x04 (s.pos - 4) with | .ok x => x | .error _ => s) else s
        let b : Bytes := s'.mem.map (·.getD fillByte)
        s!"len={b.length} fnv={hex64 (fnv64 b)} hex={renderElided b ranges}"

/-! ### judge -/
open Ctrmml.VgmSpec

/-- rebuild the file bytes from an answer, taking elided payloads from the request -/
def rebuild (hex : String) (payloads : List Bytes) : Except String Bytes := do
  let parts := hex.splitOn "("
  match parts with
  | [] => throw "empty"
  | first :: rest =>
    let some b0 := bytesOfHexAux first.toList [] | throw "bad hex"
    let mut out := b0
    let mut pls := payloads
    for seg in rest do
      match seg.splitOn ")" with
      | [tag, h] =>
        match pls with
        | [] => throw "more elisions than data blocks"
        | p :: ps =>
          if lenfnv p != tag then throw s!"data block payload differs from the request ({tag} vs {lenfnv p})"
          let some hb := bytesOfHexAux h.toList [] | throw "bad hex"
          out := out ++ p ++ hb
          pls := ps
      | _ => throw "bad elision"
    pure out

def getField (impl key : String) : Option String :=
  (words impl).findSome? fun w => if w.startsWith (key ++ "=") then some (w.drop (key.length + 1)).toString else none

/-- what a client of the writer API expects one operation to put into the stream -/
def expectedCmds : Op → Option (List Cmd)
  | .write c p r d =>
    if c = 0x50 ∨ c = 0x30 then some [.chip (byteOf c) [byteOf d]]
    else if 0x51 ≤ c ∧ c ≤ 0x5f then some [.chip (byteOf (c + p)) [byteOf r, byteOf d]]
    else if c = 0xe1 then some [.chip 0xe1 [byteOf (r / 256), byteOf r, byteOf (d / 256), byteOf d]]
    else if 0xc0 ≤ c ∧ c ≤ 0xdf then some [.chip (byteOf c) [byteOf p, byteOf r, byteOf d]]
    else none
  | .dacSetup sid chip port reg db =>
    some [.dacSetup (byteOf sid) (byteOf chip) (byteOf port) (byteOf reg), .dacData (byteOf sid) (byteOf db) 1 0]
  | .dacStart sid st len fr => some [.dacFreq (byteOf sid) (fr % 4294967296), .dacStart (byteOf sid) (st % 4294967296) 1 (len % 4294967296)]
  | .dacStop sid => some [.dacStop (byteOf sid)]
  | .datablock t p m _ o =>
    if 0x80 ≤ t ∧ t < 0xc0 then some [.dataBlock (byteOf t) (le32 m ++ le32 o ++ p)]
    else some [.dataBlock (byteOf t) p]
  | _ => some []

/-- (samples waited before it, command) for every non-wait command, and the trailing wait -/
def segments (cs : List Cmd) : List (Nat × Cmd) × Nat :=
  let r := cs.foldl (fun (acc : List (Nat × Cmd) × Nat) c =>
    match c with
    | .wait n => (acc.1, acc.2 + n)
    | c => ((acc.2, c) :: acc.1, 0)) ([], 0)
  (r.1.reverse, r.2)

structure Expect where
  segs : List (Nat × Cmd)
  trailing : Nat
  total : Nat
  /-- (number of non-wait commands before the loop point, samples before it) -/
  loop : Option (Nat × Nat)
  stopped : Bool
  tagged : Bool
  supported : Bool

def expectOf (ops : List Op) : Expect := Id.run do
  let mut segs : List (Nat × Cmd) := []
  let mut pend := 0
  let mut total := 0
  let mut loop : Option (Nat × Nat) := none
  let mut stopped := false
  let mut tagged := false
  let mut ok := true
  for o in ops do
    if tagged then ok := false
    match o with
    | .delay n =>
      pend := pend + n
      if stopped then ok := false
    | .setLoop =>
      loop := some (segs.length, total + pend)
      if stopped then ok := false
    | .stop =>
      total := total + pend
      if stopped then ok := false
      stopped := true
    | .writeTag _ =>
      tagged := true
      if !stopped then ok := false
    | .poke _ _ => pure ()
    | o =>
      if stopped then ok := false
      match expectedCmds o with
      | none => ok := false
      | some cs =>
        for c in cs do
          segs := (pend, c) :: segs
          total := total + pend
          pend := 0
  let trailing := if stopped then pend else 0
  return { segs := segs.reverse, trailing := trailing, total := total, loop := loop, stopped := stopped,
           tagged := tagged, supported := ok }

def tagsOk (strs : List (List Nat)) (raw : List Bytes) : Option String :=
  if strs.length ≠ 11 then some s!"GD3 holds {strs.length} strings, not 11"
  else
    let want := raw.zipIdx.map fun (b, i) =>
      let b := Vgm.cstr b
      if i = 8 ∧ b.isEmpty then defaultDate else if i = 10 ∧ b.isEmpty then defaultNotes else b
    match (strs.zip want).zipIdx.find? (fun ((s, w), _) => !rendersTag 256 s w) with
    | some (_, i) => some s!"GD3 string {i} does not render the tag"
    | none => none

def judgeBytes (f : Bytes) (e : Expect) (raw : Option (List Bytes)) : String :=
  match analyse f with
  | .error why => s!"fail {why}"
  | .ok info =>
    let (segs, trailing) := segments (info.cmds.map (·.2))
    if segs != e.segs then
      s!"fail command stream differs from the operations (got {segs.length} commands, want {e.segs.length})"
    else if trailing != e.trailing then s!"fail trailing wait {trailing} != {e.trailing}"
    else if info.total != e.total then s!"fail total {info.total} != {e.total}"
    else
      let loopBad : Option String :=
        match e.loop, info.loopIdx with
        | none, none => none
        | some _, none => some "loop point lost"
        | none, some _ => some "loop offset without set_loop"
        | some (ncmd, before), some k =>
          let pre := info.cmds.take k
          let nc := (pre.filter fun p => match p.2 with | .wait _ => false | _ => true).length
          if nc != ncmd then some s!"loop point after {nc} commands, want {ncmd}"
          else if waits pre != before then some s!"loop point at sample {waits pre}, want {before}"
          else none
      match loopBad with
      | some w => s!"fail {w}"
      | none =>
        if e.tagged then
          match raw with
          | some raw => match tagsOk info.strs raw with
            | some w => s!"fail {w}"
            | none => "ok"
          | none => "ok"
        else "ok"

def judge (arg impl : String) : String :=
  match parseReq arg with
  | none => "skip"
  | some r =>
    let e := expectOf r.ops
    if !e.supported ∨ !e.stopped then
      -- outside the exporter's protocol (no stop, operations after stop/write_tag, a command
      -- class write() has no encoding for): only undefined behaviour is judged
      if (impl.splitOn "UB:").length > 1 then "fail undefined behaviour" else "skip"
    else
      let tagsValid := match r.rawTags with
        | some l => l.all fun b => validUtf8 (Vgm.cstr b)
        | none => true
      if impl.startsWith "exc:range_error" then (if tagsValid then "fail range_error on valid UTF-8 tags" else "ok")
      else
        match getField impl "hex", getField impl "len", getField impl "fnv" with
        | some hex, some len, some fnv =>
          let payloads := r.ops.filterMap fun o => match o with
            | .datablock _ p _ _ _ => if p.length > elideMin then some p else none
            | _ => none
          match rebuild hex payloads with
          | .error w => s!"fail {w}"
          | .ok f =>
            if s!"{f.length}" != len ∨ hex64 (fnv64 f) != fnv then "fail answer length/hash inconsistent"
            else if !tagsValid then "skip"
            else judgeBytes f e r.rawTags
        | _, _, _ => s!"fail no file produced"

/-! ### vgmsong: `vgmsong <flags> T,<11 tag fields> <mml hex>`; flags: `L` loop expected / `N` none / `?` -/

def songJudgeP (flag tags : String) (pcm : Option (List Bytes)) (impl : String) : String :=
    -- get_tags (song.cpp): the creator string is #programmer, or else the author
    let raw := match parseOp tags with
      | some (_, some l) =>
        some (l.zipIdx.map fun (b, i) => if i = 9 ∧ b.isEmpty then l.getD 6 [] else b)
      | _ => none
    let rawValid := match raw with
      | some l => l.all fun b => validUtf8 (Vgm.cstr b)
      | none => true
    if impl.startsWith "song exc:" then
      -- a tag that is not valid UTF-8 is an input error raised in `Platform::vgm_export`
      if !rawValid then (if impl == "song exc:InputError" then "ok" else "fail range_error escaped from the export: " ++ impl)
      else "skip"
    else if !rawValid then "skip"
    else
      match getField impl "hex", getField impl "len", getField impl "fnv" with
      | some hex, some len, some fnv =>
        match rebuild hex [] with
        | .error w => s!"fail {w}"
        | .ok f =>
          if s!"{f.length}" != len ∨ hex64 (fnv64 f) != fnv then "fail answer length/hash inconsistent"
          else match analyse f with
          | .error why => s!"fail {why}"
          | .ok info =>
            if flag == "L" ∧ info.loopIdx.isNone then "fail loop point lost"
            else if flag == "N" ∧ info.loopIdx.isSome then "fail loop offset in a song without loop point"
            else if flag == "L" ∧ field32 f 0x20 = 0 ∧ info.total ≠ 0 ∧ info.loopIdx == some 0 then "fail loop length lost"
            else match raw with
              | some raw =>
                match tagsOk info.strs raw with
                | some w => s!"fail {w}"
                | none =>
                  match pcm with
                  | none => "ok"
                  | some samples =>
                    let ws := streamWindows info.cmds
                    if ws.isEmpty then "fail no stream start for a song with PCM notes"
                    else match ws.find? (fun w => !samples.contains w) with
                      | some w => s!"fail stream start addresses {w.length} bytes that are not an instrument's sample"
                      | none => "ok"
              | none => "ok"
      | _, _, _ => "fail no file produced"

/-- `vgmsong <flag> T,… <mml hex> [P,<sample hex>,…]` -/
def songJudge (arg impl : String) : String :=
  match words arg with
  | [flag, tags, _mml] => songJudgeP flag tags none impl
  | [flag, tags, _mml, p] =>
    match (p.splitOn ",").drop 1 |>.mapM bytesOfHex with
    | some l => songJudgeP flag tags (some l) impl
    | none => "skip"
  | _ => "skip"

def handlers : List Driver.Handler :=
  [{ cmd := "vgmw", model := model, judge := judge },
   { cmd := "vgmsong", model := fun _ => "song skip", judge := songJudge }]

end Driver.VgmD
