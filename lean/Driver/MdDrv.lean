/- C07 driver: stream `vgm.bytes` — whole-song VGM export of IR songs.

   mdvgm tok*     tok = T<id>:<type>.<param>.<on>.<off>,...   track <id>
                        @<id>=<w>,<w>,...                     tag "@<id>" with these words
                        W<name>=<hex>                         a file `<name>` with these bytes (PCM
                                                              instruments: `@<id>=pcm,<name>[,rate=n][,offset=n]`)
                        #<key>=<hex|->                        song tag `#<key>` (GD3 text; C08)
   answer: `vgm len=<n> fnv=<hash> hex=<bytes>` | `exc:<class>` | `unsupported`
   The export runs with `#vgmdate 2000-01-01` and `#comment c07` unless the request sets them. -/
import Driver.Common
import Driver.Song
import Ctrmml.Model.MdDriver
import Ctrmml.Model.MdsData
import Ctrmml.Model.Wave
import Ctrmml.Model.Tags
import Ctrmml.Spec.Schedule
namespace Driver.MdDrvD
open Ctrmml Ctrmml.MdDriver Driver

abbrev TagList := List (String × List String)

/-- `@<id>=w,w,...` tokens in request order (= `tag_order`); a repeated key appends -/
def parseTags (toks : List String) : Option TagList :=
  toks.foldlM (fun (acc : TagList) t =>
    if t.startsWith "@" then
      match t.splitOn "=" with
      | key :: v0 :: vs =>
        let v := "=".intercalate (v0 :: vs)
        let ws := v.splitOn ","
        if acc.any (·.1 == key) then some (acc.map fun kv => if kv.1 == key then (kv.1, kv.2 ++ ws) else kv)
        else some (acc ++ [(key, ws)])
      | _ => none
    else none) []

def dataOf (st : MdsData.State) : Data :=
  { ins := st.tyMap.map fun (id, ty) =>
      (id, { type := ty.toNat,
             data := st.bank.getD ((MdsData.mget st.envMap id).getD 0).toNat [],
             transpose := (MdsData.mget st.trMap id).getD 0 }) }

def sortTracks (l : List (Nat × List Event)) : List (Nat × List Event) :=
  (l.toArray.qsort (fun a b => a.1 < b.1)).toList

def fixedTags : Vgm.Tags :=
  { title := [], titleJ := [], game := [], gameJ := [], system := [], systemJ := [], author := [], authorJ := [],
    date := "2000-01-01".toUTF8.toList, creator := [], notes := "c07".toUTF8.toList }

structure Req where
  song : Song
  tags : TagList
  /-- `W<name>=<hex>` -/
  files : List (String × Bytes) := []
  /-- `#<key>=<hex>` -/
  songTags : TagMap := []
  /-- `X<hex>`: byte strings a stream start may address (the instruments' samples; C08 judge) -/
  expect : List Bytes := []

def parseReq (arg : String) : Option Req := do
  let (song, rest) ← parseSong (words arg)
  let ws := rest.filter (·.startsWith "W")
  let hs := rest.filter (·.startsWith "#")
  let xs := rest.filter (·.startsWith "X")
  let expect ← xs.mapM fun t => bytesOfHex (t.drop 1).toString
  let tags ← parseTags (rest.filter fun t => !(t.startsWith "W") && !(t.startsWith "#") && !(t.startsWith "X"))
  let files ← ws.mapM fun t => match (t.drop 1).toString.splitOn "=" with
    | [n, h] => do pure (n, ← bytesOfHex h)
    | _ => none
  let st ← hs.mapM fun t => match t.splitOn "=" with
    | [k, h] => do pure (k, [Tags.rtrim (← bytesOfHex h)])   -- `Song::set_tag` deletes trailing spaces
    | _ => none
  pure { song := { tracks := sortTracks song.tracks }, tags := tags, files := files, songTags := st, expect := expect }

def isPcmTag (kv : String × List String) : Bool :=
  match kv.2 with
  | ty :: _ => ty.toLower == "pcm" && ((kv.1.drop 1).toString.toNat?).isSome
  | [] => false

/-- `add_ins_pcm` for every `@<id> pcm …` tag in tag order, on the fresh `wave_rom` -/
def buildBank (files : List (String × Bytes)) (tags : TagList) :
    Except Wave.Err (Wave.Bank × List (Nat × Nat) × List (Nat × Ins)) :=
  tags.foldlM (fun (acc : Wave.Bank × List (Nat × Nat) × List (Nat × Ins)) kv =>
    if isPcmTag kv then
      let id := ((kv.1.drop 1).toString.toNat?).getD 0 % 65536
      let args := kv.2.drop 1
      match Wave.addSampleTag acc.1 (match args with | n :: _ => files.lookup n | [] => none) args with
      | .error e => .error e
      | .ok (b, idx) =>
        let hdr := ((b.samples[idx]?).map (·.toBytes)).getD []
        .ok (b, (id, idx) :: acc.2.1.filter (·.1 ≠ id),
             (id, { type := Tables.mdsdrv_INS_PCM, data := hdr.map (·.toNat), transpose := 0 }) :: acc.2.2.filter (·.1 ≠ id))
    else .ok acc) (Wave.Bank.new Tables.mds_dataWaveRom 0, [], [])

/-- the tags the export writes: the request's `#…` tags over the two fixed ones -/
def reqTags (r : Req) : Vgm.Tags :=
  let m : TagMap := r.songTags ++ [("#vgmdate", ["2000-01-01".toUTF8.toList]), ("#comment", ["c07".toUTF8.toList])]
  finalTags m { clock := "0000-00-00 00:00:00".toUTF8.toList, build := "ctrmml (built ??? ?? ???? ??:??:??)".toUTF8.toList }

def errName : DErr → String
  | .input => "exc:InputError"
  | .oob => "exc:out_of_range"
  | .unsupported => "unsupported"
  | .nonInteger => "UB:non-integer-delta"
  | .tooLong => "unsupported:too-long"
  | .vgm _ => "UB:vgm-writer"

def model (arg : String) : String :=
  match parseReq arg with
  | none => "bad-request"
  | some r =>
    let (st, e) := MdsData.readSong MdsData.Arith.float false (r.tags.filter (!isPcmTag ·))
    match e with
    | some (.input _) => "exc:InputError"
    | some .unsupported => "unsupported"
    | none =>
      match buildBank r.files r.tags with
      | .error .oob | .error .hang | .error .divZero => "UB:wave"
      | .error _ => "exc:InputError"
      | .ok (bank, wm, pins) =>
        let d0 := dataOf st
        let d : Data := { d0 with ins := pins ++ d0.ins, bank := bank, waveMap := wm }
        match exportVgm d r.song (reqTags r) with
        | .error e => errName e
        | .ok b => s!"vgm len={b.length} fnv={hex64 (fnv64 b)} hex={hexOfBytes b}"

/-! ### the spec oracle on the implementation's answer -/
open Ctrmml.Schedule in
def insTabOf (tags : TagList) : InsTab :=
  tags.filterMap fun (key, ws) =>
    match (key.drop 1).toString.toNat? with
    | none => none
    | some id =>
      match ws with
      | "fm" :: rest => some ((id : Int), fmOfTag (rest.map fun w => (parseInt? w).getD 0))
      | "psg" :: first :: _ =>
        let ds := first.toList.takeWhile Char.isDigit
        if ds.isEmpty ∨ first.contains '>' then some ((id : Int), .other)   -- a slide's first frame is C11's subject
        else some ((id : Int), .psg (min 15 ((String.ofList ds).toNat?.getD 0)))
      | _ => some ((id : Int), .other)

def getField (impl key : String) : Option String :=
  (words impl).findSome? fun w => if w.startsWith (key ++ "=") then some (w.drop (key.length + 1)).toString else none

/-- the song stays inside the plain subset and every channel track is structurally valid -/
def plainValid (song : Song) : Bool :=
  (song.tracks.all fun (_, t) => t.all fun e =>
    e.type ≠ Tables.ev_PLATFORM ∧ e.type ≠ Tables.ev_PAN ∧ e.type ≠ Tables.ev_PORTAMENTO ∧ e.type ≠ Tables.ev_PITCH_ENVELOPE
      ∧ e.type ≠ Tables.ev_PAN_ENVELOPE ∧ e.type ≠ Tables.ev_DRUM_MODE) &&
  ((song.tracks.filter (·.1 < 16)).all fun (_, r) => match Expand.perf song r with | .ok _ => true | .error _ => false)

/-- a loop point below the top level of a channel track (known finding `segno-in-loop`) or in a
subroutine track (known finding `segno-in-sub`): the player's `loop_position` is an index without
a track or a stack, so the second pass resumes somewhere else than the schedule says -/
def segnoLabel (song : Song) : String :=
  if song.tracks.any (fun (id, t) => id ≥ 16 && t.any fun e => e.kind = .segno) then "segno-in-sub "
  else if song.tracks.any (fun (id, t) => id < 16 && !Schedule.segnoAtDepth0 0 t) then "segno-in-loop "
  else ""

def judge (arg impl : String) : String :=
  match parseReq arg with
  | none => "skip"
  | some r =>
    let tagsValid := (reqTags r).toList.all fun b => VgmSpec.validUtf8 (Vgm.cstr b)
    if impl.startsWith "exc:" ∧ !tagsValid then
      -- a song tag that is not valid UTF-8 is an input error of the VGM export (C08)
      if impl == "exc:InputError" then "ok" else "fail invalid UTF-8 tag not reported as InputError: " ++ impl
    else if impl.startsWith "exc:" then
      if plainValid r.song ∧ r.tags.all (fun kv => match kv.2 with | "fm" :: rest => rest.length ≥ 42 | "psg" :: _ :: _ => true | _ => false)
      then "fail " ++ segnoLabel r.song ++ "export-failed a valid plain-subset song does not export: " ++ impl else "skip"
    else
      match getField impl "hex" with
      | none => "fail no-file"
      | some hex =>
        match bytesOfHex hex with
        | none => "fail no-file"
        | some f =>
          match VgmSpec.analyse f with
          | .error why => s!"fail vgm-malformed {why}"
          | .ok info =>
            match Schedule.judgeLog r.song (insTabOf r.tags) info with
            | .error "invalid" => "skip"
            | .error why => s!"fail {segnoLabel r.song}{why}"
            | .ok v =>
              match v.fail with
              | some w => s!"fail {segnoLabel r.song}{w}"
              | none => s!"ok notes={v.notes} extent={v.extent}"

/-! ### C08 judge on the same request: the file is well formed (`VgmSpec.analyse`), its eleven
GD3 strings render the song's tags, every stream start addresses one of the expected samples -/
def judge8 (arg impl : String) : String :=
  match parseReq arg with
  | none => "skip"
  | some r =>
    let tags := (reqTags r).toList
    let tagsValid := tags.all fun b => VgmSpec.validUtf8 (Vgm.cstr b)
    if impl.startsWith "exc:" then
      if !tagsValid then (if impl == "exc:InputError" then "ok" else "fail range_error escaped: " ++ impl)
      else "skip"
    else if impl.startsWith "crash" ∨ impl == "timeout" then "fail " ++ impl
    else
      match getField impl "hex" with
      | none => "fail no file produced"
      | some hex =>
        match bytesOfHex hex with
        | none => "fail no file produced"
        | some f =>
          -- a tag the lenient decoder lets through (incomplete last sequence, 3-byte surrogates) is
          -- outside the statement, as in the writer-level judge
          if !tagsValid then "skip" else
          match VgmSpec.analyse f with
          | .error why => s!"fail {why}"
          | .ok info =>
            if info.strs.length ≠ 11 then s!"fail GD3 holds {info.strs.length} strings, not 11"
            else match (info.strs.zip tags).zipIdx.find? (fun ((u, t), _) => !VgmSpec.rendersTag 256 u (Vgm.cstr t)) with
              | some (_, i) => s!"fail GD3 string {i} does not render the tag"
              | none =>
                let ws := VgmSpec.streamWindows info.cmds
                if r.expect.isEmpty then "ok"
                else if ws.isEmpty then "fail no stream start for a song with PCM notes"
                else match ws.find? (fun w => !r.expect.contains w) with
                  | some w => s!"fail stream start addresses {w.length} bytes that are not an instrument's sample"
                  | none => "ok"

def handlers : List Driver.Handler :=
  [{ cmd := "mdvgm", model := model, judge := judge },
   { cmd := "c08song", model := model, judge := judge8 }]

end Driver.MdDrvD
