/- C07 driver: stream `vgm.bytes` — whole-song VGM export of IR songs.

   mdvgm tok*     tok = T<id>:<type>.<param>.<on>.<off>,...   track <id>
                        @<id>=<w>,<w>,...                     tag "@<id>" with these words
   answer: `vgm len=<n> fnv=<hash> hex=<bytes>` | `exc:<class>` | `unsupported`
   The export runs with `#vgmdate 2000-01-01` and `#comment c07`. -/
import Driver.Common
import Driver.Song
import Ctrmml.Model.MdDriver
import Ctrmml.Model.MdsData
import Ctrmml.Spec.Schedule
namespace Driver.MdDrvD
open Ctrmml Ctrmml.MdDriver Driver

abbrev TagList := List (String × List String)

/-- `@<id>=w,w,...` tokens in request order (= `tag_order`); a repeated key appends -/
def parseTags (toks : List String) : Option TagList :=
  toks.foldlM (fun (acc : TagList) t =>
    if t.startsWith "@" then
      match t.splitOn "=" with
      | [key, v] =>
        let ws := v.splitOn ","
        if acc.any (·.1 == key) then some (acc.map fun kv => if kv.1 == key then (kv.1, kv.2 ++ ws) else kv)
        else some (acc ++ [(key, ws)])
      | _ => none
    else none) []

def dataOf (st : MdsData.State) : Data :=
  { ins := st.tyMap.map fun (id, ty) =>
      (id, { type := ty.toNat,
             data := st.bank.getD ((MdsData.mget st.envMap id).getD 0).toNat [],
             transpose := (MdsData.mget st.trMap id).getD 0 }) }

def sortTracks (l : List (Nat × List Event)) : List (Nat × List Event) :=
  (l.toArray.qsort (fun a b => a.1 < b.1)).toList

def fixedTags : Vgm.Tags :=
  { title := [], titleJ := [], game := [], gameJ := [], system := [], systemJ := [], author := [], authorJ := [],
    date := "2000-01-01".toUTF8.toList, creator := [], notes := "c07".toUTF8.toList }

structure Req where
  song : Song
  tags : TagList

def parseReq (arg : String) : Option Req := do
  let (song, rest) ← parseSong (words arg)
  let tags ← parseTags rest
  pure { song := { tracks := sortTracks song.tracks }, tags := tags }

def errName : DErr → String
  | .input => "exc:InputError"
  | .oob => "exc:out_of_range"
  | .unsupported => "unsupported"
  | .nonInteger => "UB:non-integer-delta"
  | .tooLong => "unsupported:too-long"
  | .vgm _ => "UB:vgm-writer"

def model (arg : String) : String :=
  match parseReq arg with
  | none => "bad-request"
  | some r =>
    let (st, e) := MdsData.readSong MdsData.Arith.float false r.tags
    match e with
    | some (.input _) => "exc:InputError"
    | some .unsupported => "unsupported"
    | none =>
      match exportVgm (dataOf st) r.song fixedTags with
      | .error e => errName e
      | .ok b => s!"vgm len={b.length} fnv={hex64 (fnv64 b)} hex={hexOfBytes b}"

/-! ### the spec oracle on the implementation's answer -/
open Ctrmml.Schedule in
def insTabOf (tags : TagList) : InsTab :=
  tags.filterMap fun (key, ws) =>
    match (key.drop 1).toString.toNat? with
    | none => none
    | some id =>
      match ws with
      | "fm" :: rest => some ((id : Int), fmOfTag (rest.map fun w => (parseInt? w).getD 0))
      | "psg" :: first :: _ =>
        let ds := first.toList.takeWhile Char.isDigit
        if ds.isEmpty ∨ first.contains '>' then some ((id : Int), .other)   -- a slide's first frame is C11's subject
        else some ((id : Int), .psg (min 15 ((String.ofList ds).toNat?.getD 0)))
      | _ => some ((id : Int), .other)

def getField (impl key : String) : Option String :=
  (words impl).findSome? fun w => if w.startsWith (key ++ "=") then some (w.drop (key.length + 1)).toString else none

/-- the song stays inside the plain subset and every channel track is structurally valid -/
def plainValid (song : Song) : Bool :=
  (song.tracks.all fun (_, t) => t.all fun e =>
    e.type ≠ Tables.ev_PLATFORM ∧ e.type ≠ Tables.ev_PAN ∧ e.type ≠ Tables.ev_PORTAMENTO ∧ e.type ≠ Tables.ev_PITCH_ENVELOPE
      ∧ e.type ≠ Tables.ev_PAN_ENVELOPE ∧ e.type ≠ Tables.ev_DRUM_MODE) &&
  ((song.tracks.filter (·.1 < 16)).all fun (_, r) => match Expand.perf song r with | .ok _ => true | .error _ => false)

def judge (arg impl : String) : String :=
  match parseReq arg with
  | none => "skip"
  | some r =>
    if impl.startsWith "exc:" then
      if plainValid r.song ∧ r.tags.all (fun kv => match kv.2 with | "fm" :: rest => rest.length ≥ 42 | "psg" :: _ :: _ => true | _ => false)
      then "fail export-failed a valid plain-subset song does not export: " ++ impl else "skip"
    else
      match getField impl "hex" with
      | none => "fail no-file"
      | some hex =>
        match bytesOfHex hex with
        | none => "fail no-file"
        | some f =>
          match VgmSpec.analyse f with
          | .error why => s!"fail vgm-malformed {why}"
          | .ok info =>
            match Schedule.judgeLog r.song (insTabOf r.tags) info with
            | .error "invalid" => "skip"
            | .error why => s!"fail {why}"
            | .ok v =>
              match v.fail with
              | some w => s!"fail {w}"
              | none => s!"ok notes={v.notes} extent={v.extent}"

def handlers : List Driver.Handler :=
  [{ cmd := "mdvgm", model := model, judge := judge }]

end Driver.MdDrvD
