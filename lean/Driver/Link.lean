import Driver.Common
import Ctrmml.Model.Linker
import Ctrmml.Spec.Link
namespace Driver.LinkD
open Ctrmml Ctrmml.Linker Driver

def errName : Err → String
  | .notMds => "err:notmds"
  | .malformed => "err:malformed"
  | .version => "err:version"
  | .noFit => "err:nofit"
  | .tooBig => "err:toobig"
  | .outOfRange => "exc:out_of_range"
  | .invalidArgument => "exc:invalid_argument"
  | .oob => "UB:oob"
  | .hang => "UB:hang"
  | .divZero => "UB:divzero"

inductive POp
  | add (name file : Bytes)
  | query

def parseOp (s : String) : Option POp :=
  if s == "Q" then some .query
  else match s.splitOn ":" with
    | ["A", n, f] => do
      let n ← bytesOfHex n
      let f ← bytesOfHex f
      pure (.add n f)
    | _ => none

def parseOps (arg : String) : Option (List POp) := (words arg).mapM parseOp

def seqRecord (l : Linker) : String :=
  match getSeqData l with
  | .ok b => "q" ++ lenfnv b
  | .error e => "q" ++ errName e

/-- runs the ops like harness/h_link.cpp: (records, final linker or none when aborted) -/
def runRecords : List POp → Linker → List String → List String × Option Linker
  | [], l, acc => (acc.reverse, some l)
  | .query :: rest, l, acc => runRecords rest l (seqRecord l :: acc)
  | .add name file :: rest, l, acc =>
    match Riff.ofBytes file with
    | .error e => ((errName (ofRiffErr e) :: acc).reverse, none)
    | .ok mds =>
      match addSong l mds name with
      | .error e => ((errName e :: acc).reverse, none)
      | .ok l' => runRecords rest l' ("ok" :: acc)

def optHex (o : Option Bytes) : String :=
  match o with
  | some b => hexOrDash b
  | none => "UB:hang"

def model (arg : String) : String :=
  match parseOps arg with
  | none => "bad-request"
  | some ops =>
    let (recs, fin) := runRecords ops Linker.new []
    let head := "ops=" ++ (if recs.isEmpty then "-" else ",".intercalate recs)
    match fin with
    | none => head ++ " end=aborted"
    | some l =>
      let seq := match getSeqData l with
        | .ok b => hexOrDash b
        | .error e => errName e
      s!"{head} seq={seq} again=same pcm={hexOrDash (getPcmData l)} asm={optHex (asmHeader l)} c={optHex (cHeader l)} stats={hexOrDash (statistics l)} count={l.seqCount}"

def field (impl key : String) : Option String :=
  (words impl).findSome? fun w => if w.startsWith (key ++ "=") then some (w.drop (key.length + 1)).toString else none

/-- spec verdict on the implementation's answer -/
def judge (arg impl : String) : String :=
  match parseOps arg with
  | none => "skip"
  | some ops =>
    let files := ops.filterMap fun o => match o with | .add _ f => some f | .query => none
    match LinkSpec.allSome (files.map LinkSpec.parseMds) with
    | none => "skip"     -- not every input is a well-formed MDS file: the property says nothing
    | some songs =>
      let total := (files.map (·.length)).sum
      match field impl "seq", field impl "pcm", field impl "asm", field impl "c" with
      | some seq, some pcm, some asm, some c =>
        match bytesOfHex seq, bytesOfHex pcm, bytesOfHex asm, bytesOfHex c with
        | some seq, some pcm, some asm, some c =>
          if field impl "again" ≠ some "same" then "fail query: get_seq_data answered differently the second time" else
          if field impl "count" ≠ some (toString songs.length) then "fail count: get_seq_count" else
          match LinkSpec.resolveBank songs seq pcm with
          | .error e => s!"fail bank: {e}"
          | .ok () =>
            match LinkSpec.resolveHeaders songs asm c with
            | .error e => s!"fail headers: {e}"
            | .ok () => "ok"
        | _, _, _, _ => if total < 20000 then "fail rejected: well-formed input, no linked bank" else "skip"
      | _, _, _, _ => if total < 20000 then "fail rejected: well-formed input, no linked bank" else "skip"

end Driver.LinkD

namespace Driver.LinkD
def handlers : List Driver.Handler := [{ cmd := "link", model := model, judge := judge }]
end Driver.LinkD
