/- Driver for the `cli.run` stream (C19).

   cliplan <tool> <args>
       → what the model's `main` asks of the library for this argument vector:
         `plan none` | `plan <hexpath> <0|1>` (mmlc) | `plan <flags> <hexpath>:<m|s>:<hexname>,…` (mdslink)
   cli <tool> <args> <items|-> <unwritable|-> <fs> <plan> <lib>
       model → `exit=<n> err=<0|1> files=<hexname>=<len>:<fnv>,…|-`  or  `crash <kind>`
       judge → the spec verdict (Spec/Cli.lean) on the observed run of the real executable

   <args>  = `x` (none) or comma-separated hex strings (`_` = empty string), argv[0] excluded
   <items> = the well-formed command the generator rendered <args> from (spec-level), or `-`
   <plan>, <lib> = the plan answer / the in-process library answers (harness `clilib`), spaces
   replaced by `+`. -/
import Driver.Common
import Ctrmml.Spec.Cli
namespace Driver.CliD
open Ctrmml Ctrmml.Cli Driver

def strOfHex (h : String) : Option Str :=
  if h == "_" then some [] else do
    let b ← bytesOfHex h
    let s ← String.fromUTF8? (ByteArray.mk b.toArray)
    pure s.toList

def hexOfStr (s : Str) : String :=
  if s.isEmpty then "_" else hexOfBytes (String.ofList s).toUTF8.toList

def parseArgs (a : String) : Option (List Str) :=
  if a == "x" then some [] else (a.splitOn ",").mapM strOfHex

def parseBlob (s : String) : Option Blob :=
  match s.splitOn ":" with
  | [l, _] => l.toNat?.map fun n => { size := n, tag := s }
  | _ => none

/-- `crashOk`: how an entry `crash` (the library aborted while computing it) is read — once as a
failure and once as a success; if the two readings give different outcomes the entry was
consulted, i.e. the run dies inside the library (see `consultsCrash`) -/
def parseRes (crashOk : Bool) (s : String) : Except LibErr Blob :=
  if s == "crash" then (if crashOk then .ok { size := 1, tag := "CRASH" } else .error .other)
  else if s == "err" then .error .input
  else match parseBlob s with
    | some b => .ok b
    | none => .error .other     -- `exc`, `-` (not computed) and anything else

def parseUnit (crashOk : Bool) (s : String) : Except LibErr Unit :=
  if s == "crash" then (if crashOk then .ok () else .error .other)
  else if s == "ok" then .ok () else if s == "err" then .error .input else .error .other

def field (key : String) (toks : List String) : String :=
  match toks.find? (·.startsWith (key ++ "=")) with
  | some t => (t.drop (key.length + 1)).toString
  | none => ""

/-- mmlc oracle from `<plan>`/`<lib>`: answers only for the planned path and optimise flag -/
def mmlcLibOf (plan lib : String) (crashOk : Bool := false) : MmlcLib :=
  let pt := plan.splitOn "+"
  let lt := lib.splitOn "+"
  let path := pt.getD 1 ""
  let opt := pt.getD 2 "" == "1"
  let isPath (p : Str) : Bool := pt.getD 0 "" == "plan" && hexOfStr p == path
  { convert := fun p =>
      if !isPath p then .error .other
      else match lt.head? with
        | some "ok" => match ((field "fmts" lt).splitOn ",").mapM strOfHex with
          | some fs => .ok fs
          | none => .error .other
        | some "err" => .error .input
        | _ => .error .other
    optimize := fun p => if isPath p && opt then parseUnit crashOk (field "opt" lt) else .error .other
    exportData := fun p o i =>
      if isPath p && o == opt then parseRes crashOk (((field "exp" lt).splitOn ",").getD i "-") else .error .other }

def itemKey (i : LinkItem) : String :=
  s!"{hexOfStr i.path}:{if i.isMds then "m" else "s"}:{hexOfStr i.name}"

def linkLibOf (plan lib : String) (crashOk : Bool := false) : LinkLib :=
  let pt := plan.splitOn "+"
  let lt := lib.splitOn "+"
  let items := pt.getD 2 ""
  let same (is : List LinkItem) : Bool := pt.getD 0 "" == "plan" && ",".intercalate (is.map itemKey) == items
  { load := fun is => if same is then parseUnit crashOk (field "load" lt) else .error .other
    seq := fun is => if same is then parseRes crashOk (field "seq" lt) else .error .other
    pcm := fun is => if same is then parseRes crashOk (field "pcm" lt) else .error .other
    asmHeader := fun is => if same is then parseRes crashOk (field "asm" lt) else .error .other
    cHeader := fun is => if same is then parseRes crashOk (field "c" lt) else .error .other }

def progName (tool : String) : Str := tool.toList

/-- the model's plan -/
def plan (arg : String) : String :=
  match words arg with
  | [tool, a] =>
    match parseArgs a with
    | none => "bad-request"
    | some args =>
      let argv := progName tool :: args
      if tool == "mmlc" then
        match mmlcArgs argv argv.length 1 {} with
        | .ok (.opts o) => if o.inFile = [] then "plan none" else s!"plan {hexOfStr o.inFile} {if o.optimize then 1 else 0}"
        | _ => "plan none"
      else if tool == "mdslink" then
        match linkArgs argv argv.length 1 {} with
        | .ok (.opts o) =>
          if o.inputs = [] then "plan none"
          else match linkItems o.inputs with
            | .ok items =>
              let fl := String.ofList ([o.seq, o.pcm, o.asmHeader, o.cHeader].map fun n => if n = [] then '0' else '1')
              s!"plan {fl} {",".intercalate (items.map itemKey)}"
            | .error _ => "plan none"
        | _ => "plan none"
      else "bad-request"
  | _ => "bad-request"

def insertSorted (x : String × String) : List (String × String) → List (String × String)
  | [] => [x]
  | y :: ys => if x.1 < y.1 then x :: y :: ys else y :: insertSorted x ys

def showFiles (fs : List (Str × Blob)) : String :=
  let l := fs.foldl (fun acc f => insertSorted (hexOfStr f.1, f.2.tag) acc) []
  if l.isEmpty then "-" else ",".intercalate (l.map fun f => s!"{f.1}={f.2}")

def foreignName : Foreign → String
  | .nullString => "nullString" | .oob => "oob" | .nullDeref => "nullDeref"
  | .bufOverflow => "bufOverflow" | .uncaught => "uncaught" | .fuel => "fuel"

def parseUnwritable (u : String) : List Str :=
  if u == "-" then [] else (u.splitOn ",").filterMap strOfHex

def showOutcome (o : Outcome) (unw : List Str) : String :=
  match o with
  | .foreign k => s!"crash {foreignName k}"
  | .done r =>
    s!"exit={r.status} err={if r.stderr then 1 else 0} files={showFiles (Spec.lastWins (Spec.normFiles (r.files fun n => !unw.contains n)))}"

/-- does the run reach a library call that aborted in-process? -/
def consultsCrash (tool pl lib : String) (argv : List Str) : Bool :=
  if lib.startsWith "crash" || lib == "timeout" then true
  else if tool == "mmlc" then mmlcMain (mmlcLibOf pl lib false) argv != mmlcMain (mmlcLibOf pl lib true) argv
  else linkMain (linkLibOf pl lib false) argv != linkMain (linkLibOf pl lib true) argv

def model (arg : String) : String :=
  match words arg with
  | [tool, a, _items, u, _fs, pl, lib] =>
    match parseArgs a with
    | none => "bad-request"
    | some args =>
      let argv := progName tool :: args
      let unw := parseUnwritable u
      if consultsCrash tool pl lib argv then "crash library"
      else if tool == "mmlc" then showOutcome (mmlcMain (mmlcLibOf pl lib) argv) unw
      else if tool == "mdslink" then showOutcome (linkMain (linkLibOf pl lib) argv) unw
      else "bad-request"
  | _ => "bad-request"

/-! ### judge -/

def parseBool (s : String) : Bool := s == "1"

def parseItem (t : String) : Option Spec.Item :=
  match t.splitOn ":" with
  | ["o0", n] => (strOfHex n).map (.output false) | ["o1", n] => (strOfHex n).map (.output true)
  | ["f0", n] => (strOfHex n).map (.format false) | ["f1", n] => (strOfHex n).map (.format true)
  | ["O0"] => some (.optimize false) | ["O1"] => some (.optimize true)
  | ["v"] => some .verbose
  | ["i", p] => (strOfHex p).map .input
  | _ => none

def parseLItem (t : String) : Option Spec.LItem :=
  match t.splitOn ":" with
  | ["o0", s, p] => do pure (.out false (← strOfHex s) (← strOfHex p))
  | ["o1", s, p] => do pure (.out true (← strOfHex s) (← strOfHex p))
  | ["h0", n] => (strOfHex n).map (.cHeader false) | ["h1", n] => (strOfHex n).map (.cHeader true)
  | ["a0", n] => (strOfHex n).map (.asmHeader false) | ["a1", n] => (strOfHex n).map (.asmHeader true)
  | ["i", p] => (strOfHex p).map .input
  | _ => none

def parseObserved (impl : String) : Option Spec.Observed :=
  if impl.startsWith "crash" || impl == "timeout" then
    some { crashed := true, status := 0, stderr := true, files := [] }
  else
    let t := words impl
    match (field "exit" t).toNat? with
    | none => none
    | some st =>
      let fs := field "files" t
      let files := if fs == "-" then some [] else
        (fs.splitOn ",").mapM fun f => match f.splitOn "=" with
          | [n, b] => do pure ((← strOfHex n), (← parseBlob b))
          | _ => none
      files.map fun fl => { crashed := false, status := st, stderr := parseBool (field "err" t), files := fl }

def verdictStr : Except String Unit → String
  | .ok _ => "ok"
  | .error e => "fail " ++ e

def judge (arg impl : String) : String :=
  match words arg with
  | [tool, a, items, u, _fs, pl, lib] =>
    match parseArgs a, parseObserved impl with
    | some args, some obs =>
      if consultsCrash tool pl lib (progName tool :: args) then "skip"   -- the library itself aborts in-process on this input: not the tools' logic
      else if obs.crashed then "fail crashed"
      else if (words impl).any (·.startsWith "libnow=") then "fail the library's answer differs from the one recorded in the request"
      else if u != "-" then "skip"                       -- an output location is not writable: outside the quantifier
      else if items == "-" then
        let isHelp := tool == "mmlc" && args.any fun x => x == Spec.wH || x == Spec.wHelp
        verdictStr (Spec.rawVerdict obs isHelp)
      else if tool == "mmlc" then
        match (items.splitOn ",").mapM parseItem with
        | none => "skip"
        | some its =>
          if (its.map Spec.Item.render).flatten ≠ args then "skip"
          else
            let r := Spec.request its {}
            let want := if r.input = [] then "plan none" else s!"plan {hexOfStr r.input} {if r.optimize then 1 else 0}"
            if want ≠ pl.replace "+" " " then s!"fail the library was consulted for [{pl}] but the command means [{want}]"
            else verdictStr (Spec.mmlcVerdict (mmlcLibOf pl lib) r obs)
      else if tool == "mdslink" then
        match (items.splitOn ",").mapM parseLItem with
        | none => "skip"
        | some its =>
          if (its.map Spec.LItem.render).flatten ≠ args then "skip"
          else
            let r := Spec.lrequest its {}
            let fl := String.ofList ([r.seq, r.pcm, r.asmHeader, r.cHeader].map fun n => if n = [] then '0' else '1')
            let want := if r.inputs = [] then "plan none"
              else s!"plan {fl} {",".intercalate ((r.inputs.map Spec.linkItem).map itemKey)}"
            if want ≠ pl.replace "+" " " then s!"fail the library was consulted for [{pl}] but the command means [{want}]"
            else verdictStr (Spec.linkVerdict (linkLibOf pl lib) r obs)
      else "skip"
    | _, _ => "skip"
  | _ => "skip"

def handlers : List Driver.Handler :=
  [{ cmd := "cli", model := model, judge := judge },
   { cmd := "cliplan", model := plan, judge := fun _ _ => "skip" }]

end Driver.CliD
