import Driver.Song
import Ctrmml.Model.Player
import Ctrmml.Spec.Expand
namespace Driver.PlayerD
open Ctrmml Ctrmml.Player Ctrmml.Expand Driver

def errMsg : PErr → String
  | .stackOverflow => "stack_overflow_(depth_limit_reached)"
  | .unterminatedLoop => "unterminated_'[]'_loop"
  | .unexpectedLoopEnd => "unexpected_']'_loop_end"
  | .drumNoNote => "drum_routine_contains_no_note"
  | .invalidLoopCount => "Invalid_loop_count"
  | .jumpMissing => "jump_destination_doesn't_exist"
  | .drumTrackMissing => "drum_mode_error"
  | .platformMissing => "Platform_command_is_not_defined"
  | .impossible => "MODEL:impossible"
  | .fuel => "MODEL:fuel"

def b2s (b : Bool) : String := if b then "1" else "0"

/-- trace loop: at most `maxSteps` steps, at most `cap` recorded hooks -/
def traceLoop (song : Song) (root : List Event) : Nat → PState → Nat → List String → (List String × String × PState)
  | 0, s, _, acc => (acc.reverse, "ok", s)
  | fuel + 1, s, hooks, acc =>
    if !s.acc.enabled then (acc.reverse, "ok", s) else
    match stepTrace song root false s with
    | .error (e, h) =>
      let acc := match h with
        | some i => if hooks < 4000 then s!"{i.ev.type}.{i.ev.param}.{i.on}.{i.off}.{b2s i.insideLoop}.{b2s i.insideJump}" :: acc else acc
        | none => acc
      (acc.reverse, "err:" ++ errMsg e, s)
    | .ok (s', t) =>
      match t with
      | none => traceLoop song root fuel s' hooks acc
      | some none => traceLoop song root fuel s' hooks ("E" :: acc)
      | some (some i) =>
        if hooks < 4000 then
          traceLoop song root fuel s' (hooks + 1)
            (s!"{i.ev.type}.{i.ev.param}.{i.on}.{i.off}.{b2s i.insideLoop}.{b2s i.insideJump}" :: acc)
        else traceLoop song root fuel s' (hooks + 1) acc

def model (arg : String) : String :=
  match parseSong (words arg) with
  | none => "bad-request"
  | some (song, rest) =>
    match rest.head?.bind String.toNat? with
    | none => "bad-request"
    | some rootId =>
      match song.track? rootId with
      | none => "bad-request"
      | some root =>
        let v := match runValidator song root 3000000 initState with
          | .ok s => let r := validatedOf s; s!"valid=ok:{r.playTime}:{r.loopPlayTime}:{r.loopLength}"
          | .error e => "valid=err:" ++ errMsg e
        let (tr, endS, s) := traceLoop song root 2000000 initState 0 []
        -- on an error the C++ player has already added the pending durations of the step that threw
        let t := if endS.startsWith "err" then s.acc.playTime + s.acc.onTime + s.acc.offTime else s.acc.playTime
        let trs := if tr.isEmpty then "-" else ",".intercalate tr
        s!"{v} trace={trs};end={endS};t={t}"

/-- spec verdict: `perf` decides acceptance, the event sequence and the three numbers -/
def judge (arg impl : String) : String :=
  match parseSong (words arg) with
  | none => "skip"
  | some (song, rest) =>
    match rest.head?.bind String.toNat? with
    | none => "skip"
    | some rootId =>
      match song.track? rootId with
      | none => "skip"
      | some root =>
        let implValid := ((impl.splitOn " ").headD "")
        match perf song root with
        | .error _ =>
          if implValid.startsWith "valid=err:" then "ok" else s!"fail spec rejects, implementation says {implValid}"
        | .ok items =>
          let total := totalDur items
          let lt := loopTime items
          let ltI : Int := match lt with | some t => t | none => -1
          let ll := match lt with | some t => total - t | none => 0
          let want := s!"valid=ok:{total}:{ltI}:{ll}"
          if implValid != want then s!"fail want {want} got {implValid}" else
          -- event sequence (first 4000 hooks), flags dropped
          let implTrace := (((impl.splitOn " trace=").getD 1 "").splitOn ";").headD ""
          -- the player writes the loop's end position into the `LOOP_BREAK` event's parameter
          -- (a conversion aid, not part of the event sequence): masked on both sides
          let brk := s!"{Tables.ev_LOOP_BREAK}"
          let mask (f : List String) : List String :=
            match f with
            | t :: _ :: rest => if t == brk then t :: "0" :: rest else f
            | _ => f
          let implEvs := (implTrace.splitOn ",").filter (fun x => x ≠ "E" && x ≠ "-" && x ≠ "") |>.map
            (fun x => ".".intercalate (mask ((x.splitOn ".").take 4)))
          let wantEvs := (items.take 4000).map (fun i =>
            ".".intercalate (mask [s!"{i.ev.type}", s!"{i.ev.param}", s!"{i.src.on}", s!"{i.src.off}"]))
          if implEvs == wantEvs then "ok" else "fail event sequence differs from the expansion"

def handlers : List Driver.Handler := [{ cmd := "valid", model := model, judge := judge }]
end Driver.PlayerD
