/- Driver for streams mds.bytes / conv.maps (C09): `mds <definitions> | <conv tokens>`.
   definitions: the `ins` format of Driver/MdsData (tags in tag_order);
   conv tokens: V:<text> G:<text> W:<name>=<hex> P:<id>=<w>,.. T<id>:<events> (Driver/Conv). -/
import Driver.Conv
import Driver.MdsData
import Ctrmml.Model.MdsFile
import Ctrmml.Spec.MdsResolve
import Ctrmml.Spec.MdsFrag
namespace Driver.MdsFileD
open Ctrmml Ctrmml.Mds Ctrmml.MdsFile Driver Tables

structure Req where
  inp : Input
  unmodelled : Bool

def splitBar (s : String) : String × String :=
  match s.splitOn "|" with
  | [a] => ("", a)
  | a :: rest => (a, "|".intercalate rest)
  | [] => ("", "")

def parseReq (arg : String) : Option Req := do
  let (defs, conv) := splitBar arg
  let tags := MdsDataD.parseIns defs
  let r ← ConvD.parseReq conv
  let mut vol : Option String := none
  let mut grp : String := ""
  let mut files : List (String × Bytes) := []
  for t in words conv do
    if t.startsWith "V:" then vol := some (t.drop 2).toString
    else if t.startsWith "G:" then grp := (t.drop 2).toString
    else if t.startsWith "W:" then
      match (t.drop 2).toString.splitOn "=" with
      | [name, hex] => files := (name, (← bytesOfHex hex)) :: files.filter (·.1 ≠ name)
      | _ => none
    else pure ()
  pure { inp := { song := r.song, tags := tags, files := files, platform := r.data.platform, volume := vol, group := grp },
         unmodelled := r.unmodelled }

def hexB (b : Bytes) : String :=
  if b.isEmpty then "-" else String.ofList (b.flatMap fun x => [hexDigit (x.toNat / 16), hexDigit (x.toNat % 16)])

def showPairs {α} [ToString α] (l : List (α × Nat)) : String :=
  if l.isEmpty then "-" else ",".intercalate (l.map fun (k, v) => s!"{k}:{v}")

def errMsg : FErr → String
  | .data => "err:data"
  | .dataUnsupported => "MODEL:unsupported-definition"
  | .writer e => ConvD.werrMsg e
  | .codec .atEmpty => "exc:out_of_range"
  | .codec .stackEmpty => "err:loopCmd"          -- InputError since repository fix 3e0ed67
  | .indexRange => "err:indexRange"
  | .headerWrap => "err:headerTooLarge"       -- InputError since repository fix 5952bf5
  | .seqTooLarge => "err:seqTooLarge"
  | .bankIndex => "UB:bank-index"
  | .riff _ => "exc:riff"

def model (arg : String) : String :=
  match parseReq arg with
  | none => "bad-request"
  | some r =>
    if r.unmodelled then "MODEL:unmodelled-platform-command" else
    match exportMds MdsData.Arith.float r.inp with
    | .error e => errMsg e
    | .ok o =>
      s!"file={hexB o.file} smap={showPairs o.built.conv.subMap} mmap={showPairs o.built.conv.macroMap} used={showPairs o.built.conv.usedData}"

/-! ### judge: `Spec/MdsResolve.checkFile` on the implementation's file -/
open Ctrmml.MdsResolve in
def expectOf (d : DState) : Expect :=
  let bank := d.st.bank
  { ins := d.st.tyMap.filterMap fun (id, ty) =>
      match MdsData.mget d.st.envMap id with
      | some idx => (bank[idx.toNat]?).map fun b => (keyOfId id, decide (ty = (mdsdrv_INS_PCM : Int)), b)
      | none => none,
    pitch := d.st.pitchMap.filterMap fun (id, idx) =>
      (bank[idx.toNat]?).map fun b => (keyOfId id, d.st.pitchExt.contains id, b) }

def indexBearing (l : List MEv) : Bool :=
  l.any fun e => e.type = mds_INS ∨ e.type = mds_PCM ∨ e.type = mds_PEG ∨ e.type = mds_MTAB ∨ e.type = mds_PAT
    ∨ e.type = mds_DMFINISH ∨ e.type = mds_FINISH ∨ e.type = mds_JUMP ∨ (e.type = mds_FLG ∧ e.arg < 0x80)
    ∨ (mds_NOTE ≤ e.type ∧ e.type < mds_SLR)

/-- which of the decidable residual hypotheses of `C09_full_partial2` (`Spec/MdsFrag.fullHyps` and the size
bound `exportSmall`, round 4) the model's export of this request meets: `H=1`, or `H=0:<first one that
fails>`.  The fragment itself is a theorem now (`C09_writer_outputs_in_frag`); `fragB` is still
evaluated, and a list outside the fragment while `platformFrag` holds would contradict the theorem
(`H=0:frag-contradiction`). -/
def hypsOf (inp : Input) : String :=
  match exportMds MdsData.Arith.float inp with
  | .error _ => "H=-"
  | .ok o =>
    let b := o.built
    let d := dataInfoOf o.data.st inp.platform
    let fr := (b.trackList.map (·.2) ++ b.conv.subList).all MdsRead.fragB
    if !platformFrag d then "H=0:platform"
    else if !fr then "H=0:frag-contradiction"
    else if fullHyps inp.song d b && exportSmall b o.data.st.bank inp.group.toUTF8.toList (pcmOf o.data) then "H=1"
    else if !decide ((inp.song.tracks.map (·.1)).Pairwise (· < ·)) then "H=0:unsorted"
    else if b.trackList.isEmpty then "H=0:notracks"
    else if !(b.trackStreams ++ b.subStreams).all (·.length < 65536) then "H=0:len"
    else "H=0:size"

def judge (arg impl : String) : String :=
  match parseReq arg with
  | none => "skip"
  | some r =>
    if r.unmodelled then "skip" else
    if impl.startsWith "err:" then "ok" else       -- not accepted: outside the quantifier
    if !impl.startsWith "file=" then s!"fail no file: {impl}" else
    -- raw `cmd` platform commands can inject any opcode: outside the resolver's reading of the song
    if r.inp.platform.any (fun (_, l) => match l with | some l => indexBearing l | none => false) then "skip" else
    match ConvD.field impl "file=" with
    | none => "fail no file"
    | some hex =>
      match bytesOfHex hex with
      | none => "fail file not hex"
      | some b =>
        match readSong MdsData.Arith.float r.inp.files r.inp.tags with
        | .error _ => "skip"
        | .ok d =>
          let vol : Option Nat := match r.inp.volume with
            | some s => if !s.isEmpty ∧ s.all Char.isDigit ∧ (s.length = 1 ∨ s.front ≠ '0') then s.toNat? else none
            | none => some 0
          match MdsResolve.checkFile b r.inp.song (expectOf d) vol (r.inp.group.toUTF8.toList.map (·.toNat)) with
          | .ok _ => "ok " ++ hypsOf r.inp
          | .error e => "fail " ++ e

def handlers : List Driver.Handler := [{ cmd := "mds", model := model, judge := judge }]
end Driver.MdsFileD
