/- Driver for the streams `mml.events` (`mml`, `mmlr`) and `track.api` (`tapi`) — C05 (C06, C17). -/
import Driver.Song
import Ctrmml.Model.Mml
import Ctrmml.Spec.MmlMeaning
namespace Driver.MmlD
open Ctrmml Ctrmml.Lexer Ctrmml.TrackBuilder Ctrmml.Mml Driver

def hexOfBytes (l : List Nat) : String :=
  if l.isEmpty then "-" else String.ofList (l.flatMap fun b => [hexDigit (b / 16 % 16), hexDigit (b % 16)])

def unhex (s : String) : Option (List Nat) :=
  if s == "-" then some [] else (bytesOfHex s).map (·.map UInt8.toNat)

def showBEvent (refs : Bool) (e : BEvent) : String :=
  let base := s!"{e.type}.{e.param}.{e.on.toNat}.{e.off.toNat}"
  if refs then
    match e.ref with
    | some r => base ++ s!"@{r.line}:{r.column}"
    | none => base ++ "@-"
  else base

def showBEvents (refs : Bool) (l : List BEvent) : String :=
  if l.isEmpty then "-" else ",".intercalate (l.map (showBEvent refs))

def underscore (s : String) : String := String.ofList (s.toList.map fun c => if c == ' ' then '_' else c)

def showErr : Option Err → String
  | none => "-"
  | some (.input m r) => "input:" ++ underscore (Err.what (.input m r))
  | some (.foreign k) => if k.startsWith "ub:" || k.startsWith "MODEL:" then k else "foreign:" ++ k

def stripTrailingSpace (l : List Nat) : List Nat :=
  (l.reverse.dropWhile fun b => isSpace (schar b)).reverse

def showTags (calls : List TagCall) : String :=
  let keys := calls.foldl (fun acc c => if c.fn == .setPlatform || acc.contains c.key then acc else acc ++ [c.key]) ([] : List (List Nat))
  if keys.isEmpty then "-" else
  ",".intercalate (keys.map fun k =>
    if k.head? == some 35 then
      let v := match (calls.filter fun c => c.fn == .setTag && c.key == k).getLast? with
        | some c => stripTrailingSpace c.value
        | none => []
      hexOfBytes k ++ "=" ++ hexOfBytes v
    else hexOfBytes k)

def showState (refs : Bool) (e : Option Err) (s : MmlState) : String :=
  let tr := if s.song.tracks.isEmpty then "-" else
    ";".intercalate (s.song.tracks.map fun (id, t) => s!"T{id}:{showBEvents refs t.events}")
  s!"err={showErr e} tracks={tr} tags={showTags s.song.tagCalls}"

def parseLines (arg : String) : Option (List (List Nat)) :=
  ((words arg).takeWhile (· ≠ "@")).mapM unhex

def runMml (refs : Bool) (arg : String) : String :=
  match parseLines arg with
  | none => "bad-request"
  | some lines =>
    match readLines 0 lines MmlState.init with
    | .ok _ s => showState refs none s
    | .err e s => showState refs (some e) s

/-! ### track.api -/

def fieldsOf (op : String) : List String := (op.splitOn ":").drop 1

def intF (l : List String) (i : Nat) : Option Int := (l[i]?).bind parseInt?
def u16F (l : List String) (i : Nat) : Option UInt16 := (intF l i).map fun v => UInt16.ofNat (wrapU16 v)

def parseOp (op : String) : Option Track.Op :=
  let name := (op.splitOn ":").headD ""
  let f := fieldsOf op
  match name with
  | "ev" => do pure (.addEvent (← intF f 0).toNat (← intF f 1) (← u16F f 2) (← u16F f 3))
  | "n" => do pure (.addNote (← intF f 0) (← u16F f 1))
  | "t" => do pure (.addTie (← u16F f 0))
  | "r" => do pure (.addRest (← u16F f 0))
  | "S" => some .addSlur
  | "e" => do pure (.addEcho (← u16F f 0))
  | "R" => do pure (.reverseRest (← u16F f 0))
  | "ref" => do pure (.setReference (some { line := (← intF f 0).toNat, column := (← intF f 1).toNat }))
  | "o" => do pure (.setOctave (← intF f 0))
  | "O" => do pure (.changeOctave (← intF f 0))
  | "l" => do pure (.setDuration (← u16F f 0))
  | "Q" => do pure (.setQuantize (← u16F f 0) (← u16F f 1))
  | "q" => do pure (.setEarlyRelease (← u16F f 0))
  | "D" => do pure (.setDrumMode (← u16F f 0))
  | "E" => do pure (.setEcho (← u16F f 0) (← intF f 1))
  | "X" => some .clearEchoBuffer
  | "C" => do pure (.setMeasureLen (← u16F f 0))
  | "s" => do pure (.setShuffle (← intF f 0))
  | "K" => do pure (.setKeySignature (← unhex (← f[0]?)))
  | "M" => do pure (.modifyKeySignature (schar (ucharOf (← intF f 0))) (wrapS8 (← intF f 1)))
  | "G" => do pure (.getKeySignature (schar (ucharOf (← intF f 0))))
  | _ => none

def runOps : List Track.Op → Nat → Track → List String → Except Err (Track × List String)
  | [], _, t, rep => .ok (t, rep.reverse)
  | op :: ops, i, t, rep =>
    match t.applyOp op with
    | .error e => .error e
    | .ok (t', r) => runOps ops (i + 1) t' (if r.isEmpty then rep else s!"{i}:{r}" :: rep)

def showKs (t : Track) : String :=
  ",".intercalate ((List.range 8).map fun (k : Nat) =>
    match t.getKeySignature (97 + (k : Int)) with
    | .ok v => toString v
    | _ => "?")

def runTapi (arg : String) : String :=
  match ((words arg).takeWhile (· ≠ "@")).mapM parseOp with
  | none => "bad-request"
  | some ops =>
    match runOps ops 0 Track.new [] with
    | .error e => showErr (some e)
    | .ok (t, rep) =>
      let reps := if rep.isEmpty then "-" else ",".intercalate rep
      let dm := if t.inDrumMode then 1 else 0
      s!"ops={reps} ev={showBEvents true t.events} st={t.getDuration.toNat}.{t.getMeasureLen.toNat}.{t.getShuffle}.{dm}.{t.getEventCount} ks={showKs t}"

end Driver.MmlD

/-! ### judge: the spec (Spec/MmlMeaning) applied to the implementation's answer -/
namespace Driver.MmlD
open Ctrmml Ctrmml.Tables Driver
open Ctrmml.MmlMeaning (Cmd Dur Acc Num Simple Expected Item)

def parseNum (s : String) : Option Num :=
  if s.startsWith "$" then (parseInt? (s.drop 1).toString).map fun v => { v := v, hex := true }
  else (parseInt? s).map fun v => { v := v, hex := false }

def parseDur : List String → Option Dur
  | ["D", k] => do pure (.dflt (← k.toNat?))
  | ["L", n, k] => do pure (.len (← parseNum n) (← k.toNat?))
  | ["F", n, k] => do pure (.frames (← parseNum n) (← k.toNat?))
  | _ => none

def parseAcc : String → Option Acc
  | "n" => some .none | "s" => some .sharp | "f" => some .flat | "e" => some .natural | _ => none

def simpleOfName : String → Option Simple
  | "loopStart" => some .loopStart | "loopBreak" => some .loopBreak | "loopEnd" => some .loopEnd
  | "segno" => some .segno | "call" => some .call | "ins" => some .ins | "vol" => some .vol
  | "volDown" => some .volDown | "volUp" => some .volUp | "volFine" => some .volFine
  | "volFineUp" => some .volFineUp | "volFineDown" => some .volFineDown | "pan" => some .pan
  | "transpose" => some .transpose | "transposeRel" => some .transposeRel | "kTranspose" => some .kTranspose
  | "detune" => some .detune | "env" => some .env | "pitchEnv" => some .pitchEnv | "panEnv" => some .panEnv
  | "porta" => some .porta | "tempoBpm" => some .tempoBpm | "tempo" => some .tempo | "platform" => some .platform
  | _ => none

def parseGroup (s : String) : Option (Int × List Nat) :=
  match s.toList with
  | sg :: ls =>
    let sign : Option Int := if sg == '+' then some 1 else if sg == '-' then some (-1) else if sg == '=' then some 0 else none
    sign.map fun sg => (sg, ls.map fun c => c.toNat - 48)
  | [] => none

def parseCmd (tok : String) : Option Cmd :=
  match tok.splitOn "/" with
  | "n" :: l :: a :: d => do pure (.note (← l.toNat?) (← parseAcc a) (← parseDur d))
  | "r" :: d => do pure (.rest (← parseDur d))
  | "t" :: d => do pure (.tie (← parseDur d))
  | ["S"] => some .slur
  | ["o", n] => do pure (.octave (← parseNum n))
  | [">"] => some .octUp
  | ["<"] => some .octDown
  | "l" :: d => do pure (.length (← parseDur d))
  | ["Q", n] => do pure (.quantize (← parseNum n))
  | ["q", n] => do pure (.early (← parseNum n))
  | "R" :: d => do pure (.revRest (← parseDur d))
  | "g" :: l :: a :: d => do pure (.grace (← l.toNat?) (← parseAcc a) (← parseDur d))
  | ["C", n] => do pure (.measure (← parseNum n))
  | ["s", n] => do pure (.shuffle (← parseNum n))
  | ["E", a, b] => do pure (.echoSet (← parseNum a) (← parseNum b))
  | "e" :: d => do pure (.echo (← parseDur d))
  | ["K", name] => some (.keyScale name)
  | ["k", gs] => do pure (.keyMod (← (gs.splitOn ",").mapM parseGroup))
  | ["D", n] => do pure (.drum (← parseNum n))
  | ["x", name, n] => do
    let s ← simpleOfName name
    if n == "-" then pure (.simple s none) else pure (.simple s (some (← parseNum n)))
  | ["|"] => some .bar
  | _ => none

/-- the AST part of a request (`… @ tok tok …`), if any -/
def astOf (arg : String) : Option (List Cmd) :=
  let ws := words arg
  match ws.dropWhile (· ≠ "@") with
  | _ :: toks => toks.mapM parseCmd
  | [] => none

structure ImplTrack where
  id : Nat
  events : List Event

def parseImplTracks (s : String) : Option (List ImplTrack) :=
  if s == "-" then some [] else
  (s.splitOn ";").mapM fun t =>
    match t.splitOn ":" with
    | [id, evs] => do
      let id ← (id.drop 1).toString.toNat?
      let evs ← if evs == "-" then some [] else parseEvents evs
      pure { id := id, events := evs }
    | _ => none

def fieldOf (impl key : String) : Option String :=
  (words impl).findSome? fun w => if w.startsWith (key ++ "=") then some (w.drop (key.length + 1)).toString else none

/-- checks that need no AST: every note is keyed on for at least one tick; no event's on+off
exceeds 16 bits (a duration is a `uint16_t` split into on and off) -/
def sanity (evs : List Event) : Option String :=
  if evs.any (fun e => (e.type == ev_NOTE || e.type == ev_TIE) && e.on == 0 && e.off == 0) then some "fail zero_length_note (a note or tie event lasts 0 ticks)"
  else if evs.any (fun e => e.type == ev_NOTE && e.on == 0) then some "fail on_time_zero (a sounding note is keyed on for 0 ticks)"
  else if evs.any (fun e => e.on + e.off > 65535) then some "fail duration_wrap (on_time+off_time of an event exceeds 65535: 16-bit underflow)"
  else none

/-- the events an extended note / rest / free tie is recorded in: starting with `len` ticks of
which `on` keyed on, take TIE and REST events until `need` ticks are reached (a NOTE ends the
run).  `(len, on, shape, events left)`; `shape` spells the events taken (`T`, `R`) -/
def eatTimed (need : Nat) (tieOk : Bool) : List Event → Nat → Nat → String → Nat × Nat × String × List Event
  | [], len, on, sh => (len, on, sh, [])
  | e :: es, len, on, sh =>
    if len ≥ need || e.type == ev_NOTE || (e.type == ev_TIE && !tieOk) then (len, on, sh, e :: es)
    else eatTimed need tieOk es (len + e.on + e.off) (on + (if e.type == ev_TIE then e.on else 0))
      (sh ++ (if e.type == ev_TIE then "T" else "R"))

def showTimedEvents (l : List Event) : String :=
  " ".intercalate (l.map fun e => (if e.type == ev_NOTE then "NOTE" else if e.type == ev_TIE then "TIE" else "REST") ++ s!"({e.on}+{e.off})")

/-- the timed events of a track (NOTE, TIE, REST; REST events of no length dropped) against the
spec's extended notes, rests and free ties: per extended note the pitch, Σ(on+off) = `dur` and
`onLo ≤ Σ on ≤ onHi` over its NOTE and TIE events — never the split into events -/
def judgeTimed : List MmlMeaning.Timed → List Event → Nat → Option String
  | [], [], _ => none
  | [], e :: _, i => some s!"fail note_count a timed event (type {e.type}, {e.on}+{e.off}) is left over behind note#{i}"
  | .group it :: ts, es, i =>
    match es with
    | [] => some s!"fail note_count differs at note#{i}"
    | e :: es' =>
      if e.type != ev_NOTE then some s!"fail note_count differs at note#{i} (a NOTE is due, got type {e.type} {e.on}+{e.off})"
      else if e.param != it.pitch then some s!"fail pitch note#{i} want {it.pitch} got {e.param}"
      else
        let (len, on, sh, left) := eatTimed it.dur true es' (e.on + e.off) e.on "N"
        let got := showTimedEvents ((e :: es').take sh.length)
        if it.plain && (len != it.dur || on < it.onLo || on > it.onHi) then
          some s!"fail on_time_rule note#{i} want on={it.onLo} off={it.dur - it.onLo} got {got}"
        else if len != it.dur then
          some s!"fail group_duration note#{i} (extended note) want {it.dur} ticks, events {got} give {len}"
        else if on < it.onLo || on > it.onHi then
          let key := if it.afterSep then "sep_tie_on_time" else "group_on_time"
          let want := if it.onLo == it.onHi then s!"{it.onLo}" else s!"{it.onLo}..{it.onHi}"
          some s!"fail {key} note#{i} (extended note of {it.dur} ticks) keyed on for {on} ticks, want {want}; events {got}"
        else judgeTimed ts left (i + 1)
  | .rest d :: ts, es, i =>
    let (len, _, sh, left) := eatTimed d false es 0 0 ""
    if len != d then some s!"fail rest_duration behind note#{i}: want REST events of {d} ticks, got {showTimedEvents (es.take sh.length)} = {len}"
    else judgeTimed ts left i
  | .free d :: ts, es, i =>
    let (len, _, sh, left) := eatTimed d true es 0 0 ""
    if len != d then some s!"fail tie_duration behind note#{i}: want TIE/REST events of {d} ticks, got {showTimedEvents (es.take sh.length)} = {len}"
    else judgeTimed ts left i

/-- the spec's `Expected` against the events recorded on the track -/
def judgeExpected (exp : Expected) (evs : List Event) : Option String :=
  let timed := evs.filter fun e => e.type == ev_NOTE || e.type == ev_TIE || (e.type == ev_REST && e.on + e.off != 0)
  match judgeTimed exp.timed timed 0 with
  | some f => some f
  | none =>
    let total : Int := evs.foldl (fun a e => a + e.on + e.off) 0
    if total != exp.total then some s!"fail total want {exp.total} got {total}" else
    let ctl := (evs.filter fun e => e.type != ev_NOTE && e.type != ev_REST && e.type != ev_TIE).map fun e => (e.type, e.param)
    if ctl != exp.controls then some "fail controls" else none

def judgeMml (arg impl : String) : String :=
  match fieldOf impl "tracks" >>= parseImplTracks with
  | none => if impl.startsWith "crash" || impl == "timeout" then "fail crash" else "skip"
  | some tracks =>
    match tracks.findSome? (fun t => sanity t.events) with
    | some f => f
    | none =>
      match astOf arg with
      | none => "ok"
      | some ast =>
        let text := (parseLines arg).bind (·.head?)
        if text != some (MmlMeaning.renderBytes ast) then "fail render_mismatch (generator and Spec.render disagree)" else
        let exp := MmlMeaning.meaning ast
        if !exp.exact then "ok inexact" else
        if fieldOf impl "err" != some "-" then s!"fail rejected {(fieldOf impl "err").getD "?"}" else
        let evs := (tracks.find? (·.id == 0)).map (·.events) |>.getD []
        (judgeExpected exp evs).getD "ok exact"

def stripRefs (s : String) : String :=
  ",".intercalate ((s.splitOn ",").map fun e => (e.splitOn "@").headD "")

def judgeTapi (arg impl : String) : String :=
  if (words arg).any (·.startsWith "ev:") then "ok" else
  match (fieldOf impl "ev").map stripRefs >>= (fun s => if s == "-" then some [] else parseEvents s) with
  | none => if impl.startsWith "crash" || impl == "timeout" then "fail crash" else "skip"
  | some evs => (sanity evs).getD "ok"

def handlers : List Driver.Handler := [
  { cmd := "mml", model := runMml false, judge := judgeMml },
  { cmd := "mmlr", model := runMml true, judge := fun _ _ => "skip" },
  { cmd := "tapi", model := runTapi, judge := judgeTapi }]

end Driver.MmlD
