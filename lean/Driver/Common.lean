/- Shared helpers of the model driver (line protocol). -/
import Ctrmml.Model.Bytes
namespace Driver
open Ctrmml

def fnv64 (b : Bytes) : UInt64 :=
  b.foldl (fun h x => (h ^^^ x.toUInt64) * 0x100000001b3) 0xcbf29ce484222325

def hex64 (v : UInt64) : String :=
  String.ofList ((List.range 16).reverse.map fun i => hexDigit ((v.toNat >>> (4 * i)) % 16))

def hex32 (v : Nat) : String :=
  String.ofList ((List.range 8).reverse.map fun i => hexDigit ((v >>> (4 * i)) % 16))

def lenfnv (b : Bytes) : String := s!"{b.length}:{hex64 (fnv64 b)}"

def fillBytes (len seed : Nat) : Bytes :=
  (List.range len).map fun i => UInt8.ofNat ((seed + 31 * i + i / 256) % 256)

def parseHexNat (s : String) : Option Nat :=
  s.toList.foldlM (fun acc c => (hexVal c).map fun v => acc * 16 + v) 0

def payloadOf (spec : String) : Option Bytes :=
  if spec.startsWith "h:" then bytesOfHex (spec.drop 2).toString
  else if spec.startsWith "f:" then
    match (spec.drop 2).toString.splitOn ":" with
    | [l, s] => do
      let l ← l.toNat?
      let s ← s.toNat?
      pure (fillBytes l s)
    | _ => none
  else none

def words (s : String) : List String :=
  (s.splitOn " ").filter (· ≠ "")

/-- split `a ## b` -/
def splitJudge (s : String) : String × String :=
  match s.splitOn " ## " with
  | [a] => (a, "")
  | a :: rest => (a, " ## ".intercalate rest)
  | [] => ("", "")

end Driver

namespace Driver
/-- a protocol handler: command name, model answer, spec verdict on the implementation's answer -/
structure Handler where
  cmd : String
  model : String → String
  judge : String → String → String
end Driver
