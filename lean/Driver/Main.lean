/- Model driver: one request per line on stdin, one answer per line on stdout.
   `M <cmd> <args>`          → the model's answer (same format as the C++ harness)
   `S <cmd> <args> ## <impl>` → the spec oracle's verdict on the implementation's answer
   Each property contributes `handlers` in its own Driver/<Area>.lean; add one import and
   one `++` line here. -/
import Driver.Riff
import Driver.Player
import Driver.Seek
import Driver.Vgm
import Driver.Conv
import Driver.Opt
import Driver.Wave
import Driver.MdsData
import Driver.Tags
import Driver.Conf
import Driver.Cli
import Driver.Mml
import Driver.Link
import Driver.MdDrv
import Driver.Layout
import Driver.MdsFile
import Driver.Diag
import Driver.Hist
import Driver.Total
open Driver

def allHandlers : List Handler :=
  RiffD.handlers
  ++ PlayerD.handlers
  ++ SeekD.handlers
  ++ VgmD.handlers
  ++ ConvD.handlers
  ++ OptD.handlers
  ++ WaveD.handlers
  ++ MdsDataD.handlers
  ++ TagsD.handlers
  ++ ConfD.handlers
  ++ CliD.handlers
  ++ MmlD.handlers
  ++ LinkD.handlers
  ++ MdDrvD.handlers
  ++ LayoutD.handlers
  ++ MdsFileD.handlers
  ++ DiagD.handlers
  ++ HistD.handlers
  ++ TotalD.handlers

def answerModel (cmd arg : String) : String :=
  match allHandlers.find? (·.cmd == cmd) with
  | some h => h.model arg
  | none => "bad-request"

def answerJudge (cmd arg impl : String) : String :=
  match allHandlers.find? (·.cmd == cmd) with
  | some h => h.judge arg impl
  | none => "skip"

def splitCmd (s : String) : String × String :=
  match s.splitOn " " with
  | [] => ("", "")
  | c :: rest => (c, " ".intercalate rest)

partial def loop (h : IO.FS.Stream) (out : IO.FS.Stream) : IO Unit := do
  let line ← h.getLine
  if line.isEmpty then return ()
  let line := (line.dropEndWhile (fun c => c == '\n' || c == '\r')).toString
  let ans :=
    if line.startsWith "M " then
      let (cmd, arg) := splitCmd (line.drop 2).toString
      answerModel cmd arg
    else if line.startsWith "S " then
      let (req, impl) := splitJudge (line.drop 2).toString
      let (cmd, arg) := splitCmd req
      answerJudge cmd arg impl
    else "bad-request"
  out.putStrLn ans
  loop h out

def main : IO Unit := do
  let i ← IO.getStdin
  let o ← IO.getStdout
  loop i o
  o.flush
