/- C16 driver: streams `hist` (compilation histories; the model predicts "no observation
   differs" and, for IR songs, the `seq ` chunk), `pcmtab` (static state of MD_PCMDriver after
   a driver was constructed) and `linktwice` (D15 probe, no model: judged only).

   hist D:<hexdir> F:<b,..> P:<s,..> [V|O] <song>*     song = M:<hex mml> | C:<conv tokens joined by ';'>
   answer: hist n=<k> asan=<a> plain=<p> | s<i> [seq=<v>] diff=- | …      (see harness/h_hist.cpp;
           checks/c16.py `normalize` drops the fields only the implementation can know) -/
import Driver.Conv
import Ctrmml.Model.Globals
namespace Driver.HistD
open Ctrmml Ctrmml.Globals Driver

structure Req where
  fills : Nat
  seeds : Nat
  songs : List String
  optimized : Bool := false

def countList (s : String) : Nat := ((s.splitOn ",").filter (· ≠ "")).length

def parseReq (arg : String) : Req := Id.run do
  let mut r : Req := { fills := 0, seeds := 0, songs := [] }
  for t in words arg do
    if t.startsWith "D:" then pure ()
    else if t.startsWith "F:" then r := { r with fills := countList (t.drop 2).toString }
    else if t.startsWith "P:" then r := { r with seeds := countList (t.drop 2).toString }
    else if t == "V" then pure ()
    else if t == "O" then r := { r with optimized := true }
    else r := { r with songs := r.songs ++ [t] }
  return r

def natsToBytes (l : List Nat) : Bytes := l.map fun n => UInt8.ofNat (n % 256)

/-- the `seq ` chunk the converter model predicts for an IR song token -/
def predictSeq (tok : String) : String :=
  let arg := " ".intercalate ((tok.drop 2).toString.splitOn ";")
  match ConvD.parseReq arg with
  | none => "?"
  | some r =>
    if r.unmodelled then "?" else
    match Mds.convertSong r.song r.data r.volume with
    | .ok c => lenfnv (natsToBytes c.seq)
    | .error (.writer _) => "exc:InputError"
    | .error (.codec .atEmpty) => "exc:out_of_range"
    | .error _ => "?"

def expectedChildren (r : Req) : Nat × Nat :=
  ((if r.fills = 0 then 0 else r.songs.length + (r.fills - 1)), r.seeds)

def model (arg : String) : String :=
  let r := parseReq arg
  if r.songs.isEmpty then "bad-request" else
  let (a, p) := expectedChildren r
  let per := (List.range r.songs.length).zip r.songs |>.map fun (i, tok) =>
    if tok.startsWith "C:" ∧ !r.optimized then s!" | s{i} seq={predictSeq tok} diff=-" else s!" | s{i} diff=-"
  s!"hist n={r.songs.length} asan={a} plain={p}" ++ String.join per

def fieldOf (toks : List String) (k : String) : Option String :=
  (toks.find? (·.startsWith k)).map fun f => (f.drop k.length).toString

/-- spec: every observation of one song — alone in a fresh process, after any history, repeated
on one Song object, under every heap fill — is the same bytes; all expected observations were made -/
def judge (arg impl : String) : String :=
  let r := parseReq arg
  if !impl.startsWith "hist " then "fail no answer: " ++ impl else
  let parts := impl.splitOn " | "
  match parts with
  | [] => "fail empty"
  | head :: rest =>
    let ht := words head
    let (a, p) := expectedChildren r
    if fieldOf ht "n=" != some (toString r.songs.length) then "fail song count"
    else if fieldOf ht "asan=" != some (toString a) then s!"fail fresh-process observations missing (asan children {fieldOf ht "asan="} of {a})"
    else if fieldOf ht "plain=" != some (toString p) then s!"fail fresh-process observations missing (plain children {fieldOf ht "plain="} of {p})"
    else if rest.length != r.songs.length then s!"fail notes or missing song sections: {rest.drop r.songs.length}"
    else
      let children := (if r.fills = 0 then 0 else r.fills) + r.seeds
      let bad := rest.filterMap fun sec =>
        let t := words sec
        let obs := ((fieldOf t "obs=").bind String.toNat?).getD 0
        match fieldOf t "diff=" with
        | some "-" =>
          if obs < children + r.songs.length + 3 then some s!"{t.head?.getD "?"}: only {obs} observations" else none
        | some d => some s!"{t.head?.getD "?"}: output is not a function of the input: {d} (reference mds={fieldOf t "mds="} vgm={fieldOf t "vgm="})"
        | none => some "section without diff field"
      match bad with
      | [] => "ok"
      | x :: _ => "fail " ++ x

def int8Byte (v : Int) : UInt8 := UInt8.ofNat ((v % 256).toNat)

def hexOf (b : Bytes) : String := String.ofList (b.flatMap fun x => [hexDigit (x.toNat / 16), hexDigit (x.toNat % 16)])

def pcmtabModel (_ : String) : String :=
  let g := pcmCtor initial
  let bytes : Bytes := g.volTable.flatMap fun row => row.map int8Byte
  let row3 : Bytes := ((g.volTable.getD 3 []).map int8Byte).drop 120 |>.take 16
  let pitch : Bytes := Tables.md_pcm_pitch_table.flatMap fun r => r.map fun n => UInt8.ofNat n
  s!"pcmtab init={if g.tablesInitialized then 1 else 0} vol={lenfnv bytes} row3={hexOf row3} pitch={hexOf pitch}"

/-- spec for the table: entry [t][i] is the sample i (offset binary) scaled by volt[t]/256,
rounded towards minus infinity — checked on the row the harness prints -/
def pcmtabJudge (_ impl : String) : String :=
  let t := words impl
  match fieldOf t "row3=", fieldOf t "init=" with
  | some h, some "1" =>
    match bytesOfHex h with
    | some b =>
      let want : Bytes := (List.range 16).map fun k =>
        let s : Int := ((120 + k : Nat) : Int) - 128
        int8Byte (Int.fdiv (s * ((Tables.md_pcm_volt.getD 3 0 : Nat) : Int)) 256)
      if b = want then "ok" else "fail volume table row 3 is not sample*volt/256"
    | none => "fail unreadable row"
  | _, _ => "fail tables not initialised after constructing a driver"

def linkModel (_ : String) : String := "linktwice skip"

def linkJudge (_ impl : String) : String :=
  let t := words impl
  match fieldOf t "after-earlier-calls=", fieldOf t "single-call=", fieldOf t "second-call=" with
  | some a, some b, some c =>
    if a = b ∧ b = c then "ok"
    else s!"fail MDSDRV_Linker::get_seq_data depends on earlier calls: after-earlier-calls={a} single-call={b} second-call={c}"
  | _, _, _ => if impl.startsWith "linktwice exc:" then "skip" else "fail no answer"

def handlers : List Driver.Handler := [
  { cmd := "hist", model := model, judge := judge },
  { cmd := "pcmtab", model := pcmtabModel, judge := pcmtabJudge },
  { cmd := "linktwice", model := linkModel, judge := linkJudge }]
end Driver.HistD
