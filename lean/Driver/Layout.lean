/- Driver for the stream `mml.layouts` (`lay`, `layx`) — C06.
   model: every layout of the request through Model/Mml (`readLines` on a fresh state);
   judge: Spec/Layout + Spec/MmlMeaning applied to the implementation's answer. -/
import Driver.Mml
import Ctrmml.Spec.Layout
namespace Driver.LayoutD
open Ctrmml Ctrmml.Lexer Ctrmml.TrackBuilder Ctrmml.Mml Driver Driver.MmlD
open Ctrmml.MmlMeaning (Cmd)
open Ctrmml.Layout (Item Segment Stream)

/-- split the request tokens before `@` into layouts at the `/` tokens -/
def splitLayouts (toks : List String) : List (List String) :=
  let toks := toks.takeWhile (· ≠ "@")
  let (done, cur) := toks.foldl (fun (acc : List (List String) × List String) t =>
    if t == "/" then (acc.1 ++ [acc.2], []) else (acc.1, acc.2 ++ [t])) ([], [])
  done ++ [cur]

def showLayoutState (e : Option Err) (s : MmlState) : String :=
  let tr := if s.song.tracks.isEmpty then "-" else
    ";".intercalate (s.song.tracks.map fun (id, t) => s!"T{id}:{showBEvents false t.events}")
  s!"err={showErr e} tracks={tr}"

def runLayout (lines : List String) : String :=
  match lines.mapM unhex with
  | none => "bad-request"
  | some ls =>
    match readLines 0 ls MmlState.init with
    | .ok _ s => showLayoutState none s
    | .err e s => showLayoutState (some e) s

def runLay (arg : String) : String :=
  " | ".intercalate ((splitLayouts (words arg)).map runLayout)

/-! ### judge -/

/-- abstract stream tokens: `T:<id>,<id>,…` opens a segment; `{{` … `//` … `}}` a conditional
block; every other token is a command in the C05 token syntax -/
def parseStream (toks : List String) : Option Stream := do
  let mut segs : List Segment := []
  let mut cur : Option Segment := none
  let mut blk : Option (List (List Cmd)) := none   -- alternatives closed so far
  let mut alt : List Cmd := []
  for t in toks do
    if t.startsWith "T:" then
      if blk.isSome then none
      if let some c := cur then segs := segs ++ [c]
      let ids ← ((t.drop 2).toString.splitOn ",").mapM (·.toNat?)
      cur := some { tracks := ids, items := [] }
    else if t == "{{" then
      if blk.isSome then none
      blk := some []
      alt := []
    else if t == "//" then
      match blk with
      | some as => blk := some (as ++ [alt]); alt := []
      | none => none
    else if t == "}}" then
      match blk, cur with
      | some as, some c =>
        cur := some { c with items := c.items ++ [.block (as ++ [alt])] }
        blk := none
        alt := []
      | _, _ => none
    else
      let c ← parseCmd t
      match blk, cur with
      | some _, _ => alt := alt ++ [c]
      | none, some s => cur := some { s with items := s.items ++ [.cmd c] }
      | none, none => none
  if blk.isSome then none
  if let some c := cur then segs := segs ++ [c]
  pure segs

def streamOf (arg : String) : Option Stream :=
  match (words arg).dropWhile (· ≠ "@") with
  | _ :: toks => parseStream toks
  | [] => none

structure ImplLayout where
  err : String
  tracks : List ImplTrack

def parseImplLayouts (impl : String) : Option (List ImplLayout) :=
  (impl.splitOn " | ").mapM fun l => do
    let e ← fieldOf l "err"
    let t ← fieldOf l "tracks" >>= parseImplTracks
    pure { err := e, tracks := t }

/-- events of track `id` in a layout's answer (an absent track has no events) -/
def eventsOf (l : ImplLayout) (id : Nat) : List Event :=
  ((l.tracks.find? (·.id == id)).map (·.events)).getD []

/-- the spec's meaning of a command list against the events recorded for it -/
def judgeTrack (cmds : List Cmd) (evs : List Event) : Option String :=
  let exp := MmlMeaning.meaning cmds
  if !exp.exact then none else judgeExpected exp evs

def firstSome {α β} (l : List α) (f : α → Option β) : Option β := l.findSome? f

def judgeLay (arg impl : String) : String :=
  match parseImplLayouts impl with
  | none => if impl.startsWith "crash" || impl == "timeout" then "fail crash" else "skip"
  | some [] => "skip"
  | some (l0 :: ls) =>
    match streamOf arg with
    | none =>
      -- no abstract stream: only the metamorphic comparison
      "skip"
    | some st =>
      if !Layout.wellFormed st then "skip" else
      let tag := if Layout.nestedSeparator st then "d16_nested_separator " else ""
      let layouts := l0 :: ls
      let nerr := (layouts.filter (·.err != "-")).length
      -- an error is a property of some track's command list: every layout meets one, or none does
      if nerr != 0 && nerr != layouts.length then
        let i := (layouts.findIdx? (·.err != "-")).getD 0
        s!"fail {tag}rejected_by_layout only {nerr} of {layouts.length} layouts are rejected, e.g. L{i}: {(layouts.getD i l0).err}"
      else if nerr != 0 then
        -- all rejected; when the spec gives every track an exact meaning, a rejection is wrong
        let ids := Layout.trackIds st
        if ids.all (fun t => (MmlMeaning.meaning (Layout.project st t)).exact) then s!"fail {tag}rejected {l0.err}" else "ok all-rejected"
      else
        let ids := Layout.trackIds st
        let allIds := (layouts.flatMap fun l => l.tracks.filter (fun t => !t.events.isEmpty) |>.map (·.id)).eraseDups
        -- 1. events only on addressed tracks (track letters / digits / `*n` select the documented numbers)
        match allIds.find? (fun t => !ids.contains t) with
        | some t => s!"fail {tag}track_id events on track {t}, which the stream does not address"
        | none =>
        -- 2. all layouts agree, track by track (a listed track without events = an absent track)
        let differ := firstSome (List.range ls.length) fun i =>
          firstSome ids fun t =>
            if eventsOf (ls.getD i l0) t != eventsOf l0 t then
              some s!"fail {tag}layout_differs L{i + 1} vs L0 on track {t}: {showEvents (eventsOf (ls.getD i l0) t)} vs {showEvents (eventsOf l0 t)}"
            else none
        match differ with
        | some f => f
        | none =>
        -- 3. … and they equal the meaning of the command list each track receives
        let bad := firstSome ids fun t =>
          (judgeTrack (Layout.project st t) (eventsOf l0 t)).map fun f => s!"fail {tag}track {t}: {f}"
        match bad with
        | some f => f
        | none => if ids.all (fun t => (MmlMeaning.meaning (Layout.project st t)).exact) then "ok exact" else "ok agree"

/-- `layx`: texts that are NOT layouts of any stream (a block with fewer alternatives than
tracks, an unterminated block, a block split over lines): every one must be rejected -/
def judgeLayx (_arg impl : String) : String :=
  match parseImplLayouts impl with
  | none => if impl.startsWith "crash" || impl == "timeout" then "fail crash" else "skip"
  | some ls =>
    match ls.findIdx? (·.err == "-") with
    | some i => s!"fail accepted L{i} is accepted: tracks={";".intercalate ((ls.getD i {err := "", tracks := []}).tracks.map fun t => s!"T{t.id}:{showEvents t.events}")}"
    | none => if ls.all (·.err.startsWith "input:") then "ok rejected" else "fail foreign_exception"

def handlers : List Driver.Handler := [
  { cmd := "lay", model := runLay, judge := judgeLay },
  { cmd := "layx", model := runLay, judge := judgeLayx }]

end Driver.LayoutD
