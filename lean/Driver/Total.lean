/- C15 driver.
   streams `total` / `tool`: the whole pipeline on one MML text (+ side files).
     total <opts> <mml hex|-> [<name>=<payload>]...      (harness/h_total.cpp)
   MODEL: `Pipeline.pipelineS` (Model/Pipeline) run stage by stage on the same bytes; the answer is
   the stage and class of the first outcome that is not `ok`:
       ok | input_error@<stage> | foreign@<stage>:<kind> | unmodelled@<stage>:<why> | skipped:<why>
   `unmodelled` = the model reached a `Residual` (no Lean model: the VGM play loop for a song
   outside the subset of Model/MdDriver, a definition or platform command outside C09/C11's
   models); the comparison then only says that the implementation got at least that far.
   The link stage is `Pipeline.linkStage` (Model/Linker on the exported container), the VGM export
   `MdDriver.exportSong` (C07/C08's driver model).  `skipped` = the input is larger than the bound
   for the model stream (the implementation still runs it under the sanitizers).
   JUDGE: the outcome set of the property applied to the implementation's answer.
   stream `wavfix`: `Wave_Bank::add_sample(Tag)` on canonical and malformed WAV files in a forked
   child; the model is C14's (Driver/Wave, Model/Wave = the repaired reader). -/
import Driver.Common
import Driver.Wave
import Driver.Mml
import Ctrmml.Model.Pipeline
namespace Driver.TotalD
open Ctrmml Ctrmml.Pipeline Driver

/-- bounds of the model stream (bytes of MML text) -/
def maxText : Nat := 6000
def maxTextOpt : Nat := 1500
/-- events of the whole song above which the optimiser model is not run (its search is cubic) -/
def maxEventsOpt : Nat := 120
/-- values of one tag above which the definition compilers of Model/MdsData are not run -/
def maxTagValues : Nat := 100
/-- ticks of one channel track above which the driver model (one iteration per 1/60 s) is not run -/
def maxVgmTicks : Nat := 1500
/-- smallest tempo parameter (`t`, `T`) with which it is run -/
def minVgmTempo : Int := 24

/-- the VGM export of this song would take the driver model too many iterations -/
def vgmTooLong (song : Song) : Bool :=
  song.tracks.any (fun p => p.2.any fun e =>
    (e.type == Tables.ev_TEMPO || e.type == Tables.ev_TEMPO_BPM) && decide (e.param < minVgmTempo)) ||
  song.tracks.any fun p =>
    p.1 < 16 &&
    match Player.runValidator song p.2 Refs.validatorFuel Player.initState with
    | .ok s => decide (s.acc.playTime > maxVgmTicks)
    | .error _ => false

/-- why the model is not run on this parsed input (`none` = it is) -/
def tooBig (opt : Bool) (fmt : Format) (st : Mml.MmlState) : Option String :=
  let events := (st.song.tracks.map fun p => p.2.events.length).foldl (· + ·) 0
  let tags := tagListOf (Refs.replayTags st.song.tagCalls)
  if opt && events > maxEventsOpt then some "optimiser-input" else
  if tags.any (fun kv => kv.2.length > maxTagValues) then some "long-definition" else
  if fmt == .vgm && vgmTooLong (songOf st) then some "vgm-length" else none

def unmodelled : Residual :=
  { vgmPlay := fun _ _ => .foreign "UNMODELLED:vgm-outside-driver-subset",
    mdsGap := fun _ => .foreign "UNMODELLED:definition-or-platform-command-outside-the-model" }

/-- the decidable side conditions of `C15_optimize_routed` on the parsed song, re-stated over Bool
(the Driver files use core only; Proofs/PipelineOpt has the `Prop` version `OptDomain`) -/
def inOptDomain (text : List Nat) : Bool :=
  match parseStage text with
  | .ok st =>
    let song := songOf st
    let ids := song.tracks.map (·.1)
    let events := (song.tracks.map fun p => p.2.length).foldl (· + ·) 0
    (ids.zip (ids.drop 1)).all (fun p => p.1 < p.2) && ids.all (· < 32767) &&
    song.tracks.all (fun p => p.2.length < 32767 &&
      p.2.all fun e => (e.type != Tables.ev_LOOP_BREAK || (e.on == 0 && e.off == 0)) &&
        (!(e.type == Tables.ev_JUMP || e.type == Tables.ev_NOTE) || (decide (-32768 ≤ e.param) && decide (e.param < 32768)))) &&
    decide (Opt.initialSubId song + Int.ofNat events < 32767)
  | _ => true

def stageName : Stage → String
  | .parse => "parse" | .validate => "validate" | .optimize => "optimize" | .export => "export" | .link => "link"

def token (s : String) : String :=
  String.ofList (s.toList.map fun c => if c.isAlphanum || c == '-' || c == ':' || c == '.' then c else '_')

structure Req where
  fmt : Format
  opt : Bool
  text : List Nat
  files : List (String × Bytes)
  /-- a side "file" that is a directory of the real file system (the shipped sample/pcm) -/
  dirSide : Bool

def parseReq (arg : String) : Option Req := do
  match words arg with
  | opts :: hex :: side =>
    let fmt ← match opts.toList.head? with
      | some 'm' => some Format.mds | some 'v' => some Format.vgm | some 'l' => some Format.link | _ => none
    let text ← MmlD.unhex hex
    let mut files : List (String × Bytes) := []
    let mut dir := false
    for s in side do
      match s.splitOn "=" with
      | [name, spec] =>
        if spec.startsWith "d:" then dir := true
        else files := files ++ [(name, ← payloadOf spec)]
      | _ => none
    pure { fmt := fmt, opt := opts.contains 'O', text := text, files := files, dirSide := dir }
  | _ => none

/-- does the text define a `pcm` instrument (its file would be looked up in a directory) -/
def mentionsPcm (text : List Nat) : Bool :=
  let s := String.ofList (text.map fun b => (Char.ofNat b).toLower)
  (s.splitOn "pcm").length > 1

def model (arg : String) : String :=
  match parseReq arg with
  | none => "bad-request"
  | some r =>
    if r.text.length > (if r.opt then maxTextOpt else maxText) then "skipped:size" else
    match (match parseStage r.text with | .ok st => tooBig r.opt r.fmt st | _ => none) with
    | some why => s!"skipped:{why}"
    | none =>
    let (stage, out) := pipelineS unmodelled r.files r.opt r.fmt { steps := Refs.validatorFuel, passes := 100000 } r.text
    -- files of a real directory are not visible to the model: only the stages before the export count
    if r.dirSide && mentionsPcm r.text && (stage == .export || stage == .link) then "unmodelled@export:sample-directory" else
    match out with
    | .ok _ => "ok"
    | .inputError _ => s!"input_error@{stageName stage}"
    | .foreign k =>
      if k.startsWith "UNMODELLED:" then s!"unmodelled@{stageName stage}:{(k.drop 11).toString}"
      -- `-O` outside the side conditions of the optimise-stage theorem (never within the stream's bounds)
      else if r.opt && !inOptDomain r.text then s!"unmodelled@optimize:outside-OptDomain"
      -- the step budgets of the executable model (validator 3·10^6 steps, optimiser 10^5 passes) are a
      -- bound of the model stream, not a prediction: the theorems quantify over all budgets
      else if k == "hang" then s!"skipped:model-step-budget@{stageName stage}"
      else s!"foreign@{stageName stage}:{token k}"

/-- the spec on the implementation's answer: `ok`, or the library's InputError with a
non-empty message class (`input_error@<stage>:<class>`); for the executables exit status 0, or
255 together with a message on stderr -/
def judge (_arg impl : String) : String :=
  if impl == "ok" then "ok"
  else if impl.startsWith "input_error@" then
    match impl.splitOn ":" with
    | _ :: m :: _ => if m.isEmpty then "fail input error without a message" else "ok"
    | _ => "fail input error without a message"
  else if impl.startsWith "exit:0:" then "ok"
  else if impl == "exit:255:msg" then "ok"
  else if impl == "exit:255:nomsg" then "fail error exit without a message"
  else if impl == "bad-request" || impl == "no-tool" then "skip"
  else s!"fail {impl}"

/-- spec on the implementation's answer for `wavfix`: no window outside the rom (crash/timeout
are failures by the framework's own rule) -/
def wavJudge (_arg impl : String) : String :=
  if (impl.splitOn "=oob").length > 1 then "fail window outside the rom" else "ok"

def handlers : List Driver.Handler :=
  [{ cmd := "total", model := model, judge := judge }, { cmd := "tool", model := model, judge := judge },
   { cmd := "wavfix", model := WaveD.model, judge := wavJudge }]

end Driver.TotalD
