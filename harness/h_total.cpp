// stream total — C15: the whole pipeline on one MML text (+ side files), as the tools run it.
//
//   total <opts> <mml hex|-> [<name>=<payload>]...
//       opts: one format letter  m = export "mds" (mmlc -f mds)
//                                v = export "vgm" (mmlc -f vgm)
//                                l = mdslink's path: convert, link, seq/pcm data, statistics, headers
//             optionally followed by O (mmlc -O: run the optimiser between validation and export)
//       (or d:<absolute directory>: a symbolic link to an existing directory, for sample/pcm)
//       the text is written to <work>/in.mml, the side files (names [A-Za-z0-9_.-]+, payload
//       h:<hex> or f:<len>:<seed>) beside it, and the calls of mmlc.cpp / mdslink.cpp are made
//       in their order in a forked child (CPU-time limit, stderr captured):
//         MML_Input::open_file → Song_Validator → [Optimizer::optimize] → get_export_data
//       answer (one token):
//         ok
//         input_error@<stage>:<message class>      the library's InputError with a message
//         input_error_nomsg@<stage>                InputError whose what() is empty
//         exception:<type>@<file:function of the throw>   any other exception type
//         sanitizer:<kind>@<file:function>         ASan / UBSan report (first frame in /repo/src)
//         signal:<n>   timeout@<file:function>   timeout
//   wavfix <max> <bank> | T x:<file hex> [args]   = C14's `wave` request (see h_wave.cpp)
//   tool <opts> <mml hex|-> [<name>=<payload>]...
//       the same files given to the built executables (mmlc / mdslink, ASan+UBSan, beside the
//       harness binary) as a subprocess:  exit:<status>:<msg|nomsg>  | sanitizer:… | signal:<n> | timeout
#ifndef VERIF_MALLOC_FILL   // not part of the plain (no sanitizer) variant used by C16
#include "h_common.h"
#include "song.h"
#include "input.h"
#include "mml_input.h"
#include "player.h"
#include "optimizer.h"
#include "stringf.h"
#include "riff.h"
#include "platform/mdsdrv.h"
#include <unistd.h>
#include <sys/wait.h>
#include <sys/stat.h>
#include <sys/time.h>
#include <sys/resource.h>
#include <fcntl.h>
#include <dirent.h>
#include <poll.h>
#include <dlfcn.h>
#include <execinfo.h>
#include <csignal>
#include <fstream>
#include <iostream>
#include <typeinfo>
#include <cxxabi.h>

extern "C" void __sanitizer_symbolize_pc(void* pc, const char* fmt, char* out_buf, size_t out_buf_size);

namespace {

const int CPU_SECONDS = 8;      // CPU time of one pipeline run before it is called a hang
const int CPU_SECONDS_OPT = 90; // ... with -O (the optimiser needs ~9 s on the largest shipped song under ASan)
const int WALL_FACTOR = 8;      // hard wall-clock limit enforced by the parent = factor * CPU limit (the machine may be loaded)

// ---------------------------------------------------------------- throw-site recording
} // namespace
// defined in h_total_throw.cpp (the __cxa_throw wrapper)
extern void* g_throw_frames[40];
extern int g_throw_n;
extern bool g_record_throws;
namespace {

std::string base_name(const std::string& p)
{
	size_t s = p.rfind('/');
	return s == std::string::npos ? p : p.substr(s + 1);
}

std::string strip_args(std::string f)
{
	size_t p = f.find('(');
	if(p != std::string::npos) f = f.substr(0, p);
	for(char& c : f) if(c == ' ') c = '_';
	return f;
}

bool repo_path(const std::string& path)
{
	return path.find("/src/") != std::string::npos && path.find("/harness/") == std::string::npos
		&& path.find("/include/") == std::string::npos && path.find("/libsanitizer/") == std::string::npos
		&& path.find("/libstdc++") == std::string::npos;
}

// first frame that lies in the repository source: "<file>:<function>"
std::string repo_frame(void** frames, int n)
{
	for(int i = 0; i < n; i++)
	{
		char buf[1024];
		buf[0] = 0;
		__sanitizer_symbolize_pc((char*)frames[i] - 1, "%s|%f", buf, sizeof buf);
		std::string s(buf);
		size_t bar = s.find('|');
		if(bar == std::string::npos) continue;
		std::string path = s.substr(0, bar), fn = s.substr(bar + 1);
		if(repo_path(path))
			return base_name(path) + ":" + strip_args(fn);
	}
	return "?";
}

} // namespace

namespace {

struct Mute
{
	int saved;
	Mute()
	{
		fflush(stdout);
		std::cout.flush();
		saved = dup(1);
		int n = open("/dev/null", O_WRONLY);
		dup2(n, 1);
		close(n);
	}
	~Mute()
	{
		fflush(stdout);
		std::cout.flush();
		dup2(saved, 1);
		close(saved);
	}
};

std::string slug(const std::string& s, size_t maxlen)
{
	std::string o;
	bool lastn = false;
	for(unsigned char c : s)
	{
		if(isdigit(c))
		{
			if(!lastn) o.push_back('N');
			lastn = true;
			continue;
		}
		lastn = false;
		if(isalpha(c) || c == '_' || c == '\'' || c == '[' || c == ']' || c == '-' || c == '+' || c == '.' || c == ',')
			o.push_back(c);
		else
			o.push_back('_');
		if(o.size() >= maxlen) break;
	}
	return o;
}

// message of an InputError without the "file:line:col: " prefix
std::string message_class(const std::string& what, const std::string& fname)
{
	std::string m = what;
	size_t p = m.find(fname + ":");
	if(p == 0)
	{
		// file:line:col: msg
		size_t q = fname.size() + 1;
		while(q < m.size() && isdigit((unsigned char)m[q])) q++;
		if(q < m.size() && m[q] == ':') q++;
		while(q < m.size() && isdigit((unsigned char)m[q])) q++;
		if(q + 1 < m.size() && m[q] == ':' && m[q + 1] == ' ') q += 2;
		m = m.substr(q);
	}
	return slug(m, 48);
}

const char* volatile g_stage = "start";
int g_result_fd = -1;

void put_result(const std::string& r)
{
	ssize_t w = write(g_result_fd, r.data(), r.size());
	(void)w;
}

void on_cpu_limit(int)
{
	void* fr[40];
	int n = backtrace(fr, 40);
	std::string r = "timeout@" + repo_frame(fr, n);
	put_result(r);
	_exit(0);
}

std::string demangled(const std::type_info* t)
{
	if(!t) return "unknown";
	int st = 0;
	char* d = abi::__cxa_demangle(t->name(), 0, 0, &st);
	std::string s = d ? d : t->name();
	free(d);
	return slug(s, 40);
}

// the calls of mmlc.cpp main() (format "mds"/"vgm", optional -O) or mdslink.cpp main() ('l')
std::string run_pipeline(const std::string& opts, const std::string& path)
{
	char fmt = opts.empty() ? 'm' : opts[0];
	bool optimize = opts.find('O') != std::string::npos;
	Mute mute;
	g_record_throws = true;
	try
	{
		if(fmt == 'l')
		{
			auto linker = MDSDRV_Linker();
			RIFF mds = RIFF(0);
			{
				g_stage = "parse";
				Song song;
				MML_Input input = MML_Input(&song);
				input.open_file(path);
				g_stage = "validate";
				auto validator = Song_Validator(song);
				for(auto it = validator.get_track_map().begin(); it != validator.get_track_map().end(); it++)
				{
					std::cout << stringf("Track%3d:%7d", it->first, it->second.get_play_time());
					if(auto length = it->second.get_loop_length())
						std::cout << stringf(" (loop %7d)", length);
					std::cout << "\n";
				}
				g_stage = "export";
				auto converter = MDSDRV_Converter(song);
				mds = converter.get_mds();
			}
			g_stage = "link";
			linker.add_song(mds, "in");
			auto seq = linker.get_seq_data();
			auto pcm = linker.get_pcm_data();
			std::cout << linker.get_statistics();
			auto ah = linker.get_asm_header();
			auto ch = linker.get_c_header();
			return "ok";
		}
		g_stage = "parse";
		Song song;
		MML_Input input = MML_Input(&song);
		input.open_file(path);
		g_stage = "validate";
		{
			auto validator = Song_Validator(song);
			for(auto it = validator.get_track_map().begin(); it != validator.get_track_map().end(); it++)
			{
				std::cout << stringf("Track%3d:%7d", it->first, it->second.get_play_time());
				if(auto length = it->second.get_loop_length())
					std::cout << stringf(" (loop %7d)", length);
				std::cout << "\n";
			}
		}
		unsigned int format_id = 0;
		std::string format = fmt == 'v' ? "vgm" : "mds";
		auto format_list = song.get_platform()->get_export_formats();
		for(auto&& i : format_list)
		{
			if(iequal(i.first, format))
				break;
			format_id++;
		}
		if(format_id == format_list.size())
			return "format_not_available";
		if(optimize)
		{
			g_stage = "optimize";
			Optimizer opt(song, 1);
			opt.optimize();
			printf("\n");
		}
		g_stage = "export";
		std::vector<uint8_t> bytes = song.get_platform()->get_export_data(song, format_id);
		return "ok";
	}
	catch(InputError& e)
	{
		g_record_throws = false;
		std::string w = e.what();
		if(w.empty())
			return std::string("input_error_nomsg@") + (const char*)g_stage;
		return std::string("input_error@") + (const char*)g_stage + ":" + message_class(w, path);
	}
	catch(std::exception& e)
	{
		g_record_throws = false;
		return "exception:" + exc_name(e) + "@" + repo_frame(g_throw_frames, g_throw_n);
	}
	catch(...)
	{
		g_record_throws = false;
		return "exception:" + demangled(abi::__cxa_current_exception_type()) + "@" + repo_frame(g_throw_frames, g_throw_n);
	}
}

// ---------------------------------------------------------------- work directory
int g_counter = 0;

bool safe_name(const std::string& n)
{
	if(n.empty() || n == "." || n == "..") return false;
	for(unsigned char c : n)
		if(!(isalnum(c) || c == '_' || c == '.' || c == '-')) return false;
	return true;
}

void remove_dir(const std::string& d)
{
	DIR* dir = opendir(d.c_str());
	if(dir)
	{
		while(struct dirent* e = readdir(dir))
		{
			std::string n = e->d_name;
			if(n == "." || n == "..") continue;
			unlink((d + "/" + n).c_str());
		}
		closedir(dir);
	}
	rmdir(d.c_str());
}

bool write_file(const std::string& p, const std::vector<uint8_t>& b)
{
	FILE* f = fopen(p.c_str(), "wb");
	if(!f) return false;
	if(b.size()) fwrite(b.data(), 1, b.size(), f);
	fclose(f);
	return true;
}

std::string read_text(const std::string& p, size_t limit = 1 << 20)
{
	std::string s;
	FILE* f = fopen(p.c_str(), "rb");
	if(!f) return s;
	char buf[65536];
	size_t n;
	while((n = fread(buf, 1, sizeof buf, f)) > 0 && s.size() < limit)
		s.append(buf, n);
	fclose(f);
	return s;
}

// returns "" or the work directory with in.mml and the side files in it
std::string setup_files(const std::vector<std::string>& t)
{
	char d[64];
	snprintf(d, sizeof d, "w%d_%d", (int)getpid(), g_counter++);
	remove_dir(d);
	if(mkdir(d, 0777) != 0) return "";
	std::string dir = d;
	std::vector<uint8_t> mml = bytes_of_hex(t.at(1));
	if(!write_file(dir + "/in.mml", mml)) return "";
	for(size_t i = 2; i < t.size(); i++)
	{
		size_t eq = t[i].find('=');
		if(eq == std::string::npos) return "";
		std::string name = t[i].substr(0, eq);
		if(!safe_name(name)) return "";
		std::string spec = t[i].substr(eq + 1);
		if(spec.compare(0, 2, "d:") == 0)
		{
			// an existing directory (the shipped sample/pcm) made visible under this name
			if(symlink(spec.substr(2).c_str(), (dir + "/" + name).c_str()) != 0) return "";
		}
		else if(!write_file(dir + "/" + name, payload_of(spec))) return "";
	}
	return dir;
}

// ---------------------------------------------------------------- sanitizer report → class
std::string sanitizer_class(const std::string& err)
{
	std::string kind, frame = "?";
	size_t p = err.find("runtime error: ");
	size_t a = err.find("ERROR: AddressSanitizer: ");
	size_t l = err.find("ERROR: LeakSanitizer");
	size_t from = 0;
	if(p != std::string::npos && (a == std::string::npos || p < a))
	{
		size_t e = err.find('\n', p);
		std::string msg = err.substr(p + 15, e == std::string::npos ? std::string::npos : e - p - 15);
		std::istringstream is(msg);
		std::string w;
		int k = 0;
		while(is >> w && k < 5)
		{
			bool alpha = true;
			for(unsigned char c : w) if(!(isalpha(c) || c == '-')) alpha = false;
			if(!alpha) continue;
			kind += (k ? "-" : "") + w;
			k++;
		}
		// the location printed in front of "runtime error" is the site itself
		size_t ls = err.rfind('\n', p);
		std::string loc = err.substr(ls == std::string::npos ? 0 : ls + 1, p - (ls == std::string::npos ? 0 : ls + 1));
		from = p;
		(void)loc;
	}
	else if(a != std::string::npos)
	{
		size_t s = a + 25;
		size_t e = err.find_first_of(" \n", s);
		kind = err.substr(s, e - s);
		if(kind == "requested") kind = "allocation-size-too-big";
		from = a;
	}
	else if(l != std::string::npos)
	{
		kind = "leak";
		from = l;
	}
	else
		return "";
	// frames:  "    #1 0x... in <function> <path>:<line>[:<col>]"
	size_t pos = from;
	while(true)
	{
		size_t h = err.find("\n    #", pos);
		if(h == std::string::npos) break;
		size_t e = err.find('\n', h + 1);
		std::string line = err.substr(h + 1, e == std::string::npos ? std::string::npos : e - h - 1);
		pos = h + 1;
		size_t in = line.find(" in ");
		if(in == std::string::npos) continue;
		std::string rest = line.substr(in + 4);
		size_t sp = rest.rfind(' ');
		if(sp == std::string::npos) continue;
		std::string fn = rest.substr(0, sp), path = rest.substr(sp + 1);
		if(!repo_path(path)) continue;
		size_t c = path.find(':');
		if(c != std::string::npos) path = path.substr(0, c);
		frame = base_name(path) + ":" + strip_args(fn);
		break;
		if(e == std::string::npos) break;
	}
	return "sanitizer:" + kind + "@" + frame;
}

std::string describe_abnormal(int status, const std::string& err)
{
	std::string s = sanitizer_class(err);
	if(!s.empty()) return s;
	if(WIFSIGNALED(status))
	{
		char b[32];
		snprintf(b, sizeof b, "signal:%d", WTERMSIG(status));
		return b;
	}
	char b[32];
	snprintf(b, sizeof b, "exit:%d", WIFEXITED(status) ? WEXITSTATUS(status) : -1);
	return b;
}

// wait for child with a wall-clock limit; returns false on timeout (child killed)
bool wait_limited(pid_t pid, int fd, std::string& out, int& status, int seconds)
{
	struct timeval t0;
	gettimeofday(&t0, 0);
	bool eof = fd < 0;
	bool timed_out = false;
	while(!eof)
	{
		struct timeval now;
		gettimeofday(&now, 0);
		long left = seconds * 1000L - ((now.tv_sec - t0.tv_sec) * 1000L + (now.tv_usec - t0.tv_usec) / 1000);
		if(left <= 0) { timed_out = true; break; }
		struct pollfd pf = {fd, POLLIN, 0};
		int r = poll(&pf, 1, (int)left);
		if(r < 0 && errno == EINTR) continue;
		if(r <= 0) { timed_out = true; break; }
		char buf[4096];
		ssize_t n = read(fd, buf, sizeof buf);
		if(n <= 0) eof = true;
		else out.append(buf, n);
	}
	if(timed_out)
	{
		kill(pid, SIGKILL);
		waitpid(pid, &status, 0);
		return false;
	}
	// pipe closed: the child is exiting; reap it (bounded)
	for(int i = 0; i < seconds * 100; i++)
	{
		pid_t r = waitpid(pid, &status, WNOHANG);
		if(r == pid) return true;
		usleep(10000);
	}
	kill(pid, SIGKILL);
	waitpid(pid, &status, 0);
	return false;
}

std::string h_total(const std::string& arg)
{
	std::vector<std::string> t = split_ws(arg);
	if(t.size() < 2) return "bad-request";
	std::string dir = setup_files(t);
	if(dir.empty()) return "bad-request";
	std::string path = dir + "/in.mml";
	std::string errfile = dir + "/stderr.txt";
	int cpu = t[0].find('O') != std::string::npos ? CPU_SECONDS_OPT : CPU_SECONDS;
	int fd[2];
	if(pipe(fd) != 0) { remove_dir(dir); return "bad-request"; }
	fflush(stdout);
	fflush(stderr);
	pid_t pid = fork();
	if(pid == 0)
	{
		close(fd[0]);
		g_result_fd = fd[1];
		int e = open(errfile.c_str(), O_WRONLY | O_CREAT | O_TRUNC, 0666);
		if(e >= 0) { dup2(e, 2); close(e); }
		signal(SIGALRM, SIG_DFL);
		alarm(0);
		signal(SIGPROF, on_cpu_limit);
		struct itimerval it = {{0, 0}, {cpu, 0}};
		setitimer(ITIMER_PROF, &it, 0);
		struct rlimit rl = {(rlim_t)cpu + 10, (rlim_t)cpu + 10};
		setrlimit(RLIMIT_CPU, &rl);
		std::string r = run_pipeline(t[0], path);
		put_result(r);
		_exit(0);
	}
	close(fd[1]);
	std::string out;
	int status = 0;
	bool finished = wait_limited(pid, fd[0], out, status, cpu * WALL_FACTOR);
	close(fd[0]);
	std::string answer;
	if(!finished)
		answer = out.empty() ? "timeout" : out;
	else if(WIFEXITED(status) && WEXITSTATUS(status) == 0 && !out.empty())
		answer = out;
	else
		answer = describe_abnormal(status, read_text(errfile));
	remove_dir(dir);
	return answer;
}
HANDLER("total", h_total);

std::string tools_dir()
{
	char buf[4096];
	ssize_t n = readlink("/proc/self/exe", buf, sizeof buf - 1);
	if(n <= 0) return ".";
	buf[n] = 0;
	std::string p(buf);
	size_t s = p.rfind('/');
	return s == std::string::npos ? "." : p.substr(0, s);
}

std::string h_tool(const std::string& arg)
{
	std::vector<std::string> t = split_ws(arg);
	if(t.size() < 2) return "bad-request";
	std::string dir = setup_files(t);
	if(dir.empty()) return "bad-request";
	std::string errfile = "stderr.txt";
	char fmt = t[0].empty() ? 'm' : t[0][0];
	bool optimize = t[0].find('O') != std::string::npos;
	int cpu = optimize ? CPU_SECONDS_OPT : CPU_SECONDS;
	std::string exe = tools_dir() + (fmt == 'l' ? "/mdslink" : "/mmlc");
	if(access(exe.c_str(), X_OK) != 0) { remove_dir(dir); return "no-tool"; }
	fflush(stdout);
	fflush(stderr);
	pid_t pid = fork();
	if(pid == 0)
	{
		if(chdir(dir.c_str()) != 0) _exit(120);
		int e = open(errfile.c_str(), O_WRONLY | O_CREAT | O_TRUNC, 0666);
		if(e >= 0) { dup2(e, 2); close(e); }
		int n = open("/dev/null", O_WRONLY);
		if(n >= 0) { dup2(n, 1); close(n); }
		signal(SIGALRM, SIG_DFL);
		alarm(0);
		struct rlimit rl = {(rlim_t)cpu, (rlim_t)cpu + 1};
		setrlimit(RLIMIT_CPU, &rl);
		if(fmt == 'l')
			execl(exe.c_str(), "mdslink", "-o", "seq.bin", "pcm.bin", "-i", "seq.inc", "-h", "seq.h", "in.mml", (char*)0);
		else if(optimize)
			execl(exe.c_str(), "mmlc", "-O", "-f", fmt == 'v' ? "vgm" : "mds", "-o", "out.bin", "in.mml", (char*)0);
		else
			execl(exe.c_str(), "mmlc", "-f", fmt == 'v' ? "vgm" : "mds", "-o", "out.bin", "in.mml", (char*)0);
		_exit(121);
	}
	std::string out;
	int status = 0;
	bool finished = true;
	{
		// no pipe: poll the child
		struct timeval t0, now;
		gettimeofday(&t0, 0);
		while(true)
		{
			pid_t r = waitpid(pid, &status, WNOHANG);
			if(r == pid) break;
			gettimeofday(&now, 0);
			if(now.tv_sec - t0.tv_sec > cpu * WALL_FACTOR)
			{
				kill(pid, SIGKILL);
				waitpid(pid, &status, 0);
				finished = false;
				break;
			}
			usleep(2000);
		}
	}
	std::string err = read_text(dir + "/" + errfile);
	std::string answer;
	if(!finished || (WIFSIGNALED(status) && (WTERMSIG(status) == SIGXCPU || WTERMSIG(status) == SIGKILL)))
		answer = "timeout";
	else if(WIFEXITED(status) && (WEXITSTATUS(status) == 0 || WEXITSTATUS(status) == 255) && sanitizer_class(err).empty())
	{
		char b[64];
		// the message: anything on stderr that is not a parse warning
		snprintf(b, sizeof b, "exit:%d:%s", WEXITSTATUS(status), err.empty() ? "nomsg" : "msg");
		answer = b;
	}
	else
		answer = describe_abnormal(status, err);
	// remove outputs too
	remove_dir(dir);
	return answer;
}
HANDLER("tool", h_tool);

// wavfix: Wave_Bank::add_sample(Tag) on a hand-made file — the request syntax and the answer of
// C14's `wave` stream (harness/h_wave.cpp); the Lean side answers with the REPAIRED reader of
// Model/Pipeline instead of C14's model of the reader as it was
std::string h_wavfix(const std::string& arg)
{
	// in a forked child with a CPU limit, like `total`: a reader that stalls or reads outside
	// the file is the answer `timeout` / `crash <class>` of this request only
	int fd[2];
	if(pipe(fd) != 0) return "bad-request";
	fflush(stdout);
	fflush(stderr);
	char errname[64];
	snprintf(errname, sizeof errname, "wavfix_%d_%d.err", (int)getpid(), g_counter++);
	pid_t pid = fork();
	if(pid == 0)
	{
		close(fd[0]);
		g_result_fd = fd[1];
		int e = open(errname, O_WRONLY | O_CREAT | O_TRUNC, 0666);
		if(e >= 0) { dup2(e, 2); close(e); }
		signal(SIGALRM, SIG_DFL);
		alarm(0);
		struct rlimit rl = {(rlim_t)CPU_SECONDS, (rlim_t)CPU_SECONDS + 1};
		setrlimit(RLIMIT_CPU, &rl);
		std::string r;
		try { r = registry().at("wave")(arg); }
		catch(InputError&) { r = "uncaught:InputError"; }
		catch(std::exception& e) { r = "uncaught:" + exc_name(e); }
		put_result(r);
		_exit(0);
	}
	close(fd[1]);
	std::string out;
	int status = 0;
	bool finished = wait_limited(pid, fd[0], out, status, CPU_SECONDS * WALL_FACTOR);
	close(fd[0]);
	std::string err = read_text(errname);
	unlink(errname);
	if(!finished || (WIFSIGNALED(status) && (WTERMSIG(status) == SIGXCPU || WTERMSIG(status) == SIGKILL)))
		return "timeout";
	if(WIFEXITED(status) && WEXITSTATUS(status) == 0 && !out.empty())
		return out;
	return "crash " + describe_abnormal(status, err);
}
HANDLER("wavfix", h_wavfix);

} // namespace

#endif // VERIF_MALLOC_FILL
