// stream riff.ops — C13
#include "h_common.h"
#include "riff.h"
#include "util.h"

// tree tokens:  C <type8> <payload>  |  L <type8> <id8> <n> child*n  |  S <type8> <id8> <n> child*n (list added to itself)
static RIFF build_tree(const std::vector<std::string>& t, size_t& i)
{
	const std::string& k = t.at(i++);
	if(k == "C")
	{
		uint32_t type = strtoul(t.at(i++).c_str(), 0, 16);
		std::vector<uint8_t> p = payload_of(t.at(i++));
		return RIFF(type, p);
	}
	else if(k == "L")
	{
		uint32_t type = strtoul(t.at(i++).c_str(), 0, 16);
		uint32_t id = strtoul(t.at(i++).c_str(), 0, 16);
		unsigned long n = strtoul(t.at(i++).c_str(), 0, 10);
		RIFF r(type, id);
		for(unsigned long c = 0; c < n; c++)
			r.add_chunk(build_tree(t, i));
		return r;
	}
	else if(k == "S")
	{
		// a list that is then nested into itself: r.add_chunk(r)
		uint32_t type = strtoul(t.at(i++).c_str(), 0, 16);
		uint32_t id = strtoul(t.at(i++).c_str(), 0, 16);
		unsigned long n = strtoul(t.at(i++).c_str(), 0, 10);
		RIFF r(type, id);
		for(unsigned long c = 0; c < n; c++)
			r.add_chunk(build_tree(t, i));
		r.add_chunk(r);
		return r;
	}
	throw std::runtime_error("bad tree");
}

static std::string walk(const std::vector<uint8_t>& bytes)
{
	RIFF r(bytes);
	char buf[96];
	if(r.get_type() == RIFF::TYPE_RIFF || r.get_type() == RIFF::TYPE_LIST)
	{
		uint32_t id = r.get_id();
		snprintf(buf, sizeof buf, "L:%08x:%08x:[", r.get_type(), id);
		std::string s = buf;
		bool first = true;
		while(!r.at_end())
		{
			std::string c = walk(r.get_chunk());
			if(!first) s += ",";
			s += c;
			first = false;
		}
		return s + "]";
	}
	snprintf(buf, sizeof buf, "C:%08x:", r.get_type());
	return buf + lenfnv(r.get_data());
}

static std::string h_riff(const std::string& arg)
{
	std::string treepart = arg, ops;
	size_t bar = arg.find('|');
	if(bar != std::string::npos) { treepart = arg.substr(0, bar); ops = arg.substr(bar + 1); }
	std::vector<std::string> t = split_ws(treepart);
	size_t i = 0;
	std::vector<uint8_t> bytes;
	std::string out;
	try
	{
		RIFF r = build_tree(t, i);
		bytes = r.to_bytes();
		out = "ser=" + lenfnv(bytes);
	}
	catch(std::exception& e) { return std::string("ser=exc:") + exc_name(e); }
	for(const std::string& op : split_ws(ops))
	{
		if(op.compare(0, 6, "trunc:") == 0)
		{
			size_t n = strtoul(op.c_str() + 6, 0, 10);
			if(n < bytes.size()) bytes.resize(n);
		}
		else if(op.compare(0, 4, "w32:") == 0)
		{
			size_t c = op.find(':', 4);
			size_t off = strtoul(op.substr(4, c - 4).c_str(), 0, 10);
			uint32_t v = strtoul(op.substr(c + 1).c_str(), 0, 10);
			if(off + 4 <= bytes.size()) write_le32(bytes, off, v);
		}
	}
	try { out += " walk=" + walk(bytes); }
	catch(std::exception& e) { out += std::string(" walk=exc:") + exc_name(e); }
	try { RIFF r(bytes); out += " reser=" + lenfnv(r.to_bytes()); }
	catch(std::exception& e) { out += std::string(" reser=exc:") + exc_name(e); }
	out += " in=" + lenfnv(bytes);
	return out;
}
HANDLER("riff", h_riff);
