// C16: interposed allocator for the NON-ASan harness variant (compiled only with
// -DVERIF_MALLOC_FILL; empty translation unit in the ASan build).  Every fresh malloc block,
// every byte a realloc adds and every freed block is filled from a xorshift stream seeded by
// $VERIF_FILL_SEED, so that uninitialised reads and stale heap data differ between seeds.
#ifdef VERIF_MALLOC_FILL
#include <cstddef>
#include <cstdint>
#include <cstdlib>
#include <malloc.h>
extern "C" {
void* __libc_malloc(size_t);
void* __libc_realloc(void*, size_t);
void __libc_free(void*);
}
static uint64_t fill_state;
static int fill_ready;
static inline void fill(void* p, size_t from, size_t to)
{
	if(!fill_ready)
	{
		const char* e = getenv("VERIF_FILL_SEED");
		uint64_t s = 0x9e3779b97f4a7c15ull;
		if(e) for(; *e >= '0' && *e <= '9'; e++) s = s * 1000003u + (uint64_t)(*e - '0' + 1);
		fill_state = s ? s : 1;
		fill_ready = 1;
	}
	uint8_t* b = (uint8_t*)p;
	uint64_t x = fill_state;
	for(size_t i = from; i < to; i++)
	{
		if((i & 7) == 0) { x ^= x << 13; x ^= x >> 7; x ^= x << 17; }
		b[i] = (uint8_t)(x >> ((i & 7) * 8));
	}
	fill_state = x;
}
extern "C" void* malloc(size_t n)
{
	void* p = __libc_malloc(n);
	if(p) fill(p, 0, malloc_usable_size(p));
	return p;
}
extern "C" void* realloc(void* p, size_t n)
{
	size_t old = p ? malloc_usable_size(p) : 0;
	void* q = __libc_realloc(p, n);
	if(q && n)
	{
		size_t nu = malloc_usable_size(q);
		if(nu > old) fill(q, old, nu);
	}
	return q;
}
extern "C" void free(void* p)
{
	if(p) fill(p, 0, malloc_usable_size(p));
	__libc_free(p);
}
#endif
