// streams player.trace / valid — C04 (and the base of C01, C02, C12)
#include "h_song.h"
#include "player.h"

class Trace_Player : public Basic_Player
{
	public:
		Trace_Player(Song& song, Track& track, bool lh, size_t cap)
			: Basic_Player(song, track), lh(lh), cap(cap), hooks(0), loops(0) {}
		std::string out;
		bool lh;
		size_t cap, hooks;
		int loops;
		void run(long max_steps)
		{
			long n = 0;
			while(is_enabled() && n++ < max_steps)
				step_event();
		}
	private:
		void event_hook() override
		{
			if(hooks++ < cap)
			{
				char buf[96];
				snprintf(buf, sizeof buf, "%s%d.%d.%u.%u.%d.%d", out.empty() ? "" : ",", (int)event.type, (int)event.param,
					on_time, off_time, is_inside_loop() ? 1 : 0, is_inside_jump() ? 1 : 0);
				out += buf;
			}
		}
		bool loop_hook() override { loops++; return lh && loops < 3; }
		void end_hook() override { out += out.empty() ? "E" : ",E"; }
};

// valid <root> T..: Track_Validator numbers + full hook trace
static std::string h_valid(const std::string& arg)
{
	Song song;
	std::vector<std::string> rest = build_song(song, split_ws(arg));
	uint16_t root = (uint16_t)strtoul(rest.at(0).c_str(), 0, 10);
	std::string out;
	char buf[128];
	try
	{
		Track_Validator v(song, song.get_track(root));
		snprintf(buf, sizeof buf, "valid=ok:%u:%d:%u", v.get_play_time(), (int)v.get_loop_play_time(), v.get_loop_length());
		out = buf;
	}
	catch(InputError& e) { out = "valid=err:" + msg_token(e.what()); }
	{
		Song song2;
		build_song(song2, split_ws(arg));
		Trace_Player p(song2, song2.get_track(root), false, 4000);
		std::string end = "ok";
		try { p.run(2000000); }
		catch(InputError& e) { end = "err:" + msg_token(e.what()); }
		snprintf(buf, sizeof buf, ";t=%u", p.get_play_time());
		out += " trace=" + (p.out.empty() ? std::string("-") : p.out) + ";end=" + end + buf;
	}
	return out;
}
HANDLER("valid", h_valid);
