// C15: every C++ throw of the harness process passes through this wrapper (the executable's
// definition of __cxa_throw wins over the runtime's; the runtime's — ASan's interceptor, then
// libstdc++'s — is reached through RTLD_NEXT).  While recording is on, the frames of the most
// recent throw are kept so that a foreign exception that escapes the pipeline can be attributed
// to its throw site.  Kept in its own translation unit: g++ declares __cxa_throw implicitly with
// (void*, void*, void (*)(void*)) and <cxxabi.h> declares it with std::type_info*.
#ifndef VERIF_MALLOC_FILL   // not part of the plain (no sanitizer) variant used by C16
#include <dlfcn.h>
#include <execinfo.h>

void* g_throw_frames[40];
int g_throw_n = 0;
bool g_record_throws = false;

extern "C" void __cxa_throw(void* obj, void* tinfo, void (*dest)(void*))
{
	typedef void (*throw_fn)(void*, void*, void (*)(void*));
	static throw_fn real = (throw_fn)dlsym(RTLD_NEXT, "__cxa_throw");
	if(g_record_throws)
		g_throw_n = backtrace(g_throw_frames, 40);
	real(obj, tinfo, dest);
	__builtin_unreachable();
}

#endif // VERIF_MALLOC_FILL
