// stream mds.bytes / conv.maps — C09: the whole MDS container from MDSDRV_Converter::get_mds().
// Request:  mds <definitions> | <conv tokens>
//   <definitions>  [opt=noextpitch] ; <key> <tok> <tok> ... ; <key> ...    (the `ins` format of h_mdsdata.cpp:
//                  tags fed with Song::add_tag per token, in this order = tag_order)
//   <conv tokens>  V:<text> G:<text> P:<id>=<w>,<w>.. T<id>:<events>        (setup_conv_song of h_conv.cpp)
//                  W:<name>=<hex>   a file of that name is written into the current directory first
//                  (PCM instruments name it: `@30 pcm <name>`; the check runs the harness in build/c09work)
// Answer: file=<hex of get_mds().to_bytes()> smap=<key>:<idx>,.. mmap=<key>:<idx>,.. used=<mapped>:<idx>,..
//         or err:<class> / exc:<name>
// The converter's private maps are read through pointers-to-member obtained by explicit template
// instantiation (as h_mdsdata.cpp does) — no change to the source, no behaviour change.
#include "h_song.h"
#include "platform/mdsdrv.h"
#include "riff.h"
#include <fstream>
#include <algorithm>
#include <unistd.h>
#include <fcntl.h>
#include <sys/stat.h>

void setup_conv_song(Song& song, const std::vector<std::string>& toks); // h_conv.cpp

namespace
{
template <typename Tag, typename Tag::type M> struct RobC
{
	friend typename Tag::type get(Tag) { return M; }
};
#define ROBC(NAME, TYPE, MEMBER) \
	struct NAME { typedef TYPE MDSDRV_Converter::*type; friend type get(NAME); }; \
	template struct RobC<NAME, &MDSDRV_Converter::MEMBER>;
typedef std::map<int, int> iimap_t;
ROBC(C_used, iimap_t, used_data_map)
ROBC(C_sub, iimap_t, subroutine_map)
ROBC(C_mac, iimap_t, macro_track_map)

// the code under test prints progress to stdout (wave bank, ignored macro-track events);
// keep the protocol stream clean
struct QuietC09
{
	int saved;
	QuietC09()
	{
		fflush(stdout);
		saved = dup(1);
		int nul = open("/dev/null", O_WRONLY);
		dup2(nul, 1);
		close(nul);
	}
	~QuietC09()
	{
		fflush(stdout);
		dup2(saved, 1);
		close(saved);
	}
};

std::string show_by_value(const iimap_t& m)
{
	std::vector<std::pair<int,int>> u(m.begin(), m.end());
	std::sort(u.begin(), u.end(), [](const std::pair<int,int>& a, const std::pair<int,int>& b){ return a.second < b.second; });
	std::string s;
	for(auto& kv : u)
	{
		if(!s.empty()) s += ",";
		s += std::to_string(kv.first) + ":" + std::to_string(kv.second);
	}
	return s.empty() ? "-" : s;
}

// same classes as err_class of h_conv.cpp, plus the index-range rejection
std::string err_class_mds(const std::string& m)
{
	struct { const char* pat; const char* cls; } tab[] = {
		{"does not fit in a byte", "indexRange"}, {"sequence data too large", "seqTooLarge"},
		{"sequence header too large", "headerTooLarge"}, {"without a loop start", "loopCmd"},
		{"note out of range", "noteRange"}, {"drum mode routine is inside", "drumNoteInLoop"}, {"Drum mode subroutine", "drumMissing"}, {"MDSDRV: Subroutine", "subMissing"},
		{"MDSDRV: Platform command", "platformMissing"}, {"not enough parameters", "platformBad"}, {"argument must be", "platformBad"}, {"empty platform command", "platformBad"},
		{"MDSDRV: Instrument @", "insMissing"}, {"has wrong type", "insType"}, {"Macro track", "macroMissing"},
		{"Pitch envelope @M", "pitchMissing"},
	};
	for(auto& t : tab)
		if(m.find(t.pat) != std::string::npos) return t.cls;
	return "player:" + msg_token(m.c_str());
}
}

static std::string h_mds(const std::string& arg)
{
	size_t bar = arg.find('|');
	std::string defs = bar == std::string::npos ? "" : arg.substr(0, bar);
	std::string conv = bar == std::string::npos ? arg : arg.substr(bar + 1);
	Song song;
	// definitions (tag_order = order of appearance)
	{
		std::vector<std::string> toks = split_ws(defs);
		std::string key;
		bool want_key = true;
		for(const std::string& t : toks)
		{
			if(t == ";") { want_key = true; continue; }
			if(t.compare(0, 4, "opt=") == 0 && want_key && key.empty())
			{
				song.set_tag("#option", t.substr(4));
				continue;
			}
			if(want_key) { key = t; want_key = false; song.get_or_make_tag(key); continue; }
			song.add_tag(key, t);
		}
	}
	std::vector<std::string> ctoks = split_ws(conv);
	std::vector<std::string> rest;
	std::vector<std::string> written;
	// several harness processes share the work directory: files go into a directory of this process
	static bool moved = false;
	if(!moved)
	{
		std::string d = "p" + std::to_string(getpid());
		mkdir(d.c_str(), 0777);
		if(chdir(d.c_str()) != 0) return "bad-workdir";
		moved = true;
	}
	for(const std::string& t : ctoks)
	{
		if(t.compare(0, 2, "W:") == 0)
		{
			size_t eq = t.find('=');
			std::string name = t.substr(2, eq - 2);
			if(name.find('/') != std::string::npos || name.find("..") != std::string::npos) return "bad-request";
			std::vector<uint8_t> bytes = bytes_of_hex(t.substr(eq + 1));
			std::ofstream f(name, std::ios::binary | std::ios::trunc);
			f.write((const char*)bytes.data(), bytes.size());
			written.push_back(name);
		}
		else rest.push_back(t);
	}
	setup_conv_song(song, rest);
	QuietC09 quiet;
	struct Cleanup { std::vector<std::string>& w; ~Cleanup() { for(auto& n : w) unlink(n.c_str()); } } cleanup{written};
	// definition errors are classified apart: read_song on a scratch data bank (deterministic,
	// the converter's own read_song does the same again)
	try
	{
		MDSDRV_Data scratch;
		scratch.read_song(song);
	}
	catch(InputError&) { return "err:data"; }
	catch(std::exception& e) { return std::string("exc:data:") + exc_name(e); }
	try
	{
		MDSDRV_Converter c(song);
		RIFF mds = c.get_mds();
		std::string out = "file=" + hex_or_dash(mds.to_bytes());
		out += " smap=" + show_by_value(c.*get(C_sub()));
		out += " mmap=" + show_by_value(c.*get(C_mac()));
		out += " used=" + show_by_value(c.*get(C_used()));
		return out;
	}
	catch(InputError& e) { return "err:" + err_class_mds(e.what()); }
	catch(std::exception& e) { return std::string("exc:") + exc_name(e); }
}
HANDLER("mds", h_mds);
