// stream seek.obs — C12: skip_ticks(n) vs (n+1) x play_tick on the real Player
#include "h_song.h"
#include "player.h"

// `friend class Player_Test` is declared by Basic_Player and Player: this gives the harness
// read access to their private state without touching the sources.
class Player_Test
{
	public:
		static std::string dump(Song& song, Player& p)
		{
			char buf[128];
			std::string s;
			snprintf(buf, sizeof buf, "t=%u/en=%d/lc=%d/on=%u/off=%u/ln=%d/v=", p.play_time, p.enabled ? 1 : 0,
				p.get_loop_count(), p.on_time, p.off_time, (int)p.last_note);
			s = buf;
			for(int i = 0; i < Event::CHANNEL_CMD_COUNT; i++)
			{
				snprintf(buf, sizeof buf, "%s%d", i ? "," : "", (int)p.track_state[i]);
				s += buf;
			}
			snprintf(buf, sizeof buf, "/m=%08x/pos=%d/trk=%d/st=", (unsigned)p.track_update_mask, p.position, track_id(song, p.track));
			s += buf;
			std::stack<Player_Stack> st = p.stack;
			bool first = true;
			while(!st.empty())
			{
				Player_Stack f = st.top();
				st.pop();
				snprintf(buf, sizeof buf, "%s%d:%d:%d:%d:%d", first ? "" : ";", (int)f.type, track_id(song, f.track), f.position, f.end_position, f.loop_count);
				s += buf;
				first = false;
			}
			if(first) s += "-";
			return s;
		}
		static int track_id(Song& song, Track* t)
		{
			for(auto& kv : song.get_track_map())
				if(&kv.second == t) return kv.first;
			return -1;
		}
};

class Rec_Player : public Player
{
	public:
		Rec_Player(Song& s, Track& t) : Player(s, t) {}
		std::string rec;
	private:
		void write_event() override
		{
			char buf[48];
			snprintf(buf, sizeof buf, "%s%d.%d", rec.empty() ? "" : ",", (int)event.type, (int)event.param);
			rec += buf;
		}
};

static void setup_song(Song& song, const std::vector<std::string>& toks, std::vector<std::string>& rest)
{
	rest = build_song(song, toks);
	for(const std::string& t : rest)
		if(t.compare(0, 2, "P:") == 0)
		{
			std::istringstream is(t.substr(2));
			std::string id;
			while(std::getline(is, id, ','))
				if(!id.empty()) song.register_platform_command((int16_t)atoi(id.c_str()), "x");
		}
}

// seek <root> <n,n,...> [P:ids] T...
static std::string h_seek(const std::string& arg)
{
	std::vector<std::string> toks = split_ws(arg), rest;
	std::string out;
	{
		Song probe;
		setup_song(probe, toks, rest);
	}
	uint16_t root = (uint16_t)strtoul(rest.at(0).c_str(), 0, 10);
	std::istringstream ns(rest.at(1));
	std::string nstr;
	while(std::getline(ns, nstr, ','))
	{
		unsigned n = strtoul(nstr.c_str(), 0, 10);
		std::string a, b, fa, fb;
		char buf[32];
		snprintf(buf, sizeof buf, "%s#%u ", out.empty() ? "" : " ", n);
		out += buf;
		{
			Song song; std::vector<std::string> r; setup_song(song, toks, r);
			Rec_Player p(song, song.get_track(root));
			try
			{
				p.skip_ticks(n);
				a = Player_Test::dump(song, p);
				a += "/w=" + (p.rec.empty() ? std::string("-") : p.rec);
				p.rec.clear();
				for(int i = 0; i < 24; i++) { p.play_tick(); p.rec += "|"; }
				fa = p.rec;
			}
			catch(InputError& e) { a = "err:" + msg_token(e.what()); }
		}
		{
			Song song; std::vector<std::string> r; setup_song(song, toks, r);
			Rec_Player p(song, song.get_track(root));
			try
			{
				for(unsigned i = 0; i < n + 1; i++) p.play_tick();
				b = Player_Test::dump(song, p);
				p.rec.clear();
				for(int i = 0; i < 24; i++) { p.play_tick(); p.rec += "|"; }
				fb = p.rec;
			}
			catch(InputError& e) { b = "err:" + msg_token(e.what()); }
		}
		out += "skip=" + a + " play=" + b + " fut=" + (fa == fb ? "same:" : "DIFF:") + fa;
	}
	return out;
}
HANDLER("seek", h_seek);

// seekm <root> <m> <n,n,...> [P:ids] T...   — C12 round 3: a seek on a player that is NOT fresh.
// After m+1 play_tick() calls: skip_ticks(n) vs n more play_tick() calls (C12_seek_eq_play_after_play).
// The label printed is the total m+n (what the judge compares the play time with when the track has ended).
static std::string h_seekm(const std::string& arg)
{
	std::vector<std::string> toks = split_ws(arg), rest;
	std::string out;
	{
		Song probe;
		setup_song(probe, toks, rest);
	}
	uint16_t root = (uint16_t)strtoul(rest.at(0).c_str(), 0, 10);
	unsigned m = strtoul(rest.at(1).c_str(), 0, 10);
	std::istringstream ns(rest.at(2));
	std::string nstr;
	while(std::getline(ns, nstr, ','))
	{
		unsigned n = strtoul(nstr.c_str(), 0, 10);
		std::string a, b, fa, fb;
		char buf[32];
		snprintf(buf, sizeof buf, "%s#%u ", out.empty() ? "" : " ", m + n);
		out += buf;
		{
			Song song; std::vector<std::string> r; setup_song(song, toks, r);
			Rec_Player p(song, song.get_track(root));
			try
			{
				for(unsigned i = 0; i < m + 1; i++) p.play_tick();
				p.rec.clear();
				p.skip_ticks(n);
				a = Player_Test::dump(song, p);
				a += "/w=" + (p.rec.empty() ? std::string("-") : p.rec);
				p.rec.clear();
				for(int i = 0; i < 24; i++) { p.play_tick(); p.rec += "|"; }
				fa = p.rec;
			}
			catch(InputError& e) { a = "err:" + msg_token(e.what()); }
		}
		{
			Song song; std::vector<std::string> r; setup_song(song, toks, r);
			Rec_Player p(song, song.get_track(root));
			try
			{
				for(unsigned i = 0; i < m + 1 + n; i++) p.play_tick();
				b = Player_Test::dump(song, p);
				p.rec.clear();
				for(int i = 0; i < 24; i++) { p.play_tick(); p.rec += "|"; }
				fb = p.rec;
			}
			catch(InputError& e) { b = "err:" + msg_token(e.what()); }
		}
		out += "skip=" + a + " play=" + b + " fut=" + (fa == fb ? "same:" : "DIFF:") + fa;
	}
	return out;
}
HANDLER("seekm", h_seekm);
