// streams conv.events / conv.seq — C02, C03, C09: the real MDSDRV_Converter on IR songs
#include "h_song.h"
#include "platform/mdsdrv.h"
#include <algorithm>
#include "riff.h"
#include "optimizer.h"

// hook (guarded by CTRMML_VERIF in mdsdrv.h): read access to MDSDRV_Data's maps
class MDSDRV_Data_Test
{
	public:
		static std::string ins(MDSDRV_Data& d)
		{
			std::string out;
			char buf[64];
			bool first = true;
			for(auto& kv : d.ins_type)
			{
				int idx = d.envelope_map.count(kv.first) ? d.envelope_map.at(kv.first) : -1;
				snprintf(buf, sizeof buf, "%s%d:%d:%d", first ? "" : ",", kv.first, (int)kv.second, idx);
				out += buf;
				first = false;
			}
			return out;
		}
		// pitch_map in id order: <id>:<1 = extended form>:<data bank index>
		static std::string peg(MDSDRV_Data& d)
		{
			std::string out;
			char buf[64];
			for(auto& kv : d.pitch_map)
			{
				snprintf(buf, sizeof buf, "%s%d:%d:%d", out.empty() ? "" : ",", kv.first, d.pitch_extend.count(kv.first) ? 1 : 0, (int)kv.second);
				out += buf;
			}
			return out.empty() ? "-" : out;
		}
};

// friend name declared in mdsdrv.h: read access to the converter's private tables
class MDSDRV_Converter_Test
{
	public:
		static std::string mevs(const std::vector<MDSDRV_Event>& l)
		{
			std::string s;
			char buf[32];
			for(size_t i = 0; i < l.size(); i++)
			{
				snprintf(buf, sizeof buf, "%s%u.%u", i ? ";" : "", (unsigned)l[i].type, (unsigned)l[i].arg);
				s += buf;
			}
			return s.empty() ? "-" : s;
		}
		static std::string dump(MDSDRV_Converter& c)
		{
			std::string out = "seq=" + hex_or_dash(c.sequence_data);
			out += " tl=";
			bool first = true;
			char buf[64];
			for(auto& kv : c.track_list)
			{
				snprintf(buf, sizeof buf, "%s%d:", first ? "" : "|", kv.first);
				out += buf + mevs(kv.second);
				first = false;
			}
			if(first) out += "-";
			out += " subs=";
			for(size_t i = 0; i < c.subroutine_list.size(); i++)
				out += (i ? "|" : "") + mevs(c.subroutine_list[i]);
			if(c.subroutine_list.empty()) out += "-";
			snprintf(buf, sizeof buf, " macros=%zu used=", c.macro_track_list.size());
			out += buf;
			// used_data_map in env_id order
			std::vector<std::pair<int,int>> u(c.used_data_map.begin(), c.used_data_map.end());
			std::sort(u.begin(), u.end(), [](const std::pair<int,int>& a, const std::pair<int,int>& b){ return a.second < b.second; });
			for(size_t i = 0; i < u.size(); i++)
			{
				snprintf(buf, sizeof buf, "%s%d:%d", i ? "," : "", u[i].first, u[i].second);
				out += buf;
			}
			if(u.empty()) out += "-";
			out += " ins=" + MDSDRV_Data_Test::ins(c.data);
			out += " peg=" + MDSDRV_Data_Test::peg(c.data);
			return out;
		}
};

static std::string err_class(const std::string& m)
{
	struct { const char* pat; const char* cls; } tab[] = {
		{"note out of range", "noteRange"}, {"drum mode routine is inside", "drumNoteInLoop"}, {"Drum mode subroutine", "drumMissing"}, {"MDSDRV: Subroutine", "subMissing"},
		{"MDSDRV: Platform command", "platformMissing"}, {"not enough parameters", "platformBad"}, {"argument must be", "platformBad"}, {"empty platform command", "platformBad"},
		{"MDSDRV: Instrument @", "insMissing"}, {"has wrong type", "insType"}, {"Macro track", "macroMissing"},
		{"Pitch envelope @M", "pitchMissing"}, {"without a loop start", "loopCmd"},
	};
	for(auto& t : tab)
		if(m.find(t.pat) != std::string::npos) return t.cls;
	return "player:" + msg_token(m.c_str());
}

// tokens: V:<text> (#volume), I:<id>=<psg|fm>:<k>[:<expected index>], P:<id>=<w>,<w>..., T<id>:events,
// M:<id>=<c|x|l|v>:<k>[:<expected index>] = a pitch envelope definition `@M<id>`: c = one node `<k%100>` (compact form),
// x = a slide `0><1+k%100>:1` too steep for the compact form (add_pitch_envelope throws invalid_argument, the
// extended form is taken), l = two nodes with a loop mark `<k%100> | <k%50>:<1+k%7>` (compact), v = the vibrato macro
// `V0:1:<2+k%5>` (three slides, all within the compact form)
void setup_conv_song(Song& song, const std::vector<std::string>& toks)
{
	std::vector<std::string> rest = build_song(song, toks);
	for(const std::string& t : rest)
	{
		if(t.compare(0, 2, "V:") == 0) song.set_tag("#volume", t.substr(2));
		else if(t.compare(0, 2, "G:") == 0) song.set_tag("#group", t.substr(2));
		else if(t.compare(0, 2, "I:") == 0)
		{
			size_t eq = t.find('=');
			std::string id = t.substr(2, eq - 2);
			std::vector<std::string> f;
			std::istringstream is(t.substr(eq + 1));
			std::string x;
			while(std::getline(is, x, ':')) f.push_back(x);
			int k = atoi(f.at(1).c_str());
			std::string val;
			if(f[0] == "psg") val = "psg " + std::to_string(k % 16) + " " + std::to_string((k / 16) % 16);
			else
			{
				val = "fm";
				for(int i = 0; i < 42; i++) val += " " + std::to_string(i == 0 ? k % 8 : (i == 7 ? k % 128 : 0));
			}
			song.add_tag_list("@" + id, val);
		}
		else if(t.compare(0, 2, "M:") == 0)
		{
			size_t eq = t.find('=');
			std::string id = t.substr(2, eq - 2);
			std::vector<std::string> f;
			std::istringstream is(t.substr(eq + 1));
			std::string x;
			while(std::getline(is, x, ':')) f.push_back(x);
			int k = atoi(f.at(1).c_str());
			std::string key = "@m" + id;
			if(f[0] == "x") song.add_tag_list(key, "0>" + std::to_string(1 + k % 100) + ":1");
			else if(f[0] == "l") song.add_tag_list(key, std::to_string(k % 100) + " | " + std::to_string(k % 50) + ":" + std::to_string(1 + k % 7));
			else if(f[0] == "v") song.add_tag_list(key, "V0:1:" + std::to_string(2 + k % 5));
			else song.add_tag_list(key, std::to_string(k % 100));
		}
		else if(t.compare(0, 2, "P:") == 0)
		{
			size_t eq = t.find('=');
			int id = atoi(t.substr(2, eq - 2).c_str());
			std::string v = t.substr(eq + 1);
			for(char& c : v) if(c == ',') c = ' ';
			song.register_platform_command((int16_t)id, v);
		}
	}
}

static std::string h_conv(const std::string& arg)
{
	Song song;
	setup_conv_song(song, split_ws(arg));
	try
	{
		MDSDRV_Converter conv(song);
		return MDSDRV_Converter_Test::dump(conv);
	}
	catch(InputError& e) { return "err:" + err_class(e.what()); }
	catch(std::exception& e) { return std::string("exc:") + exc_name(e); }
}
HANDLER("conv", h_conv);

// convo <min_score> tokens...: optimise first (as `mmlc -O`), then convert
static std::string h_convo(const std::string& arg)
{
	std::vector<std::string> toks = split_ws(arg);
	int min_score = atoi(toks.at(0).c_str());
	toks.erase(toks.begin());
	Song song;
	setup_conv_song(song, toks);
	try
	{
		Optimizer o(song, 0);
		o.min_score = min_score;
		o.optimize();
	}
	catch(InputError& e) { return "opterr:" + msg_token(e.what()); }
	catch(std::exception& e) { return std::string("optexc:") + exc_name(e); }
	try
	{
		MDSDRV_Converter conv(song);
		return MDSDRV_Converter_Test::dump(conv);
	}
	catch(InputError& e) { return "err:" + err_class(e.what()); }
	catch(std::exception& e) { return std::string("exc:") + exc_name(e); }
}
HANDLER("convo", h_convo);
// convox: the same request, for songs beyond the reach of the Lean model of the optimiser (see optx)
static Registrar reg_convox("convox", h_convo);
static Registrar reg_convwf("convwf", h_conv);
// convwfo / convwfox <min_score> tokens...: C03 on optimised songs (optimise, convert; judged by the well-formedness oracle)
static Registrar reg_convwfo("convwfo", h_convo);
static Registrar reg_convwfox("convwfox", h_convo);
