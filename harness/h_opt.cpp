// streams opt.final / opt.pass — C01: the real Optimizer on IR songs
#include "h_song.h"
#include "player.h"
#include "optimizer.h"

static std::string song_dump(Song& song)
{
	std::string s;
	char buf[32];
	bool first = true;
	for(auto& kv : song.get_track_map())
	{
		snprintf(buf, sizeof buf, "%sT%u:", first ? "" : " ", (unsigned)kv.first);
		s += buf;
		std::string e = events_to_string(kv.second.get_events());
		s += (e == "-") ? "" : e;
		first = false;
	}
	return s;
}

static std::string validate_all(Song& song)
{
	std::string s;
	char buf[96];
	try
	{
		Song_Validator v(song);
		bool first = true;
		for(auto& kv : v.get_track_map())
		{
			snprintf(buf, sizeof buf, "%s%u:%u:%d:%u", first ? "" : ",", (unsigned)kv.first, kv.second.get_play_time(),
				(int)kv.second.get_loop_play_time(), kv.second.get_loop_length());
			s += buf;
			first = false;
		}
		return "ok:" + s;
	}
	catch(InputError& e) { return "err:" + msg_token(e.what()); }
}

// opt <min_score> T...   → before=<validator numbers> result=<ok|threw:msg> after=<validator numbers> song=<tracks>
static std::string h_opt(const std::string& arg)
{
	Song song;
	std::vector<std::string> rest = build_song(song, split_ws(arg));
	int min_score = atoi(rest.at(0).c_str());
	std::string before = validate_all(song);
	if(before.compare(0, 3, "ok:") != 0)
		return "before=" + before;
	// the validator has written loop-break parameters and play-time stamps into the song: start
	// the optimiser from a fresh copy, as mmlc does (it validates after optimising)
	Song song2;
	build_song(song2, split_ws(arg));
	std::string result = "ok";
	int passes = 0;
	Optimizer o(song2, 0);
	o.min_score = min_score;
	o.pass = 0;
	try
	{
		o.optimize();
	}
	catch(InputError& e) { result = "threw:" + msg_token(e.what()); }
	catch(std::exception& e) { result = std::string("exc:") + exc_name(e); }
	passes = o.pass;
	std::string dump = song_dump(song2);
	std::string after = validate_all(song2);
	char buf[32];
	snprintf(buf, sizeof buf, " passes=%d", passes);
	return "before=" + before + " result=" + result + buf + " after=" + after + " song= " + dump;
}
HANDLER("opt", h_opt);
// optx: the same request; the check uses this name for songs that the (list-based, quartic) Lean model
// of the optimiser cannot run in reasonable time: the model stream does not answer, the spec oracle judges
static Registrar reg_optx("optx", h_opt);
