// stream wave.ops — C14: Wave_File reader + Wave_Bank allocator driven through the public API.
// Request:  wave <max_size> <bank_size> | <op> | <op> ...
//   op  T <file> <tagarg>*     add_sample(Tag): <file> = w:<bits>:<ch>:<rate>:<frames>:<seed> (canonical fmt+data
//                              file, data bytes = fill_bytes) | x:<hex> (literal file) | m: (no such file) | - (empty tag);
//                              '_' in a tag argument stands for a blank
//   op  R <start> <size> <loop_start> <loop_end> <rate> <transpose> <flags> <payload>   add_sample(header, data)
// Answer: one record per op joined by " ; ", then "end rom=<hash of used prefix> wins=<hash of every window>".
// WAV files are written into the current directory (the check runs the harness in build/c14work).
#include "h_common.h"
#include "wave.h"
#include "util.h"
#include <unistd.h>
#include <fcntl.h>
#include <fstream>

struct Bank_Probe : public Wave_Bank
{
	Bank_Probe(unsigned long m, unsigned long b) : Wave_Bank(m, b) {}
	unsigned long cur() const { return current_size; }
	std::string gap_list() const
	{
		std::string s;
		for(auto& g : gaps)
		{
			if(s.size()) s += ",";
			s += std::to_string(g.start) + "-" + std::to_string(g.end);
		}
		return s.size() ? s : "-";
	}
};

// the code under test prints progress to stdout; keep the protocol stream clean
struct Quiet
{
	int saved;
	Quiet()
	{
		fflush(stdout);
		saved = dup(1);
		int nul = open("/dev/null", O_WRONLY);
		dup2(nul, 1);
		close(nul);
	}
	~Quiet()
	{
		fflush(stdout);
		dup2(saved, 1);
		close(saved);
	}
};

static void put16(std::vector<uint8_t>& v, unsigned x) { v.push_back(x & 255); v.push_back((x >> 8) & 255); }
static void put32(std::vector<uint8_t>& v, unsigned long x) { put16(v, x & 0xffff); put16(v, (x >> 16) & 0xffff); }
static void puts4(std::vector<uint8_t>& v, const char* s) { v.insert(v.end(), s, s + 4); }

static std::vector<uint8_t> canonical_wav(unsigned bits, unsigned ch, unsigned long rate, unsigned long frames, unsigned seed)
{
	unsigned long n = frames * ch * (bits / 8);
	std::vector<uint8_t> v;
	puts4(v, "RIFF");
	put32(v, 4 + 24 + 8 + n + (n & 1));
	puts4(v, "WAVE");
	puts4(v, "fmt ");
	put32(v, 16);
	put16(v, 1);
	put16(v, ch);
	put32(v, rate);
	put32(v, rate * ch * (bits / 8));
	put16(v, ch * (bits / 8));
	put16(v, bits);
	puts4(v, "data");
	put32(v, n);
	std::vector<uint8_t> d = fill_bytes(n, seed);
	v.insert(v.end(), d.begin(), d.end());
	if(n & 1) v.push_back(0);
	return v;
}

static std::vector<std::string> split_colon(const std::string& s)
{
	std::vector<std::string> v;
	size_t p = 0;
	while(true)
	{
		size_t c = s.find(':', p);
		v.push_back(s.substr(p, c == std::string::npos ? c : c - p));
		if(c == std::string::npos) break;
		p = c + 1;
	}
	return v;
}

static std::string window_hash(Wave_Bank& b, const Wave_Bank::Sample& h)
{
	const std::vector<uint8_t>& rom = b.get_rom_data();
	unsigned long lo = (unsigned long)h.position + h.start;
	unsigned long hi = lo + h.size;
	if(hi > rom.size()) return "oob";
	return lenfnv(std::vector<uint8_t>(rom.begin() + lo, rom.begin() + hi));
}

static std::string header_str(const Wave_Bank::Sample& h)
{
	char buf[160];
	snprintf(buf, sizeof buf, "%u,%u,%u,%u,%u,%u,%u,%u", h.position, h.start, h.size, h.loop_start, h.loop_end, h.rate,
			(uint32_t)h.transpose, h.flags);
	return buf;
}

static std::string exc_class(const std::string& m)
{
	if(m.compare(0, 10, "Incomplete") == 0) return "incomplete";
	if(m.size() >= 9 && m.compare(m.size() - 9, 9, "not found") == 0) return "notfound";
	if(m.compare(0, 13, "Sample offset") == 0) return "offset";
	if(m.compare(0, 19, "Sample does not fit") == 0) return "nofit";
	if(m.compare(0, 13, "Sample length") == 0) return "toolong";
	return "other";
}

static std::string h_wave(const std::string& arg)
{
	std::vector<std::string> parts;
	{
		size_t p = 0;
		while(true)
		{
			size_t c = arg.find('|', p);
			parts.push_back(arg.substr(p, c == std::string::npos ? c : c - p));
			if(c == std::string::npos) break;
			p = c + 1;
		}
	}
	std::vector<std::string> head = split_ws(parts.at(0));
	unsigned long maxs = strtoul(head.at(0).c_str(), 0, 10);
	unsigned long bank = strtoul(head.at(1).c_str(), 0, 10);
	Bank_Probe b(maxs, bank);
	std::string out;
	static int counter = 0;
	for(size_t k = 1; k < parts.size(); k++)
	{
		std::vector<std::string> t = split_ws(parts[k]);
		if(t.empty()) continue;
		std::string rec;
		int idx = -1;
		std::string fname;
		try
		{
			if(t[0] == "T")
			{
				Tag tag;
				const std::string& f = t.at(1);
				if(f != "-")
				{
					fname = "c14_" + std::to_string(getpid()) + "_" + std::to_string(counter++) + ".wav";
					if(f.compare(0, 2, "w:") == 0)
					{
						std::vector<std::string> c = split_colon(f);
						std::vector<uint8_t> bytes = canonical_wav(strtoul(c.at(1).c_str(), 0, 10), strtoul(c.at(2).c_str(), 0, 10),
								strtoul(c.at(3).c_str(), 0, 10), strtoul(c.at(4).c_str(), 0, 10), strtoul(c.at(5).c_str(), 0, 10));
						std::ofstream o(fname, std::ios::binary);
						o.write((const char*)bytes.data(), bytes.size());
					}
					else if(f.compare(0, 2, "x:") == 0)
					{
						std::vector<uint8_t> bytes = bytes_of_hex(f.substr(2));
						std::ofstream o(fname, std::ios::binary);
						o.write((const char*)bytes.data(), bytes.size());
					}
					// m: -> file is not created
					tag.push_back(fname);
					for(size_t i = 2; i < t.size(); i++)
					{
						std::string a = t[i];
						for(char& ch : a) if(ch == '_') ch = ' ';
						tag.push_back(a);
					}
				}
				Quiet q;
				idx = b.add_sample(tag);
			}
			else if(t[0] == "R")
			{
				Wave_Bank::Sample h;
				h.position = 0;
				h.start = strtoul(t.at(1).c_str(), 0, 10);
				h.size = strtoul(t.at(2).c_str(), 0, 10);
				h.loop_start = strtoul(t.at(3).c_str(), 0, 10);
				h.loop_end = strtoul(t.at(4).c_str(), 0, 10);
				h.rate = strtoul(t.at(5).c_str(), 0, 10);
				h.transpose = (int32_t)strtoul(t.at(6).c_str(), 0, 10);
				h.flags = strtoul(t.at(7).c_str(), 0, 10);
				std::vector<uint8_t> data = payload_of(t.at(8));
				Quiet q;
				idx = b.add_sample(h, data);
			}
			else
				throw std::runtime_error("bad op");
			const Wave_Bank::Sample& h = b.get_sample_headers().at(idx);
			rec = "r=" + std::to_string(idx) + " h=" + header_str(h) + " win=" + window_hash(b, h);
		}
		catch(InputError& e)
		{
			rec = "exc:" + exc_class(e.what());
		}
		if(fname.size()) unlink(fname.c_str());
		rec += " n=" + std::to_string(b.get_sample_headers().size()) + " cur=" + std::to_string(b.cur()) + " gaps=" + b.gap_list()
			+ " tg=" + std::to_string(b.get_total_gap()) + " lg=" + std::to_string(b.get_largest_gap()) + " free=" + std::to_string(b.get_free_bytes());
		out += rec + " ; ";
	}
	const std::vector<uint8_t>& rom = b.get_rom_data();
	unsigned long used = rom.size() - b.get_free_bytes();
	if(used > rom.size()) used = rom.size();
	out += "end rom=" + lenfnv(std::vector<uint8_t>(rom.begin(), rom.begin() + used)) + " wins=";
	bool first = true;
	for(auto& h : b.get_sample_headers())
	{
		if(!first) out += ",";
		out += window_hash(b, h);
		first = false;
	}
	if(first) out += "-";
	return out;
}
HANDLER("wave", h_wave);

// wavehdr <payload>: Sample::from_bytes then to_bytes
static std::string h_wavehdr(const std::string& arg)
{
	std::vector<uint8_t> in = payload_of(split_ws(arg).at(0));
	Wave_Bank::Sample h;
	try
	{
		h.from_bytes(in);
	}
	catch(std::exception& e) { return std::string("exc:") + exc_name(e); }
	return "h=" + header_str(h) + " bytes=" + hex_of(h.to_bytes());
}
HANDLER("wavehdr", h_wavehdr);
