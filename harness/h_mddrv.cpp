// stream vgm.bytes — C07: whole-song VGM export of IR songs through the real
// Song + MDSDRV_Platform::get_export_data(song, 0)  (= Platform::vgm_export + MD_Driver)
//
//   mdvgm tok*     tok = T<id>:<type>.<param>.<on>.<off>,...   track <id>
//                        @<id>=<w>,<w>,...                     tag "@<id>" with these words
//   answer: vgm len=<n> fnv=<hash> hex=<bytes>   |  exc:<class>
// The export runs with "#vgmdate" and "#comment" set to fixed texts (no clock, no build stamp).
#include "h_song.h"
#include "platform/md.h"
#include "platform/mdsdrv.h"
#include <unistd.h>
#include <fcntl.h>
#include <iostream>

static std::string h_mdvgm(const std::string& arg)
{
	Song song;
	std::vector<std::string> rest = build_song(song, split_ws(arg));
	for(const std::string& t : rest)
	{
		if(t.size() > 1 && t[0] == '@')
		{
			size_t eq = t.find('=');
			if(eq == std::string::npos) return "bad-request";
			std::string key = t.substr(0, eq);
			std::string v = t.substr(eq + 1);
			size_t i = 0;
			while(i <= v.size())
			{
				size_t j = v.find(',', i);
				if(j == std::string::npos) j = v.size();
				song.add_tag(key, v.substr(i, j - i));
				i = j + 1;
			}
		}
		else return "bad-request";
	}
	song.set_tag("#vgmdate", "2000-01-01");
	song.set_tag("#comment", "c07");
	std::vector<uint8_t> b;
	// the driver prints progress ("set tempo to ...") on stdout: park fd 1 during the export
	fflush(stdout);
	int saved = dup(1);
	int nul = open("/dev/null", O_WRONLY);
	dup2(nul, 1);
	close(nul);
	std::string err;
	try
	{
		b = song.get_platform()->get_export_data(song, 0);
	}
	catch(InputError& e) { err = "exc:InputError"; }
	catch(std::exception& e) { err = std::string("exc:") + exc_name(e); }
	std::cout.flush();
	fflush(stdout);
	dup2(saved, 1);
	close(saved);
	if(!err.empty()) return err;
	char buf[64];
	snprintf(buf, sizeof buf, "vgm len=%zu fnv=%016llx hex=", b.size(), (unsigned long long)fnv64(b.data(), b.size()));
	return buf + hex_of(b);
}
HANDLER("mdvgm", h_mdvgm);
