// stream vgm.bytes — C07: whole-song VGM export of IR songs through the real
// Song + MDSDRV_Platform::get_export_data(song, 0)  (= Platform::vgm_export + MD_Driver)
//
//   mdvgm tok*     tok = T<id>:<type>.<param>.<on>.<off>,...   track <id>
//                        @<id>=<w>,<w>,...                     tag "@<id>" with these words
//   answer: vgm len=<n> fnv=<hash> hex=<bytes>   |  exc:<class>
// The export runs with "#vgmdate" and "#comment" set to fixed texts (no clock, no build stamp).
#include "h_song.h"
#include "platform/md.h"
#include "platform/mdsdrv.h"
#include <unistd.h>
#include <fcntl.h>
#include <iostream>
#include <map>

static std::string h_mdvgm(const std::string& arg)
{
	Song song;
	std::vector<std::string> rest = build_song(song, split_ws(arg));
	// W<name>=<hex>: files for PCM instruments, written to the scratch directory; a "pcm" tag
	// naming one of them gets the path of the file written
	std::map<std::string, std::string> files;
	struct Cleanup { std::vector<std::string> paths; ~Cleanup() { for(auto& p : paths) unlink(p.c_str()); } } cleanup;
	for(const std::string& t : rest)
	{
		if(t.size() > 1 && t[0] == 'W')
		{
			size_t eq = t.find('=');
			if(eq == std::string::npos) return "bad-request";
			std::string name = t.substr(1, eq - 1);
			std::vector<uint8_t> b = bytes_of_hex(t.substr(eq + 1));
			const char* td = getenv("VERIF_TMPDIR");
			char path[600];
			snprintf(path, sizeof path, "%s/mdvgm_%d_%s", td ? td : "/tmp", (int)getpid(), name.c_str());
			FILE* fp = fopen(path, "wb");
			if(!fp) return "bad-request tmpfile";
			fwrite(b.data(), 1, b.size(), fp);
			fclose(fp);
			files[name] = path;
			cleanup.paths.push_back(path);
		}
	}
	bool has_date = false, has_comment = false;
	for(const std::string& t : rest)
	{
		if(t.size() > 1 && (t[0] == 'W' || t[0] == 'X')) continue;
		if(t.size() > 1 && t[0] == '#')
		{
			size_t eq = t.find('=');
			if(eq == std::string::npos) return "bad-request";
			std::string key = t.substr(0, eq);
			std::string h = t.substr(eq + 1);
			std::vector<uint8_t> b = (h == "-") ? std::vector<uint8_t>() : bytes_of_hex(h);
			song.set_tag(key, std::string(b.begin(), b.end()));
			if(key == "#vgmdate") has_date = true;
			if(key == "#comment") has_comment = true;
		}
		else if(t.size() > 1 && t[0] == '@')
		{
			size_t eq = t.find('=');
			if(eq == std::string::npos) return "bad-request";
			std::string key = t.substr(0, eq);
			std::string v = t.substr(eq + 1);
			size_t i = 0;
			int word = 0;
			bool pcm = false;
			while(i <= v.size())
			{
				size_t j = v.find(',', i);
				if(j == std::string::npos) j = v.size();
				std::string w = v.substr(i, j - i);
				if(word == 0 && w == "pcm") pcm = true;
				if(word == 1 && pcm && files.count(w)) w = files[w];
				song.add_tag(key, w);
				i = j + 1;
				word++;
			}
		}
		else return "bad-request";
	}
	if(!has_date) song.set_tag("#vgmdate", "2000-01-01");
	if(!has_comment) song.set_tag("#comment", "c07");
	std::vector<uint8_t> b;
	// the driver prints progress ("set tempo to ...") on stdout: park fd 1 during the export
	fflush(stdout);
	int saved = dup(1);
	int nul = open("/dev/null", O_WRONLY);
	dup2(nul, 1);
	close(nul);
	std::string err;
	try
	{
		b = song.get_platform()->get_export_data(song, 0);
	}
	catch(InputError& e) { err = "exc:InputError"; }
	catch(std::exception& e) { err = std::string("exc:") + exc_name(e); }
	std::cout.flush();
	fflush(stdout);
	dup2(saved, 1);
	close(saved);
	if(!err.empty()) return err;
	char buf[64];
	snprintf(buf, sizeof buf, "vgm len=%zu fnv=%016llx hex=", b.size(), (unsigned long long)fnv64(b.data(), b.size()));
	return buf + hex_of(b);
}
HANDLER("mdvgm", h_mdvgm);
// same request, judged for C08
static std::string h_c08song(const std::string& arg) { return h_mdvgm(arg); }
HANDLER("c08song", h_c08song);
