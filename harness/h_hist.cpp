// streams hist / hist1 / pcmtab — C16: the real exporters under compilation histories, repeated
// exports of one Song object, fresh processes and different heap fill patterns.
//
//   hist D:<hex dir> F:<b,b,..> P:<s,s,..> [O] <song> <song> ...
//     <song> = M:<hex MML text>  |  C:<conv tokens joined by ';'>   (see h_conv.cpp setup_conv_song)
//     F: ASan malloc_fill_byte values for the child processes (first one: every song alone in a
//        fresh process; the others: the whole list, reversed, in one fresh process)
//     P: fill seeds for the non-ASan variant with the interposed allocator (h_mallocfill.cpp),
//        binary named by $VERIF_PLAIN_HARNESS (whole list in one fresh process each)
//   answer: hist n=<k> asan=<children answered> plain=<children answered> | s<i> seq=|mseq=<v> mds=<v> vgm=<v> obs=<n> diff=<-|ctx/fmt=<v>,..> | ...
//     <v> = <len>:<fnv64> | exc:<name>.  The reference value of a song is its first observation
//     (alone in a fresh process when a child answered); `diff` lists every observation that differs.
//   hist1 D:<hex dir> <song> ...      (child side) compiles the songs in order, each on a fresh Song
//   pcmtab                            static state of MD_PCMDriver after constructing a driver
#include "h_song.h"
#include "vgm.h"
#include "song.h"
#include "player.h"
#include "mml_input.h"
#include "optimizer.h"
#include "platform/md.h"
#include "platform/mdsdrv.h"
#include <unistd.h>
#include <fcntl.h>
#include <iostream>

void setup_conv_song(Song& song, const std::vector<std::string>& toks);   // h_conv.cpp

namespace {

struct Quiet
{
	int saved;
	Quiet()
	{
		fflush(stdout);
		std::cout.flush();
		saved = dup(1);
		int nul = open("/dev/null", O_WRONLY);
		dup2(nul, 1);
		close(nul);
	}
	~Quiet()
	{
		std::cout.flush();
		fflush(stdout);
		dup2(saved, 1);
		close(saved);
	}
};

std::string dir_of(const std::string& tok)
{
	std::vector<uint8_t> b = bytes_of_hex(tok.substr(2));
	return std::string(b.begin(), b.end());
}

// build the Song of one request token (fresh parse); throws what the library throws
void load_song(Song& song, const std::string& tok, const std::string& dir)
{
	static int counter = 0;
	if(tok.compare(0, 2, "C:") == 0)
	{
		std::string s = tok.substr(2);
		for(char& c : s) if(c == ';') c = ' ';
		setup_conv_song(song, split_ws(s));
	}
	else if(tok.compare(0, 2, "M:") == 0)
	{
		std::vector<uint8_t> mml = bytes_of_hex(tok.substr(2));
		char name[64];
		snprintf(name, sizeof name, "c16_%d_%d.mml", (int)getpid(), counter++);
		std::string path = dir + "/" + name;
		FILE* fp = fopen(path.c_str(), "wb");
		if(!fp) throw std::runtime_error("tmpfile");
		if(!mml.empty()) fwrite(mml.data(), 1, mml.size(), fp);
		fclose(fp);
		MML_Input input(&song);
		try { input.open_file(path); } catch(...) { unlink(path.c_str()); throw; }
		unlink(path.c_str());
	}
	else throw std::runtime_error("bad song token");
	// the two clock inputs of the VGM exporter are masked by fixing the tags they default
	if(!song.check_tag("#vgmdate") || song.get_tag("#vgmdate").empty()) song.set_tag("#vgmdate", "2020-01-02");
	if(!song.check_tag("#comment") || song.get_tag("#comment").empty()) song.set_tag("#comment", "c16");
}

std::string seq_of_mds(const std::vector<uint8_t>& b)
{
	size_t p = 12;
	while(p + 8 <= b.size())
	{
		uint32_t sz = b[p + 4] | (b[p + 5] << 8) | (b[p + 6] << 16) | ((uint32_t)b[p + 7] << 24);
		if(p + 8 + sz > b.size()) break;
		if(!memcmp(&b[p], "seq ", 4))
			return lenfnv(std::vector<uint8_t>(b.begin() + p + 8, b.begin() + p + 8 + sz));
		p += 8 + sz + (sz & 1);
	}
	return "none";
}

struct Val { std::string seq, mds, vgm; };

std::string export_one(Song& song, int format, std::string* seq = 0)
{
	try
	{
		Quiet q;
		std::vector<uint8_t> b = song.get_platform()->get_export_data(song, format);
		if(seq) *seq = seq_of_mds(b);
		return lenfnv(b);
	}
	catch(InputError&) { if(seq) *seq = "exc:InputError"; return "exc:InputError"; }
	catch(std::exception& e) { if(seq) *seq = std::string("exc:") + exc_name(e); return std::string("exc:") + exc_name(e); }
}

// fresh Song object, MDS then VGM from a second fresh Song object (so that neither export sees
// the other's write-backs).  mode: 0 plain, 1 run Song_Validator first (what mmlc does),
// 2 validate + Optimizer first
Val compile_fresh(const std::string& tok, const std::string& dir, int mode)
{
	Val v;
	for(int format = 1; format >= 0; format--)
	{
		std::string r, seq;
		try
		{
			Song song;
			{
				Quiet q;
				load_song(song, tok, dir);
				if(mode >= 1) { Song_Validator val(song); }
				if(mode >= 2) { Optimizer opt(song); opt.optimize(); Song_Validator val2(song); }
			}
			r = export_one(song, format, format == 1 ? &seq : 0);
		}
		catch(InputError&) { r = seq = "exc:InputError"; }
		catch(std::exception& e) { r = seq = std::string("exc:") + exc_name(e); }
		if(format == 1) { v.mds = r; v.seq = seq; }
		else v.vgm = r;
	}
	return v;
}

std::string val_str(const Val& v) { return "seq=" + v.seq + " mds=" + v.mds + " vgm=" + v.vgm; }

struct Args
{
	std::string dir;
	std::vector<int> fills, seeds;
	int mode = 0;
	std::vector<std::string> songs;
};

Args parse_args(const std::string& arg)
{
	Args a;
	for(const std::string& t : split_ws(arg))
	{
		if(t.compare(0, 2, "D:") == 0) a.dir = dir_of(t);
		else if(t.compare(0, 2, "F:") == 0 || t.compare(0, 2, "P:") == 0)
		{
			std::istringstream is(t.substr(2));
			std::string x;
			while(std::getline(is, x, ',')) if(!x.empty()) (t[0] == 'F' ? a.fills : a.seeds).push_back(atoi(x.c_str()));
		}
		else if(t == "V") a.mode = 1;
		else if(t == "O") a.mode = 2;
		else a.songs.push_back(t);
	}
	if(a.dir.empty()) a.dir = ".";
	return a;
}

struct Obs { std::string ctx; Val v; bool has_mds, has_vgm; size_t song = 0; };

// hist2 (child side): k rotations of the list and repeated exports of one Song object, in this
// (fresh) process; one token per observation: o=<song>/<ctx>/<m|v|b>/<seq>/<mds>/<vgm>
std::string h_hist2(const std::string& arg)
{
	Args a = parse_args(arg);
	size_t k = a.songs.size();
	std::vector<Obs> obs;
	char ctx[64];
	// (b) in this process: k rounds, round r compiles the songs in the order r, r+1, ... (mod k),
	// so that every song is compiled after every rotation prefix of the others
	for(size_t r = 0; r < k; r++)
		for(size_t j = 0; j < k; j++)
		{
			size_t i = (r + j) % k;
			snprintf(ctx, sizeof ctx, "round%zu-pos%zu", r, j);
			{ Obs o{ctx, compile_fresh(a.songs[i], a.dir, a.mode), true, true}; o.song = i; obs.push_back(o); }
		}
	// (c) several exports of ONE Song object: MDS,VGM,MDS,VGM and VGM,MDS,VGM on another object,
	// and MDS/VGM after Song_Validator has played every track
	for(size_t i = 0; i < k; i++)
	{
		for(int variant = 0; variant < 3; variant++)
		{
			try
			{
				Song song;
				{
					Quiet q;
					load_song(song, a.songs[i], a.dir);
					if(a.mode >= 1 || variant == 2) { Song_Validator val(song); }
					if(a.mode >= 2) { Optimizer opt(song); opt.optimize(); Song_Validator val2(song); }
				}
				static const int orders[3][4] = {{1, 0, 1, 0}, {0, 1, 0, -1}, {1, 1, 0, 0}};
				for(int n = 0; n < 4; n++)
				{
					int fmt = orders[variant][n];
					if(fmt < 0) continue;
					Obs o;
					snprintf(ctx, sizeof ctx, "same%d-export%d", variant, n + 1);
					o.ctx = ctx;
					o.has_mds = fmt == 1;
					o.has_vgm = fmt == 0;
					if(fmt == 1) o.v.mds = export_one(song, 1, &o.v.seq);
					else o.v.vgm = export_one(song, 0);
					o.song = i; obs.push_back(o);
				}
			}
			catch(InputError&) { Obs o; o.song = i; o.ctx = "same-parse"; o.has_mds = o.has_vgm = true; o.v.seq = o.v.mds = o.v.vgm = "exc:InputError"; o.song = i; obs.push_back(o); }
			catch(std::exception& e) { Obs o; o.song = i; o.ctx = "same-parse"; o.has_mds = o.has_vgm = true; o.v.seq = o.v.mds = o.v.vgm = std::string("exc:") + exc_name(e); o.song = i; obs.push_back(o); }
		}
	}
	std::string out = "r2";
	for(const Obs& o : obs)
		out += " o=" + std::to_string(o.song) + "/" + o.ctx + "/" + (o.has_mds && o.has_vgm ? "b" : o.has_mds ? "m" : "v") + "/" +
			(o.v.seq.empty() ? "-" : o.v.seq) + "/" + (o.v.mds.empty() ? "-" : o.v.mds) + "/" + (o.v.vgm.empty() ? "-" : o.v.vgm);
	return out;
}

std::string run_child(const std::string& exe, const std::string& envs, const Args& a, const char* cmdname, const std::vector<std::string>& songs)
{
	static int counter = 0;
	char name[64];
	snprintf(name, sizeof name, "c16_rq_%d_%d.txt", (int)getpid(), counter++);
	std::string path = a.dir + "/" + name;
	FILE* fp = fopen(path.c_str(), "wb");
	if(!fp) return "";
	std::string dhex;
	{
		static const char* d = "0123456789abcdef";
		for(unsigned char c : a.dir) { dhex.push_back(d[c >> 4]); dhex.push_back(d[c & 15]); }
	}
	fprintf(fp, "%s D:%s%s", cmdname, dhex.c_str(), a.mode == 2 ? " O" : a.mode == 1 ? " V" : "");
	for(const std::string& s : songs) fprintf(fp, " %s", s.c_str());
	fprintf(fp, "\n");
	fclose(fp);
	std::string cmd = envs + " '" + exe + "' '" + path + "' 0 100 2>/dev/null";
	FILE* p = popen(cmd.c_str(), "r");
	std::string txt;
	if(p)
	{
		char buf[4096];
		size_t n;
		while((n = fread(buf, 1, sizeof buf, p)) > 0) txt.append(buf, n);
		pclose(p);
	}
	unlink(path.c_str());
	size_t nl = txt.find('\n');
	if(nl != std::string::npos) txt = txt.substr(0, nl);
	return txt;
}

std::vector<Obs> child_rounds(const std::string& exe, const std::string& envs, const Args& a, std::string* why)
{
	std::vector<Obs> out;
	std::string txt = run_child(exe, envs, a, "hist2", a.songs);
	if(txt.compare(0, 2, "r2") != 0) { *why = txt.empty() ? "no-answer" : txt.substr(0, 60); return out; }
	for(const std::string& t : split_ws(txt.substr(2)))
	{
		if(t.compare(0, 2, "o=") != 0) continue;
		std::vector<std::string> f;
		std::istringstream is(t.substr(2));
		std::string x;
		while(std::getline(is, x, '/')) f.push_back(x);
		if(f.size() != 6) continue;
		Obs o;
		o.song = strtoul(f[0].c_str(), 0, 10);
		o.ctx = f[1];
		o.has_mds = f[2] != "v";
		o.has_vgm = f[2] != "m";
		o.v.seq = f[3] == "-" ? "" : f[3];
		o.v.mds = f[4] == "-" ? "" : f[4];
		o.v.vgm = f[5] == "-" ? "" : f[5];
		out.push_back(o);
	}
	return out;
}

std::string h_hist1(const std::string& arg)
{
	Args a = parse_args(arg);
	std::string out = "r";
	for(size_t i = 0; i < a.songs.size(); i++)
		out += (i ? " ; " : " ") + val_str(compile_fresh(a.songs[i], a.dir, a.mode));
	return out;
}

// run `hist1` on the given songs in a fresh process; returns one Val per song (empty on failure)
std::vector<Val> child(const std::string& exe, const std::string& envs, const Args& a, const std::vector<std::string>& songs, std::string* why)
{
	static int counter = 0;
	std::vector<Val> out;
	char name[64];
	snprintf(name, sizeof name, "c16_req_%d_%d.txt", (int)getpid(), counter++);
	std::string path = a.dir + "/" + name;
	FILE* fp = fopen(path.c_str(), "wb");
	if(!fp) { *why = "tmpfile"; return out; }
	std::string dhex;
	{
		static const char* d = "0123456789abcdef";
		for(unsigned char c : a.dir) { dhex.push_back(d[c >> 4]); dhex.push_back(d[c & 15]); }
	}
	fprintf(fp, "hist1 D:%s%s", dhex.c_str(), a.mode == 2 ? " O" : a.mode == 1 ? " V" : "");
	for(const std::string& s : songs) fprintf(fp, " %s", s.c_str());
	fprintf(fp, "\n");
	fclose(fp);
	std::string cmd = envs + " '" + exe + "' '" + path + "' 0 60 2>/dev/null";
	FILE* p = popen(cmd.c_str(), "r");
	std::string txt;
	if(p)
	{
		char buf[4096];
		size_t n;
		while((n = fread(buf, 1, sizeof buf, p)) > 0) txt.append(buf, n);
		pclose(p);
	}
	unlink(path.c_str());
	size_t nl = txt.find('\n');
	if(nl != std::string::npos) txt = txt.substr(0, nl);
	if(txt.compare(0, 2, "r ") != 0) { *why = txt.empty() ? "no-answer" : txt.substr(0, 60); return out; }
	std::vector<std::string> t = split_ws(txt.substr(2));
	Val cur;
	for(const std::string& x : t)
	{
		if(x == ";") { out.push_back(cur); cur = Val(); }
		else if(x.compare(0, 4, "seq=") == 0) cur.seq = x.substr(4);
		else if(x.compare(0, 4, "mds=") == 0) cur.mds = x.substr(4);
		else if(x.compare(0, 4, "vgm=") == 0) cur.vgm = x.substr(4);
	}
	out.push_back(cur);
	if(out.size() != songs.size()) { *why = "short-answer"; out.clear(); }
	return out;
}


std::string h_hist(const std::string& arg)
{
	Args a = parse_args(arg);
	size_t k = a.songs.size();
	if(!k) return "bad-request";
	std::vector<std::vector<Obs>> obs(k);
	int asan_ok = 0, plain_ok = 0;
	std::string notes;
	char self[4096];
	ssize_t sl = readlink("/proc/self/exe", self, sizeof self - 1);
	self[sl > 0 ? sl : 0] = 0;
	const char* plain = getenv("VERIF_PLAIN_HARNESS");
	const std::string asan_base = "ASAN_OPTIONS=detect_leaks=0:abort_on_error=0:exitcode=99:allocator_may_return_null=0:max_malloc_fill_size=1073741824:malloc_fill_byte=";
	char ctx[64];
	// (a) every song alone in a fresh process (first fill byte): the reference observation
	if(!a.fills.empty())
		for(size_t i = 0; i < k; i++)
		{
			std::string why;
			std::vector<Val> r = child(self, asan_base + std::to_string(a.fills[0]), a, {a.songs[i]}, &why);
			if(r.size() == 1) { asan_ok++; snprintf(ctx, sizeof ctx, "alone-f%d", a.fills[0]); obs[i].push_back({ctx, r[0], true, true}); }
			else notes += " child-failed:" + why;
		}
	// (d) the whole list, reversed, in one fresh process per further fill byte / per seed of the plain variant
	std::vector<std::string> rev(a.songs.rbegin(), a.songs.rend());
	for(size_t f = 1; f < a.fills.size(); f++)
	{
		std::string why;
		std::vector<Val> r = child(self, asan_base + std::to_string(a.fills[f]), a, rev, &why);
		if(r.size() == k)
		{
			asan_ok++;
			snprintf(ctx, sizeof ctx, "rev-f%d", a.fills[f]);
			for(size_t i = 0; i < k; i++) obs[k - 1 - i].push_back({ctx, r[i], true, true});
		}
		else notes += " child-failed:" + why;
	}
	if(plain)
		for(size_t s = 0; s < a.seeds.size(); s++)
		{
			std::string why;
			std::vector<std::string> order = (s & 1) ? rev : a.songs;
			std::vector<Val> r = child(plain, "VERIF_FILL_SEED=" + std::to_string(a.seeds[s]), a, order, &why);
			if(r.size() == k)
			{
				plain_ok++;
				snprintf(ctx, sizeof ctx, "plain-s%d", a.seeds[s]);
				for(size_t i = 0; i < k; i++) obs[(s & 1) ? k - 1 - i : i].push_back({ctx, r[i], true, true});
			}
			else notes += " plain-failed:" + why;
		}
	// (b)+(c) in ONE further fresh process (so that a request never depends on what the harness
	// process served before): rounds and repeated exports of one Song object, see h_hist2
	{
		std::string why;
		std::vector<Obs> more = child_rounds(self, asan_base + "190", a, &why);
		if(more.empty()) notes += " rounds-failed:" + why;
		for(const Obs& o : more) if(o.song < k) obs[o.song].push_back(o);
	}
	char buf[128];
	snprintf(buf, sizeof buf, "hist n=%zu asan=%d plain=%d", k, asan_ok, plain_ok);
	std::string out = buf;
	for(size_t i = 0; i < k; i++)
	{
		Val ref;
		bool have_m = false, have_v = false;
		std::string diff;
		int nd = 0;
		for(const Obs& o : obs[i])
		{
			if(o.has_mds)
			{
				if(!have_m) { ref.mds = o.v.mds; ref.seq = o.v.seq; have_m = true; }
				else
				{
					if(o.v.mds != ref.mds && nd++ < 6) diff += (diff.empty() ? "" : ",") + o.ctx + "/mds=" + o.v.mds;
					else if(o.v.seq != ref.seq && nd++ < 6) diff += (diff.empty() ? "" : ",") + o.ctx + "/seq=" + o.v.seq;
				}
			}
			if(o.has_vgm)
			{
				if(!have_v) { ref.vgm = o.v.vgm; have_v = true; }
				else if(o.v.vgm != ref.vgm && nd++ < 6) diff += (diff.empty() ? "" : ",") + o.ctx + "/vgm=" + o.v.vgm;
			}
		}
		bool ir = a.songs[i].compare(0, 2, "C:") == 0 && a.mode != 2;   // the optimizer is not part of the converter model
		snprintf(buf, sizeof buf, " obs=%zu diff=", obs[i].size());
		out += " | s" + std::to_string(i) + (ir ? " seq=" : " mseq=") + ref.seq + " mds=" + ref.mds + " vgm=" + ref.vgm + buf + (diff.empty() ? "-" : diff);
	}
	if(!notes.empty()) out += " | notes" + notes;
	return out;
}

// protected statics of MD_PCMDriver are visible to a derived class
struct PcmProbe : MD_PCMDriver
{
	PcmProbe(MD_Driver& d) : MD_PCMDriver(d) {}
	static std::string state()
	{
		std::vector<uint8_t> b((const uint8_t*)vol_table, (const uint8_t*)vol_table + sizeof vol_table);
		std::vector<uint8_t> row3((const uint8_t*)vol_table[3], (const uint8_t*)vol_table[3] + 256);
		std::vector<uint8_t> pt((const uint8_t*)pitch_table, (const uint8_t*)pitch_table + sizeof pitch_table);
		return std::string("init=") + (tables_initialized ? "1" : "0") + " vol=" + lenfnv(b) + " row3=" + hex_of(std::vector<uint8_t>(row3.begin() + 120, row3.begin() + 136)) + " pitch=" + hex_of(pt);
	}
};

std::string h_pcmtab(const std::string&)
{
	VGM_Writer* w = new VGM_Writer("", 0x61, 0x100);
	MD_Driver drv(44100, w, 2);
	return "pcmtab " + PcmProbe::state();
}

// D15 probe: MDSDRV_Linker::get_seq_data appends to the member data_offset on every call.
// Linker A: get_seq_data() after every added song; linker B: all songs, one call.
std::string h_linktwice(const std::string& arg)
{
	Args a = parse_args(arg);
	try
	{
		Quiet q;
		MDSDRV_Linker la, lb;
		std::string again;
		for(size_t i = 0; i < a.songs.size(); i++)
		{
			Song song;
			load_song(song, a.songs[i], a.dir);
			MDSDRV_Converter conv(song);
			RIFF mds = conv.get_mds();
			RIFF mds2 = conv.get_mds();
			la.add_song(mds, "song" + std::to_string(i));
			lb.add_song(mds2, "song" + std::to_string(i));
			(void)la.get_seq_data();
		}
		std::string r1 = lenfnv(la.get_seq_data());
		std::string r2 = lenfnv(lb.get_seq_data());
		std::string r3 = lenfnv(lb.get_seq_data());
		return "linktwice after-earlier-calls=" + r1 + " single-call=" + r2 + " second-call=" + r3;
	}
	catch(InputError&) { return "linktwice exc:InputError"; }
	catch(std::exception& e) { return std::string("linktwice exc:") + exc_name(e); }
}

}

HANDLER("hist", h_hist);
HANDLER("hist1", h_hist1);
HANDLER("hist2", h_hist2);
HANDLER("pcmtab", h_pcmtab);
HANDLER("linktwice", h_linktwice);
