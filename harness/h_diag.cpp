// stream diag.what — C17: the whole pipeline as mmlc runs it (MML_Input::open_file on a real
// file -> Song_Validator -> get_export_data(song, mds)), answering the stage that rejected the
// input and the InputError::what() text.
//
//   diag <filename> <hexline> <hexline> ... [@ anything: fault description + token map, read by the judge]
//   -> stage=<parse|validate|convert|ok> what=<what() with blanks as '_'  |  ->
#include "h_common.h"
#include "h_song.h"
#include "mml_input.h"
#include "song.h"
#include "player.h"
#include "platform/mdsdrv.h"
#include <unistd.h>
#include <sys/stat.h>
#include <fcntl.h>
#include <iostream>
#include <fstream>

namespace {

// the library reports to std::cerr / std::cout and, in convert_macro_track, to stdout through
// printf: keep the answer stream clean (file descriptor 1 is pointed at /dev/null meanwhile)
struct Quiet_Streams
{
	std::streambuf* old_err;
	std::streambuf* old_out;
	std::ostringstream sink;
	int saved_fd;
	Quiet_Streams()
	{
		old_err = std::cerr.rdbuf(sink.rdbuf());
		old_out = std::cout.rdbuf(sink.rdbuf());
		fflush(stdout);
		saved_fd = dup(1);
		int nul = open("/dev/null", O_WRONLY);
		if(nul >= 0) { dup2(nul, 1); close(nul); }
	}
	~Quiet_Streams()
	{
		fflush(stdout);
		if(saved_fd >= 0) { dup2(saved_fd, 1); close(saved_fd); }
		std::cerr.rdbuf(old_err);
		std::cout.rdbuf(old_out);
	}
};

std::string unhex(const std::string& s)
{
	std::string o;
	if(s == "-") return o;
	for(size_t i = 0; i + 1 < s.size(); i += 2)
		o.push_back((char)strtoul(s.substr(i, 2).c_str(), 0, 16));
	return o;
}

std::string token_of(const char* what)
{
	std::string s(what);
	for(char& c : s)
	{
		if(c == ' ') c = '_';
		else if((unsigned char)c < 0x20 || (unsigned char)c >= 0x7f) c = '?';
	}
	return s.empty() ? "-" : s;
}

// the input file lives in a private directory below the harness' working directory (never /tmp)
struct Work_Dir
{
	std::string dir, old;
	bool ok;
	Work_Dir() : ok(false)
	{
		char buf[4096];
		if(!getcwd(buf, sizeof buf)) return;
		old = buf;
		dir = old + "/c17." + std::to_string((long)getpid());
		mkdir(dir.c_str(), 0700);
		ok = (chdir(dir.c_str()) == 0);
	}
	~Work_Dir()
	{
		if(ok) { if(chdir(old.c_str()) != 0) {} }
		rmdir(dir.c_str());
	}
};

std::string h_diag(const std::string& arg)
{
	Quiet_Streams quiet;
	std::vector<std::string> toks = split_ws(arg);
	if(toks.empty()) return "bad-request";
	std::string name = toks[0];
	if(name.find('/') != std::string::npos || name.empty() || name[0] == '.') return "bad-request";
	Work_Dir wd;
	if(!wd.ok) return "bad-request workdir";
	{
		std::ofstream f(name, std::ios::binary);
		for(size_t i = 1; i < toks.size(); i++)
		{
			if(toks[i] == "@") break;
			f << unhex(toks[i]) << "\n";
		}
	}
	std::string stage = "parse";
	std::string what = "-";
	try
	{
		Song song;
		MML_Input input(&song);
		input.open_file(name);
		stage = "validate";
		Song_Validator validator(song);
		stage = "convert";
		std::vector<uint8_t> bytes = song.get_platform()->get_export_data(song, 1);
		stage = "ok";
	}
	catch(InputError& e)
	{
		what = token_of(e.what());
	}
	catch(std::exception& e)
	{
		what = "foreign:" + exc_name(e);
	}
	unlink(name.c_str());
	return "stage=" + stage + " what=" + what;
}

}

HANDLER("diag", h_diag);
