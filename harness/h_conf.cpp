// stream conf.tree — C20
// request:  conf <hex of the text | -> [| <styled tree, read only by the Lean judge>]
// answer :  ok <tree>      tree = (<hex key | -> child child ...), root key first
//           exc:<what>     an exception the code throws on purpose
// The text is copied into a heap buffer of exactly strlen+1 bytes (cut at the first NUL, as a
// C string is), so that ASan sees any read past the terminating NUL.
#include "h_common.h"
#include "conf.h"

static void dump(const Conf& c, std::string& out)
{
	out += "(";
	std::vector<uint8_t> k(c.key.begin(), c.key.end());
	out += hex_or_dash(k);
	for(const Conf& s : c.subkeys)
	{
		out += " ";
		dump(s, out);
	}
	out += ")";
}

static std::string h_conf(const std::string& arg)
{
	std::string hex = arg.substr(0, arg.find(' '));
	std::vector<uint8_t> bytes = bytes_of_hex(hex);
	size_t n = 0;
	while(n < bytes.size() && bytes[n]) n++;
	std::unique_ptr<char[]> buf(new char[n + 1]);
	if(n) memcpy(buf.get(), bytes.data(), n);
	buf[n] = 0;
	try
	{
		Conf c = Conf::from_string(buf.get());
		std::string out = "ok ";
		dump(c, out);
		return out;
	}
	catch(std::runtime_error& e)
	{
		std::string w = e.what();
		for(char& ch : w) if(ch == ' ') ch = '_';
		return "exc:runtime_error:" + w;
	}
	catch(std::exception& e) { return std::string("exc:") + exc_name(e); }
}
HANDLER("conf", h_conf);
