// streams mml.events (MML text -> events of every track, error message + position) and
// track.api (direct Track API call sequences) — C05, reusable for C06 / C17
#include "h_common.h"
#include "h_song.h"
#include "mml_input.h"
#include "song.h"
#include "track.h"
#include <unistd.h>
#include <fcntl.h>
#include <iostream>

static std::string hexstr(const std::string& s)
{
	static const char* d = "0123456789abcdef";
	std::string o;
	for(unsigned char c : s) { o.push_back(d[c >> 4]); o.push_back(d[c & 15]); }
	return o.empty() ? "-" : o;
}

static std::string unhex(const std::string& s)
{
	std::string o;
	if(s == "-") return o;
	for(size_t i = 0; i + 1 < s.size(); i += 2)
		o.push_back((char)strtoul(s.substr(i, 2).c_str(), 0, 16));
	return o;
}

static std::string events_refs(std::vector<Event>& evs, bool refs)
{
	std::string s;
	char buf[96];
	for(size_t i = 0; i < evs.size(); i++)
	{
		snprintf(buf, sizeof buf, "%s%d.%d.%u.%u", i ? "," : "", (int)evs[i].type, (int)evs[i].param, (unsigned)evs[i].on_time, (unsigned)evs[i].off_time);
		s += buf;
		if(refs)
		{
			if(evs[i].reference)
				snprintf(buf, sizeof buf, "@%u:%u", evs[i].reference->get_line(), evs[i].reference->get_column());
			else
				snprintf(buf, sizeof buf, "@-");
			s += buf;
		}
	}
	return s.empty() ? "-" : s;
}

// parse_warning writes to std::cerr; keep the harness' stderr for sanitizer reports only
struct Quiet_Cerr
{
	std::streambuf* old;
	std::ostringstream sink;
	Quiet_Cerr() { old = std::cerr.rdbuf(sink.rdbuf()); }
	~Quiet_Cerr() { std::cerr.rdbuf(old); }
};

// mml <hexline> <hexline> ... [@ anything]      (mmlr: the same with event references)
static std::string run_mml(const std::string& arg, bool refs)
{
	Quiet_Cerr quiet;
	std::vector<std::string> toks = split_ws(arg);
	Song song;
	MML_Input input(&song);
	std::string err = "-";
	int line = 0;
	for(const std::string& t : toks)
	{
		if(t == "@") break;
		try
		{
			input.read_line(unhex(t), line);
		}
		catch(InputError& e)
		{
			err = std::string("input:") + msg_token(e.what());
			break;
		}
		catch(std::exception& e)
		{
			err = std::string("foreign:") + exc_name(e);
			break;
		}
		line++;
	}
	std::string out = "err=" + err + " tracks=";
	bool first = true;
	for(auto& kv : song.get_track_map())
	{
		if(!first) out += ";";
		first = false;
		out += "T" + std::to_string(kv.first) + ":" + events_refs(kv.second.get_events(), refs);
	}
	if(first) out += "-";
	out += " tags=";
	first = true;
	if(song.check_tag("tag_order"))
	{
		for(const std::string& k : song.get_tag("tag_order"))
		{
			if(!first) out += ",";
			first = false;
			out += hexstr(k);
			if(!k.empty() && k[0] == '#')
				out += "=" + hexstr(song.get_tag_front_safe(k));
		}
	}
	if(first) out += "-";
	return out;
}
static std::string h_mml(const std::string& arg) { return run_mml(arg, false); }
static std::string h_mmlr(const std::string& arg) { return run_mml(arg, true); }
HANDLER("mml", h_mml);
HANDLER("mmlr", h_mmlr);

static std::vector<long> fields(const std::string& op, std::vector<std::string>* raw = nullptr)
{
	std::vector<long> v;
	size_t a = op.find(':');
	while(a != std::string::npos)
	{
		size_t b = op.find(':', a + 1);
		std::string f = op.substr(a + 1, b == std::string::npos ? std::string::npos : b - a - 1);
		if(raw) raw->push_back(f);
		v.push_back(strtol(f.c_str(), 0, 10));
		a = b;
	}
	return v;
}

// tapi <op> <op> ...
static std::string h_tapi(const std::string& arg)
{
	Quiet_Cerr quiet;
	std::vector<std::string> toks = split_ws(arg);
	Track t;
	std::string rep;
	int idx = 0;
	char buf[64];
	for(const std::string& op : toks)
	{
		if(op == "@") break;
		std::vector<std::string> raw;
		std::vector<long> f = fields(op, &raw);
		std::string name = op.substr(0, op.find(':'));
		std::string r;
		try
		{
			if(name == "ev") t.add_event((Event::Type)f.at(0), (int16_t)f.at(1), (uint16_t)f.at(2), (uint16_t)f.at(3));
			else if(name == "n") t.add_note((int)f.at(0), (uint16_t)f.at(1));
			else if(name == "t") { t.add_tie((uint16_t)f.at(0)); }
			else if(name == "r") t.add_rest((uint16_t)f.at(0));
			else if(name == "S") { snprintf(buf, sizeof buf, "slur=%d", t.add_slur()); r = buf; }
			else if(name == "e") t.add_echo((uint16_t)f.at(0));
			else if(name == "R") t.reverse_rest((uint16_t)f.at(0));
			else if(name == "ref") t.set_reference(std::make_shared<InputRef>("", "", (int)f.at(0), (int)f.at(1)));
			else if(name == "o") t.set_octave((int)f.at(0));
			else if(name == "O") t.change_octave((int)f.at(0));
			else if(name == "l") t.set_duration((uint16_t)f.at(0));
			else if(name == "Q") { snprintf(buf, sizeof buf, "quantize=%d", t.set_quantize((uint16_t)f.at(0), (uint16_t)f.at(1))); r = buf; }
			else if(name == "q") t.set_early_release((uint16_t)f.at(0));
			else if(name == "D") t.set_drum_mode((uint16_t)f.at(0));
			else if(name == "E") t.set_echo((uint16_t)f.at(0), (int16_t)f.at(1));
			else if(name == "X") t.clear_echo_buffer();
			else if(name == "C") t.set_measure_len((uint16_t)f.at(0));
			else if(name == "s") t.set_shuffle((int16_t)f.at(0));
			else if(name == "K") { std::string k = unhex(raw.at(0)); t.set_key_signature(k.c_str()); }
			else if(name == "M") t.modify_key_signature((char)f.at(0), (int8_t)f.at(1));
			else if(name == "G") { snprintf(buf, sizeof buf, "keysig=%d", (int)t.get_key_signature((char)f.at(0))); r = buf; }
			else return "bad-request";
		}
		catch(std::length_error&) { r = "exc:length_error"; }
		catch(std::domain_error&) { r = "exc:domain_error"; }
		catch(std::invalid_argument&) { r = "exc:invalid_argument"; }
		if(!r.empty())
		{
			if(!rep.empty()) rep += ",";
			rep += std::to_string(idx) + ":" + r;
		}
		idx++;
	}
	std::string out = "ops=" + (rep.empty() ? std::string("-") : rep);
	out += " ev=" + events_refs(t.get_events(), true);
	snprintf(buf, sizeof buf, " st=%u.%u.%d.%d.%lu", (unsigned)t.get_duration(), (unsigned)t.get_measure_len(), (int)t.get_shuffle(),
		(int)t.in_drum_mode(), t.get_event_count());	// get_echo_delay/get_echo_volume are declared but not defined in track.cpp
	out += buf;
	out += " ks=";
	for(int k = 0; k < 8; k++)
	{
		snprintf(buf, sizeof buf, "%s%d", k ? "," : "", (int)t.get_key_signature('a' + k));
		out += buf;
	}
	return out;
}
HANDLER("tapi", h_tapi);
