// stream mml.layouts — C06: one abstract multi-track command stream, N textual layouts of it.
//   lay  <hexline> <hexline> ... / <hexline> ... / ... [@ abstract stream (ignored here)]
//   layx (the same; the judge expects every layout to be rejected)
// Every layout is parsed by a fresh MML_Input into a fresh Song; the answer carries, per layout,
// the error (message with position) and the events of every track of the song:
//   err=<-|input:msg|foreign:exc> tracks=<T<id>:t.p.on.off,...;...|-> | err=... tracks=... | ...
#include "h_common.h"
#include "mml_input.h"
#include "song.h"
#include "track.h"
#include <iostream>

namespace {

std::string unhex_line(const std::string& s)
{
	std::string o;
	if(s == "-") return o;
	for(size_t i = 0; i + 1 < s.size(); i += 2)
		o.push_back((char)strtoul(s.substr(i, 2).c_str(), 0, 16));
	return o;
}

std::string show_events(std::vector<Event>& evs)
{
	std::string s;
	char buf[96];
	for(size_t i = 0; i < evs.size(); i++)
	{
		snprintf(buf, sizeof buf, "%s%d.%d.%u.%u", i ? "," : "", (int)evs[i].type, (int)evs[i].param, (unsigned)evs[i].on_time, (unsigned)evs[i].off_time);
		s += buf;
	}
	return s.empty() ? "-" : s;
}

// parse_warning writes to std::cerr; keep the harness' stderr for sanitizer reports only
struct Quiet
{
	std::streambuf* old;
	std::ostringstream sink;
	Quiet() { old = std::cerr.rdbuf(sink.rdbuf()); }
	~Quiet() { std::cerr.rdbuf(old); }
};

std::string msg_tok(const char* what)
{
	std::string m(what);
	for(char& c : m) if(c == ' ') c = '_';
	return m;
}

std::string run_layout(const std::vector<std::string>& lines)
{
	Song song;
	MML_Input input(&song);
	std::string err = "-";
	int line = 0;
	for(const std::string& t : lines)
	{
		try
		{
			input.read_line(unhex_line(t), line);
		}
		catch(InputError& e)
		{
			err = std::string("input:") + msg_tok(e.what());
			break;
		}
		catch(std::exception& e)
		{
			err = std::string("foreign:") + exc_name(e);
			break;
		}
		line++;
	}
	std::string out = "err=" + err + " tracks=";
	bool first = true;
	for(auto& kv : song.get_track_map())
	{
		if(!first) out += ";";
		first = false;
		out += "T" + std::to_string(kv.first) + ":" + show_events(kv.second.get_events());
	}
	if(first) out += "-";
	return out;
}

std::string h_lay(const std::string& arg)
{
	Quiet quiet;
	std::vector<std::string> toks = split_ws(arg);
	std::vector<std::string> cur;
	std::string out;
	bool any = false;
	for(size_t i = 0; i <= toks.size(); i++)
	{
		bool end = i == toks.size() || toks[i] == "@";
		if(end || toks[i] == "/")
		{
			if(any) out += " | ";
			any = true;
			out += run_layout(cur);
			cur.clear();
			if(end) break;
		}
		else
			cur.push_back(toks[i]);
	}
	return out;
}

std::string h_layx(const std::string& arg) { return h_lay(arg); }

}

HANDLER("lay", h_lay);
HANDLER("layx", h_layx);
