// stream data.bank — C11: MDSDRV_Data::read_song on instrument / envelope definitions.
//   ins  [opt=noextpitch] ; <key> <tok> <tok> ... ; <key> ...     tags fed with Song::add_tag per token
//                                                                  (`#option` through set_tag, as parse_tag does)
//   insmml <hex of MML text>                                       the same through MML_Input (glue)
// Answer: exc=<-|name> ext=<0|1> bank=<hex>,<hex>.. env=<id>:<idx>,.. tr=<id>:<v>,.. ty=<id>:<n>,.. pm=<id>:<idx>,.. px=<id>,..
// MDSDRV_Data keeps its tables private and declares no test friend; they are read through
// pointers-to-member obtained by explicit template instantiation (access checking does not
// apply there) — no change to the source, no behaviour change.
#include "h_common.h"
#include "song.h"
#include "mml_input.h"
#include "platform/mdsdrv.h"
#include <set>

namespace
{
template <typename Tag, typename Tag::type M> struct Rob
{
	friend typename Tag::type get(Tag) { return M; }
};
#define ROB(NAME, TYPE, MEMBER) \
	struct NAME { typedef TYPE MDSDRV_Data::*type; friend type get(NAME); }; \
	template struct Rob<NAME, &MDSDRV_Data::MEMBER>;
typedef std::vector<std::vector<uint8_t>> bank_t;
typedef std::map<uint16_t, int> imap_t;
typedef std::map<uint16_t, MDSDRV_Data::InstrumentType> tmap_t;
ROB(T_bank, bank_t, data_bank)
ROB(T_env, imap_t, envelope_map)
ROB(T_tr, imap_t, ins_transpose)
ROB(T_ty, tmap_t, ins_type)
ROB(T_pm, imap_t, pitch_map)
ROB(T_px, std::set<uint16_t>, pitch_extend)
ROB(T_ext, bool, use_extended_pitch)

template <typename M> std::string show_map(const M& m)
{
	std::string s;
	for(auto& kv : m)
	{
		if(!s.empty()) s += ",";
		s += std::to_string(kv.first) + ":" + std::to_string((int)kv.second);
	}
	return s.empty() ? "-" : s;
}

std::string run(Song& song)
{
	MDSDRV_Data data;
	std::string exc = "-";
	try { data.read_song(song); }
	catch(InputError&) { exc = "InputError"; }
	catch(std::exception& e) { exc = exc_name(e); }
	std::string out = "exc=" + exc;
	out += std::string(" ext=") + ((data.*get(T_ext())) ? "1" : "0");
	std::string b;
	for(auto& v : data.*get(T_bank()))
	{
		if(!b.empty()) b += ",";
		b += hex_or_dash(v);
	}
	out += " bank=" + (b.empty() ? std::string("none") : b);
	out += " env=" + show_map(data.*get(T_env()));
	out += " tr=" + show_map(data.*get(T_tr()));
	out += " ty=" + show_map(data.*get(T_ty()));
	out += " pm=" + show_map(data.*get(T_pm()));
	std::string px;
	for(uint16_t v : data.*get(T_px()))
	{
		if(!px.empty()) px += ",";
		px += std::to_string(v);
	}
	out += " px=" + (px.empty() ? std::string("-") : px);
	return out;
}
}

static std::string h_ins(const std::string& arg)
{
	Song song;
	std::vector<std::string> toks = split_ws(arg);
	std::string key;
	bool want_key = true;
	for(const std::string& t : toks)
	{
		if(t == ";") { want_key = true; continue; }
		if(t.compare(0, 4, "opt=") == 0 && want_key && key.empty())
		{
			song.set_tag("#option", t.substr(4));
			continue;
		}
		if(want_key) { key = t; want_key = false; song.get_or_make_tag(key); continue; }
		song.add_tag(key, t);
	}
	return run(song);
}
HANDLER("ins", h_ins);

static std::string h_insmml(const std::string& arg)
{
	std::vector<uint8_t> raw = bytes_of_hex(arg);
	std::string text(raw.begin(), raw.end());
	Song song;
	try
	{
		MML_Input in(&song);
		std::stringstream ss(text);
		std::string line;
		int n = 1;
		while(std::getline(ss, line))
			in.read_line(line, n++);
	}
	catch(InputError&) { return "parse=InputError"; }
	catch(std::exception& e) { return std::string("parse=") + exc_name(e); }
	return run(song);
}
HANDLER("insmml", h_insmml);
