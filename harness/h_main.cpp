// Correspondence harness: runs the real ctrmml code in-process on one request per line and
// prints one canonical answer line per request.  Linked against objects compiled from
// /repo/src as it is now (ASan+UBSan).  No source hooks: private state is reached through
// the friend names the headers already declare.
#include "h_common.h"
#include <csignal>
#include <unistd.h>
#include <fstream>

std::map<std::string, handler_fn>& registry()
{
	static std::map<std::string, handler_fn> r;
	return r;
}

static void on_alarm(int)
{
	static const char msg[] = "timeout\n";
	ssize_t r = write(1, msg, sizeof(msg) - 1);
	(void)r;
	_exit(3);
}

int main(int argc, char** argv)
{
	// usage: vharness <casefile> <start-index> [per-case-seconds]
	if(argc < 3)
	{
		fprintf(stderr, "usage: vharness <casefile> <start> [seconds]\n");
		return 2;
	}
	std::ifstream in(argv[1]);
	long start = atol(argv[2]);
	int secs = argc > 3 ? atoi(argv[3]) : 10;
	signal(SIGALRM, on_alarm);
	std::string line;
	long idx = 0;
	while(std::getline(in, line))
	{
		if(idx++ < start)
			continue;
		std::string cmd = line.substr(0, line.find(' '));
		std::string rest = line.find(' ') == std::string::npos ? "" : line.substr(line.find(' ') + 1);
		std::string out;
		alarm(secs);
		auto it = registry().find(cmd);
		if(it == registry().end())
			out = "bad-request";
		else
		{
			try
			{
				out = it->second(rest);
			}
			catch(InputError& e)
			{
				out = std::string("uncaught:InputError");
			}
			catch(std::exception& e)
			{
				out = std::string("uncaught:") + exc_name(e);
			}
		}
		alarm(0);
		fputs(out.c_str(), stdout);
		fputc('\n', stdout);
		fflush(stdout);
	}
	return 0;
}
