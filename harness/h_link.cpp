// stream link.out — C10: the real MDSDRV_Linker (and MDSDRV_Converter::get_mds for stage 1)
//
// Stage 1 (harness only):
//   mkmds <song> ; <song> ; ...
//     song = N:<hex of file name> followed by either R:<hex of a pre-built MDS file>  or the tokens of the `conv`
//            request (T<id>:events, V:, G:<group>, I:, P:) plus
//              W:<id>=<bits>:<ch>:<rate>:<frames>:<seed>[:<tag arg>]*   PCM instrument on a generated WAV ('_' = blank in args)
//              F:<bits>:<ch>:<rate>:<frames>:<seed>                     only create the WAV file w_<bits>_<ch>_<rate>_<frames>_<seed>.wav
//              E:<id>=<text, ',' = blank>                               pitch envelope @m<id>
//              X:<hex of MML text>                                      the song is read from MML text (MML_Input), like mdslink does
//     answer: mds=<hex>|<hex>|...  direct=<seq lenfnv>,<pcm lenfnv>,<asm lenfnv>,<c lenfnv>
//     (direct = the same songs linked the way mdslink links .mml inputs: the RIFF object of get_mds goes straight into add_song)
// Stage 2 (harness and Lean model):
//   link <op> <op> ...      op = A:<hex of file name>:<hex of MDS file>   add_song(RIFF(bytes), name)
//                                Q                                         get_seq_data() (an intermediate query)
//     answer: ops=<r>,<r>,...  then either  end=aborted  (an add_song failed: mdslink stops there)
//             or  seq=<hex|err:..> again=<same|lenfnv> pcm=<hex> asm=<hex> c=<hex> stats=<hex> count=<n>
// WAV files are written into the current directory (the check runs the harness in build/c10work).
#include "h_song.h"
#include "platform/mdsdrv.h"
#include "mml_input.h"
#include "riff.h"
#include "util.h"
#include <unistd.h>
#include <fcntl.h>
#include <fstream>
#include <sys/stat.h>

void setup_conv_song(Song& song, const std::vector<std::string>& toks); // h_conv.cpp

namespace {

struct Hush
{
	int saved;
	Hush()
	{
		fflush(stdout);
		saved = dup(1);
		int nul = open("/dev/null", O_WRONLY);
		dup2(nul, 1);
		close(nul);
	}
	~Hush()
	{
		fflush(stdout);
		dup2(saved, 1);
		close(saved);
	}
};

void put16(std::vector<uint8_t>& v, unsigned x) { v.push_back(x & 255); v.push_back((x >> 8) & 255); }
void put32(std::vector<uint8_t>& v, unsigned long x) { put16(v, x & 0xffff); put16(v, (x >> 16) & 0xffff); }
void puts4(std::vector<uint8_t>& v, const char* s) { v.insert(v.end(), s, s + 4); }

std::vector<uint8_t> wav_bytes(unsigned bits, unsigned ch, unsigned long rate, unsigned long frames, unsigned seed)
{
	unsigned long n = frames * ch * (bits / 8);
	std::vector<uint8_t> v;
	puts4(v, "RIFF");
	put32(v, 4 + 24 + 8 + n + (n & 1));
	puts4(v, "WAVE");
	puts4(v, "fmt ");
	put32(v, 16);
	put16(v, 1);
	put16(v, ch);
	put32(v, rate);
	put32(v, rate * ch * (bits / 8));
	put16(v, ch * (bits / 8));
	put16(v, bits);
	puts4(v, "data");
	put32(v, n);
	std::vector<uint8_t> d = fill_bytes(n, seed);
	v.insert(v.end(), d.begin(), d.end());
	if(n & 1) v.push_back(0);
	return v;
}

std::vector<std::string> split_on(const std::string& s, char sep)
{
	std::vector<std::string> v;
	size_t p = 0;
	while(true)
	{
		size_t c = s.find(sep, p);
		v.push_back(s.substr(p, c == std::string::npos ? c : c - p));
		if(c == std::string::npos) break;
		p = c + 1;
	}
	return v;
}

// make sure the generated WAV exists in the working directory (atomic: temp file + rename)
std::string ensure_wav(const std::vector<std::string>& f, size_t at)
{
	unsigned long bits = strtoul(f.at(at).c_str(), 0, 10), ch = strtoul(f.at(at + 1).c_str(), 0, 10);
	unsigned long rate = strtoul(f.at(at + 2).c_str(), 0, 10), frames = strtoul(f.at(at + 3).c_str(), 0, 10);
	unsigned long seed = strtoul(f.at(at + 4).c_str(), 0, 10);
	char name[128];
	snprintf(name, sizeof name, "w_%lu_%lu_%lu_%lu_%lu.wav", bits, ch, rate, frames, seed);
	std::vector<uint8_t> bytes = wav_bytes(bits, ch, rate, frames, seed);
	struct stat st;
	if(stat(name, &st) == 0 && (size_t)st.st_size == bytes.size())
		return name;
	std::string tmp = std::string(name) + "." + std::to_string(getpid()) + ".tmp";
	{
		std::ofstream o(tmp, std::ios::binary);
		o.write((const char*)bytes.data(), bytes.size());
	}
	rename(tmp.c_str(), name);
	return name;
}

std::string str_of_hex(const std::string& h)
{
	std::vector<uint8_t> b = bytes_of_hex(h);
	return std::string(b.begin(), b.end());
}

std::string hex_of_str(const std::string& s)
{
	return hex_or_dash(std::vector<uint8_t>(s.begin(), s.end()));
}

std::string input_class(const std::string& m)
{
	if(m.find("not a valid .MDS") != std::string::npos) return "notmds";
	if(m.find("malformed") != std::string::npos) return "malformed";
	if(m.find("Incompatible sequence") != std::string::npos) return "version";
	if(m.find("does not fit") != std::string::npos) return "nofit";
	if(m.find("too big") != std::string::npos) return "toobig";
	return "other:" + msg_token(m.c_str());
}

// builds the Song of one stage-1 song description; returns false and sets err when the front end rejects it
bool build_song_from(const std::vector<std::string>& toks, Song& song, std::string& err)
{
	std::vector<std::string> rest;
	for(const std::string& t : toks)
	{
		if(t.compare(0, 2, "X:") == 0)
		{
			std::string text = str_of_hex(t.substr(2));
			try
			{
				MML_Input in(&song);
				std::stringstream ss(text);
				std::string line;
				int n = 1;
				while(std::getline(ss, line))
					in.read_line(line, n++);
			}
			catch(InputError&) { err = "err:parse"; return false; }
			catch(std::exception& e) { err = std::string("exc:") + exc_name(e); return false; }
		}
		else if(t.compare(0, 2, "F:") == 0)
			ensure_wav(split_on(t.substr(2), ':'), 0);
		else
			rest.push_back(t);
	}
	setup_conv_song(song, rest);
	for(const std::string& t : rest)
	{
		if(t.compare(0, 2, "W:") == 0)
		{
			size_t eq = t.find('=');
			std::string id = t.substr(2, eq - 2);
			std::vector<std::string> f = split_on(t.substr(eq + 1), ':');
			std::string val = "pcm " + ensure_wav(f, 0);
			for(size_t i = 5; i < f.size(); i++)
			{
				std::string a = f[i];
				for(char& c : a) if(c == '_') c = ' ';
				val += " \"" + a + "\"";
			}
			song.add_tag_list("@" + id, val);
		}
		else if(t.compare(0, 2, "E:") == 0)
		{
			size_t eq = t.find('=');
			std::string v = t.substr(eq + 1);
			for(char& c : v) if(c == ',') c = ' ';
			song.add_tag_list("@m" + t.substr(2, eq - 2), v);
		}
	}
	return true;
}

struct Link_Out
{
	std::string seq, again, pcm, asmh, ch, stats;
	unsigned count;
};

// the final queries, in the order mdslink makes them
void final_queries(MDSDRV_Linker& l, Link_Out& o)
{
	std::vector<uint8_t> first;
	bool ok = false;
	try
	{
		Hush q;
		first = l.get_seq_data();
		ok = true;
		o.seq = hex_or_dash(first);
	}
	catch(InputError& e) { o.seq = "err:" + input_class(e.what()); }
	catch(std::exception& e) { o.seq = std::string("exc:") + exc_name(e); }
	try
	{
		Hush q;
		std::vector<uint8_t> second = l.get_seq_data();
		o.again = (ok && second == first) ? "same" : lenfnv(second);
	}
	catch(InputError& e) { o.again = ok ? "err:" + input_class(e.what()) : "same"; }
	catch(std::exception& e) { o.again = std::string("exc:") + exc_name(e); }
	{
		Hush q;
		o.pcm = hex_or_dash(l.get_pcm_data());
		o.stats = hex_of_str(l.get_statistics());
	}
	o.asmh = hex_of_str(l.get_asm_header());
	o.ch = hex_of_str(l.get_c_header());
	o.count = l.get_seq_count();
}

std::string add_one(MDSDRV_Linker& l, RIFF& mds, const std::string& name)
{
	try
	{
		Hush q;
		l.add_song(mds, name);
		return "ok";
	}
	catch(InputError& e) { return "err:" + input_class(e.what()); }
	catch(std::exception& e) { return std::string("exc:") + exc_name(e); }
}

std::string h_mkmds(const std::string& arg)
{
	std::vector<std::string> songs = split_on(arg, ';');
	std::string out = "mds=";
	MDSDRV_Linker direct;
	std::string direct_state = "";
	bool first = true;
	for(const std::string& s : songs)
	{
		std::vector<std::string> toks = split_ws(s);
		if(toks.empty()) continue;
		std::string name;
		std::vector<std::string> rest;
		std::string raw;
		bool is_raw = false;
		for(const std::string& t : toks)
		{
			if(t.compare(0, 2, "N:") == 0) name = str_of_hex(t.substr(2));
			else if(t.compare(0, 2, "R:") == 0) { raw = t.substr(2); is_raw = true; }
			else rest.push_back(t);
		}
		std::string rec;
		if(is_raw)
		{
			rec = raw;
			if(direct_state.empty())
			{
				try
				{
					RIFF mds(bytes_of_hex(raw));
					std::string r = add_one(direct, mds, name);
					if(r != "ok") direct_state = r;
				}
				catch(std::exception& e) { direct_state = std::string("exc:") + exc_name(e); }
			}
		}
		else
		{
			Song song;
			std::string err;
			if(!build_song_from(rest, song, err))
				rec = err;
			else
			{
				try
				{
					Hush q;
					MDSDRV_Converter conv(song);
					RIFF mds = conv.get_mds();
					rec = hex_or_dash(mds.to_bytes());
					if(direct_state.empty())
					{
						try { direct.add_song(mds, name); }
						catch(InputError& e) { direct_state = "err:" + input_class(e.what()); }
						catch(std::exception& e) { direct_state = std::string("exc:") + exc_name(e); }
					}
				}
				catch(InputError& e) { rec = "err:conv"; }
				catch(std::exception& e) { rec = std::string("exc:") + exc_name(e); }
			}
			if(rec.compare(0, 4, "err:") == 0 || rec.compare(0, 4, "exc:") == 0)
				if(direct_state.empty()) direct_state = "skip";
		}
		out += (first ? "" : "|") + rec;
		first = false;
	}
	if(!direct_state.empty())
		return out + " direct=" + direct_state;
	Link_Out o;
	final_queries(direct, o);
	auto hs = [](const std::string& hex) { return (hex.compare(0, 4, "err:") == 0 || hex.compare(0, 4, "exc:") == 0) ? hex : lenfnv(bytes_of_hex(hex)); };
	return out + " direct=" + hs(o.seq) + "," + hs(o.pcm) + "," + hs(o.asmh) + "," + hs(o.ch);
}
HANDLER("mkmds", h_mkmds);

std::string h_link(const std::string& arg)
{
	std::vector<std::string> ops = split_ws(arg);
	MDSDRV_Linker l;
	std::string recs;
	bool aborted = false;
	for(const std::string& op : ops)
	{
		std::string r;
		if(op == "Q")
		{
			try
			{
				Hush q;
				r = "q" + lenfnv(l.get_seq_data());
			}
			catch(InputError& e) { r = "qerr:" + input_class(e.what()); }
			catch(std::exception& e) { r = std::string("qexc:") + exc_name(e); }
		}
		else if(op.compare(0, 2, "A:") == 0)
		{
			std::vector<std::string> f = split_on(op, ':');
			std::string name = str_of_hex(f.at(1));
			std::vector<uint8_t> bytes = bytes_of_hex(f.at(2));
			try
			{
				RIFF mds(bytes); // mdslink: mds = RIFF(data)
				r = add_one(l, mds, name);
			}
			catch(std::exception& e) { r = std::string("exc:") + exc_name(e); }
			if(r != "ok") aborted = true;
		}
		else
			return "bad-request";
		recs += (recs.empty() ? "" : ",") + r;
		if(aborted) break;
	}
	std::string out = "ops=" + (recs.empty() ? std::string("-") : recs);
	if(aborted)
		return out + " end=aborted";
	Link_Out o;
	final_queries(l, o);
	return out + " seq=" + o.seq + " again=" + o.again + " pcm=" + o.pcm + " asm=" + o.asmh + " c=" + o.ch + " stats=" + o.stats +
		" count=" + std::to_string(o.count);
}
HANDLER("link", h_link);

} // namespace
