// stream tags.map — C18
// Drives Song's tag API directly and whole lines through MML_Input::read_line, prints the
// resulting tag map / platform-command registry canonically (all text as hex).
#include "h_common.h"
#include "song.h"
#include "track.h"
#include "mml_input.h"

static std::string str_of_hex(const std::string& h)
{
	std::vector<uint8_t> b = bytes_of_hex(h);
	return std::string(b.begin(), b.end());
}
static std::string hx(const std::string& s)
{
	std::vector<uint8_t> b(s.begin(), s.end());
	return hex_or_dash(b);
}
static std::string show_tag(const Tag& t)
{
	std::string o = "[";
	for(size_t i = 0; i < t.size(); i++)
	{
		if(i) o += ",";
		o += hx(t[i]);
	}
	return o + "]";
}
static std::vector<std::string> split_colon(const std::string& s)
{
	std::vector<std::string> v;
	size_t p = 0;
	while(true)
	{
		size_t q = s.find(':', p);
		if(q == std::string::npos) { v.push_back(s.substr(p)); break; }
		v.push_back(s.substr(p, q - p));
		p = q + 1;
	}
	return v;
}

// canonical dump of a song: tag map in key order, PLATFORM event params per track, and
// get_platform_command() for every id that was returned or that sits in a track
static std::string dump(Song& song, const std::vector<int>& ret)
{
	std::string out = "map={";
	bool first = true;
	for(auto& kv : song.get_tag_map())
	{
		if(!first) out += ";";
		first = false;
		out += hx(kv.first) + "=" + show_tag(kv.second);
	}
	out += "} tracks={";
	std::map<int, bool> ids;
	for(int r : ret) ids[r] = true;
	first = true;
	for(auto& kv : song.get_track_map())
	{
		if(!first) out += ";";
		first = false;
		out += std::to_string(kv.first) + ":[";
		bool f2 = true;
		for(auto& ev : kv.second.get_events())
		{
			if(ev.type != Event::PLATFORM) continue;
			if(!f2) out += ",";
			f2 = false;
			out += std::to_string(ev.param);
			ids[ev.param] = true;
		}
		out += "]";
	}
	out += "} cmds={";
	first = true;
	for(auto& kv : ids)
	{
		if(!first) out += ";";
		first = false;
		out += std::to_string(kv.first) + "=";
		try { out += show_tag(song.get_platform_command((int16_t)kv.first)); }
		catch(std::out_of_range&) { out += "!"; }
	}
	return out + "}";
}

// tags <op>*   S:<k>:<v> set_tag | A:<k>:<v> add_tag | L:<k>:<v> add_tag_list | G:<k> get_or_make_tag
//              O get_tag_order_list | R:<int>:<v> register_platform_command | M:<line> MML_Input::read_line
static std::string h_tags(const std::string& arg)
{
	Song song;
	MML_Input inp(&song);
	std::vector<int> ret;
	std::string err = "-";
	std::vector<std::string> ops = split_ws(arg);
	for(size_t i = 0; i < ops.size(); i++)
	{
		std::vector<std::string> f = split_colon(ops[i]);
		const std::string& k = f.at(0);
		try
		{
			if(k == "S") song.set_tag(str_of_hex(f.at(1)), str_of_hex(f.at(2)));
			else if(k == "A") song.add_tag(str_of_hex(f.at(1)), str_of_hex(f.at(2)));
			else if(k == "L") song.add_tag_list(str_of_hex(f.at(1)), str_of_hex(f.at(2)));
			else if(k == "G") song.get_or_make_tag(str_of_hex(f.at(1)));
			else if(k == "O") song.get_tag_order_list();
			else if(k == "R") ret.push_back(song.register_platform_command((int16_t)atoi(f.at(1).c_str()), str_of_hex(f.at(2))));
			else if(k == "M") inp.read_line(str_of_hex(f.at(1)), (int)i);
			else return "bad-request";
		}
		catch(InputError& e)
		{
			err = "InputError@" + std::to_string(i);
			break;
		}
	}
	std::string out = "err=" + err + " ret=[";
	for(size_t i = 0; i < ret.size(); i++)
		out += (i ? "," : "") + std::to_string(ret[i]);
	return out + "] " + dump(song, ret);
}
HANDLER("tags", h_tags);

// tagr <key> <seg>*   I:<hex> plain item | Q:<hex> quoted item (raw escaped content, quotes added here)
//                     W:<hex> separator | C:<hex> comment (starts with ';') | N line break
// The rendered lines go (a) through MML_Input as `@key <line>` + continuation lines ` <line>` and
// (b) line by line through Song::add_tag_list on a second Song.
static std::string h_tagr(const std::string& arg)
{
	std::vector<std::string> t = split_ws(arg);
	std::string key = str_of_hex(t.at(0));
	std::vector<std::string> lines(1);
	for(size_t i = 1; i < t.size(); i++)
	{
		const std::string& s = t[i];
		if(s == "N") { lines.push_back(""); continue; }
		if(s.size() < 2 || s[1] != ':') return "bad-request";
		std::string body = str_of_hex(s.substr(2));
		if(s[0] == 'Q') lines.back() += "\"" + body + "\"";
		else if(s[0] == 'I' || s[0] == 'W' || s[0] == 'C') lines.back() += body;
		else return "bad-request";
	}
	std::string out;
	{
		Song song;
		MML_Input inp(&song);
		try
		{
			for(size_t i = 0; i < lines.size(); i++)
				inp.read_line((i ? " " : "@" + key + " ") + lines[i], (int)i);
			std::string lk = "@" + key; // generated keys carry no upper-case letters
			out = "mml=" + (song.check_tag(lk) ? show_tag(song.get_tag(lk)) : std::string("[]"));
		}
		catch(InputError& e) { out = "mml=exc:InputError"; }
	}
	{
		Song song;
		for(size_t i = 0; i < lines.size(); i++)
			song.add_tag_list(key, lines[i]);
		out += " api=" + show_tag(song.get_tag(key));
	}
	return out;
}
HANDLER("tagr", h_tagr);

// tagl <entry>*   whole lines with a known meaning, through MML_Input::read_line:
//   H:<key>:<blanks>:<value>   the line  #<key><blanks><value>
//   T:<key>:<w1>,<w2>,..|.     the line  @<key> w1 w2 ..      (`.` = no words)
//   K:<w1>,<w2>,..|.           the continuation line  ` w1 w2 ..`
static std::string words_of(const std::string& f)
{
	std::string out;
	if(f == ".") return out;
	size_t p = 0;
	while(true)
	{
		size_t q = f.find(',', p);
		std::string w = str_of_hex(f.substr(p, q == std::string::npos ? std::string::npos : q - p));
		if(!out.empty()) out += " ";
		out += w;
		if(q == std::string::npos) break;
		p = q + 1;
	}
	return out;
}
static std::string h_tagl(const std::string& arg)
{
	std::string ops;
	for(const std::string& e : split_ws(arg))
	{
		std::vector<std::string> f = split_colon(e);
		std::string line;
		if(f.at(0) == "H") line = "#" + str_of_hex(f.at(1)) + str_of_hex(f.at(2)) + str_of_hex(f.at(3));
		else if(f.at(0) == "T") line = "@" + str_of_hex(f.at(1)) + " " + words_of(f.at(2));
		else if(f.at(0) == "K") line = " " + words_of(f.at(1));
		else return "bad-request";
		ops += (ops.empty() ? "M:" : " M:") + hx(line);
	}
	return h_tags(ops);
}
HANDLER("tagl", h_tagl);
