#ifndef H_COMMON_H
#define H_COMMON_H
#include <string>
#include <vector>
#include <map>
#include <sstream>
#include <functional>
#include <stdexcept>
#include <typeinfo>
#include <cstdint>
#include <cstdio>
#include <cstdlib>
#include <cstring>
#include <memory>
#include "core.h"
#include "input.h"

typedef std::function<std::string(const std::string&)> handler_fn;
std::map<std::string, handler_fn>& registry();
struct Registrar
{
	Registrar(const char* name, handler_fn f) { registry()[name] = f; }
};
#define HANDLER(name, fn) static Registrar reg_##fn(name, fn)

static inline std::string exc_name(const std::exception& e)
{
	if(dynamic_cast<const std::out_of_range*>(&e)) return "out_of_range";
	if(dynamic_cast<const std::invalid_argument*>(&e)) return "invalid_argument";
	if(dynamic_cast<const std::length_error*>(&e)) return "length_error";
	if(dynamic_cast<const std::range_error*>(&e)) return "range_error";
	if(dynamic_cast<const std::logic_error*>(&e)) return "logic_error";
	if(dynamic_cast<const std::bad_alloc*>(&e)) return "bad_alloc";
	if(dynamic_cast<const std::runtime_error*>(&e)) return "runtime_error";
	return "exception";
}

static inline std::vector<std::string> split_ws(const std::string& s)
{
	std::vector<std::string> v;
	std::istringstream is(s);
	std::string t;
	while(is >> t) v.push_back(t);
	return v;
}

static inline std::string hex_of(const std::vector<uint8_t>& b)
{
	static const char* d = "0123456789abcdef";
	std::string s;
	s.reserve(b.size() * 2);
	for(uint8_t x : b) { s.push_back(d[x >> 4]); s.push_back(d[x & 15]); }
	return s;
}
static inline std::string hex_or_dash(const std::vector<uint8_t>& b) { return b.empty() ? "-" : hex_of(b); }

static inline std::vector<uint8_t> bytes_of_hex(const std::string& s)
{
	std::vector<uint8_t> b;
	if(s == "-") return b;
	for(size_t i = 0; i + 1 < s.size(); i += 2)
		b.push_back((uint8_t)strtoul(s.substr(i, 2).c_str(), 0, 16));
	return b;
}

static inline uint64_t fnv64(const uint8_t* p, size_t n)
{
	uint64_t h = 0xcbf29ce484222325ull;
	for(size_t i = 0; i < n; i++) { h ^= p[i]; h *= 0x100000001b3ull; }
	return h;
}
static inline std::string lenfnv(const std::vector<uint8_t>& b)
{
	char buf[64];
	snprintf(buf, sizeof buf, "%zu:%016llx", b.size(), (unsigned long long)fnv64(b.data(), b.size()));
	return buf;
}
// deterministic filler shared with the Lean driver: byte i = (seed + 31*i + i/256) mod 256
static inline std::vector<uint8_t> fill_bytes(size_t len, unsigned seed)
{
	std::vector<uint8_t> b(len);
	for(size_t i = 0; i < len; i++) b[i] = (uint8_t)(seed + 31 * i + i / 256);
	return b;
}
// payload spec: h:<hex|->  or f:<len>:<seed>
static inline std::vector<uint8_t> payload_of(const std::string& spec)
{
	if(spec.compare(0, 2, "h:") == 0) return bytes_of_hex(spec.substr(2));
	if(spec.compare(0, 2, "f:") == 0)
	{
		size_t c = spec.find(':', 2);
		return fill_bytes(strtoul(spec.substr(2, c - 2).c_str(), 0, 10), strtoul(spec.substr(c + 1).c_str(), 0, 10));
	}
	throw std::runtime_error("bad payload spec");
}
#endif
