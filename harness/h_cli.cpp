// stream cli.run — C19: the library's answers for one command line, obtained in-process by
// the calls mmlc / mdslink make (in their order), for comparison with what the built
// executables wrote.
//   clilib <hexdir> mmlc <hexpath> <opt>
//       → err | exc:<name> | ok fmts=<hex>,<hex> opt=<ok|err|exc|-> exp=<e>,<e>
//   clilib <hexdir> mdslink <flags> <hexpath>:<m|s>:<hexname>,...
//       → load=<ok|err|exc> seq=<e> pcm=<e> asm=<e> c=<e>
//   clifile <hexpath> → <len>:<fnv64> | nofile
//   e = <len>:<fnv64> | err | exc | crash | -   (- = not requested or not reached; crash = the
//       library aborted (sanitizer report / signal) in a forked child computing this entry)
#include "h_common.h"
#include "song.h"
#include "input.h"
#include "mml_input.h"
#include "player.h"
#include "optimizer.h"
#include "stringf.h"
#include "riff.h"
#include "platform/mdsdrv.h"
#include <unistd.h>
#include <sys/wait.h>
#include <fcntl.h>
#include <fstream>
#include <iostream>
#include <algorithm>

namespace {

struct Mute // the library prints progress on stdout; keep the protocol stream clean
{
	int saved;
	Mute()
	{
		fflush(stdout);
		std::cout.flush();
		saved = dup(1);
		int n = open("/dev/null", O_WRONLY);
		dup2(n, 1);
		close(n);
	}
	~Mute()
	{
		fflush(stdout);
		std::cout.flush();
		dup2(saved, 1);
		close(saved);
	}
};

std::string str_of_hex(const std::string& h)
{
	if(h == "_") return "";
	std::vector<uint8_t> b = bytes_of_hex(h);
	return std::string(b.begin(), b.end());
}

std::string hex_of_str(const std::string& s)
{
	if(s.empty()) return "_";
	return hex_of(std::vector<uint8_t>(s.begin(), s.end()));
}

// convert_file of both tools: parse + validate
void convert(Song& song, const std::string& path)
{
	MML_Input input = MML_Input(&song);
	input.open_file(path);
	auto validator = Song_Validator(song);
	(void)validator;
}

template <class F> std::string guarded(F f)
{
	try
	{
		return f();
	}
	catch(InputError&)
	{
		return "err";
	}
	catch(std::exception&)
	{
		return "exc";
	}
}

// run f in a forked child: a sanitizer abort / signal inside the library is the answer "crash"
// for this entry only
template <class F> std::string isolated(F f)
{
	int fd[2];
	if(pipe(fd) != 0)
		return "crash";
	fflush(stdout);
	fflush(stderr);
	pid_t pid = fork();
	if(pid == 0)
	{
		close(fd[0]);
		std::string r = f();
		ssize_t w = write(fd[1], r.data(), r.size());
		(void)w;
		_exit(0);
	}
	close(fd[1]);
	std::string out;
	char buf[4096];
	ssize_t n;
	while((n = read(fd[0], buf, sizeof buf)) > 0)
		out.append(buf, n);
	close(fd[0]);
	int status = 0;
	waitpid(pid, &status, 0);
	if(!WIFEXITED(status) || WEXITSTATUS(status) != 0 || out.empty())
		return "crash";
	return out;
}

std::string lib_mmlc(const std::string& path, bool opt)
{
	std::string fmts;
	size_t nfmt = 0;
	std::string c = isolated([&]() { return guarded([&]() {
		Song song;
		convert(song, path);
		auto list = song.get_platform()->get_export_formats();
		std::string f;
		for(auto&& i : list)
			f += (f.empty() ? "" : ",") + hex_of_str(i.first);
		return "ok " + (f.empty() ? std::string("-") : f);
	}); });
	if(c.compare(0, 3, "ok ") != 0)
		return c;
	fmts = c.substr(3);
	nfmt = fmts == "-" ? 0 : 1 + std::count(fmts.begin(), fmts.end(), ',');
	std::string o = "-";
	if(opt)
		o = isolated([&]() { return guarded([&]() {
			Song song;
			convert(song, path);
			Optimizer optimizer(song, 1);
			optimizer.optimize();
			return std::string("ok");
		}); });
	std::string exp;
	for(size_t f = 0; f < nfmt; f++)
	{
		std::string e = "-";
		if(!opt || o == "ok")
			e = isolated([&]() { return guarded([&]() {
				Song song;
				convert(song, path);
				if(opt)
				{
					Optimizer optimizer(song, 1);
					optimizer.optimize();
				}
				return lenfnv(song.get_platform()->get_export_data(song, f));
			}); });
		exp += (f ? "," : "") + e;
	}
	return "ok fmts=" + fmts + " opt=" + o + " exp=" + (exp.empty() ? std::string("-") : exp);
}

std::string lib_link(const std::string& flags, const std::string& items)
{
	auto linker = MDSDRV_Linker();
	std::string load = guarded([&]() {
		size_t pos = 0;
		while(pos <= items.size())
		{
			size_t end = items.find(',', pos);
			if(end == std::string::npos) end = items.size();
			std::string it = items.substr(pos, end - pos);
			pos = end + 1;
			size_t c1 = it.find(':'), c2 = it.find(':', c1 + 1);
			if(c1 == std::string::npos || c2 == std::string::npos)
				throw std::runtime_error("bad item");
			std::string path = str_of_hex(it.substr(0, c1));
			bool is_mds = it.substr(c1 + 1, c2 - c1 - 1) == "m";
			std::string name = str_of_hex(it.substr(c2 + 1));
			RIFF mds = RIFF(0);
			if(is_mds)
			{
				// as mdslink main reads a .mds file
				if(std::ifstream in{path, std::ios::binary | std::ios::ate})
				{
					auto size = in.tellg();
					auto data = std::vector<uint8_t>(size, 0);
					in.seekg(0);
					if(in.read((char*)data.data(), size))
						mds = RIFF(data);
					else
						throw InputError(nullptr, "Couldn't read");
				}
				else
					throw InputError(nullptr, "Couldn't open");
			}
			else
			{
				Song song;
				convert(song, path);
				auto converter = MDSDRV_Converter(song);
				mds = converter.get_mds();
			}
			linker.add_song(mds, name);
		}
		return std::string("ok");
	});
	std::string out = "load=" + load;
	const char* keys[4] = {"seq", "pcm", "asm", "c"};
	bool dead = load != "ok";
	for(int k = 0; k < 4; k++)
	{
		std::string e = "-";
		if(!dead && k < (int)flags.size() && flags[k] == '1')
		{
			e = guarded([&]() {
				if(k == 0) return lenfnv(linker.get_seq_data());
				if(k == 1)
				{
					std::string r = lenfnv(linker.get_pcm_data());
					(void)linker.get_statistics();
					return r;
				}
				std::string s = k == 2 ? linker.get_asm_header() : linker.get_c_header();
				return lenfnv(std::vector<uint8_t>(s.begin(), s.end()));
			});
			if(e == "err" || e == "exc")
				dead = true;
		}
		out += std::string(" ") + keys[k] + "=" + e;
	}
	return out;
}

std::string h_clilib(const std::string& arg)
{
	std::vector<std::string> t = split_ws(arg);
	if(t.size() < 4)
		return "bad-request";
	std::string dir = str_of_hex(t[0]);
	if(chdir(dir.c_str()) != 0)
		return "bad-dir";
	Mute mute;
	if(t[1] == "mmlc")
		return lib_mmlc(str_of_hex(t[2]), t[3] == "1");
	if(t[1] == "mdslink")
		return isolated([&]() { return lib_link(t[2], t[3]); });
	return "bad-request";
}

// clifile <hexpath> → <len>:<fnv64> of the file's bytes | nofile
std::string h_clifile(const std::string& arg)
{
	std::string path = str_of_hex(arg);
	std::ifstream in(path, std::ios::binary);
	if(!in)
		return "nofile";
	std::vector<uint8_t> data((std::istreambuf_iterator<char>(in)), std::istreambuf_iterator<char>());
	return lenfnv(data);
}

}
HANDLER("clilib", h_clilib);
HANDLER("clifile", h_clifile);
