// streams vgmw (operation sequences on VGM_Writer) and vgmsong (whole-song VGM export) — C08
#include "h_common.h"
#include "vgm.h"
#include "song.h"
#include "mml_input.h"
#include "platform/md.h"
#include <unistd.h>
#include <fcntl.h>
#include <iostream>

static std::vector<std::string> split_on(const std::string& s, char sep)
{
	std::vector<std::string> v;
	size_t st = 0;
	while(true)
	{
		size_t c = s.find(sep, st);
		if(c == std::string::npos) { v.push_back(s.substr(st)); break; }
		v.push_back(s.substr(st, c - st));
		st = c + 1;
	}
	return v;
}

// tag field: '-' | hex | n*hex
static std::string tag_field(const std::string& s)
{
	if(s == "-") return "";
	size_t star = s.find('*');
	std::vector<uint8_t> b;
	std::string out;
	if(star == std::string::npos)
	{
		b = bytes_of_hex(s);
		return std::string(b.begin(), b.end());
	}
	unsigned long n = strtoul(s.substr(0, star).c_str(), 0, 10);
	b = bytes_of_hex(s.substr(star + 1));
	for(unsigned long i = 0; i < n; i++) out.append(b.begin(), b.end());
	return out;
}

static VGM_Tag tags_of(const std::vector<std::string>& f)
{
	VGM_Tag t;
	t.title = tag_field(f.at(1)); t.title_j = tag_field(f.at(2));
	t.game = tag_field(f.at(3)); t.game_j = tag_field(f.at(4));
	t.system = tag_field(f.at(5)); t.system_j = tag_field(f.at(6));
	t.author = tag_field(f.at(7)); t.author_j = tag_field(f.at(8));
	t.date = tag_field(f.at(9)); t.creator = tag_field(f.at(10)); t.notes = tag_field(f.at(11));
	return t;
}

// The date string defaults to the wall clock and the notes string to the build stamp of
// vgm.cpp; both are replaced by a fixed text of the same length when (and only when) the
// string found at that place has exactly the expected shape.
static bool u16_at(const std::vector<uint8_t>& b, size_t p, uint16_t& u)
{
	if(p + 2 > b.size()) return false;
	u = b[p] | (b[p + 1] << 8);
	return true;
}
static void canon_defaults(std::vector<uint8_t>& b, bool date_default, bool notes_default)
{
	if(b.size() < 0x40) return;
	uint32_t g = b[0x14] | (b[0x15] << 8) | (b[0x16] << 16) | ((uint32_t)b[0x17] << 24);
	if(!g) return;
	size_t p = (size_t)g + 0x14 + 12;
	for(int i = 0; i < 11; i++)
	{
		size_t st = p;
		uint16_t u;
		std::string s;
		while(true)
		{
			if(!u16_at(b, p, u)) return;
			p += 2;
			if(u == 0) break;
			s.push_back(u < 128 ? (char)u : '\x01');
		}
		const char* shape = 0;
		if(i == 8 && date_default) shape = "dddd-dd-dd dd:dd:dd";
		if(i == 10 && notes_default) shape = "ctrmml (built aaa xx dddd dd:dd:dd)";
		if(!shape || s.size() != strlen(shape)) continue;
		bool okk = true;
		for(size_t k = 0; k < s.size(); k++)
		{
			char c = shape[k], x = s[k];
			if(c == 'd') okk = okk && isdigit((unsigned char)x);
			else if(c == 'a') okk = okk && isalpha((unsigned char)x);
			else if(c == 'x') okk = okk && (isdigit((unsigned char)x) || x == ' ');
			else okk = okk && x == c;
		}
		if(!okk) continue;
		for(size_t k = 0; k < s.size(); k++)
		{
			char c = shape[k];
			char r = (i == 8) ? (c == 'd' ? '0' : c) : ((c == 'd' || c == 'a' || c == 'x') ? '?' : c);
			b[st + 2 * k] = (uint8_t)r;
			b[st + 2 * k + 1] = 0;
		}
	}
}

static std::string render(const std::vector<uint8_t>& b, const std::vector<std::pair<size_t, size_t>>& ranges)
{
	char buf[64];
	snprintf(buf, sizeof buf, "len=%zu fnv=%016llx hex=", b.size(), (unsigned long long)fnv64(b.data(), b.size()));
	std::string out = buf;
	size_t pos = 0;
	for(auto& r : ranges)
	{
		if(r.first < pos || r.first + r.second > b.size()) continue;
		out += hex_of(std::vector<uint8_t>(b.begin() + pos, b.begin() + r.first));
		out += "(" + lenfnv(std::vector<uint8_t>(b.begin() + r.first, b.begin() + r.first + r.second)) + ")";
		pos = r.first + r.second;
	}
	out += hex_of(std::vector<uint8_t>(b.begin() + pos, b.end()));
	return out;
}

static std::string h_vgmw(const std::string& arg)
{
	std::vector<std::string> t = split_ws(arg);
	int version = atoi(t.at(0).c_str());
	int header = atoi(t.at(1).c_str());
	std::vector<std::pair<size_t, size_t>> ranges;
	bool date_default = false, notes_default = false;
	// the writer leaks its buffer by design (no file name) — one object per request
	VGM_Writer* w = new VGM_Writer("", version, header);
	try
	{
		for(size_t i = 2; i < t.size(); i++)
		{
			std::vector<std::string> f = split_on(t[i], ',');
			const std::string& k = f.at(0);
			auto N = [&](size_t j) { return strtoul(f.at(j).c_str(), 0, 10); };
			if(k == "w") w->write(N(1), N(2), N(3), N(4));
			else if(k == "ds") w->dac_setup(N(1), N(2), N(3), N(4), N(5));
			else if(k == "dp") w->dac_start(N(1), N(2), N(3), N(4));
			else if(k == "dx") w->dac_stop(N(1));
			else if(k == "L") w->set_loop();
			else if(k == "S") w->stop();
			else if(k == "d") w->delay((double)N(1));
			else if(k == "B")
			{
				std::vector<uint8_t> p = payload_of(f.at(2));
				w->datablock(N(1), p.size(), p.data(), N(3), 0xffffffff, 0, N(4));
				if(p.size() > 32) ranges.push_back({w->get_position() - p.size(), p.size()});
			}
			else if(k == "p")
			{
				unsigned long bits = N(1);
				if(bits == 32) w->poke32(N(2), N(3));
				else if(bits == 16) w->poke16(N(2), N(3));
				else w->poke8(N(2), N(3));
			}
			else if(k == "T")
			{
				VGM_Tag tg = tags_of(f);
				date_default = std::string(tg.date.c_str()).empty();
				notes_default = tg.notes.empty();
				w->write_tag(tg);
			}
			else return "bad-request";
		}
	}
	catch(std::exception& e) { return std::string("exc:") + exc_name(e); }
	std::vector<uint8_t> b = w->get_buffer();
	canon_defaults(b, date_default, notes_default);
	return render(b, ranges);
}
HANDLER("vgmw", h_vgmw);

// vgmsong <flag> T,<11 tag fields> <mml hex>   (tags are turned into '#tag value' lines)
static std::string h_vgmsong(const std::string& arg)
{
	std::vector<std::string> t = split_ws(arg);
	std::vector<std::string> f = split_on(t.at(1), ',');
	VGM_Tag tg = tags_of(f);
	std::string text;
	auto line = [&](const char* name, const std::string& v) { if(v.size()) text += std::string(name) + " " + v + "\n"; };
	line("#title", tg.title); line("#titlej", tg.title_j); line("#game", tg.game); line("#gamej", tg.game_j);
	line("#system", tg.system); line("#systemj", tg.system_j); line("#composer", tg.author); line("#composerj", tg.author_j);
	line("#vgmdate", tg.date); line("#programmer", tg.creator); line("#comment", tg.notes);
	std::vector<uint8_t> mml = bytes_of_hex(t.at(2));
	text.append(mml.begin(), mml.end());
	std::vector<uint8_t> b;
	// the library prints progress ("set tempo to ...") on stdout: park fd 1 during the export
	fflush(stdout);
	int saved = dup(1);
	int nul = open("/dev/null", O_WRONLY);
	dup2(nul, 1);
	close(nul);
	struct Restore { int fd; ~Restore() { std::cout.flush(); fflush(stdout); dup2(fd, 1); close(fd); } } restore{saved};
	try
	{
		char name[512];
		const char* td = getenv("VERIF_TMPDIR");
		snprintf(name, sizeof name, "%s/c08_%d.mml", td ? td : "/tmp", (int)getpid());
		FILE* fp = fopen(name, "wb");
		if(!fp) return "song exc:tmpfile";
		fwrite(text.data(), 1, text.size(), fp);
		fclose(fp);
		Song song;
		MML_Input input(&song);
		try { input.open_file(name); } catch(...) { unlink(name); throw; }
		unlink(name);
		b = song.get_platform()->get_export_data(song, 0);
	}
	catch(InputError& e) { return "song exc:InputError"; }
	catch(std::exception& e) { return std::string("song exc:") + exc_name(e); }
	canon_defaults(b, tg.date.empty(), tg.notes.empty());
	return "song " + render(b, {});
}
HANDLER("vgmsong", h_vgmsong);
