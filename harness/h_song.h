// shared: build a Song from the protocol's track tokens  T<id>:<type>.<param>.<on>.<off>,...
#ifndef H_SONG_H
#define H_SONG_H
#include "h_common.h"
#include "song.h"
#include "track.h"
#include "input.h"

static inline void add_events(Track& t, const std::string& list)
{
	size_t i = 0;
	while(i < list.size())
	{
		size_t j = list.find(',', i);
		if(j == std::string::npos) j = list.size();
		std::string e = list.substr(i, j - i);
		if(!e.empty())
		{
			long v[4] = {0, 0, 0, 0};
			int k = 0;
			size_t a = 0;
			while(k < 4 && a <= e.size())
			{
				size_t b = e.find('.', a);
				if(b == std::string::npos) b = e.size();
				v[k++] = strtol(e.substr(a, b - a).c_str(), 0, 10);
				a = b + 1;
			}
			t.add_event((Event::Type)v[0], (int16_t)v[1], (uint16_t)v[2], (uint16_t)v[3]);
		}
		i = j + 1;
	}
}

// consumes every token of the form T<id>:...; returns the others
static inline std::vector<std::string> build_song(Song& song, const std::vector<std::string>& toks)
{
	std::vector<std::string> rest;
	for(const std::string& t : toks)
	{
		if(t.size() > 1 && t[0] == 'T' && isdigit((unsigned char)t[1]))
		{
			size_t c = t.find(':');
			uint16_t id = (uint16_t)strtoul(t.substr(1, c - 1).c_str(), 0, 10);
			Track& tr = song.make_track(id);
			if(c != std::string::npos) add_events(tr, t.substr(c + 1));
		}
		else rest.push_back(t);
	}
	return rest;
}

static inline std::string msg_token(const char* what)
{
	std::string s(what);
	// strip "file:line:col: " prefix if present
	for(char& c : s) if(c == ' ') c = '_';
	return s;
}

static inline std::string events_to_string(std::vector<Event>& evs)
{
	std::string s;
	char buf[64];
	for(size_t i = 0; i < evs.size(); i++)
	{
		snprintf(buf, sizeof buf, "%s%d.%d.%u.%u", i ? "," : "", (int)evs[i].type, (int)evs[i].param, (unsigned)evs[i].on_time, (unsigned)evs[i].off_time);
		s += buf;
	}
	return s.empty() ? "-" : s;
}
#endif
