import re


def lean_str(s):
    return '"' + s.replace("\\", "\\\\").replace('"', '\\"').replace("\n", "\\n") + '"'


def gen(x):
    h = x.strip_comments(x.src("platform/mdsdrv.h"))
    w = ["def mdsdrv_data_count_max : Nat := %d  -- mdsdrv.h MDSDRV_Data" % x.const_int(h, "data_count_max", "mdsdrv.h:data_count_max")]
    for n, v in x.enum_body(h, "InstrumentType", "mdsdrv.h:MDSDRV_Data::InstrumentType"):
        w.append("def mdsdrv_%s : Nat := %d" % (n, v))
    c = x.strip_comments(x.src("platform/mdsdrv.cpp"))
    # add_pitch_node: the node-count limit, checked on the byte size after the push_backs
    m = x.need(re.search(r'if\(env_data->size\(\) > \(extend \? (\d+)u : (\d+)u\) \* (\d+)\)\s*throw InputError\(nullptr, "([^"]*)"\);', c),
               "mdsdrv.cpp:add_pitch_node node limit")
    w.append("def mdsdrv_pitch_node_size_ext : Nat := %s  -- mdsdrv.cpp add_pitch_node (extend ? 6u : 4u)" % m.group(1))
    w.append("def mdsdrv_pitch_node_size : Nat := %s" % m.group(2))
    w.append("def mdsdrv_pitch_node_max : Nat := %s  -- ... * 256" % m.group(3))
    w.append("def mdsdrv_msg_pitch_too_long : String := %s" % lean_str(m.group(4)))
    # add_pitch_envelope / add_extended_pitch_envelope: the loop position must fit its byte (both sites, same text)
    loop_check = r'if\(loop_pos > (\d+)\)\s*throw InputError\(nullptr, stringf\("([^"%]*)%d([^"%]*)", id\)\.c_str\(\)\);'
    ms = re.findall(loop_check + r'\s*(env_data\.push_back\(0x7f\);\s*env_data\.push_back\(loop_pos\);|env_data\.back\(\) = loop_pos;)', c)
    ms = [m[:3] for m in ms]
    if len(ms) != 2 or ms[0] != ms[1]:
        raise x.ShapeError("mdsdrv.cpp:pitch envelope loop position check (compact and extended)")
    w.append("def mdsdrv_pitch_loop_max : Nat := %s  -- mdsdrv.cpp if(loop_pos > 255)" % ms[0][0])
    w.append("def mdsdrv_msg_pitch_loop : String × String := (%s, %s)  -- around %%d = id" % (lean_str(ms[0][1]), lean_str(ms[0][2])))
    # add_ins_psg: the loop position must fit its byte; the check sits in the loop branch of the end command, in front of the
    # two push_backs (ff36345)
    m = x.need(re.search(r'if\(loop_pos == -1\)\s*\{\s*env_data\.push_back\(0x00\);\s*\}\s*else\s*\{\s*' + loop_check +
                         r'\s*env_data\.push_back\(0x02\);\s*env_data\.push_back\(loop_pos\);', c),
               "mdsdrv.cpp:add_ins_psg loop position check")
    w.append("def mdsdrv_psg_loop_max : Nat := %s  -- mdsdrv.cpp add_ins_psg if(loop_pos > 255)" % m.group(1))
    w.append("def mdsdrv_msg_psg_loop : String × String := (%s, %s)  -- around %%d = id" % (lean_str(m.group(2)), lean_str(m.group(3))))
    # add_pitch_node: the step per frame must fit int16_t; the check sits between the computation of env_initial and the
    # narrowing of the step (f788cbf), i.e. before the invalid_argument test and before any push_back of the iteration
    m = x.need(re.search(r'int16_t env_initial = counter \* 256;\s*double step = std::trunc\(delta \* 256\);\s*'
                         r'if\(!\(step >= (-?\d+) && step <= (\d+)\)\)\s*throw InputError\(nullptr, "([^"]*)"\);\s*int16_t env_delta = step;', c),
               "mdsdrv.cpp:add_pitch_node step range check")
    w.append("def mdsdrv_pitch_step_min : Int := %s  -- mdsdrv.cpp add_pitch_node if(!(step >= -32768 && step <= 32767))" % m.group(1))
    w.append("def mdsdrv_pitch_step_max : Int := %s" % m.group(2))
    w.append("def mdsdrv_msg_pitch_step : String := %s" % lean_str(m.group(3)))
    # add_instrument: empty tag
    m = x.need(re.search(r'if\(tag\.empty\(\)\)\s*throw InputError\(nullptr, stringf\("([^"%]*)%d([^"%]*)", id\)\.c_str\(\)\);\s*auto it = tag\.begin\(\);', c),
               "mdsdrv.cpp:add_instrument empty tag")
    w.append("def mdsdrv_msg_no_ins_type : String × String := (%s, %s)  -- around %%d = id" % (lean_str(m.group(1)), lean_str(m.group(2))))
    # add_ins_fm_2op: the base must be an FM instrument
    x.need(re.search(r'int ins_id = tag_data\[0\];\s*try\s*\{\s*if\(ins_type\.at\(ins_id\) != INS_FM\)\s*throw std::out_of_range', c),
           "mdsdrv.cpp:add_ins_fm_2op base type check")
    return w
