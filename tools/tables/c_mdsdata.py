def gen(x):
    h = x.strip_comments(x.src("platform/mdsdrv.h"))
    w = ["def mdsdrv_data_count_max : Nat := %d  -- mdsdrv.h MDSDRV_Data" % x.const_int(h, "data_count_max", "mdsdrv.h:data_count_max")]
    for n, v in x.enum_body(h, "InstrumentType", "mdsdrv.h:MDSDRV_Data::InstrumentType"):
        w.append("def mdsdrv_%s : Nat := %d" % (n, v))
    return w
