import re


def gen(x):
    w = []
    h = x.strip_comments(x.src("platform/mdsdrv.h"))
    m = x.need(re.search(r"struct\s+MDSDRV_Event\s*\{(.*?)\n\};", h, flags=re.S), "mdsdrv.h:MDSDRV_Event")
    ops = x.enum_body(m.group(1), "Type", "mdsdrv.h:MDSDRV_Event::Type")
    w.append("/-- MDSDRV_Event::Type opcodes (mdsdrv.h) -/")
    w.append("def mdsOpcodes : List (String × Nat) := [" + ", ".join('("%s", %d)' % (n, v) for n, v in ops) + "]")
    for n, v in ops:
        w.append("def mds_%s : Nat := %d" % (n, v))
    m = x.need(re.search(r"enum\s+InstrumentType\s*\{(.*?)\}", h, flags=re.S), "mdsdrv.h:InstrumentType")
    it = x.enum_body(h, "InstrumentType", "mdsdrv.h:InstrumentType")
    for n, v in it:
        w.append("def mdsIns_%s : Nat := %d" % (n, v))
    for name in ("MDSDRV_SEQ_VERSION_MAJOR", "MDSDRV_SEQ_VERSION_MINOR", "MDSDRV_MIN_SEQ_VERSION_MAJOR", "MDSDRV_MIN_SEQ_VERSION_MINOR", "MDSDRV_PCM_RATE"):
        mm = x.need(re.search(r"#define\s+%s\s+(\d+)" % name, h), "mdsdrv.h:" + name)
        w.append("def %s : Nat := %s" % (name, mm.group(1)))
    w.append("def mdsDataCountMax : Nat := %d" % x.const_int(h, "data_count_max", "mdsdrv.h:data_count_max"))
    # `CErr.stackEmpty` of the codec model is an InputError of the code (not a top()/pop() on an empty
    # stack) only while both converters test the loop stack before using it
    cpp = x.strip_comments(x.src("platform/mdsdrv.cpp"))
    guards = re.findall(r"case\s+MDSDRV_Event::(LPB|LPF)\s*:\s*if\(loop_break_address\.empty\(\)\)\s*throw\s+InputError\(nullptr,\s*\"([^\"]*)\"\)", cpp)
    x.need(len(guards) == 4 and sorted(g[0] for g in guards) == ["LPB", "LPB", "LPF", "LPF"],
           "mdsdrv.cpp:convert_track/convert_macro_track test the loop stack before LPB/LPF (found %d guards)" % len(guards))
    w.append("def mdsLoopCmdGuards : Nat := %d  -- LPB/LPF on an empty loop stack are input errors" % len(guards))
    return w
