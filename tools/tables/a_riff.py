def gen(x):
    riff = x.strip_comments(x.src("riff.h"))
    return ["def riff_%s : Nat := %d  -- riff.h" % (n, x.const_int(riff, n, "riff.h:" + n))
            for n in ("TYPE_RIFF", "TYPE_LIST", "ID_NONE")]
