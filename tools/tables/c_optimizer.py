import re


def gen(x):
    s = x.strip_comments(x.src("optimizer.cpp"))
    w = []
    for name in ("max_stack_depth", "min_sub_score", "min_loop_score", "max_sub_stack", "max_loop_stack"):
        m = x.need(re.search(r"Optimizer::%s\s*=\s*(\d+)" % name, s), "optimizer.cpp:" + name)
        w.append("def opt_%s : Nat := %s" % (name, m.group(1)))
    m = x.need(re.search(r":\s*sub_id\((\d+)\)", s), "optimizer.cpp:sub_id initialiser")
    w.append("def opt_sub_id : Nat := %s" % m.group(1))
    m = x.need(re.search(r"min_score\((\d+)\)", s), "optimizer.cpp:min_score initialiser")
    w.append("def opt_min_score : Nat := %s" % m.group(1))
    return w
