import re


def gen(x):
    s = x.strip_comments(x.src("optimizer.cpp"))
    w = []
    for name in ("max_stack_depth", "min_sub_score", "min_loop_score", "max_sub_stack", "max_loop_stack", "max_src_stack"):
        m = x.need(re.search(r"Optimizer::%s\s*=\s*(\d+)" % name, s), "optimizer.cpp:" + name)
        w.append("def opt_%s : Nat := %s" % (name, m.group(1)))
    # the cap of a loop fold (repair of D2): the class constant, the number of repetitions one
    # fold erases at most (`max_loop_count - 1`: the first repetition stays as the loop body), the
    # test "the fold would need a count above max_loop_count", and that the capped length is what
    # the repeat count, the break point and the erased range are computed from
    m = x.need(re.search(r"Optimizer::max_loop_count\s*=\s*(\d+)", s), "optimizer.cpp:max_loop_count")
    w.append("def opt_max_loop_count : Nat := %s" % m.group(1))
    am = x.need(re.search(r"void\s+Optimizer::apply_match\s*\(\s*\)(.*?)\n\}", s, flags=re.S), "optimizer.cpp:apply_match")
    body = re.sub(r"\s+", " ", am.group(1))
    x.need(re.search(r"uint32_t loop_length = best_match\.loop_length ;", body.replace(";", " ;")),
           "optimizer.cpp:apply_match loop_length copy")
    m = x.need(re.search(r"uint32_t max_fold = max_loop_count - (\d+) ?;", body), "optimizer.cpp:apply_match max_fold")
    w.append("def opt_loop_fold_kept : Nat := %s" % m.group(1))
    x.need(re.search(r"if ?\( ?loop_length / length > max_fold \|\| \( ?loop_length / length == max_fold && loop_length % length ?\) ?\) "
                     r"loop_length = max_fold \* length ?; "
                     r"uint32_t repeats = \( ?loop_length / length ?\) \+ 1 ?; "
                     r"uint32_t break_point = loop_length % length ?;", body),
           "optimizer.cpp:apply_match loop count cap")
    x.need(re.search(r"src_events\.erase\( ?src_events\.begin\(\) \+ best_match\.loop_position, "
                     r"src_events\.begin\(\) \+ best_match\.loop_position \+ loop_length ?\) ?;", body),
           "optimizer.cpp:apply_match erased range")
    if "best_match.loop_length" in body.split("uint32_t max_fold", 1)[1]:
        raise x.ShapeError("optimizer.cpp:apply_match uses the uncapped loop_length after the cap")
    # the stack tests of find_match on the SOURCE phrase (repair of D18): the `balanced` vector ends where
    # the source phrase has no room for a call (`max_src_stack`), and a loop candidate is valid only while
    # every event of `[src_start, dst_pos)` has room for one more loop (`max_loop_stack`); both read the
    # analyser of the source track
    fm = x.need(re.search(r"Optimizer::Match\s+Optimizer::find_match\s*\(.*?\)(.*?)\n\}", s, flags=re.S), "optimizer.cpp:find_match")
    fbody = re.sub(r"\s+", " ", fm.group(1))
    x.need(re.search(r"Stack_Analyzer ?& ?src_stack = stack_analyzer\[src_track\] ?;", fbody), "optimizer.cpp:find_match src_stack")
    x.need(re.search(r"for ?\( ?unsigned int i = src_start ?; i < src\.get_event_count\(\) && depth >= 0 ?; i\+\+ ?\) ?\{ ?"
                     r"if ?\( ?src_stack\.event_list\[i\] \+ src_stack\.base_usage >= max_src_stack ?\) break ?; "
                     r"auto type = src\.get_event\(i\)\.type ?;", fbody),
           "optimizer.cpp:find_match stack test of the source phrase (balanced vector)")
    x.need(re.search(r"for ?\( ?unsigned int dst_pos = src_start \+ 1 ?; dst_pos < dst\.second\.get_event_count\(\) ?; dst_pos\+\+ ?\) ?\{ ?"
                     r"if ?\( ?src_stack\.event_list\[dst_pos - 1\] \+ src_stack\.base_usage >= max_loop_stack ?\) loop_valid = false ?; "
                     r"auto param = dst\.second\.get_event\(dst_pos\)\.type ?;", fbody),
           "optimizer.cpp:find_match stack test of the folded period (loop_valid)")
    # analyze_stack (repair of D28): the unused macro tracks (roots with id > 15) are only collected in the
    # loop over the track map and marked (`base_usage = 100`) in a second loop, after ALL tracks have been
    # analysed; nothing else sets a base usage in analyze_stack
    asm = x.need(re.search(r"void\s+Optimizer::analyze_stack\s*\(\s*\)(.*?)\n\}", s, flags=re.S), "optimizer.cpp:analyze_stack")
    abody = re.sub(r"\s+", " ", re.sub(r"#if 0.*?#endif", " ", asm.group(1), flags=re.S))
    x.need(re.search(r"\{ ?stack_analyzer\.clear\(\) ?; std::vector<int> unused ?; "
                     r"for ?\( ?auto ?&& ?track_it ?: ?song->get_track_map\(\) ?\) ?\{ ?"
                     r"Stack_Analyzer ?& ?dest = stack_analyzer\[track_it\.first\] ?; "
                     r"if ?\( ?! ?dest\.base_usage ?\) ?\{ ?"
                     r"dest\.analyze_track\( ?\*song, track_it\.second, \*this, 0 ?\) ?; "
                     r"if ?\( ?track_it\.first > (\d+) ?\) unused\.push_back\( ?track_it\.first ?\) ?; \} \} "
                     r"for ?\( ?auto ?&& ?id ?: ?unused ?\) stack_analyzer\[id\]\.base_usage = (\d+) ?; *$", abody),
           "optimizer.cpp:analyze_stack marks the unused macro tracks after the loop over all tracks")
    am2 = re.search(r"track_it\.first > (\d+) ?\) unused.*base_usage = (\d+)", abody)
    w.append("def opt_first_macro_above : Nat := %s" % am2.group(1))
    w.append("def opt_unused_base : Nat := %s" % am2.group(2))
    m = x.need(re.search(r":\s*sub_id\((\d+)\)", s), "optimizer.cpp:sub_id initialiser")
    w.append("def opt_sub_id : Nat := %s" % m.group(1))
    m = x.need(re.search(r"min_score\((\d+)\)", s), "optimizer.cpp:min_score initialiser")
    w.append("def opt_min_score : Nat := %s" % m.group(1))
    return w
