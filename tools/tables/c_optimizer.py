import re


def gen(x):
    s = x.strip_comments(x.src("optimizer.cpp"))
    w = []
    for name in ("max_stack_depth", "min_sub_score", "min_loop_score", "max_sub_stack", "max_loop_stack"):
        m = x.need(re.search(r"Optimizer::%s\s*=\s*(\d+)" % name, s), "optimizer.cpp:" + name)
        w.append("def opt_%s : Nat := %s" % (name, m.group(1)))
    # the cap of a loop fold (repair of D2): the class constant, the number of repetitions one
    # fold erases at most (`max_loop_count - 1`: the first repetition stays as the loop body), the
    # test "the fold would need a count above max_loop_count", and that the capped length is what
    # the repeat count, the break point and the erased range are computed from
    m = x.need(re.search(r"Optimizer::max_loop_count\s*=\s*(\d+)", s), "optimizer.cpp:max_loop_count")
    w.append("def opt_max_loop_count : Nat := %s" % m.group(1))
    am = x.need(re.search(r"void\s+Optimizer::apply_match\s*\(\s*\)(.*?)\n\}", s, flags=re.S), "optimizer.cpp:apply_match")
    body = re.sub(r"\s+", " ", am.group(1))
    x.need(re.search(r"uint32_t loop_length = best_match\.loop_length ;", body.replace(";", " ;")),
           "optimizer.cpp:apply_match loop_length copy")
    m = x.need(re.search(r"uint32_t max_fold = max_loop_count - (\d+) ?;", body), "optimizer.cpp:apply_match max_fold")
    w.append("def opt_loop_fold_kept : Nat := %s" % m.group(1))
    x.need(re.search(r"if ?\( ?loop_length / length > max_fold \|\| \( ?loop_length / length == max_fold && loop_length % length ?\) ?\) "
                     r"loop_length = max_fold \* length ?; "
                     r"uint32_t repeats = \( ?loop_length / length ?\) \+ 1 ?; "
                     r"uint32_t break_point = loop_length % length ?;", body),
           "optimizer.cpp:apply_match loop count cap")
    x.need(re.search(r"src_events\.erase\( ?src_events\.begin\(\) \+ best_match\.loop_position, "
                     r"src_events\.begin\(\) \+ best_match\.loop_position \+ loop_length ?\) ?;", body),
           "optimizer.cpp:apply_match erased range")
    if "best_match.loop_length" in body.split("uint32_t max_fold", 1)[1]:
        raise x.ShapeError("optimizer.cpp:apply_match uses the uncapped loop_length after the cap")
    m = x.need(re.search(r":\s*sub_id\((\d+)\)", s), "optimizer.cpp:sub_id initialiser")
    w.append("def opt_sub_id : Nat := %s" % m.group(1))
    m = x.need(re.search(r"min_score\((\d+)\)", s), "optimizer.cpp:min_score initialiser")
    w.append("def opt_min_score : Nat := %s" % m.group(1))
    return w
