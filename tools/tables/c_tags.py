import re


def c_unescape(lit):
    """bytes of a C string literal body (the escapes that occur in song.cpp)"""
    out = []
    i = 0
    simple = {"n": 10, "t": 9, "r": 13, "\\": 92, '"': 34, "'": 39, "0": 0, "v": 11, "f": 12}
    while i < len(lit):
        if lit[i] == "\\":
            i += 1
            out.append(simple[lit[i]])
        else:
            out.append(ord(lit[i]))
        i += 1
    return out


def char_lit(x, text, pattern, what):
    m = x.need(re.search(pattern, text), what)
    return c_unescape(m.group(1))[0]


def gen(x):
    w = []
    song = x.src("song.cpp")  # literals are needed: do not strip comments
    m = x.need(re.search(r'strpbrk\s*\(\s*s\s*,\s*"((?:[^"\\]|\\.)*)"\s*\)', song), "song.cpp:add_tag_list strpbrk set")
    w.append("/-- the `strpbrk` set of Song::add_tag_list (song.cpp) -/")
    w.append("def tags_sepSet : List Nat := " + x.lean_list(c_unescape(m.group(1))))
    m = x.need(re.search(r"platform_command_index\s*\(\s*(-?\d+)\s*\)", song), "song.cpp:platform_command_index initialiser")
    w.append("def tags_cmdIndexInit : Int := %s  -- Song ctor" % m.group(1))
    m = x.need(re.search(r'tag_map\["([^"]*)"\]\.push_back\(key\)', song), "song.cpp:get_or_make_tag order key")
    w.append("def tags_orderKey : List Nat := " + x.lean_list(c_unescape(m.group(1))) + "  -- \"%s\"" % m.group(1))
    m2 = x.need(re.search(r'Song::get_tag_order_list\(\)\s*\{\s*return\s+tag_map\["([^"]*)"\]', song), "song.cpp:get_tag_order_list key")
    if m2.group(1) != m.group(1):
        raise x.ShapeError("song.cpp: get_tag_order_list and get_or_make_tag use different keys")
    fm = re.findall(r'stringf\("([^"%]*)%d"\s*,\s*param\)', song)
    if len(fm) != 2 or fm[0] != fm[1]:
        raise x.ShapeError("song.cpp: cmd_%d key format of register/get_platform_command")
    w.append("def tags_cmdPrefix : List Nat := " + x.lean_list(c_unescape(fm[0])) + "  -- \"%s%%d\"" % fm[0])
    m = x.need(re.search(r"if\s*\(\s*param\s*==\s*(-?\d+)\s*\)\s*param\s*=\s*platform_command_index\+\+", song), "song.cpp:register_platform_command sequential marker")
    w.append("def tags_cmdAuto : Int := %s" % m.group(1))
    # add_tag_enclosed: escape character, the two translated escapes, the closing quote
    w.append("def tags_escChar : Nat := %d" % char_lit(x, song, r"\*head\s*==\s*'((?:\\.|[^']))'\s*&&\s*head\[1\]", "song.cpp:add_tag_enclosed escape char"))
    esc = re.findall(r"if\s*\(\s*\*head\s*==\s*'((?:\\.|[^']))'\s*\)\s*\*head\s*=\s*'((?:\\.|[^']))'\s*;", song)
    if not esc:
        raise x.ShapeError("song.cpp:add_tag_enclosed escape table")
    w.append("def tags_escapes : List (Nat × Nat) := [" + ", ".join("(%d, %d)" % (c_unescape(a)[0], c_unescape(b)[0]) for a, b in esc) + "]")
    w.append("def tags_quote : Nat := %d" % char_lit(x, song, r"else if\s*\(\s*\*head\s*==\s*'((?:\\.|[^']))'\s*\)\s*\{\s*head\+\+;\s*break;", "song.cpp:add_tag_enclosed closing quote"))
    w.append("def tags_listQuote : Nat := %d" % char_lit(x, song, r"if\s*\(\s*c\s*==\s*'((?:\\.|[^']))'\s*\)\s*\{\s*//\s*enclosed", "song.cpp:add_tag_list quote"))
    w.append("def tags_listComma : Nat := %d" % char_lit(x, song, r"else if\s*\(\s*c\s*==\s*'((?:\\.|[^']))'\s*\)\s*//\s*empty", "song.cpp:add_tag_list comma"))
    w.append("def tags_listSemi : Nat := %d" % char_lit(x, song, r"if\s*\(\s*c\s*==\s*'((?:\\.|[^']))'\s*\)\s*break;", "song.cpp:add_tag_list terminator"))
    mml = x.src("mml_input.cpp")
    m = x.need(re.search(r'iequal\s*\(\s*tag_key\s*,\s*"([^"]*)"\s*\)', mml), "mml_input.cpp:parse_tag platform key")
    w.append("def tags_platformKey : List Nat := " + x.lean_list(c_unescape(m.group(1))) + "  -- \"%s\"" % m.group(1))
    m = x.need(re.search(r"if\s*\(\s*c\s*==\s*'(.)'\s*\|\|\s*c\s*==\s*'(.)'\s*\)\s*\{\s*//[^\n]*\n\s*tag_key\.clear", mml), "mml_input.cpp:parse_line tag prefixes")
    w.append("def tags_prefixes : List Nat := " + x.lean_list([ord(m.group(1)), ord(m.group(2))]))
    m = x.need(re.search(r"if\s*\(\s*tag_key\[0\]\s*==\s*'(.)'\s*\)", mml), "mml_input.cpp:parse_tag single-value prefix")
    w.append("def tags_singlePrefix : Nat := %d" % ord(m.group(1)))
    m = x.need(re.search(r"while\s*\(\s*c\s*&&\s*c\s*!=\s*'((?:\\.|[^']))'\s*\)\s*\{\s*str\.push_back", mml), "mml_input.cpp:platform_exclusive terminator")
    w.append("def tags_cmdQuote : Nat := %d" % c_unescape(m.group(1))[0])
    return w
