"""Constants of the MML front end (track.h, track.cpp, mml_input.cpp, song.cpp) for
Model/Lexer, Model/TrackBuilder, Model/Mml (properties C05, C06, C17)."""
import re


def gen(x):
    w = []
    track_h = x.strip_comments(x.src("track.h"))
    for cname, lname in (("DEFAULT_OCTAVE", "trackDefaultOctave"), ("DEFAULT_MEASURE_LEN", "trackDefaultMeasureLen"),
                         ("DEFAULT_QUANTIZE", "trackDefaultQuantize"), ("DEFAULT_QUANTIZE_PARTS", "trackDefaultQuantizeParts"),
                         ("ECHO_BUFFER_SIZE", "trackEchoBufferSize")):
        w.append("def %s : Nat := %d  -- track.h %s" % (lname, x.const_int(track_h, cname, "track.h:" + cname), cname))
    m = x.need(re.search(r"int\s+set_quantize\s*\(\s*uint16_t\s+param\s*,\s*uint16_t\s+parts\s*=\s*(\d+)\s*\)", track_h),
               "track.h:set_quantize default parts")
    w.append("def trackSetQuantizeDefaultParts : Nat := %s  -- track.h set_quantize(param, parts = ...)" % m.group(1))
    m = x.need(re.search(r"Track\s*\(\s*uint16_t\s+ppqn\s*=\s*DEFAULT_MEASURE_LEN\s*/\s*(\d+)\s*\)", track_h), "track.h:Track ctor default ppqn")
    w.append("def trackCtorPpqnDivisor : Nat := %s  -- track.h Track(ppqn = DEFAULT_MEASURE_LEN/...)" % m.group(1))

    track_cpp = x.strip_comments(x.src("track.cpp"))
    m = x.need(re.search(r"measure_len\s*\(\s*ppqn\s*\*\s*(\d+)\s*\)\s*,\s*default_duration\s*\(\s*measure_len\s*/\s*(\d+)\s*\)", track_cpp),
               "track.cpp:Track ctor measure_len/default_duration")
    w.append("def trackCtorMeasureMul : Nat := %s  -- track.cpp measure_len(ppqn * ...)" % m.group(1))
    w.append("def trackCtorDurationDiv : Nat := %s  -- track.cpp default_duration(measure_len / ...)" % m.group(2))
    m = x.need(re.search(r"scales\s*\[\s*(\d+)\s*\]\s*=\s*\{(.*?)\}\s*;", track_cpp, flags=re.S), "track.cpp:scales table")
    nrows = int(m.group(1))
    rows = re.findall(r"\{\s*(0b[01]+|0x[0-9a-fA-F]+|\d+)\s*,\s*(0b[01]+|0x[0-9a-fA-F]+|\d+)\s*,\s*\"([^\"]*)\"\s*,\s*\"([^\"]*)\"\s*\}", m.group(2))
    if len(rows) != nrows:
        raise x.ShapeError("track.cpp:scales table has %d parsable rows, declared %d" % (len(rows), nrows))
    w.append("/-- `scales[]` of Track::set_key_signature: (sharp mask, flat mask, major name, minor name); mask bit k = note letter 'a'+k -/")
    w.append("def keySignatureTable : List (Nat × Nat × String × String) := [" +
             ", ".join('(%d, %d, "%s", "%s")' % (int(a, 0), int(b, 0), mj, mn) for a, b, mj, mn in rows) + "]")

    mml_cpp = x.strip_comments(x.src("mml_input.cpp"))
    m = x.need(re.search(r"note_values\s*\[\s*8\s*\]\s*=\s*\{([^}]*)\}", mml_cpp), "mml_input.cpp:note_values")
    vals = [int(v) for v in m.group(1).split(",")]
    if len(vals) != 8:
        raise x.ShapeError("mml_input.cpp:note_values length")
    w.append("/-- `note_values[8]` of MML_Input::read_note (letters a..h) -/")
    w.append("def noteValues : List Int := " + x.lean_list(vals))
    m = x.need(re.search(r"track->add_event\(Event::LOOP_END,\s*read_parameter\((\d+)\)\)", mml_cpp), "mml_input.cpp:default loop count")
    w.append("def mmlDefaultLoopCount : Int := %s  -- mml_input.cpp ']' read_parameter(...)" % m.group(1))
    m = x.need(re.search(r"Event::VOL_REL,\s*read_parameter\((\d+)\)\)", mml_cpp), "mml_input.cpp:default volume step")
    w.append("def mmlDefaultVolStep : Int := %s  -- mml_input.cpp ')' read_parameter(...)" % m.group(1))
    m = x.need(re.search(r"return\s+c\s*-\s*'0'\s*\+\s*(\d+)\s*;", mml_cpp), "mml_input.cpp:get_track_id digit base")
    w.append("def mmlDigitTrackBase : Nat := %s  -- mml_input.cpp get_track_id: c - '0' + ..." % m.group(1))

    song_cpp = x.strip_comments(x.src("song.cpp"))
    m = x.need(re.search(r"ppqn\s*\(\s*(\d+)\s*\)", song_cpp), "song.cpp:ppqn initialiser")
    w.append("def songDefaultPpqn : Nat := %s  -- song.cpp Song ctor" % m.group(1))
    m = x.need(re.search(r"platform_command_index\s*\(\s*(-?\d+)\s*\)", song_cpp), "song.cpp:platform_command_index initialiser")
    w.append("def songPlatformCommandIndex0 : Int := %s  -- song.cpp Song ctor" % m.group(1))
    return w
