import re


def gen(x):
    """MD_Driver / MD_Channel constants (platform/md.cpp, driver.cpp, song.cpp, song.h) — C07."""
    w = []
    md = x.strip_comments(x.src("platform/md.cpp"))

    def fn_body(text, sig, what):
        m = x.need(re.search(sig + r"\s*\([^)]*\)\s*(?:const\s*)?\{", text), what)
        i = m.end()
        depth = 1
        while depth and i < len(text):
            depth += {"{": 1, "}": -1}.get(text[i], 0)
            i += 1
        return text[m.end():i]

    def table(body, name, n, what):
        m = x.need(re.search(r"%s\s*\[\s*%d\s*\]\s*=\s*\{([^}]*)\}" % (name, n), body), what)
        vals = [int(v.strip(), 0) for v in m.group(1).split(",") if v.strip()]
        if len(vals) != n:
            raise x.ShapeError(what + " length")
        return vals

    fm = fn_body(md, r"MD_Channel::get_fm_pitch", "md.cpp:get_fm_pitch")
    psg = fn_body(md, r"MD_Channel::get_psg_pitch", "md.cpp:get_psg_pitch")
    w.append("def md_fm_freqtab : List Nat := %s  -- get_fm_pitch" % x.lean_list(table(fm, "freqtab", 13, "md.cpp:get_fm_pitch freqtab")))
    w.append("def md_psg_freqtab : List Nat := %s  -- get_psg_pitch" % x.lean_list(table(psg, "freqtab", 13, "md.cpp:get_psg_pitch freqtab")))
    m = x.need(re.search(r"\(\s*octave\s*&\s*(\d+)\s*\)\s*<<\s*(\d+)", fm), "md.cpp:get_fm_pitch block field")
    w.append("def md_fm_block_mask : Nat := %s" % m.group(1))
    w.append("def md_fm_block_shift : Nat := %s" % m.group(2))
    vol = fn_body(md, r"MD_FM::v_set_vol", "md.cpp:MD_FM::v_set_vol")
    w.append("def md_opn_con_op : List Nat := %s  -- MD_FM::v_set_vol" % x.lean_list(table(vol, "opn_con_op", 8, "md.cpp:v_set_vol opn_con_op")))
    m = x.need(re.search(r"vol\s*=\s*(\d+)\s*\+\s*vol\s*\*\s*(\d+)\s*-\s*vol\s*/\s*(\d+)", vol), "md.cpp:v_set_vol coarse formula")
    w.append("/-- coarse FM attenuation `a + x*b - x/c` -/")
    w.append("def md_fm_vol_formula : Nat × Nat × Nat := (%s, %s, %s)" % m.groups())
    m = x.need(re.search(r"max_tl\s*>\s*(\d+)\s*\)\s*max_tl\s*=\s*(\d+)", vol), "md.cpp:v_set_vol clamp")
    if m.group(1) != m.group(2):
        raise x.ShapeError("md.cpp:v_set_vol clamp values differ")
    w.append("def md_fm_tl_max : Nat := %s" % m.group(1))
    pv = fn_body(md, r"MD_Channel::get_psg_volume", "md.cpp:get_psg_volume")
    m = x.need(re.search(r"volume\s*<\s*(\d+)\s*\)\s*return\s*(\d+)\s*;\s*else\s+if\s*\(\s*volume\s*>=\s*(\d+)\s*\)\s*return\s*(\d+)\s*;\s*else\s+if\s*\(\s*volume\s*>=\s*(\d+)\s*\)\s*return\s*(\d+)\s*;\s*else\s+return\s*\(\s*volume\s*-\s*(\d+)\s*\)\s*\*\s*(\d+)\s*/\s*(\d+)", pv),
               "md.cpp:get_psg_volume shape")
    w.append("/-- get_psg_volume: `v < a → b; v ≥ c → d; v ≥ e → f; else (v-g)*h/i` -/")
    w.append("def md_psg_volume_rule : List Nat := %s" % x.lean_list([int(g) for g in m.groups()]))
    ps = fn_body(md, r"void\s+MD_Driver::play_song", "md.cpp:play_song")
    w.append("def md_initial_tempo_delta : Nat := %d  -- play_song" % x.const_int(ps, "tempo_delta", "md.cpp:play_song tempo_delta"))
    m = x.need(re.search(r"vgm->dac_setup\s*\(([^)]*)\)", ps), "md.cpp:play_song dac_setup")
    w.append("def md_dac_setup_args : List Nat := %s  -- play_song" % x.lean_list([int(v.strip(), 0) for v in m.group(1).split(",")]))
    m = x.need(re.search(r"seq_rate\s*=\s*\(\s*is_pal\s*\)\s*\?\s*([\d.]+)\s*:\s*([\d.]+)", md), "md.cpp:MD_Driver seq_rate")
    w.append("def md_seq_rate_ntsc : Nat := %d" % int(float(m.group(2))))
    sm = fn_body(md, r"double\s+MD_PCMDriver::set_mode", "md.cpp:set_mode")
    m = x.need(re.search(r"else\s+return\s+(\d+)\s*;", sm), "md.cpp:set_mode default rate")
    w.append("def md_pcm_rate_default : Nat := %s  -- MD_PCMDriver::set_mode(0)" % m.group(1))
    bd = fn_body(md, r"uint8_t\s+MD_Driver::bpm_to_delta", "md.cpp:bpm_to_delta")
    m = x.need(re.search(r"base_tempo\s*=\s*(\d+)\.\s*/\s*\(\s*song->get_ppqn\(\)\s*\*\s*\(\s*1\.\s*/\s*seq_rate\s*\)\s*\)", bd), "md.cpp:bpm_to_delta base tempo")
    w.append("def md_bpm_base_num : Nat := %s  -- bpm_to_delta: base_tempo = num / (ppqn / seq_rate)" % m.group(1))
    x.need(re.search(r"\(\s*bpm\s*/\s*base_tempo\s*\)\s*\*\s*256\.", bd), "md.cpp:bpm_to_delta scale")
    x.need(re.search(r"\(\s*fract\s*\+\s*0\.5\s*\)\s*-\s*1", bd), "md.cpp:bpm_to_delta rounding")
    su = fn_body(md, r"void\s+MD_Driver::seq_update", "md.cpp:seq_update")
    m = x.need(re.search(r"next_counter\s*>>\s*(\d+)", su), "md.cpp:seq_update shift")
    m2 = x.need(re.search(r"next_counter\s*&\s*(0x[0-9a-fA-F]+|\d+)", su), "md.cpp:seq_update mask")
    if (1 << int(m.group(1))) - 1 != int(m2.group(1), 0):
        raise x.ShapeError("md.cpp:seq_update shift/mask disagree")
    w.append("def md_tempo_shift : Nat := %s  -- seq_update" % m.group(1))
    mdsdrv = x.strip_comments(x.src("platform/mdsdrv.cpp"))
    m = x.need(re.search(r"envelope_map\s*\[\s*0\s*\]\s*=\s*add_unique_data\s*\(\s*\{([^}]*)\}", mdsdrv), "mdsdrv.cpp:read_song default envelope")
    w.append("def md_default_psg_env : List Nat := %s  -- MDSDRV_Data::read_song" % x.lean_list([int(v.strip(), 0) for v in m.group(1).split(",")]))
    song_h = x.strip_comments(x.src("song.h"))
    m = x.need(re.search(r"vgm_export\s*\(\s*Song&\s*song\s*,\s*unsigned\s+int\s+max_seconds\s*=\s*(\d+)\s*,\s*unsigned\s+int\s+num_loops\s*=\s*(\d+)", song_h), "song.h:vgm_export defaults")
    w.append("def vgm_export_max_seconds : Nat := %s" % m.group(1))
    w.append("def vgm_export_num_loops : Nat := %s" % m.group(2))
    song = x.strip_comments(x.src("song.cpp"))
    m = x.need(re.search(r"get_driver\s*\(\s*(\d+)\s*,\s*&vgm\s*\)", song), "song.cpp:vgm_export rate")
    w.append("def vgm_export_rate : Nat := %s" % m.group(1))
    m = x.need(re.search(r"Song::Song\(\).*?ppqn\s*\(\s*(\d+)\s*\)", song, flags=re.S), "song.cpp:Song ctor ppqn")
    w.append("def song_default_ppqn : Nat := %s" % m.group(1))
    m = x.need(re.search(r"MD_Channel::MD_Channel.*?set_var\s*\(\s*Event::VOL_FINE\s*,\s*(\d+)\s*\)\s*;\s*set_var\s*\(\s*Event::PAN\s*,\s*(\d+)\s*\)", md, flags=re.S), "md.cpp:MD_Channel ctor defaults")
    w.append("def md_initial_vol : Nat := %s  -- MD_Channel ctor" % m.group(1))
    w.append("def md_initial_pan : Nat := %s  -- MD_Channel ctor" % m.group(2))
    return w
