import re


def gen(x):
    """wave.cpp / wave.h / mdsdrv.cpp constants used by Model/Wave.lean"""
    w = []
    cpp = x.strip_comments(x.src("wave.cpp"))
    hdr = x.strip_comments(x.src("wave.h"))
    m = x.need(re.search(r"NO_FIT\s*=\s*\(uint32_t\)\s*-1", hdr), "wave.h:NO_FIT")
    w.append("def wave_NO_FIT : Nat := 4294967295  -- wave.h (uint32_t)-1")
    m = x.need(re.search(r"filesize\s*<\s*(\d+)", cpp), "wave.cpp:minimum file size")
    w.append("def wave_minFileSize : Nat := %s  -- Wave_File::read" % m.group(1))
    m = x.need(re.search(r"size\s*<\s*0\s*\|\|\s*size\s*>\s*(0x[0-9a-fA-F]+)\s*\)\s*return -1", cpp), "wave.cpp:load_file maximum file size")
    w.append("def wave_maxFileSize : Nat := %d  -- Wave_File::load_file: larger files are not read" % int(m.group(1), 16))
    # repaired D11: a fresh placement stores the window [start, start+size) and hands out start = 0; the length test includes start
    x.need(re.search(r"copy_n\(sample\.begin\(\)\s*\+\s*header\.start,\s*header\.size,\s*rom_data\.begin\(\)\s*\+\s*start_pos\);\s*"
                     r"header\.position\s*=\s*start_pos;\s*header\.start\s*=\s*0;", cpp), "wave.cpp:add_sample fresh placement stores the window")
    x.need(re.search(r"\(uint64_t\)header\.start\s*\+\s*header\.size\s*>\s*sample\.size\(\)", cpp), "wave.cpp:add_sample window length test")
    ids = re.findall(r"case\s+(0x[0-9a-fA-F]{8})\s*:", cpp)
    if len(ids) != 3:
        raise x.ShapeError("wave.cpp:parse_chunk case labels")
    for name, v in zip(("fmt", "data", "smpl"), ids):
        w.append("def wave_id_%s : Nat := %d  -- parse_chunk case %s" % (name, int(v, 16), v))
    m = x.need(re.search(r"chunksize\s*<\s*(0x[0-9a-fA-F]+)\s*\)\s*return 0", cpp), "wave.cpp:fmt minimum size")
    w.append("def wave_fmtMin : Nat := %d" % int(m.group(1), 16))
    m = x.need(re.search(r"\(start\s*\+\s*(0x[0-9a-fA-F]+)\)\s*&\s*(0x[0-9a-fA-F]+)", cpp), "wave.cpp:fit_sample alignment")
    add, mask = int(m.group(1), 16), int(m.group(2), 16)
    if mask != (0xffffffff ^ add) or (add + 1) & add:
        raise x.ShapeError("wave.cpp:fit_sample alignment is not a power-of-two round-up")
    w.append("def wave_align : Nat := %d  -- fit_sample: (start + %#x) & %#x" % (add + 1, add, mask))
    m = x.need(re.search(r"output\.push_back\(\(i >> (\d+)\) \^ (0x[0-9a-fA-F]+)\)", cpp), "wave.cpp:encode_sample")
    w.append("def wave_encShift : Nat := %s" % m.group(1))
    w.append("def wave_encXor : Nat := %d" % int(m.group(2), 16))
    fields = re.findall(r"write_le32\(output,\s*(\d+),\s*(\w+)\)", cpp)
    w.append("def wave_headerFields : List (Nat × String) := [" + ", ".join('(%s, "%s")' % (o, n) for o, n in fields) + "]  -- Sample::to_bytes")
    rfields = re.findall(r"(\w+)\s*=\s*read_le32\(input,\s*(\d+)\)", cpp)
    w.append("def wave_headerReadFields : List (Nat × String) := [" + ", ".join('(%s, "%s")' % (o, n) for n, o in rfields) + "]  -- Sample::from_bytes")
    md = x.strip_comments(x.src("platform/mdsdrv.cpp"))
    m = x.need(re.search(r"wave_rom\((0x[0-9a-fA-F]+)\)", md), "mdsdrv.cpp:MDSDRV_Data wave_rom size")
    w.append("def mds_dataWaveRom : Nat := %d  -- MDSDRV_Data::wave_rom(max)" % int(m.group(1), 16))
    m = x.need(re.search(r"wave_rom\((0x[0-9a-fA-F]+),\s*(0x[0-9a-fA-F]+)\)", md), "mdsdrv.cpp:MDSDRV_Linker wave_rom size")
    w.append("def mds_linkWaveRom : Nat := %d  -- MDSDRV_Linker::wave_rom(max, bank)" % int(m.group(1), 16))
    w.append("def mds_linkWaveBank : Nat := %d" % int(m.group(2), 16))
    return w
