"""C19: the option words, default file names and failure status of the two command-line tools
(src/mmlc.cpp, src/platform/mdslink.cpp), as character lists (the CLI model works on List Char)."""
import re


def chars(s):
    def one(c):
        if c == "'":
            return "'\\''"
        if c == "\\":
            return "'\\\\'"
        return "'%s'" % c
    return "[" + ", ".join(one(c) for c in s) + "]"


def words(ws):
    return "[" + ", ".join(chars(w) for w in ws) + "]"


def branches(x, text, what):
    """[(strings compared with argv[arg] in the condition, statement text)] for every if / else if
    of the argument loop whose condition compares argv[arg]"""
    out = []
    for m in re.finditer(r"if\s*\(((?:[^;{}]*?strcmp\(argv\[arg\],\s*\"[^\"]*\"\)[^;{}]*?)+)\)", text, flags=re.S):
        ws = re.findall(r"strcmp\(argv\[arg\],\s*\"([^\"]*)\"\)", m.group(1))
        # the action: the text up to the next `else` / `if` keyword
        rest = text[m.end():m.end() + 400]
        cut = re.search(r"\b(else|if)\b", rest)
        out.append((ws, m.group(1), rest[:cut.start()] if cut else rest))
    x.need(out, what)
    return out


def pick(x, brs, action, what):
    for ws, cond, act in brs:
        if re.search(action, act):
            return ws
    raise x.ShapeError(what)


def gen(x):
    w = []
    mmlc = x.strip_comments(x.src("mmlc.cpp"))
    main = mmlc[x.need(re.search(r"int\s+main\s*\(", mmlc), "mmlc.cpp:main").start():]
    brs = branches(x, main, "mmlc.cpp:argument loop")
    w.append("/-- option words of mmlc (src/mmlc.cpp main), by the action of their branch -/")
    w.append("def cli_mmlc_out : List (List Char) := " + words(pick(x, brs, r"out_filename\s*=\s*argv\[\+\+arg\]", "mmlc.cpp:-o branch")))
    w.append("def cli_mmlc_fmt : List (List Char) := " + words(pick(x, brs, r"format\s*=\s*argv\[\+\+arg\]", "mmlc.cpp:-f branch")))
    w.append("def cli_mmlc_opt : List (List Char) := " + words(pick(x, brs, r"optimize\s*=\s*true", "mmlc.cpp:-O branch")))
    w.append("def cli_mmlc_verbose : List (List Char) := " + words(pick(x, brs, r"verbose\s*=\s*true", "mmlc.cpp:-v branch")))
    w.append("def cli_mmlc_help : List (List Char) := " + words(pick(x, brs, r"print_usage", "mmlc.cpp:-h branch")))
    m = x.need(re.search(r"bool\s+needs_operand\s*=([^;]*);", main), "mmlc.cpp:needs_operand")
    w.append("def cli_mmlc_needs_operand : List (List Char) := " + words(re.findall(r"strcmp\(argv\[arg\],\s*\"([^\"]*)\"\)", m.group(1))))
    x.need(re.search(r"needs_operand\s*&&\s*\(arg\s*\+\s*1\)\s*>=\s*argc", main), "mmlc.cpp:operand bound check")
    rets = set(re.findall(r"return\s+(-?\d+)\s*;", main))
    if rets - {"-1", "0"}:
        raise x.ShapeError("mmlc.cpp:return values %s" % sorted(rets))
    link = x.strip_comments(x.src("platform/mdslink.cpp"))
    lmain = link[x.need(re.search(r"int\s+main\s*\(", link), "mdslink.cpp:main").start():]
    rets = set(re.findall(r"return\s+(-?\d+)\s*;", lmain))
    if rets - {"-1", "0"}:
        raise x.ShapeError("mdslink.cpp:return values %s" % sorted(rets))
    w.append("/-- `return -1` from main is exit status 255 -/")
    w.append("def cli_fail_status : Nat := 255")
    lbrs = branches(x, lmain, "mdslink.cpp:argument loop")
    w.append("/-- option words of mdslink (src/platform/mdslink.cpp main) -/")
    w.append("def cli_link_out : List (List Char) := " + words(pick(x, lbrs, r"seq_filename\s*=\s*argv\[\+\+arg\]\s*;\s*pcm_filename\s*=\s*argv\[\+\+arg\]", "mdslink.cpp:-o branch")))
    w.append("def cli_link_cheader : List (List Char) := " + words(pick(x, lbrs, r"c_header_filename\s*=\s*argv\[\+\+arg\]", "mdslink.cpp:-h branch")))
    w.append("def cli_link_asmheader : List (List Char) := " + words(pick(x, lbrs, r"asm_header_filename\s*=\s*argv\[\+\+arg\]", "mdslink.cpp:-i branch")))
    two = pick(x, lbrs, r"operands\s*=\s*2", "mdslink.cpp:operands = 2")
    one = pick(x, lbrs, r"operands\s*=\s*1", "mdslink.cpp:operands = 1")
    w.append("def cli_link_two_operands : List (List Char) := " + words(two))
    w.append("def cli_link_one_operand : List (List Char) := " + words(one))
    x.need(re.search(r"\(arg\s*\+\s*operands\)\s*>=\s*argc", lmain), "mdslink.cpp:operand bound check")
    m = x.need(re.search(r"seq_filename\s*=\s*\"([^\"]*)\"", lmain), "mdslink.cpp:seq_filename default")
    w.append("def cli_link_seq_default : List Char := " + chars(m.group(1)))
    m = x.need(re.search(r"pcm_filename\s*=\s*\"([^\"]*)\"", lmain), "mdslink.cpp:pcm_filename default")
    w.append("def cli_link_pcm_default : List Char := " + chars(m.group(1)))
    m = x.need(re.search(r"iequal\(extension,\s*\"([^\"]*)\"\)", lmain), "mdslink.cpp:.mds extension")
    w.append("def cli_link_mds_ext : List Char := " + chars(m.group(1)))
    return w
