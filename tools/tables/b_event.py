import re


def gen(x):
    w = []
    track_h = x.strip_comments(x.src("track.h"))
    ev = x.enum_body(track_h, "Type", "track.h:Event::Type")
    w.append("/-- Event::Type enumerators in declaration order (track.h) -/")
    w.append("def eventTypes : List (String × Int) := [" + ", ".join('("%s", %d)' % (n, v) for n, v in ev) + "]")
    for n, v in ev:
        if v >= 0:
            w.append("def ev_%s : Nat := %d" % (n, v))
    player_h = x.strip_comments(x.src("player.h"))
    m = x.need(re.search(r"struct\s+Player_Stack\s*\{(.*?)\};", player_h, flags=re.S), "player.h:Player_Stack")
    st = x.enum_body(m.group(1), "Type", "player.h:Player_Stack::Type")
    w.append("def stackTypes : List (String × Nat) := [" + ", ".join('("%s", %d)' % (n, v) for n, v in st) + "]")
    for n, v in st:
        w.append("def st_%s : Nat := %d" % (n, v))
    player_cpp = x.strip_comments(x.src("player.cpp"))
    m = x.need(re.search(r"max_stack_depth\s*\(\s*(\d+)\s*\)", player_cpp), "player.cpp:max_stack_depth initialiser")
    w.append("def playerMaxStackDepth : Nat := %s  -- Basic_Player ctor" % m.group(1))
    return w
