import re


def gen(x):
    """conf.cpp: the break-character set handed to strpbrk in Conf::parse_token."""
    conf = x.strip_comments(x.src("conf.cpp"))
    m = x.need(re.search(r'strpbrk\s*\(\s*head\s*,\s*"((?:[^"\\]|\\.)*)"\s*\)', conf), "conf.cpp:strpbrk break set")
    lit = m.group(1)
    esc = {"t": 9, "n": 10, "r": 13, '"': 34, "\\": 92, "v": 11, "f": 12, "0": 0, "'": 39}
    codes, i = [], 0
    while i < len(lit):
        if lit[i] == "\\":
            if i + 1 >= len(lit) or lit[i + 1] not in esc:
                raise x.ShapeError("conf.cpp:strpbrk break set escape")
            codes.append(esc[lit[i + 1]])
            i += 2
        else:
            codes.append(ord(lit[i]))
            i += 1
    return ["/-- break characters of `Conf::parse_token` (argument of strpbrk, conf.cpp) -/",
            "def conf_breakChars : List Char := [" + ", ".join("Char.ofNat %d" % c for c in codes) + "]"]
