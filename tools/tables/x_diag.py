"""Diagnostic texts and the `what()` layout (input.cpp, player.cpp, platform/mdsdrv.cpp) for
Model/Refs (property C17).  printf formats are split at their conversions: the model interleaves
the pieces with the rendered arguments."""
import re


def lean_str(s):
    return '"' + s.replace("\\", "\\\\").replace('"', '\\"').replace("\n", "\\n") + '"'


def c_unescape(s):
    return s.replace('\\"', '"').replace("\\n", "\n").replace("\\\\", "\\")


def pieces(fmt):
    return re.split(r"%[dsc]", fmt), re.findall(r"%[dsc]", fmt)


def fn_body(text, header_re, what, x):
    m = x.need(re.search(header_re, text), what)
    i = text.index("{", m.end())
    depth, j = 0, i
    while True:
        if text[j] == "{":
            depth += 1
        elif text[j] == "}":
            depth -= 1
            if depth == 0:
                return text[i:j + 1]
        j += 1


def gen(x):
    w = []
    inp = x.strip_comments(x.src("input.cpp"))
    m = x.need(re.search(r'snprintf\(\s*buf\s*,\s*(\d+)\s*,\s*"(%s:%d:%d: %s)"\s*,\s*ref->get_filename\(\)\.c_str\(\)\s*,\s*ref->get_line\(\)\s*\+\s*(\d+)\s*,\s*ref->get_column\(\)\s*\+\s*(\d+)\s*,\s*message\s*\)', inp),
               "input.cpp:InputError what() layout")
    w.append("def diagWhatBufSize : Nat := %s  -- input.cpp InputError::InputError snprintf(buf, ...)" % m.group(1))
    w.append("def diagWhatFormat : String := %s" % lean_str(m.group(2)))
    w.append("def diagWhatLineBase : Nat := %s  -- get_line() + ..." % m.group(3))
    w.append("def diagWhatColumnBase : Nat := %s  -- get_column() + ..." % m.group(4))
    m2 = x.need(re.search(r"strncpy\(\s*buf\s*,\s*message\s*,\s*(\d+)\s*\)\s*;\s*buf\[\s*(\d+)\s*\]\s*=\s*0\s*;", inp),
                "input.cpp:InputError null-reference strncpy with terminator")
    x.need(int(m2.group(1)) == int(m2.group(2)) and int(m2.group(2)) < int(m.group(1)), "input.cpp:InputError null-reference copy stays inside buf and is terminated")
    w.append("def diagWhatNullCopy : Nat := %s  -- strncpy(buf, message, n); buf[n] = 0" % m2.group(1))

    pl = x.strip_comments(x.src("player.cpp"))
    body = fn_body(pl, r"void\s+Basic_Player::stack_push\s*\(", "player.cpp:stack_push", x)
    m = x.need(re.search(r'error\("([^"]*)"\)', body), "player.cpp:stack_push message")
    w.append("def diagMsgStackOverflow : String := %s" % lean_str(m.group(1)))
    body = fn_body(pl, r"void\s+Basic_Player::stack_underflow\s*\(", "player.cpp:stack_underflow", x)
    for ty, name in (("LOOP", "diagMsgUnderflowLoop"), ("JUMP", "diagMsgUnderflowJump"), ("DRUM_MODE", "diagMsgUnderflowDrum")):
        m = x.need(re.search(r'type\s*==\s*Player_Stack::%s\s*\)\s*error\("([^"]*)"\)' % ty, body), "player.cpp:stack_underflow " + ty)
        w.append("def %s : String := %s" % (name, lean_str(m.group(1))))
    body = fn_body(pl, r"void\s+Basic_Player::step_event\s*\(", "player.cpp:step_event", x)
    m = x.need(re.search(r'loop_count\s*<\s*0\s*\)\s*error\("([^"]*)"\)', body), "player.cpp:invalid loop count message")
    w.append("def diagMsgInvalidLoopCount : String := %s" % lean_str(m.group(1)))
    m = x.need(re.search(r'catch\s*\(\s*std::exception\s*&\s*\w*\s*\)\s*\{\s*error\("([^"]*)"\)', body), "player.cpp:jump catch message")
    w.append("def diagMsgJumpMissing : String := %s" % lean_str(m.group(1)))
    x.need(re.search(r"reference\s*=\s*event\.reference\s*;", body), "player.cpp:step_event reference := event.reference")
    x.need(re.search(r"event\s*=\s*\{\s*Event::END\s*,\s*0\s*,\s*0\s*,\s*0\s*,\s*UINT_MAX\s*,\s*reference\s*\}", body),
           "player.cpp:synthetic END inherits reference")

    md = x.strip_comments(x.src("platform/mdsdrv.cpp"))
    hook = fn_body(md, r"void\s+MDSDRV_Track_Writer::event_hook\s*\(", "mdsdrv.cpp:event_hook", x)
    def fmt(name, rx, text, what, convs):
        m = x.need(re.search(rx, text, flags=re.S), what)
        ps, cs = pieces(c_unescape(m.group(1)))
        if cs != convs:
            raise x.ShapeError(what + ": conversions %s, expected %s" % (cs, convs))
        w.append("def %s : List String := [%s]" % (name, ", ".join(lean_str(p) for p in ps)))
        return m
    fmt("diagFmtDrumMissing", r'get_subroutine\(param,\s*1,\s*0\);.*?error\(stringf\("([^"]*)",\s*param\)', hook, "mdsdrv.cpp:drum subroutine message", ["%d"])
    m0 = x.need(re.search(r'if\(in_drum_mode\)\s*\{\s*if\(get_stack_type\(\)\s*==\s*Player_Stack::LOOP\)\s*error\("([^"]*)"\);\s*if\(param < 0', hook, flags=re.S),
                "mdsdrv.cpp:drum routine note inside a loop is refused before the range test")
    w.append("def diagMsgDrumNoteInLoop : String := %s" % lean_str(c_unescape(m0.group(1))))
    m = x.need(re.search(r'if\(in_drum_mode\)\s*\{.*?if\(param < 0 \|\| param > (\d+)\)\s*error\(stringf\("([^"]*)",\s*param,\s*(\d+)\)', hook, flags=re.S),
               "mdsdrv.cpp:drum note range")
    if m.group(1) != m.group(3):
        raise x.ShapeError("mdsdrv.cpp:drum note range limit differs from the printed limit")
    ps, cs = pieces(m.group(2))
    w.append("def diagDrumNoteMax : Int := %s" % m.group(1))
    w.append("def diagFmtNoteRange : List String := [%s]" % ", ".join(lean_str(p) for p in ps))
    m = x.need(re.search(r'param >= \(MDSDRV_Event::SLR - MDSDRV_Event::NOTE\)\)\s*error\(stringf\("([^"]*)",\s*param,\s*\(MDSDRV_Event::SLR - MDSDRV_Event::NOTE\)\)', hook, flags=re.S),
               "mdsdrv.cpp:note range")
    if pieces(m.group(1))[0] != ps:
        raise x.ShapeError("mdsdrv.cpp:the two note range messages differ")
    fmt("diagFmtSubMissing", r'case Event::JUMP:.*?error\(stringf\("([^"]*)",\s*event\.param\)', hook, "mdsdrv.cpp:subroutine message", ["%d"])
    fmt("diagFmtPlatformMissing", r'case Event::PLATFORM:.*?error\(stringf\("([^"]*)",\s*event\.param\)', hook, "mdsdrv.cpp:platform message", ["%d"])
    fmt("diagFmtInsMissing", r'case Event::INS:.*?error\(stringf\("([^"]*)",\s*event\.param\)', hook, "mdsdrv.cpp:instrument message", ["%d"])
    fmt("diagFmtMacroMissing", r'case Event::PAN_ENVELOPE:.*?error\(stringf\("([^"]*)",\s*event\.param\)', hook, "mdsdrv.cpp:macro track message", ["%d"])
    fmt("diagFmtPitchMissing", r'case Event::PITCH_ENVELOPE:.*?error\(stringf\("([^"]*)",\s*event\.param\)', hook, "mdsdrv.cpp:pitch envelope message", ["%d"])
    chk = fn_body(md, r"void\s+MDSDRV_Track_Writer::check_instrument\s*\(", "mdsdrv.cpp:check_instrument", x)
    m = x.need(re.search(r'strings\[4\]\s*=\s*\{([^}]*)\}', chk), "mdsdrv.cpp:check_instrument type names")
    names = re.findall(r'"([^"]*)"', m.group(1))
    if len(names) != 4:
        raise x.ShapeError("mdsdrv.cpp:check_instrument type names")
    w.append("def diagInsTypeNames : List String := [%s]" % ", ".join(lean_str(n) for n in names))
    msgs = re.findall(r'error\(stringf\("([^"]*)",\s*param,\s*strings\[type\],\s*track_id \+ \'A\'\)', chk, flags=re.S)
    if len(msgs) != 3:
        raise x.ShapeError("mdsdrv.cpp:check_instrument messages")
    for nm, mm in zip(("Fm", "Psg", "Pcm"), msgs):
        ps, cs = pieces(mm)
        if cs != ["%d", "%s", "%c"]:
            raise x.ShapeError("mdsdrv.cpp:check_instrument conversions")
        w.append("def diagFmtInsType%s : List String := [%s]" % (nm, ", ".join(lean_str(p) for p in ps)))
    addins = fn_body(md, r"void\s+MDSDRV_Data::add_instrument\s*\(", "mdsdrv.cpp:add_instrument", x)
    m = x.need(re.search(r'throw InputError\(nullptr,\s*stringf\("([^"]*)",\s*type\.c_str\(\)\)', addins), "mdsdrv.cpp:unknown envelope type")
    ps, cs = pieces(c_unescape(m.group(1)))
    w.append("def diagFmtUnknownEnvelope : List String := [%s]" % ", ".join(lean_str(p) for p in ps))
    fm = fn_body(md, r"void\s+MDSDRV_Data::add_ins_fm_4op\s*\(", "mdsdrv.cpp:add_ins_fm_4op", x)
    m = x.need(re.search(r'for\(int i=0; i<(\d+); i\+\+\)\s*\{\s*if\(it == tag\.end\(\)\)\s*throw InputError\(nullptr,\s*stringf\("([^"]*)",\s*id\)', fm, flags=re.S),
               "mdsdrv.cpp:fm parameter count")
    w.append("def diagFmParamCount : Nat := %s" % m.group(1))
    ps, cs = pieces(c_unescape(m.group(2)))
    w.append("def diagFmtFmParams : List String := [%s]" % ", ".join(lean_str(p) for p in ps))
    return w
