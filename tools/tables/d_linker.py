import re


def gen(x):
    """constants of MDSDRV_Linker (mdsdrv.cpp) used by Model/Linker.lean"""
    w = []
    md = x.strip_comments(x.src("platform/mdsdrv.cpp"))
    m = x.need(re.search(r"void MDSDRV_Linker::add_song\(.*?\n\}\n", md, flags=re.S), "mdsdrv.cpp:MDSDRV_Linker::add_song")
    add = m.group(0)
    ccs = []
    for c in re.findall(r'FOURCC\("(.{4})"\)', add):
        if c not in ccs:
            ccs.append(c)
    if sorted(ccs) != sorted(["MDS0", "seq ", "pcmd", "dblk", "ver ", "grp ", "glob", "pcmh"]):
        raise x.ShapeError("mdsdrv.cpp:add_song chunk names %r" % ccs)
    for c in ccs:
        w.append("def link_cc_%s : Nat := %d  -- FOURCC(\"%s\")" % (c.strip(), int.from_bytes(c.encode(), "big"), c))
    # repaired D11: the re-homed sample is the playback window [position + start, +size), handed over with start = 0
    x.need(re.search(r"begin\s*=\s*pcmd\.begin\(\)\s*\+\s*header\.position\s*\+\s*header\.start;\s*auto end\s*=\s*begin\s*\+\s*header\.size;\s*"
                     r"header\.position\s*=\s*0;\s*header\.start\s*=\s*0;", add), "mdsdrv.cpp:add_song extracts the playback window of a pcmh entry")
    m = x.need(re.search(r'group_str\s*=\s*"(\w+)"', add), "mdsdrv.cpp:add_song default group")
    w.append("def link_defaultGroup : List Nat := [%s]  -- \"%s\"" % (", ".join(str(b) for b in m.group(1).encode()), m.group(1)))
    # the model indexes the sample headers with the full result of add_sample (fix 8769e2a: no uint16_t in between)
    x.need(re.search(r"unsigned int\s+(\w+)\s*=\s*wave_rom\.add_sample\(.*?get_sample_headers\(\)\.at\(\1\)", add, flags=re.S),
           "mdsdrv.cpp:add_song sample index kept in an unsigned int")
    m = x.need(re.search(r"std::vector<uint8_t> MDSDRV_Linker::get_seq_data\(\).*?\n\}\n", md, flags=re.S), "mdsdrv.cpp:get_seq_data")
    gs = m.group(0)
    m = x.need(re.search(r"header_size\s*=\s*(\d+)\s*\+\s*get_seq_count\(\)\s*\*\s*(\d+)", gs), "mdsdrv.cpp:get_seq_data header size")
    w.append("def link_headerBase : Nat := %s" % m.group(1))
    w.append("def link_headerPerSong : Nat := %s" % m.group(2))
    m = x.need(re.search(r"offset\s*=\s*header_size\s*-\s*(\d+)", gs), "mdsdrv.cpp:get_seq_data pointer base")
    w.append("def link_ptrBase : Nat := %s  -- offsets are relative to this file position" % m.group(1))
    m = x.need(re.search(r"offset\s*>=\s*(0x[0-9a-fA-F]+)", gs), "mdsdrv.cpp:get_seq_data data bank limit")
    w.append("def link_dataLimit : Nat := %d" % int(m.group(1), 16))
    m = x.need(re.search(r"write_be32\(data,\s*0,\s*(0x[0-9a-fA-F]+)\)", gs), "mdsdrv.cpp:get_seq_data magic")
    w.append("def link_magic : Nat := %d  -- %s" % (int(m.group(1), 16), m.group(1)))
    m = x.need(re.search(r"std::vector<uint8_t> MDSDRV_Linker::get_pcm_header\(.*?\n\}\n", md, flags=re.S), "mdsdrv.cpp:get_pcm_header")
    ph = m.group(0)
    m = x.need(re.search(r"MDSDRV_PCM_RATE\s*/\s*(\d+)\.0", ph), "mdsdrv.cpp:get_pcm_header pitch unit")
    w.append("def link_pitchDiv : Nat := %s  -- pitch = rate / (MDSDRV_PCM_RATE / %s.0)" % (m.group(1), m.group(1)))
    m = x.need(re.search(r"\(pitch\s*<\s*(\d+)\)\s*\?\s*\(pitch\s*\+\s*0\.5\)\s*:\s*(\d+)", ph), "mdsdrv.cpp:get_pcm_header clamp before narrowing")
    m2 = x.need(re.search(r"cp\s*<\s*(\d+)\)\s*cp\s*=\s*(\d+);\s*else if\(cp\s*>\s*(\d+)\)\s*cp\s*=\s*(\d+);", ph), "mdsdrv.cpp:get_pcm_header clamp")
    if not (m.group(1) == m.group(2) == m2.group(3) == m2.group(4) and m2.group(1) == m2.group(2)):
        raise x.ShapeError("mdsdrv.cpp:get_pcm_header clamp bounds disagree")
    w.append("def link_pitchMin : Nat := %s" % m2.group(1))
    w.append("def link_pitchMax : Nat := %s" % m2.group(3))
    return w
