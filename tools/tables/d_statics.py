"""C16: every variable with static storage duration in /repo/src (library AND tools), from the
clang AST (`clang++-14 -fsyntax-only -Xclang -ast-dump`, text form: the JSON form is 320 MB per
translation unit).  A VarDecl has static storage duration when it sits at namespace scope or
carries the `static` storage class (function-local statics, static data members).  Emitted:
`static_vars` = the MUTABLE ones and the const ones with a dynamic initialiser (file, qualified
name, type, class), plus the PCM volume constants the Globals model computes the table from.
The result is cached under build/ by the content hash of the sources (the dump costs ~1 s per
translation unit).  Without clang the plugin falls back to an anchored regex over `static`
declarations and definitions of static data members."""
import hashlib, json, os, re, shutil, subprocess
from concurrent.futures import ThreadPoolExecutor

LOC = re.compile(r"(?:(?<=<)|(?<=, )|(?<= ))((?:/|src/)[^\s:<>,]*|<[a-z -]+>):\d+(?::\d+)?")
NODE = re.compile(r"^([ |`-]*)([A-Za-z]+Decl|[A-Za-z]+Stmt|[A-Za-z]+Expr|[A-Za-z]+)\b")
VAR = re.compile(r"VarDecl 0x[0-9a-f]+ (?:parent (0x[0-9a-f]+) )?(?:prev (0x[0-9a-f]+) )?<(?:<[a-z -]+>|[^<>])*> (?:\S+:\d+(?::\d+)? |col:\d+ )?"
                 r"(?:implicit |used |referenced |invalid )*(\S+) '([^']*)'(?::'[^']*')?(.*)$")
NAMED = re.compile(r"(CXXRecordDecl|NamespaceDecl|FunctionDecl|CXXMethodDecl|CXXConstructorDecl|CXXDestructorDecl) (0x[0-9a-f]+) .*?"
                   r"(?:(?:struct|class|union) )?(?:implicit |used |referenced )*([A-Za-z_~][A-Za-z0-9_]*|operator\S+)(?: '[^']*')?(?: definition| static| inline| virtual| default| delete| noexcept-unevaluated 0x[0-9a-f]+| extern| constexpr| implicit-inline| pure| trivial| explicit)*$")


def sources(repo):
    out = []
    base = os.path.join(repo, "src")
    for d, _, fs in os.walk(base):
        if "unittest" in d:
            continue
        for f in sorted(fs):
            if f.endswith((".cpp", ".h")):
                out.append(os.path.relpath(os.path.join(d, f), repo))
    return sorted(out)


def is_const(ty):
    ty = ty.strip()
    if "*" in ty or "&" in ty:
        tail = ty[max(ty.rfind("*"), ty.rfind("&")) + 1:].strip()
        return tail.startswith("const")
    return ty.startswith("const ") or " const" in ty


def norm_path(p):
    return os.path.normpath(p).replace("\\", "/")


def dump_one(args):
    repo, rel = args
    # grep keeps every declaration node and every line that names a file (C speed; the full
    # dump has ~300 000 lines per translation unit, most of them statements and types)
    r = subprocess.run("clang++-14 -std=gnu++14 -fsyntax-only -fno-color-diagnostics -DCTRMML_VERIF -Isrc -Xclang -ast-dump '%s' 2>/dev/null"
                       " | grep -E '^[ |`-]*[A-Za-z]*Decl |/|<built-in>|<scratch space>'" % rel,
                       shell=True, cwd=repo, capture_output=True, text=True, errors="replace")
    if "TranslationUnitDecl" not in r.stdout[:4000]:
        raise RuntimeError("clang failed on %s" % rel)
    cur = ""
    stack = []      # (depth, kind, name, addr)
    names = {}      # addr -> qualified scope name (records, namespaces)
    found = []
    for line in r.stdout.split("\n"):
        m = NODE.match(line)
        if not m:
            continue
        depth = len(m.group(1)) // 2
        kind = m.group(2)
        if "/" in line or "<built-in>" in line or "<scratch space>" in line:
            for lm in LOC.finditer(line):
                cur = lm.group(1)
        while stack and stack[-1][0] >= depth:
            stack.pop()
        if kind in ("CXXRecordDecl", "NamespaceDecl", "FunctionDecl", "CXXMethodDecl", "CXXConstructorDecl", "CXXDestructorDecl"):
            nm = NAMED.search(line)
            name = nm.group(3) if nm else "?"
            pm = re.search(r"Decl 0x[0-9a-f]+ parent (0x[0-9a-f]+)", line)
            scope = [s[2] for s in stack if s[1] in ("CXXRecordDecl", "NamespaceDecl")]
            if pm and pm.group(1) in names:
                scope = [names[pm.group(1)]]
            q = "::".join(scope + [name])
            am = re.search(r"Decl (0x[0-9a-f]+)", line)
            if kind in ("CXXRecordDecl", "NamespaceDecl") and am:
                names[am.group(1)] = q
            stack.append((depth, kind, q, am.group(1) if am else ""))
            continue
        if kind != "VarDecl":
            stack.append((depth, kind, "", ""))
            continue
        vm = VAR.search(line)
        stack.append((depth, kind, "", ""))
        if not vm:
            if cur.startswith("src/"):
                raise RuntimeError("unparsed VarDecl line in %s: %s" % (rel, line[:200]))
            continue
        parent, prev, name, ty, tail = vm.groups()
        scope_kinds = [s[1] for s in stack[:-1]]
        ns_scope = all(k in ("TranslationUnitDecl", "NamespaceDecl", "LinkageSpecDecl") for k in scope_kinds)
        flags = tail.split()
        has_static = "static" in flags
        if "extern" in flags and "cinit" not in flags:
            continue
        if not (ns_scope or has_static):
            continue
        if not cur.startswith("src/"):
            continue
        fn = [s for s in stack[:-1] if s[1] in ("FunctionDecl", "CXXMethodDecl", "CXXConstructorDecl", "CXXDestructorDecl")]
        rec = [s for s in stack[:-1] if s[1] in ("CXXRecordDecl", "NamespaceDecl")]
        if parent and parent in names:
            q = names[parent] + "::" + name
        elif fn:
            q = fn[-1][2] + "()::" + name
        elif rec:
            q = rec[-1][2] + "::" + name
        else:
            q = name
        init = "cinit" in flags or "listinit" in flags or "callinit" in flags
        in_class_decl = bool(rec) and not fn and not parent
        found.append({"file": norm_path(cur), "name": q, "type": ty, "const": is_const(ty) or "constexpr" in flags,
                      "init": init, "decl_only": in_class_decl and not init, "line": line.strip()[:160]})
    return found


def regex_fallback(x, repo):
    found = []
    for rel in sources(repo):
        text = x.strip_comments(open(os.path.join(repo, rel), encoding="utf-8", errors="replace").read())
        for m in re.finditer(r"^[ \t]*static\s+((?:const\s+|constexpr\s+)?[A-Za-z_][\w:<>,\s\*]*?)\s+\**([A-Za-z_]\w*)\s*(\[[^;=]*\])*\s*(=|;|\{)", text, flags=re.M):
            ty, name = m.group(1).strip(), m.group(2)
            if "(" in ty or name in ("inline",) or ty.startswith(("inline", "bool operator")):
                continue
            found.append({"file": rel, "name": name, "type": ty + (m.group(3) or ""), "const": ty.startswith(("const", "constexpr")) and "*" not in m.group(0).split(name)[0].replace("const char*", ""),
                          "init": m.group(4) != ";", "decl_only": False, "line": m.group(0).strip()})
    return found


def classify(v):
    if not v["const"]:
        return "mutable"
    # const with a class type needs a dynamic initialiser (guarded lazy initialisation)
    if re.search(r"\b(std::|map|vector|string|Format_List|Platform::)", v["type"]):
        return "const-dynamic"
    return "const"


def collect(x):
    repo = x.REPO
    srcs = sources(repo)
    h = hashlib.sha256()
    for s in srcs:
        h.update(s.encode())
        h.update(open(os.path.join(repo, s), "rb").read())
    h.update(open(__file__, "rb").read())
    cdir = os.path.join(x.HERE, "..", "build", "statics")
    cfile = os.path.join(cdir, h.hexdigest()[:20] + ".json")
    if os.path.exists(cfile):
        return json.load(open(cfile))
    if shutil.which("clang++-14"):
        tus = [s for s in srcs if s.endswith(".cpp")]
        with ThreadPoolExecutor(max_workers=16) as ex:
            res = list(ex.map(dump_one, [(repo, t) for t in tus]))
        found = [v for r in res for v in r]
        how = "clang-ast"
    else:
        found = regex_fallback(x, repo)
        how = "regex"
    # one entry per (file, name): a static data member appears as declaration and definition
    # and every header is seen by several translation units
    uniq = {}
    for v in found:
        k = (v["name"],)
        if k not in uniq or (uniq[k]["decl_only"] and not v["decl_only"]):
            uniq[k] = v
    out = {"how": how, "vars": sorted(uniq.values(), key=lambda v: (v["file"], v["name"]))}
    os.makedirs(cdir, exist_ok=True)
    tmp = cfile + ".%d" % os.getpid()
    json.dump(out, open(tmp, "w"))
    os.replace(tmp, cfile)
    return out


def lstr(s):
    return '"' + s.replace("\\", "\\\\").replace('"', '\\"') + '"'


def gen(x):
    w = []
    try:
        data = collect(x)
    except RuntimeError as e:
        raise x.ShapeError("statics: " + str(e))
    vs = data["vars"]
    if not vs:
        raise x.ShapeError("statics: no variable with static storage duration found (extraction broken)")
    w.append("/-- every variable with static storage duration in /repo/src that is mutable, or const with a dynamic")
    w.append("initialiser: (file, qualified name, type, class).  Extracted by %s. -/" % data["how"])
    rows = [v for v in vs if classify(v) != "const"]
    w.append("def static_vars : List (String × String × String × String) := [")
    w.append(",\n".join("  (%s, %s, %s, %s)" % (lstr(v["file"]), lstr(v["name"]), lstr(v["type"]), lstr(classify(v))) for v in rows))
    w.append("]")
    w.append("/-- number of const statics with constant initialisers (tables), not listed individually -/")
    w.append("def static_const_count : Nat := %d" % len([v for v in vs if classify(v) == "const"]))
    # the PCM volume table constants (MD_PCMDriver constructor)
    md = x.strip_comments(x.src("platform/md.cpp"))
    m = x.need(re.search(r"MD_PCMDriver::MD_PCMDriver\s*\(.*?\)\s*:.*?\{(.*?)\n\}", md, flags=re.S), "md.cpp:MD_PCMDriver ctor")
    body = m.group(1)
    x.need(re.search(r"if\s*\(\s*!\s*tables_initialized\s*\)\s*\{\s*tables_initialized\s*=\s*true\s*;", body), "md.cpp:MD_PCMDriver ctor guards the table by tables_initialized")
    mv = x.need(re.search(r"static\s+const\s+uint8_t\s+volt\s*\[\s*16\s*\]\s*=\s*\{([^}]*)\}", body), "md.cpp:volt[16]")
    volt = [int(t, 0) for t in mv.group(1).replace("\n", " ").split(",") if t.strip()]
    if len(volt) != 16:
        raise x.ShapeError("md.cpp:volt has %d entries" % len(volt))
    x.need(re.search(r"int8_t\s+ivol\s*=\s*i\s*\^\s*0x80\s*;\s*vol_table\s*\[\s*tab\s*\]\s*\[\s*i\s*\]\s*=\s*\(\s*ivol\s*\*\s*tvol\s*\)\s*>>\s*8\s*;", body),
           "md.cpp:vol_table[tab][i] = ((int8_t)(i ^ 0x80) * volt[tab]) >> 8")
    w.append("def md_pcm_volt : List Nat := %s  -- md.cpp MD_PCMDriver::MD_PCMDriver" % x.lean_list(volt))
    mp = x.need(re.search(r"MD_PCMDriver::pitch_table\s*\[2\]\s*\[8\]\s*=\s*\{\s*\{([^}]*)\}\s*,\s*\{([^}]*)\}", md), "md.cpp:pitch_table")
    rows2 = []
    for g in (mp.group(1), mp.group(2)):
        rows2.append([int(t.strip(), 0) for t in g.replace("\n", " ").split(",") if t.strip()])
    if [len(r) for r in rows2] != [8, 8]:
        raise x.ShapeError("md.cpp:pitch_table shape")
    w.append("def md_pcm_pitch_table : List (List Nat) := [%s]" % ", ".join(x.lean_list(r) for r in rows2))
    # the clock and the build stamp: the only two time inputs of the exporters
    vg = x.strip_comments(x.src("vgm.cpp"))
    allsrc = "\n".join(x.strip_comments(open(os.path.join(x.REPO, s), encoding="utf-8", errors="replace").read()) for s in sources(x.REPO))
    w.append("/-- occurrences of clock / build-stamp reads in /repo/src (std::time, time(), clock, __DATE__, __TIME__, rand) -/")
    w.append("def clock_reads : Nat := %d" % len(re.findall(r"\bstd::time\s*\(|(?<![\w:.>])time\s*\(|\bclock\s*\(|\bgettimeofday\b|\bchrono\b|\brand\s*\(|\brandom_device\b", allsrc)))
    w.append("def build_stamp_reads : Nat := %d" % len(re.findall(r"__DATE__|__TIME__|__TIMESTAMP__", allsrc)))
    x.need(re.search(r"if\s*\(\s*tag\.date\.size\(\)\s*\)\s*add_gd3\(tag\.date\.c_str\(\)\)\s*;\s*else\s*add_gd3\(ts\)", vg), "vgm.cpp:write_tag uses the clock only when the date tag is empty")
    x.need(re.search(r"if\s*\(\s*tag\.notes\.size\(\)\s*\)\s*add_gd3\(tag\.notes\.c_str\(\)\)\s*;\s*else\s*add_gd3\(tracknotes\.c_str\(\)\)", vg), "vgm.cpp:write_tag uses the build stamp only when the notes tag is empty")
    return w
