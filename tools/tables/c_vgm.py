import re


def gen(x):
    """VGM_Writer / exporter constants (vgm.h, vgm.cpp, song.cpp, platform/md.cpp)."""
    w = []
    vgm_h = x.strip_comments(x.src("vgm.h"))
    w.append("def vgm_initial_buffer_alloc : Nat := %d  -- vgm.h" % x.const_int(vgm_h, "initial_buffer_alloc", "vgm.h:initial_buffer_alloc"))
    cpp = x.strip_comments(x.src("vgm.cpp"))

    def body(name):
        m = x.need(re.search(r"VGM_Writer::%s\s*\([^)]*\)\s*(?:const\s*)?\{" % name, cpp), "vgm.cpp:" + name)
        i = m.end()
        depth = 1
        while depth and i < len(cpp):
            depth += {"{": 1, "}": -1}.get(cpp[i], 0)
            i += 1
        return cpp[m.end():i]

    def reserve_of(name):
        m = x.need(re.search(r"reserve\s*\(([^;]*)\)\s*;", body(name)), "vgm.cpp:%s reserve" % name)
        return m.group(1).strip()

    for fn in ("write", "dac_setup", "dac_start", "dac_stop"):
        e = reserve_of(fn)
        x.need(re.fullmatch(r"\d+", e), "vgm.cpp:%s reserve amount is a literal" % fn)
        w.append("def vgm_reserve_%s : Nat := %s" % (fn, e))
    e = reserve_of("datablock")
    m = x.need(re.fullmatch(r"dbsize\s*\+\s*(\d+)", e), "vgm.cpp:datablock reserve(dbsize + k)")
    w.append("def vgm_reserve_datablock_extra : Nat := %s" % m.group(1))
    e = reserve_of("write_tag")
    x.need(re.fullmatch(r"[\d\s+*()]+", e), "vgm.cpp:write_tag reserve amount is a constant expression")
    w.append("def vgm_reserve_write_tag : Nat := %d  -- %s" % (eval(e), e))
    m = x.need(re.search(r"long\s+max\s*=\s*(\d+)", body("add_gd3")), "vgm.cpp:add_gd3 max")
    w.append("def vgm_gd3_max_units : Nat := %s" % m.group(1))
    ad = body("add_delay")
    m = x.need(re.search(r"delay\s*/\s*(\d+)", ad), "vgm.cpp:add_delay divisor")
    m2 = x.need(re.search(r"delay\s*%\s*(\d+)", ad), "vgm.cpp:add_delay modulus")
    m3 = x.need(re.search(r"finalcommand\s*>\s*(\d+)", ad), "vgm.cpp:add_delay short-wait threshold")
    if m.group(1) != m2.group(1):
        raise x.ShapeError("vgm.cpp:add_delay divisor and modulus differ")
    w.append("def vgm_delay_chunk : Nat := %s" % m.group(1))
    w.append("def vgm_delay_short_max : Nat := %s" % m3.group(1))
    m = re.search(r"reserve\s*\(([^;]*)\)\s*;", ad)
    if m:
        mm = x.need(re.fullmatch(r"commandcount\s*\*\s*(\d+)\s*\+\s*(\d+)", m.group(1).strip()), "vgm.cpp:add_delay reserve(commandcount*a+b)")
        w.append("def vgm_reserve_delay_per : Nat := %s" % mm.group(1))
        w.append("def vgm_reserve_delay_extra : Nat := %s" % mm.group(2))
    else:
        w.append("def vgm_reserve_delay_per : Nat := 0  -- add_delay does not reserve")
        w.append("def vgm_reserve_delay_extra : Nat := 0")
    m = re.search(r"reserve\s*\(\s*(\d+)\s*\)", body("stop"))
    w.append("def vgm_reserve_stop : Nat := %s" % (m.group(1) if m else "0"))
    song = x.strip_comments(x.src("song.cpp"))
    m = x.need(re.search(r"VGM_Writer\s+vgm\s*\(\s*\"\"\s*,\s*(0x[0-9a-fA-F]+|\d+)\s*,\s*(0x[0-9a-fA-F]+|\d+)\s*\)", song), "song.cpp:vgm_export VGM_Writer ctor")
    w.append("def vgm_export_version : Nat := %d" % int(m.group(1), 0))
    w.append("def vgm_export_header_size : Nat := %d" % int(m.group(2), 0))
    md = x.strip_comments(x.src("platform/md.cpp"))
    m = x.need(re.search(r"MD_Driver::MD_Driver\s*\(.*?\{(.*?)seq_rate", md, flags=re.S), "md.cpp:MD_Driver ctor")
    pokes = re.findall(r"vgm->poke(32|16|8)\s*\(\s*(0x[0-9a-fA-F]+|\d+)\s*,\s*(0x[0-9a-fA-F]+|\d+)\s*\)", m.group(1))
    if not pokes:
        raise x.ShapeError("md.cpp:MD_Driver ctor header pokes")
    w.append("/-- (width in bytes, header offset, value) of the MD_Driver constructor's header pokes -/")
    w.append("def md_vgm_pokes : List (Nat × Nat × Nat) := [" + ", ".join("(%d, %d, %d)" % (int(a) // 8, int(b, 0), int(c, 0)) for a, b, c in pokes) + "]")
    return w
