import re


def fourcc(s):
    return (ord(s[0]) << 24) | (ord(s[1]) << 16) | (ord(s[2]) << 8) | ord(s[3])


def gen(x):
    """C09: the chunk ids and the flag constants of MDSDRV_Converter::get_mds / the writer's
    get_envelope tags / the one-byte index limit, read from mdsdrv.cpp as it is now."""
    c = x.strip_comments(x.src("platform/mdsdrv.cpp"))
    m = x.need(re.search(r"RIFF\s+MDSDRV_Converter::get_mds\s*\(\s*\)\s*\{(.*?)\n\}", c, flags=re.S), "mdsdrv.cpp:get_mds")
    body = m.group(1)
    ids = re.findall(r'FOURCC\("(....)"\)', body)
    want = ["MDS0", "ver ", "grp ", "seq ", "dblk", "glob", "pcmh", "pcmd"]
    if ids != want:
        raise x.ShapeError("mdsdrv.cpp:get_mds chunk ids/order changed: %r" % (ids,))
    w = []
    for name, s in zip(["MDS0", "ver", "grp", "seq", "dblk", "glob", "pcmh", "pcmd"], ids):
        w.append('def mdsFile_%s : Nat := %d  -- FOURCC("%s") in get_mds' % (name, fourcc(s), s))
    mm = x.need(re.search(r"\(it->first\s*&\s*(0x[0-9a-fA-F]+)\)\s*\?\s*\(1<<(\d+)\)", body), "mdsdrv.cpp:get_mds extended-pitch flag")
    w.append("def mdsFile_extTag : Nat := %d" % int(mm.group(1), 16))
    w.append("def mdsFile_extIdBit : Nat := %d" % (1 << int(mm.group(2))))
    mm = x.need(re.search(r"data_bank\[it->first\s*&\s*(0x[0-9a-fA-F]+)\]", body), "mdsdrv.cpp:get_mds bank mask")
    w.append("def mdsFile_bankMask : Nat := %d" % int(mm.group(1), 16))
    mm = x.need(re.search(r"if\(it->first\s*<\s*(0x[0-9a-fA-F]+)\)\s*dblk\.add_chunk\(RIFF\(FOURCC\(\"glob\"\)", body), "mdsdrv.cpp:get_mds pcm threshold")
    w.append("def mdsFile_pcmTag : Nat := %d" % int(mm.group(1), 16))
    # the writer's tags must be the same constants
    x.need(re.search(r"get_envelope\(0x20000 \+", c), "mdsdrv.cpp:event_hook PCM tag 0x20000")
    x.need(re.search(r"get_envelope\(0x10000 \+", c), "mdsdrv.cpp:event_hook extended pitch tag 0x10000")
    mm = x.need(re.search(r"static inline uint8_t index_byte\(uint32_t index\)\s*\{\s*if\(index > (0x[0-9a-fA-F]+|\d+)\)", c), "mdsdrv.cpp:index_byte limit")
    w.append("def mdsFile_indexMax : Nat := %d  -- largest index convert_track accepts" % int(mm.group(1), 0))
    return w
