#!/usr/bin/env python3
"""Re-run the checks against every seeded change in /verif/seeded on the CURRENT /repo.
usage: rerun_seeded.py [<seeded dir name> ...]        (default: all)
For each seeded/<prop>-<n>/: `git -C <repo> apply patch.diff`, run `./check <prop>` (quick) and the
extra checks named in meta.json ("also_checks"), `git -C <repo> checkout -- .`.  The verdicts are
written into meta.json under verification.rerun and summarised in seeded/RESULTS.md.  /repo must be
clean before and is clean afterwards; evidence files written while a patch is applied are restored
from git afterwards (evidence describes the unchanged tree)."""
import json, os, re, subprocess, sys, time

ROOT = os.path.dirname(os.path.dirname(os.path.abspath(__file__)))
REPO = os.environ.get("VERIF_REPO", "/repo")


def sh(cmd, cwd=None, timeout=3600):
    r = subprocess.run(cmd, shell=True, cwd=cwd, capture_output=True, text=True, timeout=timeout)
    return r.returncode, (r.stdout + r.stderr)


def main():
    sd = os.path.join(ROOT, "seeded")
    if sys.argv[1:] == ["--table"]:
        write_table(sd); return 0
    names = sys.argv[1:] or sorted(n for n in os.listdir(sd) if re.match(r"C\d\d-\d+$", n))
    rc, out = sh("git status --short -- src", REPO)
    if out.strip():
        print("repo not clean:\n" + out); return 2
    head = sh("git rev-parse --short HEAD", REPO)[1].strip()
    rows = []
    for name in names:
        d = os.path.join(sd, name)
        meta = json.load(open(os.path.join(d, "meta.json")))
        prop = meta.get("property", name[:3])
        checks = [prop] + [c for c in meta.get("also_checks", []) if c != prop]
        rc, out = sh("git apply %s" % os.path.join(d, "patch.diff"), REPO)
        if rc != 0:
            print(name, "PATCH DOES NOT APPLY", out.strip()[:200])
            rows.append((name, "patch does not apply on %s" % head, "", meta.get("summary", "")[:90]))
            continue
        verdicts = {}
        try:
            for c in checks:
                t0 = time.time()
                rc, out = sh("./check %s" % c, ROOT)
                lines = [l for l in out.splitlines() if "WARNING" not in l]
                vio = [l for l in lines if l.startswith("VIOLATION")]
                verdicts[c] = {"exit": rc, "verdict": "VIOLATION" if vio else ("held" if rc == 0 else "error"),
                               "violation_lines": [l[:300] for l in vio[:3]],
                               "concrete_replay": bool(vio) and not any(l.rstrip().endswith("no-failing-input-found") for l in vio),
                               "seconds": round(time.time() - t0, 1)}
        finally:
            sh("git checkout -- .", REPO)
            sh("git checkout -- evidence", ROOT)
        meta.setdefault("verification", {})["rerun"] = {"repo_head": head, "checks": verdicts}
        json.dump(meta, open(os.path.join(d, "meta.json"), "w"), indent=1)
        caught = [c for c, v in verdicts.items() if v["verdict"] == "VIOLATION"]
        how = "; ".join(os.path.basename(v["violation_lines"][0].split("replay=")[1].split()[0]) +
                        ("" if v["concrete_replay"] else " (no-failing-input-found)")
                        for c, v in verdicts.items() if v["violation_lines"])
        print(name, "caught by", caught or "NOTHING", how, flush=True)
        rows.append((name, ", ".join(caught) if caught else "**not caught**", how, meta.get("summary", "").replace("|", "/")[:110]))
    write_table(sd)
    return 0


def write_table(sd):
    """RESULTS.md from the last recorded re-run of EVERY seeded change (meta.json verification.rerun)"""
    rows, heads = [], set()
    for name in sorted(n for n in os.listdir(sd) if re.match(r"C\d\d-\d+$", n)):
        meta = json.load(open(os.path.join(sd, name, "meta.json")))
        rr = meta.get("verification", {}).get("rerun")
        if not rr:
            # only the first run (tools/try_seeded.py) is recorded: verdict per check, replay names from its output lines
            first = meta.get("verification", {}).get("checks")
            if not first:
                rows.append((name, "not re-run", "", "", meta.get("summary", "")[:110])); continue
            caught = [c for c, x in first.items() if x.get("verdict") == "VIOLATION"]
            hows = []
            for c, x in first.items():
                for l in x.get("output", []):
                    if l.startswith("VIOLATION") and "replay=" in l:
                        hows.append(os.path.basename(l.split("replay=")[1].split()[0]) + ("" if x.get("concrete_replay") else " (no-failing-input-found)"))
                        break
            rows.append((name, ", ".join(caught) if caught else "**not caught**", "; ".join(hows), "first run", meta.get("summary", "").replace("|", "/")[:110]))
            continue
        heads.add(rr["repo_head"])
        v = rr["checks"]
        caught = [c for c, x in v.items() if x["verdict"] == "VIOLATION"]
        how = "; ".join(os.path.basename(x["violation_lines"][0].split("replay=")[1].split()[0]) + ("" if x["concrete_replay"] else " (no-failing-input-found)")
                        for c, x in v.items() if x["violation_lines"])
        rows.append((name, ", ".join(caught) if caught else "**not caught**", how, rr["repo_head"], meta.get("summary", "").replace("|", "/")[:110]))
    with open(os.path.join(sd, "RESULTS.md"), "w") as f:
        f.write("# Seeded changes: last re-run of each (quick tier of the named checks; /repo heads: %s)\n\n" % ", ".join(sorted(heads)))
        f.write("| seeded change | caught by | replay | /repo | what the change does |\n|---|---|---|---|---|\n")
        for r in rows:
            f.write("| %s | %s | %s | %s | %s |\n" % r)


if __name__ == "__main__":
    sys.exit(main())
