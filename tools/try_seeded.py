#!/usr/bin/env python3
"""Confirm a seeded change produced by a mutation agent and run the checks against it.
usage: try_seeded.py <worktree> <n> <check id> [<check id>...]
1. in the scratch worktree: apply OUT/<n>/patch.diff, build, ctest, build+run the demo (must fail);
   revert, rebuild, run the demo (must pass);
2. apply the patch to /repo, run each ./check <id> (quick), revert /repo;
3. copy patch, demo and an augmented meta.json to /verif/seeded/<prop>-<n>/."""
import json, os, shutil, subprocess, sys, time

ROOT = os.path.dirname(os.path.dirname(os.path.abspath(__file__)))


def sh(cmd, cwd=None, timeout=1800):
    r = subprocess.run(cmd, shell=True, cwd=cwd, capture_output=True, text=True, timeout=timeout)
    return r.returncode, (r.stdout + r.stderr)


def build(wt):
    rc, out = sh("cmake -G Ninja -S . -B _b >/dev/null && cmake --build _b 2>&1 | tail -3", wt)
    return rc == 0 and "error" not in out.lower(), out


def ctest(wt):
    rc, out = sh("ctest --test-dir _b 2>&1 | tail -4", wt)
    return "100% tests passed" in out, out


def run_demo(wt, n):
    d = os.path.join(wt, "OUT", str(n))
    if os.path.exists(os.path.join(d, "demo.sh")):
        rc, out = sh("bash OUT/%s/demo.sh" % n, wt)
        return rc, out[-600:]
    rc, out = sh("g++ -std=c++14 -w -DCTRMML_VERIF -I src -I OUT/%s OUT/%s/demo.cpp _b/libctrmml.a -o OUT/%s/demo_bin 2>&1 | tail -5" % (n, n, n), wt)
    if not os.path.exists(os.path.join(d, "demo_bin")):
        return -99, "demo does not compile: " + out
    rc, out = sh("OUT/%s/demo_bin %s" % (n, os.environ.get("DEMO_ARGS", "")), wt, timeout=300)
    os.unlink(os.path.join(d, "demo_bin"))
    return rc, out[-600:]


def main():
    wt, n = sys.argv[1], sys.argv[2]
    checks = sys.argv[3:]
    d = os.path.join(wt, "OUT", n)
    meta = json.load(open(os.path.join(d, "meta.json")))
    prop = meta.get("property", checks[0])
    res = {"confirmed": {}, "checks": {}}
    sh("git checkout -- .", wt)
    rc, out = sh("git apply OUT/%s/patch.diff" % n, wt)
    if rc != 0:
        print("patch does not apply:", out); return 2
    ok_b, out = build(wt)
    ok_t, tout = ctest(wt)
    rc_with, dout_with = run_demo(wt, n)
    sh("git checkout -- .", wt)
    build(wt)
    rc_without, dout_without = run_demo(wt, n)
    res["confirmed"] = {"builds_with_patch": ok_b, "unit_tests_pass_with_patch": ok_t, "demo_exit_with_patch": rc_with,
                        "demo_exit_without_patch": rc_without}
    good = ok_b and ok_t and rc_with not in (0, -99) and rc_without == 0
    print("confirm:", res["confirmed"], "=>", "OK" if good else "REJECTED")
    if not good:
        print(dout_with[-300:]); print(dout_without[-300:])
        return 1
    # run the checks on /repo with the patch
    rc, out = sh("git -C /repo status --porcelain --untracked-files=no")
    if out.strip():
        print("/repo not clean"); return 2
    rc, out = sh("git -C /repo apply %s" % os.path.join(d, "patch.diff"))
    if rc != 0:
        print("patch does not apply to /repo:", out); return 2
    try:
        for c in checks:
            t0 = time.time()
            rc, out = sh("./check %s 2>&1 | grep -v WARNING | grep 'VIOLATION\\|KNOWN\\|held\\|INFRA\\|proof:' | cut -c1-300" % c, ROOT, timeout=3000)
            verdict = "VIOLATION" if "VIOLATION" in out else ("held" if "held" in out else "other")
            nofail = "no-failing-input-found" in out
            res["checks"][c] = {"verdict": verdict, "concrete_replay": verdict == "VIOLATION" and not all("no-failing-input-found" in l for l in out.splitlines() if "VIOLATION" in l),
                                "output": out.strip().splitlines()[-6:], "seconds": round(time.time() - t0, 1)}
            print(c, verdict, "(no-failing-input-found only)" if verdict == "VIOLATION" and not res["checks"][c]["concrete_replay"] else "")
    finally:
        sh("git -C /repo checkout -- .")
    out_dir = os.path.join(ROOT, "seeded", "%s-%d" % (prop, int(n) + int(os.environ.get("SEEDED_OFFSET", "0"))))
    os.makedirs(out_dir, exist_ok=True)
    for f in os.listdir(d):
        if f.endswith((".diff", ".cpp", ".sh", ".h", ".inc", ".mml", ".json", ".txt")) and os.path.getsize(os.path.join(d, f)) < 200000:
            shutil.copy(os.path.join(d, f), os.path.join(out_dir, f))
    meta["verification"] = res
    meta["what_ran"] = "tools/try_seeded.py %s %s %s (patch applied to /repo, quick checks, then git -C /repo checkout -- .)" % (wt, n, " ".join(checks))
    json.dump(meta, open(os.path.join(out_dir, "meta.json"), "w"), indent=1)
    return 0


if __name__ == "__main__":
    sys.exit(main())
