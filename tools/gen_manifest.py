#!/usr/bin/env python3
"""Regenerates MANIFEST.json from the check modules (checks/cXX.py) so that it is always valid."""
import importlib, json, os, sys
ROOT = os.path.dirname(os.path.dirname(os.path.abspath(__file__)))
sys.path.insert(0, ROOT)
props = [json.loads(l) for l in open(os.path.join(ROOT, "properties.jsonl"))]
NA = {}
na_path = os.path.join(ROOT, "tools", "not_applicable.json")
if os.path.exists(na_path):
    NA = json.load(open(na_path))
m = {
    "version": 1,
    "setup_cmd": "python3 tools/extract_tables.py && cd lean && lake build Ctrmml ctrmml_model",
    "hooks": {"guard": "CTRMML_VERIF",
              "enable": "-DCTRMML_VERIF is passed to every harness compile (vlib/core.py CXXFLAGS); the only hook is an add-only friend declaration in src/platform/mdsdrv.h (MDSDRV_Data_Test); all other private state is reached through the friend names the headers already declare",
              "baseline_off_cmd": "cmake -G Ninja -S /repo -B /repo/_build >/dev/null && cmake --build /repo/_build >/dev/null && ctest --test-dir /repo/_build -j8 --timeout 900",
              "source_commits": ["f88f3c9"], "add_only": True},
    "engines": [{"name": "lean-proof+correspondence", "path": "check", "kind_free_text": "Lean 4 theorems over a hand-written model (lean/Ctrmml), regenerated tables (tools/extract_tables.py), C++ correspondence harness (harness/), Lean model driver (lean/Driver), verdict protocol (vlib/core.py)", "serves_properties": []}],
    "checks": [], "not_applicable": [],
    "notes": "see DESIGN.md; known_findings.txt lists recorded and fixed defects",
}
for p in props:
    pid = p["id"]
    path = os.path.join(ROOT, "checks", pid.lower() + ".py")
    if os.path.exists(path):
        spec = importlib.import_module("checks." + pid.lower())
        m["checks"].append({
            "property_id": pid,
            "quick_cmd": "./check %s --tier quick" % pid,
            "thorough_cmd": "./check %s --tier thorough" % pid,
            "evidence_file": "evidence/%s.json" % pid,
            "replay_cmd_template": "./check %s --replay-file {path}" % pid,
            "engine": "lean-proof+correspondence",
            "level_claimed": {"category": spec.LEVEL, "text": spec.LEVEL_TEXT, "design_ref": "DESIGN.md section 6 (%s)" % pid},
            "level_note": spec.LEVEL_NOTE,
            "technique": spec.TECHNIQUE,
        })
        m["engines"][0]["serves_properties"].append(pid)
    else:
        m["not_applicable"].append({"property_id": pid, "reason": NA.get(pid, "check not built yet (framework under construction; DESIGN.md section 9 gives the build order); no claim is made for this property")})
json.dump(m, open(os.path.join(ROOT, "MANIFEST.json"), "w"), indent=1)
print("manifest: %d checks, %d not applicable" % (len(m["checks"]), len(m["not_applicable"])))
