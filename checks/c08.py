"""C08 — Every exported VGM file is well-formed and self-consistent."""
import os, re, struct
from vlib.core import Case

ID = "C08"
LEAN_MODULE = "Ctrmml.Properties.C08"
THEOREMS = ["C08_delay_encoding", "C08_no_overflow", "C08_no_indeterminate_byte", "C08_eof_offset", "C08_stream_parses",
            "C08_sample_total_header", "C08_gd3_offset", "C08_loop_consistent", "C08_gd3_eleven_strings", "C08_clocks_declared",
            "C08_pcm_stream_in_block",
            # GD3 text: the writer's UTF-8 decoder against the reader-side encoder
            "C08_utf8_decode_encode", "C08_utf16_encode_decode", "C08_utf8_valid_tag", "C08_utf8_decoder_scalars", "C08_gd3_renders_tag",
            # whole songs: Platform::vgm_export + MD_Driver
            "C08_invalid_tag_range_error", "C08_md_export_hyps", "C08_full_partial", "C08_pcm_windows_are_samples",
            "C08_full_for_reachable_banks", "C08_full_for_built_banks", "C08_pcm_offset_regression", "C08_example_pcm_bank", "C08_example_pcm_ops", "mdPokes_eq"]
LEVEL = "proof"
STREAM = "vgmw.ops+vgmsong+c08song"
CHUNK = 40
CASE_SECONDS = 30
# realloc growth must be observable: ASan fills every fresh allocation completely with 0xbe
_ROOT = os.path.dirname(os.path.dirname(os.path.abspath(__file__)))
TMPDIR = os.path.join(_ROOT, "build", "tmp")
WAVDIR = os.path.join(_ROOT, "build", "c08_wav")
ENV = {"ASAN_OPTIONS": "detect_leaks=0:abort_on_error=0:exitcode=99:allocator_may_return_null=0:"
                       "max_malloc_fill_size=1073741824:malloc_fill_byte=190",
       "VERIF_TMPDIR": TMPDIR}

INITIAL_ALLOC = None


def initial_alloc():
    """the growth steps come from the extracted constant, not from a copy"""
    global INITIAL_ALLOC
    if INITIAL_ALLOC is None:
        p = os.path.join(os.path.dirname(os.path.dirname(os.path.abspath(__file__))), "lean", "Ctrmml", "Generated", "Tables.lean")
        m = re.search(r"vgm_initial_buffer_alloc : Nat := (\d+)", open(p).read())
        INITIAL_ALLOC = int(m.group(1))
    return INITIAL_ALLOC


MD_POKES = "p,32,44,7670454 p,32,12,3579575 p,16,40,9 p,8,42,16 p,8,43,3"
# clocks of the other chips the random family writes to (YM2413, YM2151, YM2203, YM3812)
MORE_POKES = "p,32,16,3579545 p,32,48,3579545 p,32,68,4000000 p,32,80,3579545 p,32,84,3579545"
HDR = 256


def hx(s):
    b = s.encode("utf-8") if isinstance(s, str) else s
    return b.hex() if b else "-"


def tagtok(fields):
    """fields: 11 entries, each '-' | hex | 'n*hex'"""
    return "T," + ",".join(fields)


def simple_tags(title="t", date="2020-01-02", notes="n", **kw):
    f = ["-"] * 11
    f[0] = hx(title)
    f[8] = hx(date) if date else "-"
    f[10] = hx(notes) if notes else "-"
    for k, v in kw.items():
        f[int(k[1:])] = v
    return tagtok(f)


def fill_to(target_pos, cur_pos, seed):
    """a type-0 data block whose end lands exactly on target_pos (7 header bytes + payload)"""
    n = target_pos - cur_pos - 7
    if n < 0:
        return None
    return "B,0,f:%d:%d,%d,0" % (n, seed % 256, n)


def req(ops, version=97, header=HDR):
    return "vgmw %d %d %s" % (version, header, " ".join(o for o in ops if o))


CHARS = {"ascii": "a", "2byte": "é", "3byte": "あ", "4byte": "\U0001F600"}

CORPUS = [
    # D10a: GD3 terminators land in realloc'ed (not zeroed) memory
    (req([MD_POKES, "B,0,f:99950:1,99950,0", "ds,0,2,0,42,0", "w,82,0,40,240", "d,735", "S", simple_tags()]), ("corpus", "gd3-in-growth")),
    # D10b: 11 x 256 code units need 5666 bytes, reserve(2000) guarantees 2000
    (req([MD_POKES, "B,0,f:96700:2,96700,0", "w,80,0,0,159", "d,100", "S", tagtok(["256*61"] * 11)]), ("corpus", "gd3-beyond-reserve")),
    # D10c: loop point at sample 0
    (req([MD_POKES, "L", "w,82,0,40,240", "d,44100", "w,82,0,40,0", "d,10", "S", simple_tags()]), ("corpus", "loop-at-0")),
    # delay commands are not covered by reserve(100): 40 x 0xffff waits flushed by stop() 85 bytes before the end
    (req([MD_POKES, "B,0,f:99636:3,99636,0", "d,%d" % (65535 * 40), "S", simple_tags()]), ("corpus", "delay-beyond-reserve")),
    (req([MD_POKES, "B,0,f:99636:3,99636,0", "d,%d" % (65535 * 40), "w,82,0,40,240", "S", simple_tags()]), ("corpus", "delay-beyond-reserve")),
    # data bank type 0 + stream commands addressing it
    (req([MD_POKES, "B,0,h:000102030405060708090a0b0c0d0e0f,16,0", "ds,0,2,0,42,0", "dp,0,4,8,8000", "d,50", "dx,0", "S", simple_tags()]), ("corpus", "pcm")),
    # unit-test shape (version 0x51, header 0x80)
    (req([MD_POKES, "w,80,0,0,159", "w,80,0,0,191", "w,82,0,43,128", "d,1", "w,82,0,42,7", "d,2", "S", simple_tags()], 81, 128), ("corpus",)),
    # default date / notes
    (req([MD_POKES, "w,80,0,0,159", "d,5", "S", simple_tags(date="", notes="")]), ("corpus", "default-date-notes")),
]

DELAYS = [0, 1, 2, 15, 16, 17, 18, 255, 256, 257, 734, 735, 736, 882, 65534, 65535, 65536, 65551, 65552, 131069, 131070, 131071,
          65535 * 3 + 5, 65535 * 31, 65535 * 34 + 17, 65535 * 200 + 16]


def gen_ops(rng, n, allow_loop=True):
    ops = []
    bank = 0
    for _ in range(n):
        r = rng.random()
        if r < 0.30:
            ops.append("w,82,%d,%d,%d" % (rng.randrange(2), rng.randrange(256), rng.randrange(256)))
        elif r < 0.42:
            ops.append("w,80,0,0,%d" % rng.randrange(256))
        elif r < 0.50:
            c = rng.choice([0x30, 0x51, 0x54, 0x55, 0x5a, 0xe1, 0xd0, 0xd3, 0xc4])
            ops.append("w,%d,%d,%d,%d" % (c, rng.choice([0, 1]) if 0x50 < c < 0x60 and c % 2 == 0 else rng.randrange(4) if c >= 0xc0 else 0,
                                        rng.randrange(65536) if c == 0xe1 else rng.randrange(256), rng.randrange(65536) if c == 0xe1 else rng.randrange(256)))
        elif r < 0.78:
            ops.append("d,%d" % (rng.choice(DELAYS) if rng.random() < 0.4 else rng.randrange(0, 3000)))
        elif r < 0.84 and allow_loop:
            ops.append("L")
        elif r < 0.90:
            n_ = rng.choice([0, 1, 5, 33, 200, 1000])
            t = rng.choice([0, 0, 0, 0x81, 0x8b, 0xc0])
            ops.append("B,%d,f:%d:%d,%d,%d" % (t, n_, rng.randrange(256), rng.choice([n_, 65536]), rng.choice([0, 16])))
            if t == 0:
                bank += n_
        elif r < 0.95:
            ops.append("ds,%d,2,0,42,0" % rng.randrange(2))
        elif bank > 0:
            st = rng.randrange(bank)
            ops.append("dp,0,%d,%d,%d" % (st, rng.randrange(bank - st + 1), rng.choice([8000, 16000, 44100])))
        else:
            ops.append("dx,0")
    return ops


def est_len(ops):
    """position reached by a sequence of the generator's tokens (mirrors nothing in the model: only
    used to aim data blocks at the growth steps; exactness is not required)"""
    pos = HDR
    pend = 0
    for o in " ".join(ops).split():
        f = o.split(",")
        def flush():
            nonlocal pos, pend
            if pend:
                q, r = divmod(pend, 65535)
                pos += 3 * q + (3 if r > 16 else 1 if r else 0)
                pend = 0
        if f[0] == "d":
            pend += int(f[1])
        elif f[0] == "w":
            flush()
            c = int(f[1])
            pos += 5 if c == 0xe1 else 3 if 0x50 < c < 0x60 else 2 if c in (0x50, 0x30) else 4
        elif f[0] == "ds":
            flush(); pos += 10
        elif f[0] == "dp":
            flush(); pos += 17
        elif f[0] == "dx":
            flush(); pos += 2
        elif f[0] in ("L", "S"):
            flush(); pos += 1 if f[0] == "S" else 0
        elif f[0] == "B":
            flush()
            n = int(f[2].split(":")[1]) if f[2].startswith("f:") else (len(f[2]) - 2) // 2
            pos += 7 + n + (8 if 0x80 <= int(f[1]) < 0xc0 else 0)
    return pos


def rand_tag_fields(rng):
    f = []
    for i in range(11):
        r = rng.random()
        if r < 0.3:
            f.append("-")
        else:
            kind = rng.choice(list(CHARS))
            n = rng.choice([1, 2, 3, 10, 100, 255, 256, 257, 300, 1000]) if rng.random() < 0.5 else rng.randrange(1, 40)
            if rng.random() < 0.5:
                f.append("%d*%s" % (n, hx(CHARS[kind])))
            else:
                s = "".join(rng.choice(list(CHARS.values()) + list("Song Title 01")) for _ in range(min(n, 60)))
                f.append(hx(s.strip() or "x"))
    return f


def tag_tags(fields):
    t = set()
    for x in fields:
        if x == "-":
            t.add("tag-empty")
            continue
        n, _, h = x.rpartition("*")
        b = bytes.fromhex(h) * (int(n) if n else 1)
        try:
            s = b.decode("utf-8")
        except UnicodeDecodeError:
            t.add("tag-invalid-utf8")
            continue
        units = len(s.encode("utf-16-le")) // 2
        t.add("tag-units<256" if units < 256 else "tag-units=256" if units == 256 else "tag-units>256")
        if any(ord(c) > 0xffff for c in s): t.add("tag-4byte")
        elif any(ord(c) > 0x7ff for c in s): t.add("tag-3byte")
        elif any(ord(c) > 0x7f for c in s): t.add("tag-2byte")
        else: t.add("tag-ascii")
    return t


def size_tags(pos):
    a = initial_alloc()
    t = set()
    k = 0
    while a * (2 ** k) < pos - 8000:
        k += 1
    step = a * (2 ** k)
    if pos < step - 8000:
        t.add("log<step%d" % k)
    elif pos < step:
        t.add("log-just-below-step%d" % k)
    else:
        t.add("log-just-above-step%d" % k)
    return t


def case_tags(ops, fields=None):
    t = set()
    toks = " ".join(ops).split()
    if "L" in toks:
        t.add("loop")
        before = toks[:toks.index("L")]
        if not any(x.startswith("d,") and int(x[2:]) > 0 for x in before):
            t.add("loop-at-sample-0")
    else:
        t.add("no-loop")
    if any(x.startswith("dp,") for x in toks): t.add("pcm-stream")
    if any(x.startswith("d,") and int(x[2:]) > 65535 for x in toks): t.add("delay>65535")
    if any(x == "d,0" for x in toks): t.add("delay-0")
    t |= size_tags(est_len(ops))
    if fields:
        t |= tag_tags(fields)
    return sorted(t)


MML_SONGS = [
    ("N", "A o4l4 cdef\n"),
    ("L", "A o4l4 c L def\n"),
    ("L", "A L o4l4 cdef\n"),                      # loop point at time zero
    ("L", "A L o4l1 c\nG L o3l2 eg\n"),
    ("N", "@1 psg 15 14 13 12\nG @1 o4l8 cdefgab>c\nH o3l2 c e\n"),
    ("N", "@2 fm 3 0\n 31 0 19 5 0 23 0 0 0 0\n 31 6 0 4 3 19 0 0 0 0\n 31 15 0 5 4 38 0 4 0 0\n 31 27 0 11 1 0 0 1 0 0\nA @2 o4l8 v12 cdefgab>c r1 c1\nB @2 o3l4 c e g e\n"),
    ("L", "A t200 o4l16 L [cdef]8\n"),
    ("N", "A o4 l1 t40 r r r r r r r r r r r r c\n"),   # ~ 78 s of silence, then a note
    ("N", "A o4 l1 t40 c r r r r r r r r r r r r r r r r\n"),  # long silence before stop
]


def song_req(flag, fields, mml, samples=None):
    r = "vgmsong %s %s %s" % (flag, tagtok(fields), mml.encode().hex())
    if samples:
        r += " P," + ",".join(x.hex() for x in samples)
    return r


def write_wav(data8, bits, rate):
    """a tiny canonical mono WAV under build/c08_wav; returns (path, expected 8-bit unsigned sample bytes)"""
    import hashlib
    os.makedirs(WAVDIR, exist_ok=True)
    if bits == 8:
        payload = bytes(data8)
    else:
        # 16-bit signed: high byte = data8 ^ 0x80, low byte arbitrary but deterministic
        payload = b"".join(bytes([(37 * i) & 0xff, d ^ 0x80]) for i, d in enumerate(data8))
    fmt = struct.pack("<HHIIHH", 1, 1, rate, rate * bits // 8, bits // 8, bits)
    body = b"WAVE" + b"fmt " + struct.pack("<I", len(fmt)) + fmt + b"data" + struct.pack("<I", len(payload)) + payload
    if len(payload) % 2:
        body += b"\0"
    blob = b"RIFF" + struct.pack("<I", len(body)) + body
    name = os.path.join(WAVDIR, "s%s_%d_%d.wav" % (hashlib.sha1(blob).hexdigest()[:12], bits, rate))
    if not os.path.exists(name):
        tmp = name + ".%d.tmp" % os.getpid()
        with open(tmp, "wb") as f:
            f.write(blob)
        os.replace(tmp, name)
    return name, bytes(data8)


def pcm_song(rng, quick):
    """a song whose F track plays PCM instruments; returns (mml, expected sample byte strings)"""
    nins = rng.choice([1, 1, 2, 3])
    lines, samples, ids = [], [], []
    for i in range(nins):
        n = rng.choice([1, 2, 3, 17, 64, 255, 256, 257, 1000] if quick else [1, 2, 3, 17, 64, 255, 256, 257, 1000, 4000, 20000])
        data = [rng.randrange(256) for _ in range(n)]
        path, exp = write_wav(data, rng.choice([8, 16]), rng.choice([8000, 11025, 17500]))
        # sample paths are resolved relative to the MML file, which the harness writes to build/tmp
        lines.append('@%d pcm "../c08_wav/%s"' % (30 + i, os.path.basename(path)))
        samples.append(exp)
        ids.append(30 + i)
    notes = " ".join("@%d %s%d" % (rng.choice(ids), rng.choice("cdefgab") if rng.random() < 0.8 else "r", rng.choice([4, 8, 16])) for _ in range(rng.randrange(1, 12)))
    body = "F o4 t%d %s%s\n" % (rng.choice([100, 150]), "L " if rng.random() < 0.4 else "", "@%d c8 " % ids[0] + notes)
    if rng.random() < 0.5:
        body += "A o4 l8 " + " ".join(rng.choice("cdefgab") for _ in range(rng.randrange(1, 10))) + "\n"
    return "\n".join(lines) + "\n" + body, samples



# ---- whole-song exports answered by the model as well (stream c08song = the mdvgm request of C07 + files + song tags)
def wav_bytes(data8, bits, rate):
    """a canonical mono WAV; returns (file bytes, expected 8-bit unsigned sample bytes)"""
    if bits == 8:
        payload = bytes(data8)
    else:
        payload = b"".join(bytes([(37 * i) & 0xff, d ^ 0x80]) for i, d in enumerate(data8))
    fmt = struct.pack("<HHIIHH", 1, 1, rate, rate * bits // 8, bits // 8, bits)
    body = b"WAVE" + b"fmt " + struct.pack("<I", len(fmt)) + fmt + b"data" + struct.pack("<I", len(payload)) + payload
    if len(payload) % 2:
        body += b"\0"
    return b"RIFF" + struct.pack("<I", len(body)) + body, bytes(data8)


SONG_TAG_KEYS = ["#title", "#titlej", "#game", "#gamej", "#system", "#systemj", "#composer", "#composerj", "#vgmdate", "#programmer",
                 "#comment", "#author", "#programer"]
BAD_UTF8 = ["80", "ff", "c080", "41c328", "eda080", "f4908080", "f880808080", "e0808f", "f08080af", "c3", "e381", "f09f98"]


def song_tag_tokens(rng, bad=False):
    toks, tg = [], set()
    for k in SONG_TAG_KEYS:
        if rng.random() < 0.35:
            kind = rng.choice(list(CHARS))
            n = rng.choice([1, 2, 10, 100, 255, 256, 257, 300]) if rng.random() < 0.3 else rng.randrange(1, 30)
            # Song::set_tag deletes trailing white space; an empty #vgmdate / #comment would bring in the wall clock / build stamp
            b = (CHARS[kind] * n).encode() if rng.random() < 0.5 else ("".join(
                rng.choice(list(CHARS.values()) + list("Song Title 01")) for _ in range(min(n, 40))).strip() or "x").encode()
            toks.append("%s=%s" % (k, b.hex() or "-"))
            tg |= tag_tags([b.hex()]) if b else {"tag-empty"}
    if bad:
        k = rng.choice(SONG_TAG_KEYS[:11])
        toks = [t for t in toks if not t.startswith(k + "=")] + ["%s=%s" % (k, rng.choice(BAD_UTF8))]
        tg.add("tag-invalid-utf8")
    return toks, tg


def model_song(rng, quick, pcm=True, offset=False):
    """an IR song (C07's generator) with PCM instruments added; returns (request, tags)"""
    from checks import c07
    from vlib import songgen
    c07.T = songgen.event_types()
    T = c07.T
    while True:
        song, ins, tags = c07.random_song(rng, "quick")
        if max([c07.ticks_of(song, c) for c in song if c < 16] or [0]) <= (150 if quick else 400):
            break
    toks, expect = [], []
    tags = set(tags)
    if pcm:
        npcm = rng.choice([1, 1, 2, 3])
        pool = []
        for i in range(npcm):
            n = rng.choice([1, 2, 3, 17, 64, 255, 256, 257] if quick else [1, 2, 3, 17, 64, 255, 256, 257, 1000, 4000])
            data = [rng.randrange(256) for _ in range(n)] if not pool or rng.random() < 0.8 else list(rng.choice(pool))
            n = len(data)
            pool.append(data)
            blob, exp = wav_bytes(data, rng.choice([8, 16]), rng.choice([8000, 11025, 17500]))
            name = "s%d.wav" % i
            toks.append("W%s=%s" % (name, blob.hex()))
            words = ["pcm", name]
            if rng.random() < 0.3:
                words.append("rate=%d" % rng.choice([4000, 8000, 16000, 22050]))
            if offset and i == npcm - 1 and n > 1:
                k = rng.randrange(1, n)
                words.append("offset=%d" % k)
                exp = exp[k:]
                tags.add("pcm-offset")
            ins = ins + [(30 + i, words)]
            expect.append(exp)
        # a PCM channel: usually FM6 (track 5), sometimes any other channel kind
        ch = rng.choice([5, 5, 5, 0, 3, 6, 9, 10])
        body = []
        for _ in range(rng.randrange(1, 8)):
            r = rng.random()
            if r < 0.3:
                body.append((T["INS"], 30 + rng.randrange(npcm), 0, 0))
            elif r < 0.45:
                body.append((T["REST"], 0, 0, rng.randrange(1, 12)))
            elif r < 0.5 and ins:
                body.append((T["INS"], rng.choice([i for i, _ in ins]), 0, 0))
            else:
                d = rng.randrange(1, 12)
                on = rng.randrange(1, d + 1)
                body.append((T["NOTE"], rng.randrange(20, 80), on, d - on))
        pre = [(T["INS"], 30, 0, 0), (T["NOTE"], 40, 3, 1)]
        if ch in song and rng.random() < 0.5:
            song[ch] = pre + body + song[ch]
        else:
            song[ch] = pre + body + ([(T["SEGNO"], 0, 0, 0), (T["NOTE"], 45, 4, 2)] if rng.random() < 0.3 and "all-loop" not in tags else [])
        tags |= {"pcm-song", "pcm-stream", "pcm-ch%d" % ch}
    req = c07.render(song, ins).replace("mdvgm ", "c08song ", 1)
    if req == "mdvgm":
        req = "c08song"
    ttoks, ttags = song_tag_tokens(rng, bad=rng.random() < 0.08)
    req = " ".join([req] + toks + ttoks + ["X" + e.hex() for e in expect])
    return req, sorted(tags | ttags | {"song", "song-model"})


_W16 = wav_bytes(list(range(16, 32)), 8, 8000)
_W5 = wav_bytes([200, 201, 202, 203, 204], 16, 11025)
SONG_MODEL_CORPUS = [
    # one PCM instrument on FM6: data block, DAC enable + stream start at key-on, DAC disable + stop at key-off
    ("c08song T5:17.30.0.0,2.40.6.2,1.0.0.4,2.41.3.3 @30=pcm,a.wav Wa.wav=%s X%s" % (_W16[0].hex(), _W16[1].hex()), ("pcm-song", "pcm-stream")),
    # two instruments (the second with a rate override), used from an FM and a PSG channel, with a loop point
    ("c08song T0:17.30.0.0,2.40.6.2,17.31.0.0,7.0.0.0,2.41.3.3,1.0.0.2 T6:17.31.0.0,2.30.4.4 @30=pcm,a.wav @31=pcm,b.wav,rate=16000 Wa.wav=%s Wb.wav=%s X%s X%s"
     % (_W16[0].hex(), _W5[0].hex(), _W16[1].hex(), _W5[1].hex()), ("pcm-song", "pcm-stream", "loop")),
    # the same sample twice (shared data, two headers)
    ("c08song T5:17.30.0.0,2.40.2.2,17.31.0.0,2.41.2.2 @30=pcm,a.wav @31=pcm,a.wav,rate=4000 Wa.wav=%s X%s" % (_W16[0].hex(), _W16[1].hex()), ("pcm-song", "pcm-stream")),
    # regression for D11 (fixed in e0c1e8f): offset= on a freshly placed sample; the window ran past the data block
    ("c08song T5:17.30.0.0,2.40.6.2 @30=pcm,a.wav,offset=4 Wa.wav=%s X%s" % (_W16[0].hex(), _W16[1][4:].hex()), ("pcm-song", "pcm-offset")),
    # two instruments on one wave file, the later one with an offset: the data is stored once and the second
    # header keeps start=N, so the stream start must be position+start (and both windows lie in the one block)
    ("c08song T5:17.30.0.0,2.40.2.2,17.31.0.0,2.41.2.2 @30=pcm,a.wav @31=pcm,a.wav,offset=4 Wa.wav=%s X%s X%s" % (_W16[0].hex(), _W16[1].hex(), _W16[1][4:].hex()),
     ("pcm-song", "pcm-offset", "pcm-shared-offset")),
    ("c08song T5:17.31.0.0,2.41.2.2,17.30.0.0,2.40.2.2,17.32.0.0,2.42.2.2 @30=pcm,a.wav @31=pcm,a.wav,offset=6 @32=pcm,a.wav,offset=2,rate=4000 Wa.wav=%s X%s X%s X%s"
     % (_W16[0].hex(), _W16[1].hex(), _W16[1][6:].hex(), _W16[1][2:].hex()), ("pcm-song", "pcm-offset", "pcm-shared-offset")),
    # tags through get_tags: fallbacks #author -> author, #programer -> creator, author -> creator
    ("c08song T0:2.40.6.2 #title=41e38182 #composer=c3a9 #game=f09f9880", ("tags",)),
    ("c08song T0:2.40.6.2 #author=%s #programer=%s" % (hx("au"), hx("pr")), ("tags", "tag-fallback")),
    ("c08song T0:2.40.6.2 #author=%s" % hx("only author"), ("tags", "tag-fallback")),
    ("c08song T0:2.40.6.2 #title=%s #comment=%s" % ("61" * 300, "e38182" * 257), ("tags", "tag-units>256")),
    # a tag that is not valid UTF-8 is an InputError of vgm_export (repository fix fab3739)
    ("c08song T0:2.40.6.2 #title=ff", ("tags", "tag-invalid-utf8")),
    ("c08song T0:2.40.6.2 #comment=41c328", ("tags", "tag-invalid-utf8")),
    ("c08song T0:2.40.6.2 #vgmdate=f4908080", ("tags", "tag-invalid-utf8")),
    # accepted leniently by the decoder: incomplete last sequence, encoded surrogate
    ("c08song T0:2.40.6.2 #title=41e381", ("tags", "tag-invalid-utf8")),
    ("c08song T0:2.40.6.2 #title=eda080", ("tags", "tag-invalid-utf8")),
    # missing sample file
    ("c08song T5:17.30.0.0,2.40.6.2 @30=pcm,zz.wav", ("pcm-song",)),
]

def cases(rng, tier):
    a = initial_alloc()
    for r, tg in CORPUS:
        yield Case(r, tg, "corpus")
    quick = tier == "quick"
    # ---- bounded exhaustive: every delay of the boundary set, alone / before a write / before the loop point
    for d in DELAYS:
        for shape in (["d,%d" % d, "S"], ["d,%d" % d, "w,82,0,40,240", "S"], ["w,80,0,0,159", "d,%d" % d, "L", "d,%d" % d, "w,80,0,0,191", "S"]):
            ops = [MD_POKES] + shape + [simple_tags()]
            yield Case(req(ops), case_tags(ops) + ["delay-boundary"], "delays")
    # ---- bounded exhaustive: loop point at every position of short sequences
    alpha = ["w,82,0,40,240", "d,1", "d,20", "w,80,0,0,159"]
    seqs = [[]] + [[x] for x in alpha] + [[x, y] for x in alpha for y in alpha]
    if not quick:
        seqs += [[x, y, z] for x in alpha for y in alpha for z in alpha]
    for s in seqs:
        for i in range(len(s) + 1):
            ops = [MD_POKES] + s[:i] + ["L"] + s[i:] + ["S", simple_tags()]
            yield Case(req(ops), case_tags(ops), "loop-positions")
    # ---- log sizes straddling every growth step, with every tag size class
    steps = [a, 2 * a] if quick else [a, 2 * a, 4 * a, 8 * a]
    deltas = [-6000, -5667, -5666, -5665, -2100, -2001, -2000, -1999, -130, -101, -100, -99, -86, -85, -84, -30, -3, -2, -1, 0, 1, 2, 50]
    if quick:
        deltas = [-5700, -5666, -2001, -2000, -1999, -101, -100, -99, -85, -1, 0, 1]
    tagsets = [["-"] * 11, ["256*61"] * 11, ["255*e38182"] * 11, ["257*f09f9880"] * 11, ["1000*c3a9"] * 11]
    for si, stp in enumerate(steps):
        for d in deltas:
            for ti, tf in enumerate(tagsets if not quick else [tagsets[(d + si) % len(tagsets)], tagsets[(d + si + 2) % len(tagsets)]]):
                pre = [MD_POKES, "ds,0,2,0,42,0"]
                tail = rng.choice([["w,82,0,40,240", "d,735", "S"], ["d,%d" % (65535 * rng.choice([1, 30, 33, 40]) + rng.randrange(20)), "S"],
                                   ["L", "d,10", "w,80,0,0,159", "S"], ["w,82,0,40,240", "d,%d" % (65535 * 35), "w,82,0,40,0", "S"], ["S"]])
                b = fill_to(stp + d, est_len(pre), rng.randrange(256))
                ops = pre + [b] + tail + [tagtok(tf)]
                yield Case(req(ops), case_tags(ops, tf) + ["straddle"], "straddle")
    # ---- seeded random structured sequences
    n = 150 if quick else 1500
    for i in range(n):
        pre = [MD_POKES, MORE_POKES]
        body = gen_ops(rng, rng.choice([0, 1, 3, 8, 20, 60]))
        if i % 3 == 0:
            stp = rng.choice(steps[:2] if quick else steps[:3])
            b = fill_to(stp + rng.choice([-rng.randrange(1, 7000), rng.randrange(0, 200), -rng.randrange(1, 120)]), est_len(pre + body), rng.randrange(256))
            if b:
                body.append(b)
                body += gen_ops(rng, rng.choice([0, 1, 2, 4]))
        fields = rand_tag_fields(rng)
        ops = pre + body + ["S", tagtok(fields)]
        yield Case(req(ops, rng.choice([97, 97, 81, 0x71]), rng.choice([256, 256, 128])), case_tags(ops, fields), "random")
    # ---- malformed: invalid UTF-8 tags, protocol misuse
    bad = ["80", "ff", "c080", "e381", "41e3", "eda080", "f4908080", "f880808080", "c3", "e0808f", "f08080af", "41c328", "f09f98"]
    for bx in bad:
        f = ["-"] * 11
        f[0] = bx
        ops = [MD_POKES, "w,80,0,0,159", "d,3", "S", tagtok(f)]
        yield Case(req(ops), ["malformed", "tag-invalid-utf8"], "malformed")
    for ops in ([MD_POKES, "w,80,0,0,159", "d,3"], [MD_POKES, "w,80,0,0,159", simple_tags()], [MD_POKES, "S", "w,80,0,0,159", simple_tags()],
                [MD_POKES, "w,160,0,1,2", "S", simple_tags()], [MD_POKES, "S", simple_tags(t0="4100" + "42")]):
        yield Case(req(ops), ["malformed", "protocol"], "malformed")
    # ---- whole-song export
    for flag, mml in MML_SONGS:
        for tf in ([["-"] * 11, ["-"] * 9 + [hx("prog only"), "-"], [hx("Title"), hx("タイトル"), hx("Game"), "-", hx("Mega Drive"), "-", hx("me"), "-", hx("2020"), hx("prog"), hx("note")]] +
                   ([] if quick else [["300*61"] + ["-"] * 10, ["256*e38182"] * 11])):
            yield Case(song_req(flag, tf, mml), sorted({"song", "loop" if flag == "L" else "no-loop"} | tag_tags(tf)), "song")
    # a tag line that is not valid UTF-8 reaches Platform::vgm_export: InputError, not a stray range_error
    for bx in ["ff", "c080", "41c328", "f4908080"]:
        f = ["-"] * 11
        f[0] = bx
        yield Case(song_req("N", f, "A o4l4 cdef\n"), ["song", "tag-invalid-utf8"], "song")
    for i in range(10 if quick else 60):
        mml, samples = pcm_song(rng, quick)
        fields = [x if "*" not in x or int(x.split("*")[0]) < 300 else "-" for x in rand_tag_fields(rng)]
        yield Case(song_req("?", fields, mml, samples), sorted({"song", "pcm-song", "pcm-stream"} | tag_tags(fields)), "song-pcm")
    ns = 12 if quick else 80
    for i in range(ns):
        notes = "cdefgab"
        body = "A o4 l%d t%d " % (rng.choice([4, 8, 16]), rng.choice([60, 120, 200]))
        k = rng.randrange(1, 30 if quick else 400)
        lp = rng.randrange(0, k + 1) if rng.random() < 0.6 else None
        parts = []
        for j in range(k):
            if lp == j:
                parts.append("L")
            parts.append(rng.choice(notes) if rng.random() < 0.8 else "r")
        if lp == k:
            parts.append("L " + rng.choice(notes))
        mml = body + " ".join(parts) + "\n" + ("G o3 l4 " + " ".join(rng.choice(notes) for _ in range(k // 2 + 1)) + "\n" if rng.random() < 0.5 else "")
        fields = [x if "*" not in x or int(x.split("*")[0]) < 300 else "-" for x in rand_tag_fields(rng)]
        yield Case(song_req(("L" if lp is not None else "N") if "\nG" not in mml else "?", fields, mml), sorted({"song", "loop" if lp is not None else "no-loop"} | tag_tags(fields)), "song")

    # ---- whole-song exports with a model answer (byte-exact) and the C08 judge
    for r, tg in SONG_MODEL_CORPUS:
        yield Case(r, ("corpus", "song", "song-model") + tuple(tg), "song-model")
    for bx in BAD_UTF8:
        for k in ("#title", "#composerj", "#comment"):
            yield Case("c08song T0:2.40.6.2 T6:2.45.3.3 %s=%s" % (k, bx), ["song", "song-model", "tags", "tag-invalid-utf8"], "song-model")
    for i in range(120 if quick else 1200):
        r, tg = model_song(rng, quick, pcm=(i % 4 != 3), offset=False)
        yield Case(r, tg, "song-model")
    for i in range(6 if quick else 40):
        r, tg = model_song(rng, quick, pcm=True, offset=True)
        yield Case(r, tg, "song-model")


def normalize(x):
    return "song skip" if x.startswith("song ") else x


def finding_key(case, impl, judge):
    if impl.startswith("crash") or impl == "timeout" or impl.startswith("uncaught"):
        m = re.search(r"(\w+\.cpp:\d+)", impl)
        kind = "heap-buffer-overflow" if "heap-buffer-overflow" in impl else impl.split(" ")[1] if " " in impl else impl
        return "crash:%s:%s" % (kind, m.group(1) if m else "?")
    j = judge
    for pat, key in ((r"GD3 strings not terminated|GD3 length|GD3 holds|GD3 magic", "gd3-strings"), (r"does not render", "gd3-tag-text"),
                     (r"loop", "loop"), (r"eof offset", "eof"), (r"GD3 offset", "gd3-offset"), (r"total", "sample-total"),
                     (r"clock", "clock"), (r"stream start|length mode", "pcm-stream"), (r"command stream differs|does not parse", "stream"),
                     (r"data block payload", "datablock"), (r"undefined behaviour", "ub"), (r"range_error", "range-error")):
        if re.search(pat, j):
            return key
    return "other"


def shrink(reqline):
    toks = reqline.split()
    if toks[0] != "vgmw":
        return
    head, ops = toks[:3], toks[3:]
    for i in range(len(ops)):
        if ops[i] not in ("S",):
            yield " ".join(head + ops[:i] + ops[i + 1:])
    for i, o in enumerate(ops):
        if o.startswith("d,") and int(o[2:]) > 1:
            yield " ".join(head + ops[:i] + ["d,%d" % (int(o[2:]) // 2)] + ops[i + 1:])
        if o.startswith("T,"):
            f = o.split(",")
            for k in range(1, 12):
                if f[k] != "-":
                    yield " ".join(head + ops[:i] + [",".join(f[:k] + ["-"] + f[k + 1:])] + ops[i + 1:])


RULE = ("operation sequences on VGM_Writer (writes of every command class write() encodes, delays from the boundary set "
        "{0,1,16,17,65534,65535,65536,...,200*65535+16} and random, set_loop at every position incl. sample 0, data blocks, DAC stream "
        "ops, stop, write_tag) with the log end aimed at -6000..+50 bytes around every growth step initial_buffer_alloc*2^k (k<2 quick, k<4 "
        "thorough) and tags empty/ASCII/2-,3-,4-byte UTF-8 of 0..1000 characters; invalid UTF-8 and protocol misuse; whole-song exports of "
        "small MML songs (incl. tag lines that are not valid UTF-8); whole-song exports of IR songs answered by the model too (stream "
        "c08song: C07's song generator plus 1..3 PCM instruments of 1..4000 samples from generated 8/16-bit WAV files, shared sample data, "
        "rate=/offset= overrides, PCM notes on FM, PSG, noise and dummy channels, loop points, random #title/#composer/#author/#programer/... "
        "tags incl. the get_tags fallbacks and invalid UTF-8). non-trivial = has any tag (every generated case); distinct by request text")
EXPLANATION = ("theorems over Model/Vgm (writer state machine over Option-UInt8 cells) and Model/MdDriver (vgm_export + MD_Driver incl. PCM "
               "instruments in pcm_mode 0) against Spec/VgmParse (VGM 1.61 reader, GD3 text as Unicode scalar values); the models are tied to "
               "vgm.cpp / song.cpp / md.cpp by running both on the generated operation sequences and whole songs under ASan with every fresh "
               "heap byte filled with 0xbe and diffing the complete files; the spec oracle (parser, header checks, GD3 reader, UTF-16->UTF-8 "
               "re-encoding of the strings, expected command list derived from the operations, stream windows against the instruments' sample "
               "bytes) judges the implementation's bytes, also for whole-song exports")
ASSUMPTIONS = ["delays are integers below 2^31 samples per flush (proved for whole songs: the export loop hands over less than 3600 s + one update)",
               "files shorter than 2 GiB (uint32_t buffer_alloc doubling and dbsize+100 do not wrap); the offset clauses assume < 4 GiB",
               "tag strings longer than 256 UTF-16 code units are truncated to 256 units by design (DESIGN C08); a surrogate pair may be cut",
               "realloc never fails (bad_alloc is not modelled)",
               "date and notes defaults (wall clock, build stamp) are inputs of the model; the harness canonicalises them by shape",
               "whole songs: the plain playback subset of Model/MdDriver plus PCM instruments in pcm_mode 0 (no PLATFORM events, portamento, "
               "pitch envelope, macro track, FM3, software PCM mixing), songs that end or loop within max_seconds (otherwise the model answers "
               "tooLong), WAV files below 1 GiB (the bound of C14's bank theorems; then the allocator invariant is proved for every bank read_song builds)"]
TECHNIQUE = "Lean 4 proof (invariant over writer operation sequences, parser prefix lemmas, kind/port invariant over the MD driver model, UTF-8/UTF-16 codec inversion) + differential correspondence model<->vgm.cpp and model<->whole-song export + spec oracle on exported bytes"
LEVEL_TEXT = ("Machine-checked theorems, two layers. (1) Over a Lean model of vgm.cpp, for ALL exporter operation sequences (caller header pokes; any PSG/YM2612 "
              "writes, delays, loop points anywhere incl. sample 0, stream data blocks, DAC stream setup/start/stop; stop; write_tag with any "
              "decodable tags; get_buffer): no store leaves the allocation (for every op sequence whatsoever); the export always returns a buffer "
              "with no indeterminate cell; magic and EOF offset exact; the VGM 1.61 reader of Spec/VgmParse consumes the stream from the data "
              "offset exactly to the end marker and reads exactly the expected command list; header total = sum of waits = sum of delays; GD3 "
              "offset addresses the byte after the end marker; loop offset is a command boundary with exactly D samples before it and header "
              "0x20 = total - D (both fields zero without loop point); the GD3 block is exact and splits into exactly eleven terminated UTF-16 "
              "strings = the decoded tags cut at 256 units; declared clocks survive into the final header for every chip command; every stream "
              "start addresses bytes of the type-0 data blocks written before it. (2) C08_full_partial: for EVERY song, instrument data and tag map, over the model of "
              "Platform::vgm_export + MD_Driver + get_tags (Model/MdDriver, incl. PCM instruments): the operation sequence the exporter performs "
              "satisfies the side conditions of layer 1 (C08_md_export_hyps: MD pokes declare both clocks, writes go only to SN76489 and YM2612 "
              "ports 0/1, one type-0 data block = used wave rom, stream starts = windows of PCM instruments' sample headers, delays < 2^31), so "
              "every returned file is WellFormed (header, stream, totals, loop, GD3 offset, clocks, PCM windows, eleven strings), the outcome is a "
              "file iff every tag decodes and InputError otherwise (never a writer fault), the stream windows are exactly the sample windows of "
              "the wave rom (C08_pcm_windows_are_samples), and each GD3 string renders its tag (UTF-16 -> UTF-8 gives back the tag, or a 256-unit "
              "prefix) for every well-formed UTF-8 tag. GD3 text: the writer's decoder inverts the reader-side encoder on every list of 16-bit "
              "units; on every accepted byte string it yields the UTF-16 forms of the encoded code points (C08_utf8_*).")
LEVEL_NOTE = ("Trusted: Lean kernel, the hand-written models Model/Vgm.lean, Model/MdDriver.lean (+ PlayerCh, Wave) (agreement with vgm.cpp, song.cpp, md.cpp by "
              "differential testing under ASan with every fresh heap byte filled, zero differences, on operation sequences and on whole songs "
              "incl. PCM instruments and tags), Spec/VgmParse.lean, file < 4 GiB for the 32-bit offset clauses, g++/ASan/UBSan and the harness. "
              "C08_full_for_built_banks discharges the wave-bank hypothesis of C08_full_partial for every bank read_song builds from WAV files below 1 GiB (any rate=/offset= "
              "arguments; D11 was repaired in e0c1e8f, C08_pcm_offset_regression). Still hypotheses (C08_full_statement is kept in the property file): the driver part "
              "completes (no player error, within max_seconds), WAV files < 1 GiB, exported file < 4 GiB, the song stays in the "
              "modelled subset (no platform commands / pitch envelopes / macro tracks / pcm_mode 2,3), MDSDRV_Data::read_song is represented by "
              "its result (instrument table + wave bank); MML-level songs outside the subset are decided per case by the spec oracle on the "
              "real bytes (stream vgmsong).")
