"""C08 — Every exported VGM file is well-formed and self-consistent."""
import os, re, struct
from vlib.core import Case

ID = "C08"
LEAN_MODULE = "Ctrmml.Properties.C08"
THEOREMS = ["C08_delay_encoding", "C08_no_overflow", "C08_no_indeterminate_byte", "C08_eof_offset", "C08_stream_parses",
            "C08_sample_total_header", "C08_gd3_offset", "C08_loop_consistent", "C08_gd3_eleven_strings", "C08_clocks_declared",
            "C08_pcm_stream_in_block"]
LEVEL = "proof"
STREAM = "vgmw.ops+vgmsong"
CHUNK = 40
CASE_SECONDS = 30
# realloc growth must be observable: ASan fills every fresh allocation completely with 0xbe
_ROOT = os.path.dirname(os.path.dirname(os.path.abspath(__file__)))
TMPDIR = os.path.join(_ROOT, "build", "tmp")
WAVDIR = os.path.join(_ROOT, "build", "c08_wav")
ENV = {"ASAN_OPTIONS": "detect_leaks=0:abort_on_error=0:exitcode=99:allocator_may_return_null=0:"
                       "max_malloc_fill_size=1073741824:malloc_fill_byte=190",
       "VERIF_TMPDIR": TMPDIR}

INITIAL_ALLOC = None


def initial_alloc():
    """the growth steps come from the extracted constant, not from a copy"""
    global INITIAL_ALLOC
    if INITIAL_ALLOC is None:
        p = os.path.join(os.path.dirname(os.path.dirname(os.path.abspath(__file__))), "lean", "Ctrmml", "Generated", "Tables.lean")
        m = re.search(r"vgm_initial_buffer_alloc : Nat := (\d+)", open(p).read())
        INITIAL_ALLOC = int(m.group(1))
    return INITIAL_ALLOC


MD_POKES = "p,32,44,7670454 p,32,12,3579575 p,16,40,9 p,8,42,16 p,8,43,3"
# clocks of the other chips the random family writes to (YM2413, YM2151, YM2203, YM3812)
MORE_POKES = "p,32,16,3579545 p,32,48,3579545 p,32,68,4000000 p,32,80,3579545 p,32,84,3579545"
HDR = 256


def hx(s):
    b = s.encode("utf-8") if isinstance(s, str) else s
    return b.hex() if b else "-"


def tagtok(fields):
    """fields: 11 entries, each '-' | hex | 'n*hex'"""
    return "T," + ",".join(fields)


def simple_tags(title="t", date="2020-01-02", notes="n", **kw):
    f = ["-"] * 11
    f[0] = hx(title)
    f[8] = hx(date) if date else "-"
    f[10] = hx(notes) if notes else "-"
    for k, v in kw.items():
        f[int(k[1:])] = v
    return tagtok(f)


def fill_to(target_pos, cur_pos, seed):
    """a type-0 data block whose end lands exactly on target_pos (7 header bytes + payload)"""
    n = target_pos - cur_pos - 7
    if n < 0:
        return None
    return "B,0,f:%d:%d,%d,0" % (n, seed % 256, n)


def req(ops, version=97, header=HDR):
    return "vgmw %d %d %s" % (version, header, " ".join(o for o in ops if o))


CHARS = {"ascii": "a", "2byte": "é", "3byte": "あ", "4byte": "\U0001F600"}

CORPUS = [
    # D10a: GD3 terminators land in realloc'ed (not zeroed) memory
    (req([MD_POKES, "B,0,f:99950:1,99950,0", "ds,0,2,0,42,0", "w,82,0,40,240", "d,735", "S", simple_tags()]), ("corpus", "gd3-in-growth")),
    # D10b: 11 x 256 code units need 5666 bytes, reserve(2000) guarantees 2000
    (req([MD_POKES, "B,0,f:96700:2,96700,0", "w,80,0,0,159", "d,100", "S", tagtok(["256*61"] * 11)]), ("corpus", "gd3-beyond-reserve")),
    # D10c: loop point at sample 0
    (req([MD_POKES, "L", "w,82,0,40,240", "d,44100", "w,82,0,40,0", "d,10", "S", simple_tags()]), ("corpus", "loop-at-0")),
    # delay commands are not covered by reserve(100): 40 x 0xffff waits flushed by stop() 85 bytes before the end
    (req([MD_POKES, "B,0,f:99636:3,99636,0", "d,%d" % (65535 * 40), "S", simple_tags()]), ("corpus", "delay-beyond-reserve")),
    (req([MD_POKES, "B,0,f:99636:3,99636,0", "d,%d" % (65535 * 40), "w,82,0,40,240", "S", simple_tags()]), ("corpus", "delay-beyond-reserve")),
    # data bank type 0 + stream commands addressing it
    (req([MD_POKES, "B,0,h:000102030405060708090a0b0c0d0e0f,16,0", "ds,0,2,0,42,0", "dp,0,4,8,8000", "d,50", "dx,0", "S", simple_tags()]), ("corpus", "pcm")),
    # unit-test shape (version 0x51, header 0x80)
    (req([MD_POKES, "w,80,0,0,159", "w,80,0,0,191", "w,82,0,43,128", "d,1", "w,82,0,42,7", "d,2", "S", simple_tags()], 81, 128), ("corpus",)),
    # default date / notes
    (req([MD_POKES, "w,80,0,0,159", "d,5", "S", simple_tags(date="", notes="")]), ("corpus", "default-date-notes")),
]

DELAYS = [0, 1, 2, 15, 16, 17, 18, 255, 256, 257, 734, 735, 736, 882, 65534, 65535, 65536, 65551, 65552, 131069, 131070, 131071,
          65535 * 3 + 5, 65535 * 31, 65535 * 34 + 17, 65535 * 200 + 16]


def gen_ops(rng, n, allow_loop=True):
    ops = []
    bank = 0
    for _ in range(n):
        r = rng.random()
        if r < 0.30:
            ops.append("w,82,%d,%d,%d" % (rng.randrange(2), rng.randrange(256), rng.randrange(256)))
        elif r < 0.42:
            ops.append("w,80,0,0,%d" % rng.randrange(256))
        elif r < 0.50:
            c = rng.choice([0x30, 0x51, 0x54, 0x55, 0x5a, 0xe1, 0xd0, 0xd3, 0xc4])
            ops.append("w,%d,%d,%d,%d" % (c, rng.choice([0, 1]) if 0x50 < c < 0x60 and c % 2 == 0 else rng.randrange(4) if c >= 0xc0 else 0,
                                        rng.randrange(65536) if c == 0xe1 else rng.randrange(256), rng.randrange(65536) if c == 0xe1 else rng.randrange(256)))
        elif r < 0.78:
            ops.append("d,%d" % (rng.choice(DELAYS) if rng.random() < 0.4 else rng.randrange(0, 3000)))
        elif r < 0.84 and allow_loop:
            ops.append("L")
        elif r < 0.90:
            n_ = rng.choice([0, 1, 5, 33, 200, 1000])
            t = rng.choice([0, 0, 0, 0x81, 0x8b, 0xc0])
            ops.append("B,%d,f:%d:%d,%d,%d" % (t, n_, rng.randrange(256), rng.choice([n_, 65536]), rng.choice([0, 16])))
            if t == 0:
                bank += n_
        elif r < 0.95:
            ops.append("ds,%d,2,0,42,0" % rng.randrange(2))
        elif bank > 0:
            st = rng.randrange(bank)
            ops.append("dp,0,%d,%d,%d" % (st, rng.randrange(bank - st + 1), rng.choice([8000, 16000, 44100])))
        else:
            ops.append("dx,0")
    return ops


def est_len(ops):
    """position reached by a sequence of the generator's tokens (mirrors nothing in the model: only
    used to aim data blocks at the growth steps; exactness is not required)"""
    pos = HDR
    pend = 0
    for o in " ".join(ops).split():
        f = o.split(",")
        def flush():
            nonlocal pos, pend
            if pend:
                q, r = divmod(pend, 65535)
                pos += 3 * q + (3 if r > 16 else 1 if r else 0)
                pend = 0
        if f[0] == "d":
            pend += int(f[1])
        elif f[0] == "w":
            flush()
            c = int(f[1])
            pos += 5 if c == 0xe1 else 3 if 0x50 < c < 0x60 else 2 if c in (0x50, 0x30) else 4
        elif f[0] == "ds":
            flush(); pos += 10
        elif f[0] == "dp":
            flush(); pos += 17
        elif f[0] == "dx":
            flush(); pos += 2
        elif f[0] in ("L", "S"):
            flush(); pos += 1 if f[0] == "S" else 0
        elif f[0] == "B":
            flush()
            n = int(f[2].split(":")[1]) if f[2].startswith("f:") else (len(f[2]) - 2) // 2
            pos += 7 + n + (8 if 0x80 <= int(f[1]) < 0xc0 else 0)
    return pos


def rand_tag_fields(rng):
    f = []
    for i in range(11):
        r = rng.random()
        if r < 0.3:
            f.append("-")
        else:
            kind = rng.choice(list(CHARS))
            n = rng.choice([1, 2, 3, 10, 100, 255, 256, 257, 300, 1000]) if rng.random() < 0.5 else rng.randrange(1, 40)
            if rng.random() < 0.5:
                f.append("%d*%s" % (n, hx(CHARS[kind])))
            else:
                s = "".join(rng.choice(list(CHARS.values()) + list("Song Title 01")) for _ in range(min(n, 60)))
                f.append(hx(s.strip() or "x"))
    return f


def tag_tags(fields):
    t = set()
    for x in fields:
        if x == "-":
            t.add("tag-empty")
            continue
        n, _, h = x.rpartition("*")
        b = bytes.fromhex(h) * (int(n) if n else 1)
        try:
            s = b.decode("utf-8")
        except UnicodeDecodeError:
            t.add("tag-invalid-utf8")
            continue
        units = len(s.encode("utf-16-le")) // 2
        t.add("tag-units<256" if units < 256 else "tag-units=256" if units == 256 else "tag-units>256")
        if any(ord(c) > 0xffff for c in s): t.add("tag-4byte")
        elif any(ord(c) > 0x7ff for c in s): t.add("tag-3byte")
        elif any(ord(c) > 0x7f for c in s): t.add("tag-2byte")
        else: t.add("tag-ascii")
    return t


def size_tags(pos):
    a = initial_alloc()
    t = set()
    k = 0
    while a * (2 ** k) < pos - 8000:
        k += 1
    step = a * (2 ** k)
    if pos < step - 8000:
        t.add("log<step%d" % k)
    elif pos < step:
        t.add("log-just-below-step%d" % k)
    else:
        t.add("log-just-above-step%d" % k)
    return t


def case_tags(ops, fields=None):
    t = set()
    toks = " ".join(ops).split()
    if "L" in toks:
        t.add("loop")
        before = toks[:toks.index("L")]
        if not any(x.startswith("d,") and int(x[2:]) > 0 for x in before):
            t.add("loop-at-sample-0")
    else:
        t.add("no-loop")
    if any(x.startswith("dp,") for x in toks): t.add("pcm-stream")
    if any(x.startswith("d,") and int(x[2:]) > 65535 for x in toks): t.add("delay>65535")
    if any(x == "d,0" for x in toks): t.add("delay-0")
    t |= size_tags(est_len(ops))
    if fields:
        t |= tag_tags(fields)
    return sorted(t)


MML_SONGS = [
    ("N", "A o4l4 cdef\n"),
    ("L", "A o4l4 c L def\n"),
    ("L", "A L o4l4 cdef\n"),                      # loop point at time zero
    ("L", "A L o4l1 c\nG L o3l2 eg\n"),
    ("N", "@1 psg 15 14 13 12\nG @1 o4l8 cdefgab>c\nH o3l2 c e\n"),
    ("N", "@2 fm 3 0\n 31 0 19 5 0 23 0 0 0 0\n 31 6 0 4 3 19 0 0 0 0\n 31 15 0 5 4 38 0 4 0 0\n 31 27 0 11 1 0 0 1 0 0\nA @2 o4l8 v12 cdefgab>c r1 c1\nB @2 o3l4 c e g e\n"),
    ("L", "A t200 o4l16 L [cdef]8\n"),
    ("N", "A o4 l1 t40 r r r r r r r r r r r r c\n"),   # ~ 78 s of silence, then a note
    ("N", "A o4 l1 t40 c r r r r r r r r r r r r r r r r\n"),  # long silence before stop
]


def song_req(flag, fields, mml, samples=None):
    r = "vgmsong %s %s %s" % (flag, tagtok(fields), mml.encode().hex())
    if samples:
        r += " P," + ",".join(x.hex() for x in samples)
    return r


def write_wav(data8, bits, rate):
    """a tiny canonical mono WAV under build/c08_wav; returns (path, expected 8-bit unsigned sample bytes)"""
    import hashlib
    os.makedirs(WAVDIR, exist_ok=True)
    if bits == 8:
        payload = bytes(data8)
    else:
        # 16-bit signed: high byte = data8 ^ 0x80, low byte arbitrary but deterministic
        payload = b"".join(bytes([(37 * i) & 0xff, d ^ 0x80]) for i, d in enumerate(data8))
    fmt = struct.pack("<HHIIHH", 1, 1, rate, rate * bits // 8, bits // 8, bits)
    body = b"WAVE" + b"fmt " + struct.pack("<I", len(fmt)) + fmt + b"data" + struct.pack("<I", len(payload)) + payload
    if len(payload) % 2:
        body += b"\0"
    blob = b"RIFF" + struct.pack("<I", len(body)) + body
    name = os.path.join(WAVDIR, "s%s_%d_%d.wav" % (hashlib.sha1(blob).hexdigest()[:12], bits, rate))
    if not os.path.exists(name):
        tmp = name + ".%d.tmp" % os.getpid()
        with open(tmp, "wb") as f:
            f.write(blob)
        os.replace(tmp, name)
    return name, bytes(data8)


def pcm_song(rng, quick):
    """a song whose F track plays PCM instruments; returns (mml, expected sample byte strings)"""
    nins = rng.choice([1, 1, 2, 3])
    lines, samples, ids = [], [], []
    for i in range(nins):
        n = rng.choice([1, 2, 3, 17, 64, 255, 256, 257, 1000] if quick else [1, 2, 3, 17, 64, 255, 256, 257, 1000, 4000, 20000])
        data = [rng.randrange(256) for _ in range(n)]
        path, exp = write_wav(data, rng.choice([8, 16]), rng.choice([8000, 11025, 17500]))
        # sample paths are resolved relative to the MML file, which the harness writes to build/tmp
        lines.append('@%d pcm "../c08_wav/%s"' % (30 + i, os.path.basename(path)))
        samples.append(exp)
        ids.append(30 + i)
    notes = " ".join("@%d %s%d" % (rng.choice(ids), rng.choice("cdefgab") if rng.random() < 0.8 else "r", rng.choice([4, 8, 16])) for _ in range(rng.randrange(1, 12)))
    body = "F o4 t%d %s%s\n" % (rng.choice([100, 150]), "L " if rng.random() < 0.4 else "", "@%d c8 " % ids[0] + notes)
    if rng.random() < 0.5:
        body += "A o4 l8 " + " ".join(rng.choice("cdefgab") for _ in range(rng.randrange(1, 10))) + "\n"
    return "\n".join(lines) + "\n" + body, samples


def cases(rng, tier):
    a = initial_alloc()
    for r, tg in CORPUS:
        yield Case(r, tg, "corpus")
    quick = tier == "quick"
    # ---- bounded exhaustive: every delay of the boundary set, alone / before a write / before the loop point
    for d in DELAYS:
        for shape in (["d,%d" % d, "S"], ["d,%d" % d, "w,82,0,40,240", "S"], ["w,80,0,0,159", "d,%d" % d, "L", "d,%d" % d, "w,80,0,0,191", "S"]):
            ops = [MD_POKES] + shape + [simple_tags()]
            yield Case(req(ops), case_tags(ops) + ["delay-boundary"], "delays")
    # ---- bounded exhaustive: loop point at every position of short sequences
    alpha = ["w,82,0,40,240", "d,1", "d,20", "w,80,0,0,159"]
    seqs = [[]] + [[x] for x in alpha] + [[x, y] for x in alpha for y in alpha]
    if not quick:
        seqs += [[x, y, z] for x in alpha for y in alpha for z in alpha]
    for s in seqs:
        for i in range(len(s) + 1):
            ops = [MD_POKES] + s[:i] + ["L"] + s[i:] + ["S", simple_tags()]
            yield Case(req(ops), case_tags(ops), "loop-positions")
    # ---- log sizes straddling every growth step, with every tag size class
    steps = [a, 2 * a] if quick else [a, 2 * a, 4 * a, 8 * a]
    deltas = [-6000, -5667, -5666, -5665, -2100, -2001, -2000, -1999, -130, -101, -100, -99, -86, -85, -84, -30, -3, -2, -1, 0, 1, 2, 50]
    if quick:
        deltas = [-5700, -5666, -2001, -2000, -1999, -101, -100, -99, -85, -1, 0, 1]
    tagsets = [["-"] * 11, ["256*61"] * 11, ["255*e38182"] * 11, ["257*f09f9880"] * 11, ["1000*c3a9"] * 11]
    for si, stp in enumerate(steps):
        for d in deltas:
            for ti, tf in enumerate(tagsets if not quick else [tagsets[(d + si) % len(tagsets)], tagsets[(d + si + 2) % len(tagsets)]]):
                pre = [MD_POKES, "ds,0,2,0,42,0"]
                tail = rng.choice([["w,82,0,40,240", "d,735", "S"], ["d,%d" % (65535 * rng.choice([1, 30, 33, 40]) + rng.randrange(20)), "S"],
                                   ["L", "d,10", "w,80,0,0,159", "S"], ["w,82,0,40,240", "d,%d" % (65535 * 35), "w,82,0,40,0", "S"], ["S"]])
                b = fill_to(stp + d, est_len(pre), rng.randrange(256))
                ops = pre + [b] + tail + [tagtok(tf)]
                yield Case(req(ops), case_tags(ops, tf) + ["straddle"], "straddle")
    # ---- seeded random structured sequences
    n = 150 if quick else 1500
    for i in range(n):
        pre = [MD_POKES, MORE_POKES]
        body = gen_ops(rng, rng.choice([0, 1, 3, 8, 20, 60]))
        if i % 3 == 0:
            stp = rng.choice(steps[:2] if quick else steps[:3])
            b = fill_to(stp + rng.choice([-rng.randrange(1, 7000), rng.randrange(0, 200), -rng.randrange(1, 120)]), est_len(pre + body), rng.randrange(256))
            if b:
                body.append(b)
                body += gen_ops(rng, rng.choice([0, 1, 2, 4]))
        fields = rand_tag_fields(rng)
        ops = pre + body + ["S", tagtok(fields)]
        yield Case(req(ops, rng.choice([97, 97, 81, 0x71]), rng.choice([256, 256, 128])), case_tags(ops, fields), "random")
    # ---- malformed: invalid UTF-8 tags, protocol misuse
    bad = ["80", "ff", "c080", "e381", "41e3", "eda080", "f4908080", "f880808080", "c3", "e0808f", "f08080af", "41c328", "f09f98"]
    for bx in bad:
        f = ["-"] * 11
        f[0] = bx
        ops = [MD_POKES, "w,80,0,0,159", "d,3", "S", tagtok(f)]
        yield Case(req(ops), ["malformed", "tag-invalid-utf8"], "malformed")
    for ops in ([MD_POKES, "w,80,0,0,159", "d,3"], [MD_POKES, "w,80,0,0,159", simple_tags()], [MD_POKES, "S", "w,80,0,0,159", simple_tags()],
                [MD_POKES, "w,160,0,1,2", "S", simple_tags()], [MD_POKES, "S", simple_tags(t0="4100" + "42")]):
        yield Case(req(ops), ["malformed", "protocol"], "malformed")
    # ---- whole-song export
    for flag, mml in MML_SONGS:
        for tf in ([["-"] * 11, ["-"] * 9 + [hx("prog only"), "-"], [hx("Title"), hx("タイトル"), hx("Game"), "-", hx("Mega Drive"), "-", hx("me"), "-", hx("2020"), hx("prog"), hx("note")]] +
                   ([] if quick else [["300*61"] + ["-"] * 10, ["256*e38182"] * 11])):
            yield Case(song_req(flag, tf, mml), sorted({"song", "loop" if flag == "L" else "no-loop"} | tag_tags(tf)), "song")
    for i in range(10 if quick else 60):
        mml, samples = pcm_song(rng, quick)
        fields = [x if "*" not in x or int(x.split("*")[0]) < 300 else "-" for x in rand_tag_fields(rng)]
        yield Case(song_req("?", fields, mml, samples), sorted({"song", "pcm-song", "pcm-stream"} | tag_tags(fields)), "song-pcm")
    ns = 12 if quick else 80
    for i in range(ns):
        notes = "cdefgab"
        body = "A o4 l%d t%d " % (rng.choice([4, 8, 16]), rng.choice([60, 120, 200]))
        k = rng.randrange(1, 30 if quick else 400)
        lp = rng.randrange(0, k + 1) if rng.random() < 0.6 else None
        parts = []
        for j in range(k):
            if lp == j:
                parts.append("L")
            parts.append(rng.choice(notes) if rng.random() < 0.8 else "r")
        if lp == k:
            parts.append("L " + rng.choice(notes))
        mml = body + " ".join(parts) + "\n" + ("G o3 l4 " + " ".join(rng.choice(notes) for _ in range(k // 2 + 1)) + "\n" if rng.random() < 0.5 else "")
        fields = [x if "*" not in x or int(x.split("*")[0]) < 300 else "-" for x in rand_tag_fields(rng)]
        yield Case(song_req(("L" if lp is not None else "N") if "\nG" not in mml else "?", fields, mml), sorted({"song", "loop" if lp is not None else "no-loop"} | tag_tags(fields)), "song")


def normalize(x):
    return "song skip" if x.startswith("song ") else x


def finding_key(case, impl, judge):
    if impl.startswith("crash") or impl == "timeout" or impl.startswith("uncaught"):
        m = re.search(r"(\w+\.cpp:\d+)", impl)
        kind = "heap-buffer-overflow" if "heap-buffer-overflow" in impl else impl.split(" ")[1] if " " in impl else impl
        return "crash:%s:%s" % (kind, m.group(1) if m else "?")
    j = judge
    for pat, key in ((r"GD3 strings not terminated|GD3 length|GD3 holds|GD3 magic", "gd3-strings"), (r"does not render", "gd3-tag-text"),
                     (r"loop", "loop"), (r"eof offset", "eof"), (r"GD3 offset", "gd3-offset"), (r"total", "sample-total"),
                     (r"clock", "clock"), (r"stream start|length mode", "pcm-stream"), (r"command stream differs|does not parse", "stream"),
                     (r"data block payload", "datablock"), (r"undefined behaviour", "ub"), (r"range_error", "range-error")):
        if re.search(pat, j):
            return key
    return "other"


def shrink(reqline):
    toks = reqline.split()
    if toks[0] != "vgmw":
        return
    head, ops = toks[:3], toks[3:]
    for i in range(len(ops)):
        if ops[i] not in ("S",):
            yield " ".join(head + ops[:i] + ops[i + 1:])
    for i, o in enumerate(ops):
        if o.startswith("d,") and int(o[2:]) > 1:
            yield " ".join(head + ops[:i] + ["d,%d" % (int(o[2:]) // 2)] + ops[i + 1:])
        if o.startswith("T,"):
            f = o.split(",")
            for k in range(1, 12):
                if f[k] != "-":
                    yield " ".join(head + ops[:i] + [",".join(f[:k] + ["-"] + f[k + 1:])] + ops[i + 1:])


RULE = ("operation sequences on VGM_Writer (writes of every command class write() encodes, delays from the boundary set "
        "{0,1,16,17,65534,65535,65536,...,200*65535+16} and random, set_loop at every position incl. sample 0, data blocks, DAC stream "
        "ops, stop, write_tag) with the log end aimed at -6000..+50 bytes around every growth step initial_buffer_alloc*2^k (k<2 quick, k<4 "
        "thorough) and tags empty/ASCII/2-,3-,4-byte UTF-8 of 0..1000 characters; invalid UTF-8 and protocol misuse; whole-song exports of "
        "small MML songs. non-trivial = has any tag (every generated case); distinct by request text")
EXPLANATION = ("theorems over Model/Vgm (writer state machine over Option-UInt8 cells) against Spec/VgmParse (VGM 1.61 reader); the model is "
               "tied to vgm.cpp by running both on the generated operation sequences under ASan with every fresh heap byte filled with 0xbe "
               "and diffing the complete files; the spec oracle (parser, header checks, GD3 reader, UTF-16->UTF-8 re-encoding of the strings, "
               "expected command list derived from the operations) judges the implementation's bytes, also for whole-song exports")
ASSUMPTIONS = ["delays are integers below 2^31 samples per flush (vgm_export caps a song at 3600 s = 158 760 000 samples)",
               "files shorter than 2 GiB (uint32_t buffer_alloc doubling and dbsize+100 do not wrap)",
               "tag strings longer than 256 UTF-16 code units are truncated to 256 units by design (DESIGN C08); a surrogate pair may be cut",
               "realloc never fails (bad_alloc is not modelled)",
               "date and notes defaults (wall clock, build stamp) are inputs of the model; the harness canonicalises them by shape"]
TECHNIQUE = "Lean 4 proof (invariant over writer operation sequences, parser prefix lemmas) + differential correspondence model<->vgm.cpp + spec oracle on exported bytes"
LEVEL_TEXT = ("Machine-checked theorems over a Lean model of vgm.cpp, for ALL exporter operation sequences (caller header pokes; any PSG/YM2612 "
              "writes, delays, loop points anywhere incl. sample 0, stream data blocks, DAC stream setup/start/stop; stop; write_tag with any "
              "decodable tags; get_buffer): no store leaves the allocation (for every op sequence whatsoever); the export always returns a buffer "
              "with no indeterminate cell; magic and EOF offset exact; the VGM 1.61 reader of Spec/VgmParse consumes the stream from the data "
              "offset exactly to the end marker and reads exactly the expected command list; header total = sum of waits = sum of delays; GD3 "
              "offset addresses the byte after the end marker; loop offset is a command boundary with exactly D samples before it and header "
              "0x20 = total - D (both fields zero without loop point); the GD3 block is exact and splits into exactly eleven terminated UTF-16 "
              "strings = the decoded tags cut at 256 units; declared clocks survive into the final header for every chip command; every stream "
              "start addresses bytes of the type-0 data blocks written before it.")
LEVEL_NOTE = ("Trusted: Lean kernel, the hand-written model Model/Vgm.lean (agreement with vgm.cpp by differential testing under ASan with "
              "every fresh heap byte filled, zero differences), Spec/VgmParse.lean, integer delays < 2^31, file < 4 GiB for the 32-bit offset "
              "clauses, g++/ASan/UBSan and the harness. The GD3 strings are tied to the tags through the model's UTF-8 decoder; that it inverts "
              "the reader-side encoder, and the clock / PCM clauses at song level (MD_Driver passes the right pokes and sample windows), rest on "
              "the spec oracle applied to whole-song exports (incl. PCM instruments), not on a theorem.")
