"""C06 — Meaning is independent of layout and of how tracks are addressed."""
import re
from vlib.core import Case
from checks.c05 import Cmd, Num, num, gen_cmd, gen_seq, gen_seq_safe, safe_dur, cmd_of_tok, hx, tags_of as cmd_tags

ID = "C06"
LEAN_MODULE = "Ctrmml.Properties.C06"
THEOREMS = ["C06_per_track_state", "C06_leading_blanks_skip", "C06_bar_skip", "C06_comment_invariant", "C06_comment_line_invariant", "C06_track_id_map", "C06_track_list_ids", "C06_star_decimal", "C06_multitrack_unfold", "C06_conditional_select_partial", "C06_separator_suffices", "C06_layout_run_partial", "C06_layout_invariant_partial", "C06_multitrack_eq_single_partial", "C06_multitrack_blocks_run_partial", "C06_multitrack_eq_single_blocks_partial", "C06_alternatives_clean", "C06_nested_separator_counterexample", "C06_short_block_counterexample", "C06_layout_run2_partial", "C06_layout_invariant2_partial", "C06_multitrack_eq_single2_partial", "C06_track_count_bound", "C06_header_ids_16bit", "C06_multitrack_blocks_run16_partial", "C06_multitrack_eq_single_blocks16_partial", "C06_lcovered_transfer", "C06_cmdsOk_transfer", "C06_linesOk_transfer", "C06_layout_run_from_v2", "C06_layout_invariant_from_v2", "C06_multitrack_eq_single_from_v2", "C06_separator_suffices2", "C06_bare_echo_separator_counterexample", "C06_multitrack_blocks_run2_partial", "C06_multitrack_eq_single_blocks2_partial", "C06_multitrack_blocks_run2_16_partial", "C06_multitrack_eq_single_blocks2_16_partial", "C06_alternatives_clean2", "C06_clean_no_break", "C06_blinesOk_transfer", "C06_multitrack_blocks_run_from_v2", "C06_lcmdTail_v2_to_v3", "C06_covered_step3", "C06_separator_suffices3", "C06_linesOk_v2_to_v3", "C06_layout_run3_partial", "C06_layout_invariant3_partial", "C06_multitrack_eq_single3_partial", "C06_blinesOk_v2_to_v3", "C06_multitrack_blocks_run3_partial", "C06_multitrack_eq_single_blocks3_partial"]
LEVEL = "proof"
STREAM = "mml.layouts"
CHUNK = 100
CASE_SECONDS = 10
TECHNIQUE = ("Lean 4 proof (frame invariant over every command parser; whole layouts by composing C05's per-command span theorem with one-byte steps for blanks and "
             "bars, the header / continuation dispatch of parse_line, the per-track loop of parse_mml and the begin/end scans of conditional blocks; results modulo "
             "source references) + metamorphic differential correspondence: one abstract multi-track stream, N layouts, model<->mml_input.cpp/input.cpp/song.cpp")
LEVEL_TEXT = ("Machine-checked theorems over the Lean models of Line_Buffer (input.cpp) and MML_Input (mml_input.cpp). (1) Local: track letters, digits and *n select "
              "the documented track numbers (C06_star_decimal: every decimal digit string, leading zeros included); a line never changes a track that is not in its track "
              "list, for EVERY text (frame property through all command parsers); blanks before a command are skipped, '|' is skipped, everything after ';' is ignored, a "
              "';' line changes nothing; a multi-track line is the sequence of per-track parses of the same column range with track_offset = index. (2) Whole layouts, for "
              "command lists of the covered subset LCovered = the subset C05 covers (notes a-h with accidental and every duration form, r ^ l o < > Q q C s &) widened in "
              "Proofs/LayoutCmd by D n and the event commands [ L, ] ( ) with or without number, * @ v p K E M P G t T _ __ k % with number, R and ~ (hypothesis CmdsOk: numbers are "
              "ints the command accepts, & finds its note, R / ~ find a long enough event): C06_layout_run_partial - ANY layout (any blanks/tabs/bars between commands, a separator dropped where the spelling stays "
              "unambiguous, ';' comments, any split into header / continuation / empty / comment lines, track lists written with letters, digits or *n) addressed to "
              "distinct tracks is accepted and gives every listed track exactly the builder calls of the command list in order, no other track changes; "
              "C06_layout_invariant_partial - two layouts of one command list leave the track the same (same get_events()); C06_multitrack_eq_single_partial - 'AB.. body' "
              "gives each track what 'A body' gives it; C06_multitrack_blocks_run_partial / C06_multitrack_eq_single_blocks_partial - the same with conditional blocks: "
              "the track at position j receives the plain commands and alternative j of every block, equal to its single-track lines, when no alternative contains '/', "
              "';', '}' or NUL and every block has an alternative per track (that hypothesis is defect D16, proved as two counterexamples and recorded as known findings). "
              "Round 3: C06_layout_run2_partial / C06_layout_invariant2_partial / C06_multitrack_eq_single2_partial are the same three whole-line statements for the wider set "
              "LCovered2 (Proofs/LayoutCmd2: LCovered plus the fine volume V n (n >= 0), V+n, V-n (n > 0 decimal), the echo \\ with every duration form when the byte directly behind it "
              "is neither a blank nor '=', and the loop break / on lines without conditional blocks); C06_track_count_bound derives ids.length <= 65536 from Nodup + 16-bit track "
              "numbers (pigeonhole), C06_header_ids_16bit shows the ids of any header are 16-bit, and C06_multitrack_blocks_run16_partial / "
              "C06_multitrack_eq_single_blocks16_partial are the block theorems without the length hypothesis. "
              "Round 4: the round-3 theorems formally subsume the round-2 ones - C06_lcovered_transfer (a command of LCovered is in LCovered2 and builder call, number condition, "
              "look-ahead condition and blank count are the same in both rounds), C06_cmdsOk_transfer (CmdsOk => L2.CmdsOk with L2.runCmds = runCmds), C06_linesOk_transfer (LinesOk => L2.LinesOk "
              "when the layout's commands are in LCovered), and C06_layout_run_from_v2 / C06_layout_invariant_from_v2 / C06_multitrack_eq_single_from_v2 = the exact round-2 statements derived from "
              "the *2 theorems through the transfer; C06_separator_suffices2 - behind a blank, tab, '|', ';' or the end of the line the look-ahead condition L2.LCmdTail of every command holds over "
              "LCovered2, for the echo when its duration is written (\\4, \\., \\:12); C06_bare_echo_separator_counterexample shows that condition is needed in this formulation (\\ + blank is outside L2.LCmdTail). "
              "Round 5: the block theorems over LCovered2 - C06_multitrack_blocks_run2_partial / C06_multitrack_eq_single_blocks2_partial (and the 16-bit forms *2_16_partial): lines with conditional "
              "blocks may now contain V n, V+n, V-n and \\ with a written duration inside and outside the alternatives, and the loop break / outside the blocks (inside an alternative the byte / is the "
              "separator: Clean excludes it, C06_clean_no_break); C06_alternatives_clean2 - Clean is automatic for alternatives made of LCovered2 commands other than the loop break; "
              "C06_blinesOk_transfer (BLinesOk => L2.BLinesOk on LCovered commands) and C06_multitrack_blocks_run_from_v2 = the exact round-2 block statement derived from the round-5 one. "
              "Round 5, second part (Proofs/LayoutCmd3): the bare echo \\ followed by blanks or the end of the line - L3.LCmdTail widens the echo's look-ahead condition by that case (the blanks get_token skips are "
              "what L2.lcmdSkip already counts); C06_covered_step3 = the one-command step lemma under L3.LCmdTail (same builder call, same bytes consumed), C06_lcmdTail_v2_to_v3, and C06_separator_suffices3 = "
              "C06_separator_suffices2 WITHOUT its side condition on the echo. Third part (Proofs/LayoutLines3, namespace L2.W): the whole-line theorems for lines without conditional blocks replayed over L3.LCmdTail - "
              "C06_layout_run3_partial / C06_layout_invariant3_partial / C06_multitrack_eq_single3_partial (hypotheses L2.W.LinesOk + L2.CmdsOk; same commands, builder calls and conclusions as the *2 forms) "
              "and C06_linesOk_v2_to_v3 (L2.LinesOk => L2.W.LinesOk, no side condition, so the *3 forms subsume the *2 forms). Fourth part (Proofs/LayoutBlock3): the block theorems over L3.LCmdTail - C06_multitrack_blocks_run3_partial / C06_multitrack_eq_single_blocks3_partial "
              "(hypotheses L2.W.BLinesOk + L2.CmdsOk; bare echo before blanks, |, /, } or the end of the line allowed inside and outside alternatives) and C06_blinesOk_v2_to_v3 (no side condition). "
              "Results are stated modulo the source references (line, column) stamped on the track, which necessarily differ between layouts. NOT proved: the same "
              "statements for \\= , _{..} / k{..} (D16 interaction), '...', a bare \\ followed by blanks and then a number-like byte (a different spelling of \\n), V with a hex-negative number, and a loop break written INSIDE an alternative of a conditional block (D16, first face); they are kept as "
              "C06_full_statement_layout_invariant / C06_full_statement_multitrack_eq_single and decided per generated case by the metamorphic correspondence stream (every "
              "layout of every generated stream parsed by the real code and by the model, the spec demanding equal events per track across layouts and equality with "
              "the meaning of each track's command list).")
LEVEL_NOTE = ("Trusted: Lean kernel (propext, Classical.choice, Quot.sound), the hand-written models Model/Lexer, Model/TrackBuilder, Model/Mml (agreement with "
              "the C++ established by differential testing), Spec/Layout + Spec/MmlMeaning (my reading of mml_ref.md), the layout generator in checks/c06.py "
              "(what counts as a layout of a stream), glibc strtol in the C locale. Proved in full: track_id_map, star_decimal, per_track_state, the local lexer/parser "
              "lemmas, the transfer lemmas lcovered_transfer / cmdsOk_transfer / linesOk_transfer, separator_suffices, separator_suffices2 (with the written-duration condition on the echo) and separator_suffices3 / covered_step3 (no side condition, look-ahead condition L3.LCmdTail). Partial: conditional_select and the block theorems, round-2 forms and round-5 forms *2 over LCovered2 (hypothesis = no '/', ';', '}', NUL inside the alternatives and one alternative per track: "
              "D16); layout_run / layout_invariant / multitrack_eq_single (round 4: also derived from their round-3 forms, *_from_v2, through the proved transfer CmdsOk => L2.CmdsOk, LinesOk => L2.LinesOk) and their round-3 forms *2 over LCovered2 and round-5 forms *3 (bare echo before blanks allowed; also the block theorems *blocks3) (hypothesis CmdsOk / L2.CmdsOk = the covered command subset LCovered - C05's span theorem widened in Proofs/LayoutCmd - with numbers in range; the "
              "layouts themselves are arbitrary). The layout theorems speak about the model's Track values modulo references; that the real parser produces the same "
              "events as the model on layouts is what the correspondence stream checks (the proof examples are corpus cases of the stream). Oracle only: layouts "
              "containing commands outside LCovered2 (\\= _{..} '...', the loop break inside an alternative of a conditional block), the error behaviour of rejected streams, texts that are not layouts (must be rejected).")
RULE = ("abstract multi-track streams (1..4 tracks from letters, digits and *n incl. 0, 25, 26, 35, 36, 255, 65535; 1..4 segments addressed to sub-lists in any "
        "order; typed commands from the C05 generator; conditional blocks with one alternative per track, empty alternatives included) each rendered in 3..6 "
        "layouts: the canonical multi-track lines, the equivalent single-track lines, and random ones (partition of each segment's tracks into lines in any "
        "order, letters / digits / *n addressing, header omitted when the remembered track list is the same, continuation splits at command boundaries, "
        "separators from {none when unambiguous, blank, blanks, tab, |, mixtures}, trailing ';' comments, neutral lines in between). non-trivial = more than "
        "one track, a block, a continuation line, a comment, a bar or a *n / digit address; distinct by request text")
EXPLANATION = ("theorems over Model/Lexer + Model/Mml; correspondence on the events of every track and the error (message + position) of every layout; spec "
               "oracle = Spec/Layout.project + Spec/MmlMeaning.meaning: all layouts must give every track the same events, only addressed tracks may get "
               "events, and the events must be the meaning of the track's command list")
ASSUMPTIONS = ["a layout only INSERTS separators into the spelling 'commands separated by one blank', or drops the blank where no hexadecimal number is followed by a-f/0-9",
               "conditional-block alternatives contain no '/', '}', ';' (loop break and key signature inside a block are D16, known finding)",
               "platform-exclusive commands ('...') are excluded: their event parameter is a song-global registration index, order-dependent by design",
               "lines shorter than 2^32 characters; char is signed; glibc strtol, C locale"]

LETTERS = "ABCDEFGHIJKLMNOPQRSTUVWXYZ"
HEX = set("0123456789abcdefABCDEF")


# ------------------------------------------------------------------ abstract streams
class Seg:
    def __init__(self, tracks, items):
        self.tracks, self.items = tracks, items     # items: ("c", Cmd) | ("b", [[Cmd]])


def stream_toks(segs):
    out = []
    for s in segs:
        out.append("T:" + ",".join(str(t) for t in s.tracks))
        for it in s.items:
            if it[0] == "c":
                out.append(it[1].tok())
            else:
                out.append("{{")
                for i, alt in enumerate(it[1]):
                    if i:
                        out.append("//")
                    out += [c.tok() for c in alt]
                out.append("}}")
    return out


def parse_stream(toks):
    segs, cur, blk, alt = [], None, None, []
    for t in toks:
        if t.startswith("T:"):
            cur = Seg([int(x) for x in t[2:].split(",")], [])
            segs.append(cur)
        elif t == "{{":
            blk, alt = [], []
        elif t == "//":
            blk.append(alt)
            alt = []
        elif t == "}}":
            blk.append(alt)
            cur.items.append(("b", blk))
            blk = None
        else:
            c = cmd_of_tok(t)
            if c is None:
                return None
            if blk is not None:
                alt.append(c)
            else:
                cur.items.append(("c", c))
    return segs


def spells_separator(c):
    return c.kind in ("K", "k") or (c.kind == "x" and c.a[0] == "loopBreak")


TRACK_POOL = list(range(26)) * 3 + list(range(26, 36)) + [36, 40, 100, 255, 256, 1000, 32767, 32768, 65535]


def gen_alt(rng, nested):
    n = rng.choice([0, 1, 1, 1, 2, 2, 3])
    cmds = gen_seq_safe(rng, n) if rng.random() < 0.8 else gen_seq(rng, n)
    cmds = cmds[:max(n, 1) + 1] if n else []
    if not nested:
        cmds = [c for c in cmds if not spells_separator(c)]
    if rng.random() < 0.9:
        cmds = [c for c in cmds if c.kind not in ("R", "g")]
    return cmds


def gen_stream(rng, nested=False, ntr=None, safe=0.8):
    ntr = ntr or rng.choice([1, 2, 2, 2, 3, 3, 4])
    tracks = []
    while len(tracks) < ntr:
        t = rng.choice(TRACK_POOL)
        if t not in tracks:
            tracks.append(t)
    segs = []
    # reverse rests / grace notes depend on the note before them: most streams leave them out so that
    # few streams are rejected as a whole (an error ends a layout, and then only "all layouts reject" is checked)
    keep_rr = rng.random() < 0.15
    for _ in range(rng.choice([1, 1, 2, 2, 3, 4])):
        k = rng.choice([ntr, ntr, rng.randrange(1, ntr + 1)])
        st = rng.sample(tracks, k)
        items = []
        n = rng.choice([1, 2, 3, 4, 5, 6, 8, 10])
        cmds = gen_seq_safe(rng, n) if rng.random() < safe else gen_seq(rng, n)
        if not keep_rr:
            cmds = [c for c in cmds if c.kind not in ("R", "g")] or [Cmd("n", 2, "n", ("D", 0))]
        for c in cmds:
            if rng.random() < (0.3 if k > 1 else 0.1):
                items.append(("b", [gen_alt(rng, nested) for _ in range(k)]))
            items.append(("c", c))
        if nested and not any(it[0] == "b" and any(spells_separator(c) for a in it[1] for c in a) for it in items):
            alts = [gen_alt(rng, False) for _ in range(k)]
            alts[rng.randrange(k)].insert(0, rng.choice([Cmd("K", "D"), Cmd("x", "loopBreak", None), Cmd("k", [("+", [2])])]))
            items.insert(rng.randrange(len(items) + 1), ("b", alts))
        segs.append(Seg(st, items))
    return segs


# ------------------------------------------------------------------ layouts
def addr(rng, t, style):
    """spelling of track number t; style 'plain' = letter / digit when there is one"""
    if t < 26 and (style == "plain" or rng.random() < 0.75):
        return LETTERS[t]
    if 26 <= t < 36 and (style == "plain" or rng.random() < 0.6):
        return str(t - 26)
    return "*%d" % t


def header(rng, ts, style):
    out = ""
    for t in ts:
        a = addr(rng, t, style)
        if a[0].isdigit() and re.search(r"\*\d+$", out):
            a = "*%d" % t        # `*12` followed by track `3` would read `*123`
        out += a
    return out


SEPS = [" ", " ", " ", "  ", "\t", " | ", "|", " |  |\t", "   ", "| "]


def need_blank(prev, nxt):
    return "$" in prev and nxt[:1] in HEX


def join(rng, parts, style):
    """parts: spelled commands/blocks; style 'plain' = single blanks"""
    out = ""
    for i, p in enumerate(parts):
        if i:
            if style == "plain":
                out += " "
            elif rng.random() < 0.25 and not need_blank(parts[i - 1], p):
                out += ""
            else:
                out += rng.choice(SEPS)
        out += p
    return out


def spell_item(rng, it, idxs, style):
    """idxs: positions (in the segment's track list) of the tracks of this line, in line order"""
    if it[0] == "c":
        return it[1].text()
    alts = [join(rng, [c.text() for c in it[1][i]], style) for i in idxs]
    if len(idxs) == 1 and (style == "bare" or (style != "plain" and rng.random() < 0.5)):
        return alts[0]      # the equivalent single-track line: the alternative itself
    if style in ("plain", "bare"):
        return "{" + "/".join(alts) + "}"
    pad = lambda: rng.choice(["", "", " ", "\t", " | "])
    return "{" + "/".join(pad() + a + pad() for a in alts) + "}"


COMMENTS = ["; comment", ";", ";c d e", "; } / {", ";;", "; A c", ";\t|"]
NEUTRAL = ["", " ", "\t", "; c d e", ";", " ; x", "\t;{", "   \t "]


def render_group(rng, seg, idxs, style, omit_header, feats):
    """lines for the tracks seg.tracks[i], i in idxs (in that order)"""
    ts = [seg.tracks[i] for i in idxs]
    parts = [p for p in (spell_item(rng, it, idxs, style) for it in seg.items) if p != ""]
    if style in ("plain", "bare"):
        return [header(rng, ts, "plain") + " " + join(rng, parts, "plain")]
    # continuation splits at command boundaries
    chunks = []
    i = 0
    while i < len(parts):
        n = rng.choice([len(parts), len(parts), 1, 2, 3, rng.randrange(1, len(parts) + 1)])
        chunks.append(parts[i:i + n])
        i += n
    if not chunks:
        chunks = [[]]
    if rng.random() < 0.1:
        chunks.insert(0, [])          # header alone on its line
    lines = []
    for ci, ch in enumerate(chunks):
        body = join(rng, ch, style)
        if rng.random() < 0.15:
            body = rng.choice(["|", "| ", " |"]) + body
        if rng.random() < 0.2:
            body += rng.choice(["", " ", "\t", " | "])
        if rng.random() < 0.2:
            body += rng.choice(["", " "]) + rng.choice(COMMENTS)
            feats.add("comment")
        if ci == 0 and not omit_header:
            head = header(rng, ts, style)
            if "*" in head:
                feats.add("star-address")
            if any(ch_.isdigit() for ch_ in re.sub(r"\*\d+", "", head)):
                feats.add("digit-address")
            if body == "" and rng.random() < 0.5:
                lines.append(head)
            else:
                lines.append(head + rng.choice([" ", " ", "  ", "\t", " \t"]) + body)
        else:
            feats.add("continuation")
            if body.strip(" \t") == "":
                body = ""
            lines.append(rng.choice([" ", " ", "\t", "   ", " \t"]) + body)
        if rng.random() < 0.12:
            lines.append(rng.choice(NEUTRAL))
            feats.add("neutral-line")
    for l in lines:
        if "|" in l.split(";")[0]:
            feats.add("bar")
        if "\t" in l:
            feats.add("tab")
    return lines


def render_layout(rng, segs, style, feats):
    lines = []
    last = None     # track order of the last emitted header
    for seg in segs:
        k = len(seg.tracks)
        if style == "plain":
            groups = [list(range(k))]
        elif style == "bare":
            groups = [[i] for i in range(k)]
        else:
            order = list(range(k))
            r = rng.random()
            if r < 0.25:
                groups = [order]
            elif r < 0.4:
                rng.shuffle(order)
                groups = [order]
                feats.add("track-order")
            elif r < 0.55:
                rng.shuffle(order)
                groups = [[i] for i in order]
            else:
                rng.shuffle(order)
                groups, i = [], 0
                while i < k:
                    n = rng.randrange(1, k - i + 1)
                    groups.append(order[i:i + n])
                    i += n
                feats.add("regroup")
            # prefer to start with the remembered track list, so that the header can be omitted
            if last is not None:
                for gi, g in enumerate(groups):
                    if [seg.tracks[i] for i in g] == last:
                        groups.insert(0, groups.pop(gi))
                        break
        for g in groups:
            ts = [seg.tracks[i] for i in g]
            omit = style == "random" and last == ts and rng.random() < 0.6
            if omit:
                feats.add("remembered-track-list")
            lines += render_group(rng, seg, g, style, omit, feats)
            last = ts
    return lines


def lay_req(layouts, segs, cmd="lay", note=None):
    body = " / ".join(" ".join(hx(l) for l in ls) if ls else "-" for ls in layouts)
    tail = " ".join(stream_toks(segs)) if segs is not None else note
    return "%s %s @ %s" % (cmd, body, tail)


def stream_tags(segs, feats):
    t = set(feats)
    ntr = len({x for s in segs for x in s.tracks})
    t.add("tracks-%d" % ntr)
    if len(segs) > 1:
        t.add("segments-%d" % min(len(segs), 4))
    if any(it[0] == "b" for s in segs for it in s.items):
        t.add("conditional-block")
    if any(it[0] == "b" and any(len(a) == 0 for a in it[1]) for s in segs for it in s.items):
        t.add("empty-alternative")
    if any(x >= 36 for s in segs for x in s.tracks):
        t.add("track>=36")
    if ntr == 1 and not feats and "conditional-block" not in t:
        return []
    return sorted(t)


def make_case(rng, segs, family, nlay=None, extra=()):
    feats = set()
    layouts = [render_layout(rng, segs, "plain", feats), render_layout(rng, segs, "bare", feats)]
    for _ in range(nlay if nlay is not None else rng.choice([1, 2, 2, 3, 4])):
        layouts.append(render_layout(rng, segs, "random", feats))
    return Case(lay_req(layouts, segs), stream_tags(segs, feats) + list(extra), family)


# ------------------------------------------------------------------ corpus
def n_(l, d=("D", 0), a="n"):
    return Cmd("n", "abcdefgh".index(l), a, d)


def L(n, dots=0):
    return ("L", Num(n), dots)


def corpus_streams():
    o4 = Cmd("o", Num(4))
    # the unit-test shapes and the documentation examples
    yield [Seg([0, 1, 2], [("b", [[n_("c")], [n_("d", a="s")], [n_("g")]]), ("b", [[n_("d")], [n_("f")], [n_("a")]])])], [
        ["ABC {c/d+/g} {d/f/a}"], ["A c d", "B d+ f", "C g a"], ["ACB {c/g/d+} {d/a/f}"], ["*0*1*2 {c/d+/g}", " {d/f/a}"],
        ["CBA {g/d+/c}|{a/f/d}; x"], ["AB {c/d+}", "C g", "\t{a}", "AB {d/f}"]]
    yield [Seg([0], [("c", n_(x)) for x in "cdefgab"]), Seg([0], [("c", n_(x)) for x in "bagfedc"])], [
        ["A       cdefgab", "        bagfedc ; both use track A"], ["A cdefgab", "A bagfedc"], ["A c|d|e|f|g|a|b|b|a|g|f|e|d|c"],
        ["*0 c d e f g a b", "; comment", "", " b a g", "\t", "\tf e d c"]]
    # per-track state: octave / length / quantise are kept per track across lines
    yield [Seg([0], [("c", o4), ("c", Cmd("l", L(8))), ("c", Cmd("Q", Num(4)))]), Seg([1], [("c", Cmd("o", Num(2))), ("c", Cmd("l", L(2))), ("c", Cmd("q", Num(3)))]),
           Seg([0, 1], [("c", n_("c")), ("c", Cmd(">")), ("c", n_("d"))])], [
        ["A o4 l8 Q4", "B o2 l2 q3", "AB c > d"], ["B o2l2q3", "A o4l8Q4", "BA c>d"], ["A o4 l8 Q4 c > d", "B o2 l2 q3 c > d"], ["B o2 l2 q3", " c > d", "A o4 l8 Q4 c", " >d"]]
    # addressing
    yield [Seg([25, 26, 35, 36, 65535], [("c", n_("c")), ("b", [[n_("a")], [n_("b")], [n_("c")], [n_("d")], [n_("e")]])])], [
        ["Z09*36*65535 c {a/b/c/d/e}"], ["*25*26*35*36*65535 c{a/b/c/d/e}"], ["*65535 c e", "Z c a", "9 c c", "0 c b", "*36 c d"], ["*36*65535Z c {d/e/a}", "09 c {b/c}"]]
    # empty alternatives, blocks on single-track lines
    yield [Seg([0, 1], [("c", o4), ("b", [[], [n_("d")]]), ("c", n_("e")), ("b", [[n_("f"), n_("g")], []])])], [
        ["AB o4 {/d} e {f g/}"], ["A o4 e f g", "B o4 d e"], ["A o4 {} e {f g}", "B o4 {d} e {}"], ["BA o4 { d / } e {\t/f|g}"], ["AB o4", " {/d}", " e", " {fg/} ;{"]]
    # the concrete layouts of the proof examples (Properties/C06.lean: exMulti / exSingle, exBlocks / exBlocksB)
    ex = [o4, n_("c"), n_("d", L(8, 1)), Cmd("r", ("D", 0)), Cmd(">"), n_("e", ("F", Num(12), 0), "s"), Cmd("S")]
    yield [Seg([0, 1], [("c", c_) for c_ in ex])], [
        ["AB o4 c d8. r > e+:12 &"], ["*1\to4c|d8.  r;x", "", "; note", " \t>e+:12&  | ; done", "*0\to4c|d8.  r;x", "", "; note", " \t>e+:12&  | ; done"]]
    yield [Seg([0, 1, 2], [("c", o4), ("b", [[n_("c")], [n_("d", a="s")], [n_("g")]]), ("b", [[n_("d"), Cmd("l", L(8))], [], [n_("a", ("F", Num(12), 0))]]), ("c", n_("e")),
                           ("b", [[], [Cmd(">"), n_("f")], []]), ("b", [[n_("g")], [n_("a")], [n_("b")]])])], [
        ["ABC o4{c/d+/g} | {d l8/ /a:12} e", " {/>f/}{g/a/b};x"], ["A o4 c d l8 e g", "B o4 d+ e", " > f a", "C o4 g a:12 e b"]]
    X = lambda name, v=None: Cmd("x", name, None if v is None else Num(v))
    evs = [X("tempoBpm", 120), X("ins", 3), X("vol", 12), X("loopStart"), n_("c"), X("volDown"), n_("d"), X("volUp", 2), X("loopEnd", 4), X("segno"), X("pan", -1), X("transpose", 2), X("transposeRel", -1), X("kTranspose", 3), X("platform", 5)]
    yield [Seg([0, 1], [("c", c_) for c_ in evs])], [
        ["AB t120 @3 v12 [c(d)2]4 L p-1 _2 __-1 k3 %5"], ["B t120|@3\tv12 [ c ( d )2 ]4", " L p-1 _2|__-1 k3\t%5 ;end", "A t120|@3\tv12 [ c ( d )2 ]4", " L p-1 _2|__-1 k3\t%5 ;end"]]
    yield [Seg([0, 1], [("c", n_("c", L(4))), ("c", Cmd("R", L(8))), ("c", Cmd("g", 3, "n", L(16))), ("c", n_("e"))])], [
        ["AB c4 R8 ~d16 e"], ["A c4|R8", " ~d16\te", "B c4|R8", " ~d16\te"]]
    # the round-3 proof example (exMulti2 / exSingle2): fine volume, echo, loop break outside conditional blocks
    ev2 = [X("loopStart"), n_("c"), X("volFine", 10), X("loopBreak"), X("volFineUp", 2), Cmd("e", L(4)), X("volFineDown", 3), X("loopEnd", 2)]
    yield [Seg([0, 1], [("c", c_) for c_ in ev2])], [
        ["AB [c V10 / V+2 \\4 V-3 ]2"], ["B [c|V10/V+2", "\t\\4V-3]2 ; x", "A [c|V10/V+2", "\t\\4V-3]2 ; x"]]
    # the round-5 proof example (exBlocks2 / exBlocks2B): fine volume inside the alternatives, echo behind the block
    yield [Seg([0, 1], [("c", o4), ("b", [[n_("c"), X("volFine", 10)], [n_("d"), X("volFineUp", 2)]]), ("c", Cmd("e", L(4))), ("c", n_("e"))])], [
        ["AB o4 {c V10/d V+2} \\4 e"], ["B o4 d|V+2", "\t\\4 e ; x", "A o4 c V10 \\4 e"]]
    # the bare echo before a blank / the end of the line (C06_separator_suffices3)
    yield [Seg([0, 1], [("c", o4), ("c", Cmd("e", ("D", 0))), ("c", n_("c"))])], [
        ["AB o4 \\ c"], ["B o4\\", " c", "A o4 \\|c"]]
    # the round-5 block example with bare echoes (exBlocks3 / exBlocks3A)
    yield [Seg([0, 1], [("c", o4), ("b", [[n_("c"), Cmd("e", ("D", 0))], [n_("d"), X("volFineUp", 2)]]), ("c", Cmd("e", ("D", 0))), ("c", n_("e"))])], [
        ["AB o4 {c \\ /d V+2} \\ e"], ["A o4 c\\|\\ e", "B o4 d V+2 \\ e"]]
    # hexadecimal numbers need their blank
    yield [Seg([0], [("c", n_("g", ("L", Num(12, True), 0))), ("c", n_("e")), ("c", Cmd("x", "vol", Num(10, True))), ("c", n_("a"))])], [
        ["A g$c e v$a a"], ["A g$c|e|v$a|a"], ["A g$c\te v$a", " a"]]


def corpus_d16():
    o4 = Cmd("o", Num(4))
    # the two design inputs: key signature / loop break inside an alternative
    yield [Seg([0, 1], [("c", o4), ("b", [[n_("c")], [Cmd("K", "D"), n_("f")]]), ("c", n_("g"))])], [["AB o4 {c/_{D} f} g"], ["A o4 c g", "B o4 _{D} f g"]]
    yield [Seg([0, 1], [("c", o4), ("b", [[Cmd("x", "loopStart", None), n_("c"), Cmd("x", "loopBreak", None), n_("d"), Cmd("x", "loopEnd", Num(2))], [n_("e")]]), ("c", n_("g"))])], [
        ["AB o4 {[c/d]2/e} g"], ["A o4 [c/d]2 g", "B o4 e g"]]
    yield [Seg([0], [("c", o4), ("b", [[Cmd("K", "D"), n_("f")]]), ("c", n_("g"))])], [["A o4 {_{D} f} g"], ["A o4 _{D} f g"]]
    yield [Seg([0, 1], [("b", [[Cmd("k", [("+", [2, 5])]), n_("c")], [n_("f")]])])], [["AB {_{+cf} c/f}"], ["A _{+cf} c", "B f"]]


# texts that are not a layout of any stream: every one has to be rejected
LAYX = [
    ("short-block", ["AB {c} e"]), ("short-block", ["ABC {c/d} e"]), ("short-block", ["AB o4 {c}"]),
    ("unterminated-block", ["AB {c/d e"]), ("unterminated-block", ["A {c"]), ("unterminated-block", ["AB {c/d ; } e"]),
    ("block-split-over-lines", ["AB {c/", " d}"]), ("block-split-over-lines", ["A {c", " }"]),
    ("short-block-then-separator", ["ABC {c/d} {e/f/g}"]), ("short-block-then-separator", ["AB {c} [d/e]2"]), ("short-block-then-separator", ["AB {c} {d/e}"]),
]


def cases(rng, tier):
    quick = tier == "quick"
    # ---- corpus
    for segs, texts in corpus_streams():
        yield Case(lay_req(texts, segs), stream_tags(segs, {"corpus"}) + ["corpus"], "corpus")
    for segs, texts in corpus_d16():
        yield Case(lay_req(texts, segs), ("corpus", "d16-nested-separator"), "corpus-d16")
    for note, text in LAYX:
        yield Case(lay_req([text], None, "layx", note), ("corpus", "not-a-layout", note), "corpus-not-a-layout")
    # ---- bounded-exhaustive: every track address, alone and next to every kind of neighbour
    c, d = n_("c"), n_("d")
    for t in list(range(36)) + [36, 99, 100, 255, 256, 4095, 32767, 32768, 65534, 65535]:
        for u in (0, 25, 26, 35, 1000):
            if u == t:
                continue
            segs = [Seg([t, u], [("c", c), ("b", [[d], [n_("e")]])])]
            plain = lambda x: LETTERS[x] if x < 26 else str(x - 26) if x < 36 else "*%d" % x
            star = lambda x: "*%d" % x
            texts = [[plain(t) + (star(u) if plain(u)[0].isdigit() and plain(t)[0] == "*" else plain(u)) + " c {d/e}"],
                     [star(t) + star(u) + " c{d/e}"], [star(u) + star(t) + " c {e/d}"], [plain(t) + " c d", star(u) + " c e"]]
            yield Case(lay_req(texts, segs), ("exh-address", "tracks-2", "star-address", "conditional-block"), "exh-address")
    # every separator between every pair of command kinds (what follows a number, a note, a bare command)
    firsts = [n_("c"), n_("c", L(4)), n_("c", L(4, 2)), n_("c", ("F", Num(24), 0)), Cmd("r", ("D", 0)), Cmd("o", Num(3)), Cmd("x", "loopEnd", None), Cmd("x", "loopEnd", Num(3)),
              Cmd("x", "volUp", None), Cmd("x", "vol", Num(5)), Cmd("S"), Cmd(">"), Cmd("l", ("D", 0)), Cmd("e", ("D", 0)), Cmd("x", "transpose", Num(-2)), Cmd("K", "D"),
              Cmd("x", "loopStart", None), Cmd("x", "segno", None), Cmd("q", Num(2)), Cmd("x", "volFineUp", Num(3))]
    seconds = [n_("a"), n_("e", L(8)), Cmd("r", L(4)), Cmd("t", ("D", 0)), Cmd("x", "loopStart", None), Cmd("x", "volDown", None), Cmd("x", "transposeRel", Num(1)),
               Cmd("K", "F"), Cmd("<"), Cmd("x", "vol", Num(1)), Cmd("e", ("D", 0)), Cmd("g", 3, "n", ("F", Num(2), 0)), Cmd("x", "platform", Num(1)), Cmd("x", "call", Num(40))]
    for a in firsts:
        for b in seconds:
            segs = [Seg([0], [("c", n_("g", L(2))), ("c", a), ("c", b), ("c", n_("d"))])]
            pre, x, y = "g2", a.text(), b.text()
            texts = [["A %s %s %s d" % (pre, x, y)], ["A %s %s%s d" % (pre, x, y)], ["A %s %s|%s d" % (pre, x, y)], ["A %s %s\t%s d" % (pre, x, y)], ["A %s %s" % (pre, x), " %s d" % y],
                     ["A %s %s ;%s" % (pre, x, y), "\t%s d" % y], ["A %s %s |" % (pre, x), " | %s d" % y]]
            yield Case(lay_req(texts, segs), ("exh-separator", "continuation", "comment", "bar", "tab"), "exh-separator")
    # ---- seeded random streams x layouts
    n = 12000 if quick else 100000
    for i in range(n):
        segs = gen_stream(rng, safe=0.85 if i % 3 else 0.3)
        yield make_case(rng, segs, "random-stream")
    for i in range(150 if quick else 1500):
        segs = gen_stream(rng, nested=True, ntr=rng.choice([1, 2, 2, 3]))
        yield make_case(rng, segs, "random-d16", nlay=1, extra=("d16-nested-separator",))
    # ---- malformed: texts that are not layouts (must be rejected)
    for i in range(150 if quick else 1500):
        k = rng.choice([2, 2, 3, 4])
        head = "".join(rng.sample(LETTERS, k))
        alts = ["".join(c.text() for c in gen_alt(rng, False)) or "c" for _ in range(rng.randrange(1, k))]
        r = rng.random()
        if r < 0.4:
            yield Case(lay_req([[head + " {" + "/".join(alts) + "} e"]], None, "layx", "short-block"), ("not-a-layout", "short-block"), "not-a-layout")
        elif r < 0.7:
            yield Case(lay_req([[head + " {" + "/".join(alts + ["d"] * (k - len(alts))) + " e"]], None, "layx", "unterminated-block"), ("not-a-layout", "unterminated-block"), "not-a-layout")
        else:
            yield Case(lay_req([[head + " {" + "/".join(alts), " " + "/d" * (k - len(alts)) + "} e"]], None, "layx", "block-split-over-lines"),
                       ("not-a-layout", "block-split-over-lines"), "not-a-layout")


def normalize(x):
    # undefined behaviour in the C++ (UBSan abort) = the model's explicit `ub:` error; both end the request
    if x.startswith("crash") or "err=ub:" in x:
        return "CRASH"
    return x


def not_fail(case, impl, judge):
    # int overflow on out-of-range numbers is C05/C15's finding, not a layout question
    if impl.startswith("crash") and "signed integer overflow" in impl:
        return True
    # a tie / slur behind a tie that stood behind another event (D24: add_tie keeps no record of the whole
    # extended note) is C05's known finding sep_tie_on_time, the same in every layout: not a layout question
    return judge.startswith("fail") and ": fail sep_tie_on_time " in judge


def finding_key(case, impl, judge):
    if impl.startswith("crash") or impl == "timeout":
        return "crash:" + (impl.split(" ", 2)[1] if " " in impl else impl)
    if case.req.startswith("layx "):
        note = case.req.split(" @ ", 1)[1] if " @ " in case.req else "?"
        return "layx:" + note
    if "d16_nested_separator" in judge:
        return "d16:nested-separator"
    m = re.match(r"fail (\w+)", judge)
    return m.group(1) if m else "judge"


def outcome_class(a):
    parts = a.split(" | ")
    errs = [re.match(r"err=(\S+)", p) for p in parts]
    if not all(errs):
        return a.split(" ")[0][:24]
    bad = [e.group(1) for e in errs if e.group(1) != "-"]
    if not bad:
        return "all-accepted"
    kind = "all-rejected" if len(bad) == len(parts) else "some-rejected"
    return kind + ":" + bad[0].split(":", 4)[-1][:40]


def shrink(req):
    cmd, rest = req.split(" ", 1)
    body, _, tail = rest.partition(" @ ")
    layouts = body.split(" / ")
    # fewer layouts (the first one stays)
    if len(layouts) > 2:
        for i in range(1, len(layouts)):
            yield "%s %s @ %s" % (cmd, " / ".join(layouts[:i] + layouts[i + 1:]), tail)
    if cmd != "lay":
        return
    segs = parse_stream(tail.split(" "))
    if not segs:
        return
    import random
    rng = random.Random(0)

    def rerender(segs2, keep):
        feats = set()
        ls = [render_layout(rng, segs2, "plain", feats), render_layout(rng, segs2, "bare", feats)]
        return lay_req(ls, segs2) if keep is None else lay_req([ls[0], keep], segs2)
    # the two canonical layouts only
    yield rerender(segs, None)
    # drop a segment / an item / a command of an alternative
    for si in range(len(segs)):
        if len(segs) > 1:
            yield rerender(segs[:si] + segs[si + 1:], None)
        s = segs[si]
        for ii in range(len(s.items)):
            if len(s.items) > 1:
                yield rerender(segs[:si] + [Seg(s.tracks, s.items[:ii] + s.items[ii + 1:])] + segs[si + 1:], None)
            it = s.items[ii]
            if it[0] == "b":
                for ai, alt in enumerate(it[1]):
                    for ci in range(len(alt)):
                        nb = ("b", it[1][:ai] + [alt[:ci] + alt[ci + 1:]] + it[1][ai + 1:])
                        yield rerender(segs[:si] + [Seg(s.tracks, s.items[:ii] + [nb] + s.items[ii + 1:])] + segs[si + 1:], None)
