"""C14 — Samples are decoded and placed in the wave bank intact."""
import os, re, struct
from vlib.core import Case, BUILD

ID = "C14"
LEAN_MODULE = "Ctrmml.Properties.C14"
THEOREMS = ["C14_inv_histories", "C14_content_stable", "C14_fresh_disjoint", "C14_bank_rule", "C14_dedupe",
            "C14_dedupe_complete", "C14_header_roundtrip", "C14_reader_total", "C14_reader_size", "C14_add_total", "C14_wav_decode",
            "C14_tag_window", "C14_offset_fresh_stored", "C14_offset_window_regression", "C14_full"]
LEVEL = "proof"
STREAM = "wave.ops"
CHUNK = 40
CASE_SECONDS = 20
RULE = ("histories of 1..40 additions to a Wave_Bank (bank layouts 64/16, 256/64, 4096/256, 100000/0x8000, 150000/unbanked, ...) through "
        "add_sample(Tag) on generated 8/16-bit mono/stereo WAV files (0..70000 frames, rate/offset overrides, duplicates and prefixes "
        "from a small seed pool) and add_sample(header,data) as the linker calls it; plus all 1..3-step histories over a boundary size set "
        "on a 64/16 bank, all single additions over bits x channels x length x offset x rate, and hand-made / malformed WAV files. "
        "non-trivial = anything beyond one plain addition; distinct by request text")
EXPLANATION = ("theorems over Model/Wave + Spec/Alloc (all histories of admissible additions, all bank sizes below 1 GiB); the model is tied to "
               "wave.cpp by running both on the generated histories and diffing every step (returned index, header, used size, gaps, "
               "accessors, window hash, final rom hash); the spec oracle (window content = wanted bytes, tiling of the used area by fresh "
               "regions and gaps, bank rule, stored-once, content stability) is applied to the implementation's answers")
ASSUMPTIONS = ["banks and sample data below 1 GiB (int/uint32_t arithmetic of wave.cpp does not wrap)",
               "one include path (the default \"\")",
               "files of more than 2^31-1 bytes are refused by load_file (modelled; the limit itself is not exercised on the real code)",
               "wav_decode covers files made of fmt, data, an optional smpl chunk without loop records and arbitrary other chunks; "
               "smpl loops (which shorten the sample to the loop end) are modelled and diffed but not part of the decode theorem"]
TRUSTED = ["Spec/Alloc.lean (windows, tiling, bank rule, PCM conversion and canonical WAV layout)"]


def workdir():
    d = os.path.join(BUILD, "c14work")
    os.makedirs(d, exist_ok=True)
    return d


def normalize(a):
    return "crash" if a.startswith("crash") else a


# ------------------------------------------------------------------ hand-made files
def le16(x): return struct.pack("<H", x & 0xffff)
def le32(x): return struct.pack("<I", x & 0xffffffff)


def chunk(cid, body, pad=True, size=None):
    b = cid + le32(len(body) if size is None else size) + body
    if pad and len(body) % 2:
        b += b"\0"
    return b


def fmt_chunk(bits, ch, rate, stype=1, extra=b""):
    ba = ch * (bits // 8)
    return chunk(b"fmt ", le16(stype) + le16(ch) + le32(rate) + le32(rate * ba) + le16(ba) + le16(bits) + extra)


def smpl_chunk(note, loops):
    body = le32(0) * 3 + le32(note) + le32(0) * 3 + le32(len(loops)) + le32(0)
    for (a, b) in loops:
        body += le32(0) + le32(0) + le32(a) + le32(b) + le32(0) + le32(0)
    return chunk(b"smpl", body)


def riff(chunks, magic=b"RIFF", wave=b"WAVE", size=None):
    body = wave + b"".join(chunks)
    return magic + le32(len(body) if size is None else size) + body


def data_bytes(n, seed):
    return bytes((seed + 31 * i + i // 256) & 255 for i in range(n))


def xfile(b):
    return "x:" + (b.hex() or "-")


def handmade(rng):
    """(filespec, tags) — files outside the canonical layout that the reader handles without undefined behaviour"""
    n = rng.choice([1, 2, 3, 8, 15, 16, 33])
    seed = rng.randrange(256)
    bits = rng.choice([8, 16])
    ch = rng.choice([1, 2])
    d = data_bytes(n * ch * (bits // 8), seed)
    f = fmt_chunk(bits, ch, 8000)
    kind = rng.choice(["junk-before", "junk-odd", "fmt18", "two-data", "smpl-note", "smpl-loop", "fmt-only", "wrong-magic", "not-wave",
                       "short", "truncated", "stype3", "ch3", "data-first", "riff-size-small", "empty-data", "fmt-short"])
    if kind == "junk-before":
        b = riff([chunk(b"LIST", b"INFOabcd"), f, chunk(b"data", d)])
    elif kind == "junk-odd":
        b = riff([f, chunk(b"junk", b"abc"), chunk(b"data", d)])
    elif kind == "fmt18":
        b = riff([fmt_chunk(bits, ch, 8000, extra=le16(0)), chunk(b"data", d)])
    elif kind == "two-data":
        b = riff([f, chunk(b"data", d), chunk(b"data", d)])
    elif kind == "smpl-note":
        b = riff([f, chunk(b"data", d), smpl_chunk(rng.choice([0, 60, 72]), [])])
    elif kind == "smpl-loop":
        e = rng.randrange(0, n)
        b = riff([f, chunk(b"data", d), smpl_chunk(60, [(rng.randrange(0, e + 1), e)])])
    elif kind == "fmt-only":
        b = riff([f])
    elif kind == "wrong-magic":
        b = riff([f, chunk(b"data", d)], magic=b"RIFX")
    elif kind == "not-wave":
        b = riff([f, chunk(b"data", d)], wave=b"AVI ")
    elif kind == "short":
        b = riff([f, chunk(b"data", d)])[:rng.randrange(0, 13)]
    elif kind == "truncated":
        full = riff([f, chunk(b"data", d)])
        b = full[:44] + full[44:44 + rng.randrange(0, max(1, len(full) - 45))]
        b = b[:4] + le32(len(b) - 8) + b[8:]
    elif kind == "stype3":
        b = riff([fmt_chunk(bits, ch, 8000, stype=3), chunk(b"data", d)])
    elif kind == "ch3":
        b = riff([fmt_chunk(8, 3, 8000), chunk(b"data", d)])
    elif kind == "data-first":
        b = riff([chunk(b"data", d), f])
    elif kind == "riff-size-small":
        full = riff([f, chunk(b"data", d)])
        b = full[:4] + le32(rng.choice([4, 12, 28])) + full[8:]
    elif kind == "empty-data":
        b = riff([f, chunk(b"data", b"")])
    else:
        b = riff([chunk(b"fmt ", le16(1) + le16(1) + le32(8000)), chunk(b"data", d)])
    return xfile(b), ["handmade", "handmade-" + kind]


def fmtx(bits, ch, rate=8000):
    ba = ch * bits // 8
    return chunk(b"fmt ", le16(1) + le16(ch) + le32(rate) + le32(rate * ba) + le16(ba) + le16(bits))


def malformed(rng):
    """(filespec, tags): files that used to make Wave_File::read / add_sample read outside a buffer or loop
    forever (fixed 3c87fd7..2288e89), and random corruptions of well-formed files"""
    n = rng.choice([1, 2, 5, 8, 9, 16])
    d = data_bytes(n, rng.randrange(256))
    bits = rng.choice([8, 16])
    ch = rng.choice([1, 2])
    f = fmtx(bits, ch)
    kind = rng.choice(["width", "riff-size-large", "trailing-bytes", "no-chunks", "no-fmt", "smpl-loop-beyond", "size-wrap-unknown",
                       "size-wrap-data", "size-wrap-fmt", "empty-data", "empty-list", "partial-frame", "smpl-short-loop", "fmt-product",
                       "mut-trunc", "mut-field", "mut-byte", "mut-byte", "mut-field"])
    if kind == "width":
        b = riff([fmtx(rng.choice([4, 12, 24, 32, 0, 7, 9, 15, 17]), rng.choice([1, 2])), chunk(b"data", d)])
    elif kind == "fmt-product":
        # bits * channels beyond INT_MAX: the frame size used to be computed in (promoted) int
        b = riff([fmtx(rng.choice([51464, 65535, 46341, 65528, 32768]), rng.choice([49921, 65535, 46341, 65528, 32768])), chunk(b"data", d)])
    elif kind == "riff-size-large":
        full = riff([f, chunk(b"data", d)])
        b = full[:4] + le32(len(full) - 8 + rng.choice([1, 2, 7, 8, 9, 100, 0x7fffffff, 0xfffffff0])) + full[8:]
    elif kind == "trailing-bytes":
        full = riff([f, chunk(b"data", d)])
        extra = bytes(rng.randrange(256) for _ in range(rng.choice([1, 2, 3, 4, 7, 8, 9])))
        b = full[:4] + le32(len(full) - 8 + len(extra)) + full[8:] + extra
    elif kind == "no-chunks":
        b = b"RIFF" + le32(rng.choice([4, 5, 6])) + b"WAVE" + bytes(rng.choice([1, 2, 3]))
    elif kind == "no-fmt":
        b = riff([chunk(b"LIST", b"INFOabcd")] + ([smpl_chunk(60, [(0, 3)])] if rng.random() < 0.5 else []))
    elif kind == "smpl-loop-beyond":
        b = riff([f, chunk(b"data", d), smpl_chunk(60, [(0, rng.choice([n, n + 1, 99, 0xfffffffe, 0xffffffff]))])])
    elif kind == "size-wrap-unknown":
        b = riff([f, chunk(b"junk", b"abcd", size=rng.choice([0xfffffff8, 0xfffffff9, 0xffffffff, 0xfffffff0])), chunk(b"data", d)])
    elif kind == "size-wrap-data":
        b = riff([f, chunk(b"data", d, size=rng.choice([0xfffffff8, 0xffffffff, 0x80000000]))])
    elif kind == "size-wrap-fmt":
        b = riff([chunk(b"fmt ", b"\1\0\1\0", size=rng.choice([0xffffffff, 0xfffffff8]))])
    elif kind == "empty-data":
        b = riff([f, chunk(b"data", b"")] + ([chunk(b"data", d)] if rng.random() < 0.3 else []))
    elif kind == "empty-list":
        b = riff([chunk(b"LIST", b""), f, chunk(b"data", d)])
    elif kind == "partial-frame":
        b = riff([fmtx(rng.choice([8, 16]), rng.choice([1, 2])), chunk(b"data", d, pad=False)])
    elif kind == "smpl-short-loop":
        body = le32(0) * 3 + le32(60) + le32(0) * 3 + le32(1) + le32(0) + bytes(rng.choice([0, 4, 8, 12, 15, 16, 20, 23]))
        b = riff([f, chunk(b"data", d + (b"\0" if len(d) % 2 else b""), pad=False), chunk(b"smpl", body, pad=False)])
    else:
        full = bytearray(riff([f, chunk(b"data", d)] + ([smpl_chunk(60, [(0, max(0, n // ch // (bits // 8) - 1))])] if rng.random() < 0.4 else [])))
        if kind == "mut-trunc":
            full = full[:rng.randrange(0, len(full))]
        elif kind == "mut-field":
            o = rng.choice([4, 16, 20, 22, 24, 32, 34, 40, 44 + (len(d) + 1) // 2 * 2 + 4, rng.randrange(0, max(1, len(full) - 4))])
            v = rng.choice([0, 1, 2, 3, 7, 8, 9, 0x10, 0x2c, 0x34, len(full), len(full) - 8, 0x7fffffff, 0x80000000, 0xfffffff8, 0xffffffff,
                            rng.randrange(1 << 32)])
            if o + 4 <= len(full):
                full[o:o + 4] = le32(v)
        else:
            for _ in range(rng.choice([1, 1, 2, 4])):
                full[rng.randrange(len(full))] = rng.randrange(256)
        b = bytes(full)
    return xfile(b), ["malformed", "malformed-" + kind]


# ------------------------------------------------------------------ histories
LAYOUTS = [(64, 16), (256, 64), (4096, 256), (1024, 0), (100000, 0x8000), (150000, 0), (4096, 64), (200, 64), (300, 1000)]


def gen_history(rng, big):
    maxs, bank = rng.choice(LAYOUTS[:4] + LAYOUTS[6:] if not big else LAYOUTS[4:6])
    eff = bank or maxs
    nops = rng.choice([1, 2, 3, 4, 6, 8, 12, 20, 40]) if not big else rng.choice([2, 4, 8])
    seeds = [rng.randrange(256) for _ in range(3)]
    sizes = [0, 1, 2, eff - 1, eff, eff + 1, eff // 2, 31, 32, 33, 2 * eff + 3] + [rng.randrange(1, max(2, eff * 2)) for _ in range(4)]
    sizes = [s for s in sizes if s >= 0]
    if big:
        sizes = [rng.choice([65535, 65536, 70000, 40000, 32768, 32767, 1000, 20000]) for _ in range(4)]
    tags = {"bank-%d/%d" % (maxs, bank)}
    ops = []
    seen = set()
    total = 0
    for _ in range(nops):
        n = rng.choice(sizes)
        seed = rng.choice(seeds)
        if (seed, n) in seen:
            tags.add("repeat")
        if any(s == seed and m > n for (s, m) in seen):
            tags.add("prefix-of-earlier")
        if any(s == seed and m < n for (s, m) in seen):
            tags.add("extends-earlier")
        total += n
        r = rng.random()
        if r < 0.5:
            bits = rng.choice([8, 8, 16])
            ch = rng.choice([1, 1, 2])
            if bits == 8 and ch == 1:
                seen.add((seed, n))
            args = []
            if rng.random() < 0.25:
                args.append(rng.choice(["rate=%d", "rate_=_%d", "rate=%d", "rate_=%d"]) % rng.choice([4000, 11025, 17500, 44100, 0, 4294967295]))
                tags.add("rate-override")
            if rng.random() < 0.2:
                off = rng.choice([0, 1, 1, n // 2, n // 2, n, n + 1, 4, 4])
                args.append("offset=%d" % off)
                tags.add("offset-override" if off else "offset-zero")
            if rng.random() < 0.03:
                args.append(rng.choice(["rate=abc", "offset=-1", "volume=3", "rate=+12", "offset=18446744073709551616", "offset=4294967296", "rate="]))
                tags.add("odd-argument")
            ops.append("T w:%d:%d:%d:%d:%d %s" % (bits, ch, rng.choice([8000, 17500, 22050]), n, seed, " ".join(args)))
            tags.add("%dbit-%s" % (bits, "stereo" if ch == 2 else "mono"))
            if n == 0:
                tags.add("zero-frames")
        elif r < 0.93:
            seen.add((seed, n))
            start = 0
            size = n
            if rng.random() < 0.12 and n > 1:
                start = rng.randrange(1, n)
                size = rng.choice([n - start, n - start, rng.randrange(0, n - start + 1), n - start + 1, n])
                tags.add("raw-start")
                if start + size > n:
                    tags.add("raw-start-beyond-data")
            ls = rng.choice([0, 0, 0, 0, 5])
            if ls:
                tags.add("loop-start")
            if n <= 48 and rng.random() < 0.08:
                # stored data followed by zero bytes: must not be matched against unallocated rom behind an earlier sample
                k = rng.choice([1, 2, 4, 9])
                body = bytes((seed + 31 * i + i // 256) & 255 for i in range(n)) + bytes(k)
                ops.append("R 0 %d %d 0 8000 0 0 h:%s" % (n + k, ls, body.hex()))
                tags.add("zero-tail")
            else:
                ops.append("R %d %d %d %d %d %d 0 f:%d:%d" % (start, size, ls, 0, rng.choice([8000, 17500]), rng.choice([0, 4294967236]), n, seed))
            tags.add("raw-add")
            if n == 0:
                tags.add("zero-length")
        elif r < 0.97:
            f, t = handmade(rng)
            ops.append("T " + f)
            tags.update(t)
        else:
            ops.append(rng.choice(["T m:", "T -"]))
            tags.add("no-file")
    if total > maxs:
        tags.add("beyond-capacity")
    if big:
        tags.add("big>=32768")
    tags.add("ops-%s" % ("1" if nops == 1 else "2-4" if nops <= 4 else "5-12" if nops <= 12 else "13-40"))
    return "wave %d %d | %s" % (maxs, bank, " | ".join(o.strip() for o in ops)), sorted(tags)


CORPUS = [
    # D11 (repaired; regression): offset= used to shrink the allocation but not move the copy origin, so the window
    # handed out began `offset` bytes late and ran into the next sample / unused rom
    ("wave 32 0 | R 4 12 0 0 8000 0 0 h:101112131415161718191a1b1c1d1e1f", ["corpus", "raw-start", "d11-regression"]),
    ("wave 32 0 | R 4 12 0 0 8000 0 0 h:101112131415161718191a1b1c1d1e1f | R 0 16 0 0 8000 0 0 h:a0a1a2a3a4a5a6a7a8a9aaabacadaeaf", ["corpus", "raw-start", "d11-regression"]),
    # offset sample first, then the whole sample, then the offset sample again (shares the whole one), then once more (header reused)
    ("wave 256 0 | T w:8:1:8000:16:16 offset=4 | T w:8:1:8000:16:16 | T w:8:1:8000:16:16 offset=4 | T w:8:1:8000:16:16 offset=4 | T w:8:1:8000:16:16 offset=4 rate=4000",
     ["corpus", "offset-override", "repeat", "d11-regression"]),
    # window beyond the data handed over: input error, state unchanged
    ("wave 256 0 | R 4 13 0 0 8000 0 0 f:16:1 | R 16 1 0 0 8000 0 0 f:16:1 | R 4294967295 2 0 0 8000 0 0 f:16:1 | R 16 0 0 0 8000 0 0 f:16:1 | R 3 13 0 0 8000 0 0 f:16:1",
     ["corpus", "raw-start", "raw-start-beyond-data"]),
    # offsets across bank boundaries: the window, not the whole file, is what has to obey the bank rule
    ("wave 256 64 | R 0 60 0 0 1 0 0 f:60:1 | T w:8:1:8000:70:9 offset=10 | T w:16:2:8000:70:9 offset=66 | T w:8:1:8000:70:9 offset=6", ["corpus", "offset-override", "bank-cross"]),
    ("wave 256 0 | T w:8:1:8000:16:16 offset=4 | T w:8:1:8000:16:160", ["corpus", "offset-override"]),
    ("wave 256 64 | R 0 40 0 0 1 0 0 f:40:1 | R 0 40 0 0 1 0 0 f:40:2 | T w:8:1:8000:12:7 offset=2", ["corpus", "offset-override", "gap-reuse"]),
    # offset sample that shares an earlier whole sample: fine
    ("wave 256 0 | T w:8:1:8000:16:16 | T w:8:1:8000:16:16 offset=4", ["corpus", "offset-override", "repeat"]),
    # duplicate detector used to match unallocated (zero) rom behind a stored sample; fixed 1a012dd
    ("wave 256 0 | R 0 3 0 0 8000 0 0 h:010203 | R 0 5 0 0 8000 0 0 h:0102030000 | R 0 2 0 0 8000 0 0 h:0909", ["corpus", "dup-span"]),
    ("wave 256 64 | R 0 40 0 0 1 0 0 h:" + "07" * 40 + " | R 0 40 0 0 1 0 0 f:40:2 | R 0 44 0 0 1 0 0 h:" + "07" * 40 + "00000000 | R 0 4 0 0 1 0 0 h:01020304",
     ["corpus", "dup-span", "gap-reuse"]),
    # empty sample against a non-empty bank: UB in find_duplicate; fixed 13b11d2
    ("wave 256 0 | R 0 3 0 0 8000 0 0 h:010203 | R 0 0 0 0 8000 0 0 h:-", ["corpus", "zero-length"]),
    ("wave 256 0 | R 0 0 0 0 8000 0 0 h:- | R 0 0 0 0 8000 0 0 h:- | T w:8:1:8000:4:1 offset=4", ["corpus", "zero-length"]),
    # prefix of a sample larger than a bank crossed a bank boundary; fixed 97b9d08
    ("wave 256 64 | R 0 32 0 0 8000 0 0 f:32:1 | R 0 70 0 0 8000 0 0 f:70:2 | R 0 40 0 0 8000 0 0 f:40:2", ["corpus", "prefix-of-earlier", "bank-cross"]),
    # capacity: exact fit of the last bank is refused, state unchanged after errors
    ("wave 16 0 | R 0 10 0 0 8000 0 0 f:10:1 | R 0 10 0 0 8000 0 0 f:10:2 | R 0 6 0 0 1 0 0 f:6:3 | T m: | T - | T w:8:1:8000:0:1 | T w:8:1:8000:4:1 offset=5",
     ["corpus", "beyond-capacity", "no-file"]),
    # gaps: creation, best-fit reuse, front gap after aligned placement inside a gap
    ("wave 256 64 | R 0 40 0 0 1 0 0 f:40:1 | R 0 40 0 0 1 0 0 f:40:2 | R 0 10 0 0 1 0 0 f:10:3 | R 0 20 0 0 1 0 0 f:20:4 | R 0 4 0 0 1 0 0 f:4:5",
     ["corpus", "gap-reuse"]),
    ("wave 512 64 | R 0 10 0 0 1 0 0 f:10:1 | R 0 60 0 0 1 0 0 f:60:2 | R 0 70 0 0 1 0 0 f:70:3 | R 0 130 0 0 1 0 0 f:130:4 | R 0 5 0 0 1 0 0 f:5:5",
     ["corpus", "gap-reuse", "bank-cross"]),
    # the two layouts MDSDRV uses, scaled: 8/16-bit mono/stereo decode
    ("wave 100000 32768 | T w:16:2:17500:20000:3 | T w:8:1:17500:20000:3 rate=8000 | T w:16:1:44100:30000:9 | T w:16:2:17500:20000:3", ["corpus", "big>=32768"]),
    ("wave 150000 0 | T w:8:2:22050:70000:1 | T w:16:1:22050:65536:2 | T w:8:2:22050:65535:1", ["corpus", "big>=32768"]),
]

def _x(b):
    return "wave 256 64 | R 0 5 0 0 1 0 0 f:5:1 | T %s | R 0 3 0 0 1 0 0 f:3:2" % xfile(b)


_D8 = data_bytes(8, 1)
_F8 = fmt_chunk(8, 1, 8000)
CORPUS += [
    # reader defects fixed 3c87fd7 .. 2288e89 (each used to crash the sanitizer build or never return)
    (_x(riff([fmtx(24, 1), chunk(b"data", _D8 + b"\1")])), ["corpus", "malformed", "malformed-width"]),
    (_x(riff([fmtx(4, 2), chunk(b"data", _D8)])), ["corpus", "malformed", "malformed-width"]),
    (_x(riff([_F8, chunk(b"data", _D8)], size=200)), ["corpus", "malformed", "malformed-riff-size-large"]),
    (_x(b"RIFF" + le32(5) + b"WAVE\0"), ["corpus", "malformed", "malformed-no-chunks"]),
    (_x(riff([chunk(b"LIST", b"INFOabcd")])), ["corpus", "malformed", "malformed-no-fmt"]),
    (_x(riff([_F8, chunk(b"data", _D8), smpl_chunk(60, [(0, 99)])])), ["corpus", "malformed", "malformed-smpl-loop-beyond"]),
    (_x(riff([_F8, chunk(b"junk", b"abcd", size=0xfffffff8), chunk(b"data", _D8)])), ["corpus", "malformed", "malformed-size-wrap-unknown"]),
    (_x(riff([_F8, chunk(b"data", _D8, size=0xfffffff8)])), ["corpus", "malformed", "malformed-size-wrap-data"]),
    (_x(riff([chunk(b"fmt ", b"\1\0\1\0", size=0xffffffff)])), ["corpus", "malformed", "malformed-size-wrap-fmt"]),
    (_x(riff([_F8, chunk(b"data", b"")])), ["corpus", "malformed", "malformed-empty-data"]),
    (_x(riff([chunk(b"LIST", b""), _F8, chunk(b"data", _D8)])), ["corpus", "malformed", "malformed-empty-list"]),
    (_x(riff([fmtx(16, 1), chunk(b"data", _D8 + b"\7", pad=False)])), ["corpus", "malformed", "malformed-partial-frame"]),
    (_x(riff([fmtx(16, 2), chunk(b"data", _D8[:5], pad=False)])), ["corpus", "malformed", "malformed-partial-frame"]),
    (_x(riff([_F8, chunk(b"data", _D8), chunk(b"smpl", le32(0) * 3 + le32(60) + le32(0) * 3 + le32(1) + le32(0) + le32(0) * 2)])),
     ["corpus", "malformed", "malformed-smpl-short-loop"]),
    ("wave 256 0 | R 0 9 0 0 8000 0 0 f:8:1 | R 2 9 0 0 8000 0 0 f:8:1", ["corpus", "header-longer-than-data"]),
    # sbits * channels overflowed int in the fmt case (UBSan wave.cpp:144); fixed aa1e920
    ("wave 256 64 | T x:524946462a00000057415645666d742010000000010001c3401f0000401f0000010008c964617461050026002b4a69886800", ["corpus", "malformed", "malformed-fmt-product"]),
    (_x(riff([fmtx(65535, 65535), chunk(b"data", _D8)])), ["corpus", "malformed", "malformed-fmt-product"]),
]

SIZES_EX = [0, 1, 8, 15, 16, 17, 33]


def cases(rng, tier):
    for req, tags in CORPUS:
        yield Case(req, tags, "corpus")
    for p in ["f:32:1", "f:31:1", "f:40:9", "h:-", "h:" + "ff" * 32, "f:0:0", "h:" + "00" * 32]:
        yield Case("wavehdr " + p, ["header"], "corpus")
    # bounded-exhaustive 1: all 1..3-step histories over the boundary sizes on a 64/16 bank (distinct data per step, and with repeats)
    for a in SIZES_EX:
        for b in [None] + SIZES_EX:
            for c in ([None] + SIZES_EX if b is not None else [None]):
                ops = ["R 0 %d 0 0 1 0 0 f:%d:%d" % (n, n, 1 + 2 * i) for i, n in enumerate([a, b, c]) if n is not None]
                yield Case("wave 64 16 | " + " | ".join(ops), ["exh-sizes", "steps-%d" % len(ops)], "exhaustive")
    for a in SIZES_EX:
        for b in SIZES_EX:
            yield Case("wave 64 16 | R 0 %d 0 0 1 0 0 f:%d:5 | R 0 %d 0 0 1 0 0 f:%d:5 | R 0 %d 0 0 1 0 0 f:%d:5" % (a, a, b, b, a, a),
                       ["exh-sizes", "same-seed"], "exhaustive")
    # bounded-exhaustive 2: single additions over the file parameters
    for bits in (8, 16):
        for ch in (1, 2):
            for frames in (0, 1, 2, 3, 255, 256):
                for off in (None, 0, 1, frames, frames + 1):
                    for rate in (None, 12345):
                        args = ([] if off is None else ["offset=%d" % off]) + ([] if rate is None else ["rate=%d" % rate])
                        tags = ["exh-file", "%dbit-%s" % (bits, "stereo" if ch == 2 else "mono")]
                        if off:
                            tags.append("offset-override")
                        yield Case("wave 1024 0 | T w:%d:%d:8000:%d:%d %s | T w:8:1:8000:5:200" % (bits, ch, frames, 7 + frames, " ".join(args)),
                                   tags, "exhaustive")
    n = 500 if tier == "quick" else 9000
    nbig = 14 if tier == "quick" else 160
    for i in range(n):
        req, tags = gen_history(rng, False)
        yield Case(req, tags, "random")
    for i in range(nbig):
        req, tags = gen_history(rng, True)
        yield Case(req, tags, "random-big")
    for i in range(60 if tier == "quick" else 900):
        f, tags = handmade(rng)
        yield Case("wave 256 64 | R 0 5 0 0 1 0 0 f:5:1 | T %s | T %s rate=5 | R 0 3 0 0 1 0 0 f:3:2" % (f, f), tags + ["malformed-stream"], "malformed")
    for i in range(300 if tier == "quick" else 5000):
        f, tags = malformed(rng)
        yield Case("wave 256 64 | R 0 5 0 0 1 0 0 f:5:1 | T %s | T %s rate=5 | R 0 3 0 0 1 0 0 f:3:2" % (f, f), tags, "malformed")


def outcome_class(a):
    if a.startswith("crash") or a == "timeout":
        return a.split(" ")[0]
    ks = set(re.findall(r"exc:(\w+)", a))
    return "ok" if not ks else "exc:" + "+".join(sorted(ks))


def _ops(req):
    return [o.strip() for o in req.split("|")[1:] if o.strip()]


def finding_key(case, impl, judge):
    if impl.startswith("crash") or impl == "timeout" or impl.startswith("uncaught"):
        m = re.search(r"(\w+\.cpp:\d+)", impl)
        return "crash:" + (m.group(1) if m else impl.split(" ")[0])
    m = re.match(r"fail (\S+)(?: step=(\d+))?", judge)
    if not m:
        return "judge"
    return m.group(1)


def shrink(req):
    head, _, _ = req.partition("|")
    ops = _ops(req)
    for i in range(len(ops)):
        if len(ops) > 1:
            yield head.strip() + " | " + " | ".join(ops[:i] + ops[i + 1:])
    for i, o in enumerate(ops):
        t = o.split()
        if t[0] == "T" and t[1].startswith("w:"):
            c = t[1].split(":")
            fr = int(c[4])
            for nf in (fr // 2, fr - 1):
                if 0 < nf < fr:
                    c2 = c[:4] + [str(nf)] + c[5:]
                    yield head.strip() + " | " + " | ".join(ops[:i] + [" ".join([t[0], ":".join(c2)] + t[2:])] + ops[i + 1:])
        if t[0] == "T" and len(t) > 2:
            for j in range(2, len(t)):
                yield head.strip() + " | " + " | ".join(ops[:i] + [" ".join(t[:j] + t[j + 1:])] + ops[i + 1:])


TECHNIQUE = "Lean 4 proof (allocator invariant by induction over addition histories; reader totality and decode by induction over chunks/frames) + differential correspondence model<->wave.cpp"
LEVEL_TEXT = ("Machine-checked theorems over a Lean model of wave.cpp: an invariant (every window inside one freshly allocated region and inside the "
              "used area, window bytes = requested bytes, fresh regions and gaps tile the used area exactly and sum to it, bank rule, headers "
              "never change) holds after every history of admissible additions; later additions never change an existing window; byte-identical "
              "data is found again and adds nothing; failed additions leave the bank unchanged; the reader decodes every canonical 8/16-bit "
              "mono/stereo WAV file (fmt, data, optional smpl, any other chunks) to the 8-bit unsigned conversion of channel 0 (proved for all "
              "recordings); the reader and add_sample(Tag) are total on every byte string (no out-of-bounds read, no unbounded loop); "
              "headers round-trip. Since the repair of D11 (fresh placements store the playback window and hand out start = 0) the "
              "history theorems carry no exclusion and the whole property is one theorem, C14_full (reader clause + bank clause). Model "
              "tied to the code by regenerated constants (incl. the shape of the repaired lines) and by diffing model and wave.cpp on "
              "generated histories.")
LEVEL_NOTE = ("Trusted: Lean kernel (axioms propext, Classical.choice, Quot.sound at most), the hand-written model Model/Wave.lean (agreement with "
              "wave.cpp established by differential testing, not proved), Spec/Alloc.lean, banks and data < 1 GiB, g++/ASan/UBSan and the harness. "
              "No _partial theorem is left; C14_reader_total has no size hypothesis (load_file's 2^31-1 limit is part of the model). Decided per "
              "case by the oracle only: smpl-loop files (sample cut at the loop end) and hand-made chunk layouts outside the canonical one.")
