"""C04 — The player implements the MML control-flow rules and rejects broken structure."""
import re
from vlib.core import Case
from vlib import songgen

ID = "C04"
LEAN_MODULE = "Ctrmml.Properties.C04"
THEOREMS = ["C04_player_refines_expand", "C04_validator_accepts", "C04_validator_rejects", "C04_validator_terminates",
            "C04_end_loops_iff_time_passed", "C04_drum_enter", "C04_drum_exit", "C04_drum_no_note_rejected"]
LEVEL = "proof"
STREAM = "player.trace+valid"
CHUNK = 150
TECHNIQUE = "Lean 4 proof (simulation: flat bracket machine refines structural expansion, mutual induction over the parsed forest and the call budget) + differential correspondence model<->player.cpp"
LEVEL_TEXT = ("Machine-checked refinement theorem: for every song and track without explicit END events, Basic_Player::step_event (as modelled) calls the event hook "
              "with exactly the items of the structural expansion (loop bodies n times, tail after the break dropped on the last pass, n<=1 once, calls inlined, one stack "
              "frame per live loop/call, limit 10), Track_Validator reports the sums of the expanded durations, every structurally faulty song (unbalanced loop, break outside "
              "a loop, missing callee, recursion/nesting beyond the limit, negative count) ends in an input error, and validation terminates on every song. The model is tied to "
              "player.cpp by regenerated enum/limit tables and by comparing validator numbers and full hook traces (with is_inside_loop/jump flags) on generated valid and "
              "malformed songs.")
LEVEL_NOTE = ("Trusted: Lean kernel (propext, Classical.choice, Quot.sound), Model/Player.lean (agreement with player.cpp established by differential testing), "
              "Spec/Tree.lean + Spec/Expand.lean (the meaning of loops/breaks/calls), tracks shorter than 2^32 ticks. Drum-mode routines and the loop-back at END (Player class) "
              "are covered under C12's model; explicit END events inside tracks are outside the theorems' domain (the MML front end cannot produce them).")
RULE = ("songs as IR: root track + subroutine tracks from a grammar (notes, rests, ties, commands, nested counted loops with break at any top-level boundary, calls, loop point), "
        "nesting 0..11, counts {0,1,2,3,4,255,-1}, call graphs incl. self/mutual recursion and depth 9/10/11; malformed stream = one bracket deleted/duplicated/moved, stray break, "
        "call to a missing track. non-trivial = contains a loop, call, break or fault; distinct by request text")
EXPLANATION = "theorems over Model/Player + Spec/Expand for all songs; correspondence on validator numbers and hook traces; spec oracle = perf/summary evaluated on the same song"
ASSUMPTIONS = ["no explicit END event inside a track", "play_time below 2^32"]

CORPUS = [
    # unit-test shapes (test_player.cpp): loop, nested loop with break, jump, segno
    "valid 0 T0:2.1.24.0,4.0.0.0,2.2.24.0,6.2.0.0",
    "valid 0 T0:4.0.0.0,2.1.1.1,5.0.0.0,2.2.1.1,6.3.0.0,2.3.4.0",
    "valid 0 T0:2.1.2.0,8.100.0.0,2.2.2.0 T100:2.9.3.1",
    "valid 0 T0:2.1.2.0,7.0.0.0,2.2.2.0",
    "valid 0 T0:",
    # faults
    "valid 0 T0:4.0.0.0,2.1.1.0",
    "valid 0 T0:2.1.1.0,6.2.0.0",
    "valid 0 T0:2.1.1.0,5.0.0.0",
    "valid 0 T0:8.5.0.0",
    "valid 0 T0:8.0.0.0",
    "valid 0 T0:4.0.0.0,2.1.1.0,6.-1.0.0",
    "valid 0 T0:8.100.0.0 T100:8.101.0.0 T101:8.100.0.0",
    "valid 0 T0:4.0.0.0,8.100.0.0,6.2.0.0 T100:2.1.1.0,5.0.0.0",
    "valid 0 T0:8.100.0.0 T100:2.1.1.0,6.2.0.0",
    "valid 0 T0:4.0.0.0,4.0.0.0,4.0.0.0,4.0.0.0,4.0.0.0,4.0.0.0,4.0.0.0,4.0.0.0,4.0.0.0,4.0.0.0,2.1.1.0,6.2.0.0,6.2.0.0,6.2.0.0,6.2.0.0,6.2.0.0,6.2.0.0,6.2.0.0,6.2.0.0,6.2.0.0,6.2.0.0",
    "valid 0 T0:4.0.0.0,4.0.0.0,4.0.0.0,4.0.0.0,4.0.0.0,4.0.0.0,4.0.0.0,4.0.0.0,4.0.0.0,4.0.0.0,4.0.0.0,2.1.1.0,6.2.0.0,6.2.0.0,6.2.0.0,6.2.0.0,6.2.0.0,6.2.0.0,6.2.0.0,6.2.0.0,6.2.0.0,6.2.0.0,6.2.0.0",
    # loop whose control events carry durations; break with a duration on the last pass
    "valid 0 T0:4.0.1.0,2.1.1.0,5.0.0.2,2.2.1.0,6.3.0.4,7.0.0.0,2.3.1.0",
]


def nest(g, depth, inner):
    evs = inner
    for _ in range(depth):
        evs = [g.ev("LOOP_START")] + evs + [g.ev("LOOP_END", g.rng.choice([1, 2]))]
    return evs


def cases(rng, tier):
    for c in CORPUS:
        yield Case(c, ("corpus",), "corpus")
    T = songgen.event_types()
    # positions beyond 16 bits: a loop with a break, a call and a loop point behind 32768 / 65536
    # events (positions are `int`s in the player; the event fields that cache them are 16 bits wide)
    pad = lambda k: [(T["VOL"], i % 16, 0, 0) for i in range(k)]
    tail = [(T["LOOP_START"], 0, 0, 0), (T["NOTE"], 40, 2, 1), (T["LOOP_BREAK"], 0, 0, 0), (T["NOTE"], 41, 1, 1), (T["LOOP_END"], 2, 0, 0),
            (T["JUMP"], 100, 0, 0), (T["NOTE"], 42, 3, 0)]
    for k in ((32760, 32766, 32770) if tier == "quick" else (32760, 32765, 32766, 32767, 32768, 32770, 65530, 65536, 65540)):
        yield Case("valid 0 " + songgen.render({0: pad(k) + tail, 100: [(T["NOTE"], 9, 1, 1)]}), ("long-track",), "long-track")
        yield Case("valid 0 " + songgen.render({0: pad(k) + [(T["SEGNO"], 0, 0, 0)] + tail, 100: [(T["NOTE"], 9, 1, 1)]}), ("long-track", "segno"), "long-track")
    n = 700 if tier == "quick" else 12000
    made = 0
    tries = 0
    while made < n and tries < n * 20:
        tries += 1
        kind = rng.random()
        g = songgen.G(rng, max_depth=rng.choice([1, 2, 3, 4, 5]), subs=rng.choice([[], [100], [100, 101, 102]]))
        song = g.song(1)
        tags = set()
        if kind < 0.12:
            # deep nesting around the stack limit, optionally through calls
            d = rng.choice([8, 9, 10, 11])
            inner = g.seq(9, True, False, n=2)
            if rng.random() < 0.5:
                song = {0: nest(g, d, inner)}
            else:
                k = rng.randrange(1, d)
                song = {0: nest(g, k, [g.ev("JUMP", 100)]), 100: nest(g, d - k - 1, inner)}
            tags.add("nest-%d" % d)
        elif kind < 0.2:
            # recursion
            if rng.random() < 0.5:
                song[100] = g.seq(1, False, False, n=2) + [g.ev("JUMP", 100)]
            else:
                song[100] = [g.ev("JUMP", 101)]
                song[101] = g.seq(1, False, False, n=1) + [g.ev("JUMP", 100)]
            song[0] = song[0] + [g.ev("JUMP", 100)]
            tags.add("recursion")
        elif kind < 0.45:
            # malformed: perturb one bracket
            evs = list(song[0])
            idx = [i for i, e in enumerate(evs) if e[0] in (T["LOOP_START"], T["LOOP_END"], T["LOOP_BREAK"])]
            op = rng.choice(["del", "dup", "move", "stray-break", "missing-call", "neg"])
            if op in ("del", "dup", "move") and idx:
                i = rng.choice(idx)
                if op == "del":
                    evs = evs[:i] + evs[i + 1:]
                elif op == "dup":
                    evs = evs[:i] + [evs[i]] + evs[i:]
                else:
                    e = evs.pop(i)
                    evs.insert(rng.randrange(0, len(evs) + 1), e)
            elif op == "stray-break":
                evs.insert(rng.randrange(0, len(evs) + 1), g.ev("LOOP_BREAK"))
            elif op == "missing-call":
                evs.insert(rng.randrange(0, len(evs) + 1), g.ev("JUMP", rng.choice([7, 999, -1])))
            else:
                evs = [g.ev("LOOP_START")] + evs + [g.ev("LOOP_END", -rng.randrange(1, 5))]
            song[0] = evs
            tags.add("malformed-" + op)
        if songgen.expanded_size(song, 0, T) > 3000:
            continue
        flat = [e for evs in song.values() for e in evs]
        types = {e[0] for e in flat}
        if T["LOOP_START"] in types: tags.add("loop")
        if T["LOOP_BREAK"] in types: tags.add("break")
        if T["JUMP"] in types: tags.add("call")
        if T["SEGNO"] in types: tags.add("segno")
        cnts = {e[1] for e in flat if e[0] == T["LOOP_END"]}
        for c in cnts:
            tags.add("count-%s" % (c if c in (-1, 0, 1, 2, 3, 255) else "other"))
        made += 1
        yield Case("valid 0 " + songgen.render(song), sorted(tags), "malformed" if any(t.startswith("malformed") for t in tags) else "structured")


_BRK = None


def normalize(a):
    """LOOP_BREAK's parameter is a scratch cell the player overwrites with the loop's end
    position (modelled in C16, irrelevant to the event sequence): masked."""
    global _BRK
    if _BRK is None:
        _BRK = songgen.event_types()["LOOP_BREAK"]
    return re.sub(r"(^|[=,])%d\.-?\d+\." % _BRK, r"\g<1>%d.0." % _BRK, a)


def outcome_class(a):
    m = re.match(r"valid=(ok|err:[^ ]*)", a)
    return m.group(1) if m else a.split(" ")[0][:30]


def finding_key(case, impl, judge):
    if impl.startswith("crash") or impl == "timeout" or impl.startswith("uncaught"):
        m = re.search(r"(\w+\.cpp:\d+)", impl)
        return "crash:" + (m.group(1) if m else "unknown")
    if "spec rejects" in judge:
        return "accepts-invalid"
    if "want valid=ok" in judge and "got valid=err" in judge:
        return "rejects-valid"
    if "want valid=ok" in judge:
        return "wrong-numbers"
    return "wrong-event-sequence"


def shrink(req):
    toks = req.split()
    song = songgen.parse_request_song(req)
    for s2 in songgen.shrink_song(song):
        if 0 in s2:
            yield "valid 0 " + songgen.render(s2)
