"""C12 — Seeking is equivalent to playing."""
import re
from vlib.core import Case
from vlib import songgen

ID = "C12"
LEAN_MODULE = "Ctrmml.Properties.C12"
THEOREMS = ["C12_seek_eq_play", "C12_same_future", "C12_skip_stopped", "alive_antitone", "C12_seek_eq_play_of_alive_last",
            "C12_same_future_of_alive_last", "C12_seek_eq_play_noerr", "C12_obs_enabled", "C12_past_end_playTime_differs",
            "C12_example_alive", "C12_example_lands_inside", "C12_seek_eq_play_noerr_clean", "exSong_endsClean",
            "C12_played_settled", "C12_seek_eq_play_from", "C12_seek_eq_play_after_play", "C12_seek_eq_play_from_noerr", "alive_of_le",
            "C12_example_from_lands", "noerr_of_flat", "C12_seek_eq_play_flat", "C12_seek_eq_play_flat_enabled",
            "C12_seek_eq_play_flat_after_play", "flatRoot_flat", "C12_example_flat_lands",
            "noerr_of_flatL", "C12_seek_eq_play_flatL", "C12_seek_eq_play_flatL_enabled", "flatLRoot_flatL", "C12_example_flatL_lands",
            "noerr_of_loop1", "C12_seek_eq_play_loop1", "C12_seek_eq_play_loop1_enabled", "loopRoot_loop1", "C12_example_loop1_lands"]
LEVEL = "proof"
STREAM = "seek.obs"
CHUNK = 60
TECHNIQUE = "Lean 4 proof (skip_ticks loop = iterated play_tick from any settled state; induction on the tick count) + differential correspondence model<->Player in player.cpp"
LEVEL_TEXT = ("Machine-checked theorems over the Lean model of Player::skip_ticks/play_tick/handle_event (incl. drum mode, channel variables, mode bits): for every song, track and "
              "seek distance n>=1 such that the track is alive (enabled, no error) after n single ticks -- ONE hypothesis at the last earlier tick, since `alive` is proved downward closed "
              "along play ticks -- skip_ticks(n) on a fresh player yields exactly the state of n+1 play_tick() calls, hence the same future events (C12_seek_eq_play_of_alive_last, "
              "C12_same_future_of_alive_last). Without the enabled half: if no error has occurred after n ticks, both paths agree on obs = the whole state while the track is enabled and, "
              "once it has ended, everything except play_time/on_time/off_time (C12_seek_eq_play_noerr), and everything except play_time alone when no END event carries a duration "
              "(C12_seek_eq_play_noerr_clean; invariant: a stopped player has no residual duration); past the end play_time really differs (C12_past_end_playTime_differs, proved "
              "witness; outside the property, n is limited to the track length). The hypothesis is proved by kernel evaluation for a concrete track with a loop, a break, a call and "
              "relative commands and a seek landing inside a note (C12_example_alive, C12_example_lands_inside). Tied to player.cpp by comparing full private-state dumps and 24-tick "
              "futures of both real paths with the model for generated tracks and every n (incl. n past the end). "
              "Round 3: (1) seeks on a player that is not fresh: every state left by one or more play_tick() calls is settled (C12_played_settled, no hypothesis), and from ANY settled "
              "state s, skip_ticks(n) = n play_tick()s exactly -- no off-by-one; the n+1 of the fresh-player theorems is only the first, time-less fetch tick -- when the track is alive "
              "after n-1 ticks from s (C12_seek_eq_play_from; corollary for the states after m+1 played ticks C12_seek_eq_play_after_play; obs-level with no-error only "
              "C12_seek_eq_play_from_noerr; evaluated instance seek 3 after 4 played ticks on the example track, C12_example_from_lands). (2) The no-error hypothesis is DISCHARGED for "
              "the decidable syntactic class Flat (every root event is NOTE/REST/TIE/NOP or a channel command other than DRUM_MODE, absolute or relative -- no LOOP_*/SEGNO/JUMP/END/"
              "PLATFORM -- and fewer than 100000 events): noerr_of_flat proves by an invariant over step_event / the fetch loop / play_tick that no error is ever recorded and the step "
              "budget is never exhausted, for every song, platform table and tick count; hence C12_seek_eq_play_flat: skip_ticks(n) and n+1 play_tick()s agree on obs with NO aliveness "
              "or no-error hypothesis (whole-state equality when still enabled: C12_seek_eq_play_flat_enabled; after playing: C12_seek_eq_play_flat_after_play; instance flatRoot_flat, "
              "C12_example_flat_lands). (3) The same for FlatL = Flat plus SEGNO (loop point) and explicit END events, fewer than 49000 events -- tracks that play forever: noerr_of_flatL "
              "(the fetch loop is bounded through the zero-time guard of the root END: play_time is constant within one run, so at most one jump back per run, at most 2*length+3 "
              "steps), C12_seek_eq_play_flatL, C12_seek_eq_play_flatL_enabled; instance flatLRoot_flatL, C12_example_flatL_lands (seek 20 lands in the ninth pass). (4) The same for Loop1 = \"other\" events plus non-nested, closed counted loops [..]n with 0<=n<=255 and no "
              "LOOP_BREAK, under the decidable weight bound W(root)+255*(length+1)<100000: noerr_of_loop1 (invariant: stack empty or one LOOP frame consistent with the position; "
              "measure = weight of the rest of the track + count*(length+1), the jump back at LOOP_END is paid by one unit of the count), C12_seek_eq_play_loop1, "
              "C12_seek_eq_play_loop1_enabled; instance loopRoot_loop1, C12_example_loop1_lands (seek 10 lands in the second pass of the second loop).")
LEVEL_NOTE = ("Trusted: Lean kernel (propext, Classical.choice, Quot.sound), Model/PlayerCh.lean + Model/Player.lean (agreement with player.cpp by differential testing), the step budget "
              "of the inner fetch loop (exhaustion would surface as an error state and is excluded by the no-error hypothesis; never observed). `event`, note_count and rest_count are "
              "outputs, not state. Seeks beyond the end of a finished track are outside the property (n up to the track length): there the two real paths differ in play_time exactly as "
              "the model does (skip_ticks adds the remaining distance, play_tick does not count on a stopped player); the spec oracle skips those n, the correspondence compares them. "
              "Round 3: for Flat / FlatL / Loop1 tracks no hypothesis is left (the <100000 / <49000 events bound resp. the weight bound of Loop1 is a model artefact: a run of 100000 zero-length events would exhaust the model's step "
              "budget, the C++ has none); for tracks with nested loops, loop breaks, loops combined with a loop point, calls, drum mode or PLATFORM the alive/no-error hypothesis remains and is decided per case by evaluation "
              "(correspondence + oracle). Seeks on non-fresh players are proved for settled states; since the `seekm` request the correspondence stream also seeks players that have played m+1 ticks (both real paths, the model, full state dumps and 24-tick futures).")
RULE = ("valid tracks from the song grammar (loops with breaks, calls, drum-mode routines, loop point, absolute and relative channel commands, tempo/volume mode switches, platform "
        "commands) x every seek distance n in 1..min(length,40) plus boundary distances; non-trivial = contains loop/call/drum/segno; distinct by request text")
EXPLANATION = "theorem over the model for all songs and n; correspondence on private-state dumps of both real paths; spec oracle = equality of the two real dumps and futures"
ASSUMPTIONS = ["track alive (enabled, no error) after n single ticks (one hypothesis; for the obs-level theorem only: no error after n ticks); discharged (no hypothesis) for Flat, FlatL and Loop1 tracks (C12_seek_eq_play_flat, C12_seek_eq_play_flatL, C12_seek_eq_play_loop1)",
               "inner fetch loops end within the step budget (proved for Flat, FlatL and Loop1 tracks)",
               "seek from a non-fresh player: the state is settled (proved for every state left by play_tick) and alive after n-1 further ticks"]

CORPUS = [
    "seek 0 1,2,3,4,5,6,7,8 T0:2.36.2.1,2.38.3.0,1.0.0.2",
    "seek 0 1,2,3,4,5,6,7,8,9,10,11,12 T0:2.1.1.1,4.0.0.0,2.2.1.0,5.0.0.0,13.3.0.0,2.3.1.1,6.3.0.0,2.4.2.0",
    "seek 0 1,2,3,4,5,6 T0:2.1.2.0,8.100.0.0,14.1.0.0,2.2.2.0 T100:2.9.1.1,18.5.0.0",
    "seek 0 1,2,3,4,5,6,7,8,9,10 T0:2.1.2.0,7.0.0.0,2.2.2.0,12.1.0.0",
    "seek 0 1,2,3,4,5,6,7,8 T0:26.1.0.0,2.100.3.1,2.101.2.2,26.0.0.0,2.5.1.0 T100:13.9.0.0,2.40.0.0 T101:2.41.0.0",
    "seek 0 1,2,3,4 T0:11.-32768.0.0,2.1.2.0,16.120.0.0,27.9.0.0,2.2.2.0 P:-32768",
    # a loop point set in a subroutine lands at the end of the calling track: the loop section takes no
    # time and the player must end the track (repository fix d90bcf9; it hung before)
    "seek 0 1,2,3,4,5,6 T0:8.100.0.0 T100:7.0.0.0,2.9.1.1",
    "seek 0 1,2,3,4,5,6 T0:8.100.0.0,13.3.0.0 T100:2.9.1.1,7.0.0.0,2.8.1.0",
    # seek distances around and beyond 16 bits (a long loop of long notes with a running volume change)
    "seek 0 65534,65535,65536,65537,66000,70000,99999,131071,131072,131073 T0:16.3.0.0,4.0.0.0,2.40.900.100,18.1.0.0,1.0.0.500,6.100.0.0,2.41.10.0",
    "seek 0 65535,65536,65537,80000 T0:4.0.0.0,2.40.65535.0,18.1.0.0,2.41.1.0,6.3.0.0",
    # round 2: the track of C12_example_alive (loop with break, call, relative commands; n = 8 lands inside the note of
    # track 100) and the one-tick track of C12_past_end_playTime_differs (n = 2,3,4 are past the end: play_time differs)
    "seek 0 1,2,3,4,5,6,7,8,9,10,11,12,13,14,15,16 T0:4.0.0.0,2.1.2.1,5.0.0.0,12.2.0.0,2.2.1.0,6.2.0.0,8.100.0.0,2.5.3.1 T100:2.9.2.1,14.1.0.0",
    "seek 0 1,2,3,4 T0:2.1.1.0",
    # round 3: seeks on a player that is not fresh — the example of C12_seek_eq_play_after_play (seek 3 after 4 played
    # ticks) and every split m+n of the same track; a zero-time run behind the landing tick; drum mode; loop point
    "seekm 0 3 1,2,3,4,5,6,7,8,9,10,11,12 T0:4.0.0.0,2.1.2.1,5.0.0.0,12.2.0.0,2.2.1.0,6.2.0.0,8.100.0.0,2.5.3.1 T100:2.9.2.1,14.1.0.0",
    "seekm 0 0 1,2,3,4,5,6,7,8 T0:4.0.0.0,2.1.2.1,5.0.0.0,12.2.0.0,2.2.1.0,6.2.0.0,8.100.0.0,2.5.3.1 T100:2.9.2.1,14.1.0.0",
    "seekm 0 7 1,2,3,4,5,6,7,8 T0:4.0.0.0,2.1.2.1,5.0.0.0,12.2.0.0,2.2.1.0,6.2.0.0,8.100.0.0,2.5.3.1 T100:2.9.2.1,14.1.0.0",
    "seekm 0 2 1,2,3,4,5,6 T0:26.1.0.0,2.100.3.1,2.101.2.2,26.0.0.0,2.5.1.0 T100:13.9.0.0,2.40.0.0 T101:2.41.0.0",
    "seekm 0 4 1,2,3,4,5,6,7,8,9,10,11,12,13,14,15,16,17,18,19,20 T0:2.1.2.0,7.0.0.0,2.2.2.0,12.1.0.0",
]


def zero_run_cases(T, tier):
    """Long runs of events that take no time between two timed events (seeded change C12-8: play_tick read at
    most 256 events per tick, skip_ticks all of them).  Both paths must read the whole run inside one tick,
    however long: runs of 255/256/257/300/1000 plain commands, command-only loops ([V+1 p3 V-1]90 = 361 fetches),
    nested command-only loops, a run inside a called subroutine, a run before the first note, a run at the loop
    point.  The running relative volume makes the number of commands applied visible in the channel variables."""
    ev = lambda t, p=0, on=0, off=0: (T[t], p, on, off)
    a, b, c = ev("NOTE", 36, 2, 1), ev("NOTE", 38, 1, 1), ev("NOTE", 40, 2, 0)
    run = lambda k: [ev("VOL_FINE_REL", 1) if i % 3 else ev("PAN", 1 + i % 3) for i in range(k)]
    loop = lambda body, n: [ev("LOOP_START")] + body + [ev("LOOP_END", n)]
    lens = [255, 256, 257, 300] + ([1000, 5000] if tier != "quick" else [])
    songs = []
    for k in lens:
        songs.append(("run-%d" % k, {0: [a] + run(k) + [b, c]}))
    songs.append(("run-first", {0: run(300) + [a, b]}))
    songs.append(("loop-90", {0: [a] + loop([ev("VOL_FINE_REL", 1), ev("PAN", 3), ev("VOL_FINE_REL", -1)], 90) + [b, c]}))
    songs.append(("loop-nested", {0: [a] + loop(loop([ev("VOL_FINE_REL", 1)], 20) + [ev("PAN", 2)], 15) + [b, c]}))
    songs.append(("run-in-sub", {0: [a, ev("JUMP", 100), b, c], 100: run(280)}))
    songs.append(("run-at-segno", {0: [a, ev("SEGNO")] + run(300) + [b, c]}))
    songs.append(("run-in-loop", {0: loop([a] + run(100), 4) + [b]}))
    for name, song in songs:
        yield Case("seek 0 1,2,3,4,5,6,7,8,9,10,11,12,13,14 %s" % songgen.render(song), ("zero-run", name), "zero-run")


def cases(rng, tier):
    for c in CORPUS:
        yield Case(c, ("corpus",), "corpus")
    T = songgen.event_types()
    for c in zero_run_cases(T, tier):
        yield c
    n = 220 if tier == "quick" else 3000
    made = 0
    while made < n:
        drum = rng.random() < 0.25
        g = songgen.G(rng, max_depth=rng.choice([0, 1, 2, 3]), subs=rng.choice([[], [100], [100, 101]]),
                      counts=[0, 1, 2, 2, 3, 4], allow_neg=False, durs=[1, 1, 2, 2, 3, 4, 6, 9], max_items=6,
                      cmds=["VOL", "INS", "TRANSPOSE", "PAN", "VOL_REL", "TEMPO_BPM", "DETUNE", "TRANSPOSE_REL", "VOL_FINE", "TEMPO", "SLUR",
                            "VOL_FINE_REL", "VOL_ENVELOPE", "PITCH_ENVELOPE", "PORTAMENTO", "PAN_ENVELOPE"])
        song = g.song(1)
        tags = set()
        extra = ""
        if drum:
            # drum mode: notes call routines 200/201 which end at their first note
            song[200] = [g.ev("VOL", 7), g.ev("NOTE", 40, 0, 0)]
            song[201] = [g.ev("INS", 3), g.ev("LOOP_START"), g.ev("PAN", 1), g.ev("LOOP_END", 2), g.ev("NOTE", 41, 0, 0)]
            evs = [g.ev("DRUM_MODE", 1)]
            for e in song[0]:
                if e[0] == T["NOTE"]:
                    e = (e[0], rng.choice([200, 201]), e[2], e[3])
                evs.append(e)
            song[0] = evs
            for sid in (100, 101):
                if sid in song:
                    song[sid] = [e for e in song[sid] if e[0] != T["NOTE"]] + [g.ev("REST", 0, 0, 1)]
            tags.add("drum")
        if rng.random() < 0.2:
            song[0].insert(rng.randrange(0, len(song[0]) + 1), g.ev("PLATFORM", -32768))
            extra = " P:-32768"
            tags.add("platform")
        size = songgen.expanded_size(song, 0, T)
        if size > 400:
            continue
        flat = [e for evs in song.values() for e in evs]
        types = {e[0] for e in flat}
        if T["LOOP_START"] in types: tags.add("loop")
        if T["LOOP_BREAK"] in types: tags.add("break")
        if T["JUMP"] in types: tags.add("call")
        if T["SEGNO"] in types: tags.add("segno")
        ns = sorted(set(list(range(1, 41)) + [rng.randrange(41, 200) for _ in range(4)]))
        made += 1
        yield Case("seek 0 %s%s %s" % (",".join(map(str, ns)), extra, songgen.render(song)), sorted(tags) or ["plain"], "structured")
        # round 3: the same track, seeks on a player that has already played m+1 ticks (C12_seek_eq_play_after_play)
        if made % 2 == 0:
            m = rng.choice([0, 1, 2, 3, 5, 8, 13, rng.randrange(0, 40)])
            ns2 = sorted(set(list(range(1, 25)) + [rng.randrange(25, 120) for _ in range(3)]))
            yield Case("seekm 0 %d %s%s %s" % (m, ",".join(map(str, ns2)), extra, songgen.render(song)), sorted(tags | {"non-fresh"}), "structured-nonfresh")


_BRK = None


def normalize(a):
    """the player overwrites LOOP_BREAK's parameter with the loop's end position (a conversion aid,
    modelled under C16): masked in the recorded write_event streams"""
    global _BRK
    if _BRK is None:
        _BRK = songgen.event_types()["LOOP_BREAK"]
    return re.sub(r"(?<=[,:|=])%d\.-?\d+(?=[,| ]|$)" % _BRK, "%d.0" % _BRK, a)


def outcome_class(a):
    if "err:" in a:
        return "has-error-path"
    return "ok"


def finding_key(case, impl, judge):
    if impl.startswith("crash") or impl == "timeout" or impl.startswith("uncaught"):
        m = re.search(r"(\w+\.cpp:\d+)", impl)
        return "crash:" + (m.group(1) if m else "unknown")
    if "future" in judge:
        return "future-differs"
    if "one path fails" in judge:
        return "error-asymmetry"
    return "state-differs"


def shrink(req):
    toks = req.split()
    song = songgen.parse_request_song(req)
    if toks[0] == "seekm":
        extra = " ".join(t for t in toks if t.startswith("P:"))
        ns = toks[3].split(",")
        if len(ns) > 1:
            for i in range(len(ns)):
                yield " ".join(["seekm", toks[1], toks[2], ",".join(ns[:i] + ns[i + 1:])] + ([extra] if extra else []) + [songgen.render(song)])
        for s2 in songgen.shrink_song(song):
            if 0 in s2:
                yield " ".join(["seekm", toks[1], toks[2], toks[3]] + ([extra] if extra else []) + [songgen.render(s2)])
        return
    head = " ".join(t for t in toks[:3] if not t.startswith("T"))
    extra = " ".join(t for t in toks if t.startswith("P:"))
    # fewer n first
    ns = toks[2].split(",")
    if len(ns) > 1:
        for i in range(len(ns)):
            yield " ".join(["seek", toks[1], ",".join(ns[:i] + ns[i + 1:])] + ([extra] if extra else []) + [songgen.render(song)])
    for s2 in songgen.shrink_song(song):
        if 0 in s2:
            yield " ".join(["seek", toks[1], toks[2]] + ([extra] if extra else []) + [songgen.render(s2)])
