"""C11 — Instrument and envelope definitions are encoded faithfully."""
import re
from vlib.core import Case

ID = "C11"
LEAN_MODULE = "Ctrmml.Properties.C11"
THEOREMS = ["C11_fm_roundtrip", "C11_fm_2op_spec", "C11_fm_base_inv", "C11_fm_2op_base", "C11_psg_frames", "C11_psg_marks", "C11_psg_loop_checked",
            "C11_psg_marks_fit", "C11_pitch_node", "C11_pitch_node_limit", "C11_pitch_step_checked",
            "C11_pitch_vibrato", "C11_vibrato_rate", "C11_pitch_decode_compact", "C11_pitch_decode_extended", "C11_pitch_loop_checked",
            "C11_pitch_form", "C11_psg_slide_binary64", "C11_psg_binary64", "C11_pitch_readback", "C11_full_partial",
            "C11_full_binary64_partial",
            "C11_psg_slide_rat_partial"]
LEVEL = "proof"
STREAM = "data.bank"
CHUNK = 150
CASE_SECONDS = 20
RULE = ("instrument/envelope definitions fed as tag lists into a Song (and, for a smaller family, as MML text through MML_Input) and run "
        "through MDSDRV_Data::read_song: FM definitions with all 42 parameters random in range (and out of range in the malformed stream), "
        "every 2op derivation of them, 2op definitions referencing every kind of base (fm, psg, instrument 0, missing, itself, another 2op, a "
        "redefined id), definitions without a type, PSG envelopes over values 0..15 with slides, lengths 1..255, default length, sustain and loop marks, "
        "the exhaustive family of single PSG slides (initial,target,length) [quick: all with length<=24 plus a sample; thorough: all 65280], "
        "pitch envelopes with integer and decimal nodes in +-127 semitones, lengths 1..1000, vibrato macro, loop mark, with and without "
        "noextpitch, envelopes of 254..258 nodes in every form (the 256-node limit) and lengths / vibrato rates around 2^30, 2^31, 2^32, "
        "PSG envelopes with 253..258 envelope bytes in front of the loop mark (the byte limit of the loop position), pitch nodes whose step per frame "
        "is around +-128 semitones (the 16-bit limit of the step) in every form. non-trivial = at least one definition that reaches an encoder (tag of its kind); distinct by request text")
EXPLANATION = ("theorems over Model/MdsData (generic in the floating-point arithmetic, instantiated for binary64 written out in Lean = Arith.b64) + "
               "Spec/MdsData decoders; the model is run with the hardware doubles (Lean Float) and compared byte for byte with mdsdrv.cpp on every case, "
               "run a second time with Arith.b64 and compared with the first run (judge verdict 'fail b64' on any difference), and the independent "
               "decoders decodeFm / expandPsg / runPitchEnv are applied to the real data-bank bytes")
ASSUMPTIONS = ["C++ double arithmetic is IEEE-754 binary64 round-to-nearest without excess precision (x86-64 SSE2); glibc strtod/printf are correctly rounding",
               "Arith.b64 (Model/MdsData: sign, 53-bit significand, unbounded exponent, every operation = exact result rounded to nearest even by B64.round) "
               "is what models the double arithmetic in C11_psg_slide_binary64 / C11_psg_binary64; it has no overflow, subnormals, infinities, NaN or signed "
               "zero (not reachable from tokens of fewer than 300 digits); its agreement with the hardware doubles is checked on every request of every run "
               "(all 65280 single slides in the thorough tier), not proved",
               "the exact-decimal pitch clauses (PitchExact, hypothesis of C11_full_partial) are decided per case by the judge, not proved",
               "pcm instruments are not modelled here (property C14)",
               "token parsing (strtol/strtod on tag items) is tied by correspondence only; theorems start from the parsed numbers"]
TRUSTED = ["IEEE-754 binary64 semantics of Lean's Float = the C++ double (driver side of the model)",
           "Arith.b64 = IEEE-754 binary64 on the values the encoders compute (Lean-side model of the double operations, compared with Float by the driver)"]

FM_FIELDS = [32, 32, 32, 16, 16, 128, 4, 16, 8, 16]  # AR DR SR RR SL TL KS ML DT SSG


def fm_def(rng, wild=False):
    toks = [rng.randrange(8), rng.randrange(8)]
    for _ in range(4):
        for j, m in enumerate(FM_FIELDS):
            v = rng.randrange(m) if not wild or rng.random() < 0.8 else rng.choice([m, 255, 256, 300, 99, 100, 199, 200, -1])
            if j == 9 and rng.random() < 0.3 and not wild:
                v += 100
            toks.append(v)
    return [str(t) for t in toks]


def psg_value(rng):
    i = rng.randrange(16)
    r = rng.random()
    s = str(i)
    if r < 0.45:
        s += ">%d" % rng.randrange(16)
    if rng.random() < 0.5:
        s += ":%d" % rng.choice([1, 1, 2, 3, 4, 5, 7, 8, 14, 15, 16, 17, 30, 31, 32, 33, 60, 100, 200, 254, 255, rng.randrange(1, 256)])
    return s


def psg_def(rng, n=None):
    toks = []
    n = n if n is not None else rng.choice([1, 1, 2, 3, 4, 6, 9])
    have = False
    looped = False
    for k in range(n):
        r = rng.random()
        if r < 0.08:
            toks.append("l:%d" % rng.choice([1, 2, 3, 15, 16, 17, 40, 255]))
        if r > 0.85 and have:
            toks.append("/")
            have = False
        if 0.5 < r < 0.62 and not looped:
            toks.append("|")
            looped = True
        v = psg_value(rng)
        if rng.random() < 0.3 and toks and re.match(r"\d", toks[-1] if toks[-1] not in "|/" else "x"):
            # repeat the previous target so that merging happens
            prev = toks[-1]
            last = re.split(r"[>:]", prev)[1 if ">" in prev else 0]
            v = last + (":%d" % rng.randrange(1, 30) if rng.random() < 0.5 else "")
        elif rng.random() < 0.25 and toks and toks[-1] == "|" and len(toks) > 1 and re.match(r"\d", toks[-2]):
            prev = toks[-2]
            v = re.split(r"[>:]", prev)[1 if ">" in prev else 0]
        toks.append(v)
        have = True
    return toks


def pitch_num(rng, dec):
    v = rng.choice([0, 0, 1, -1, 2, 12, -12, 7, 24, 48, 100, 126, -126, 127, -127, rng.randrange(-127, 128)])
    if dec and rng.random() < 0.5:
        sign = "-" if v < 0 or (v == 0 and rng.random() < 0.3) else ""
        a = abs(v)
        if a >= 127:
            a = 126
        f = rng.choice(["5", "25", "75", "125", "1", "3", "05", "15", "333", "7", "0", "00390625", "99", "999"])
        return "%s%d.%s" % (sign, a, f)
    return str(v)


def pitch_node(rng, dec):
    s = pitch_num(rng, dec)
    r = rng.random()
    if r < 0.6:
        s += ">" + pitch_num(rng, dec)
    if rng.random() < 0.7:
        s += ":%d" % rng.choice([1, 1, 2, 3, 4, 5, 10, 16, 60, 100, 254, 255, 256, 257, 300, 509, 510, 511, 512, 765, 766, 1000, rng.randrange(1, 1001)])
    return s


def pitch_def(rng, dec):
    toks = []
    n = rng.choice([1, 1, 2, 3, 5])
    looped = False
    for _ in range(n):
        r = rng.random()
        if r < 0.15 and not looped:
            toks.append("|")
            looped = True
        if r > 0.85:
            b = rng.choice(["0", "0", "1", "-1", "12", "0.5", "-0.25", "0.1"]) if dec else rng.choice(["0", "0", "1", "-2", "12"])
            d = rng.choice(["1", "0.5", "2", "0.3", "0.25", "4", "24", "0.1"]) if dec else rng.choice(["1", "2", "4", "24", "200"])
            toks.append("V%s:%s:%d" % (b, d, rng.choice([1, 2, 3, 5, 8, 20, 100, 128, 200])))
            looped = True
        else:
            toks.append(pitch_node(rng, dec))
    return toks


def req(groups, noext=False):
    return "ins " + ("opt=noextpitch " if noext else "") + " ".join("; " + k + " " + " ".join(t) for k, t in groups)


def tags_of(groups, noext):
    t = set()
    for k, toks in groups:
        if k.startswith("@m"):
            t.add("pitch")
            if any(x.startswith("V") for x in toks): t.add("pitch-vibrato")
            if "|" in toks: t.add("pitch-loop")
            if any("." in x for x in toks): t.add("pitch-decimal")
            for x in toks:
                m = re.search(r":(\d+)$", x)
                if m and int(m.group(1)) > 255: t.add("pitch-len>255")
        elif toks and toks[0] == "fm":
            t.add("fm")
        elif toks and toks[0] == "2op":
            t.add("2op")
        elif toks and toks[0] == "psg":
            t.add("psg")
            if "|" in toks: t.add("psg-loop")
            if "/" in toks: t.add("psg-sustain")
            if any(">" in x for x in toks): t.add("psg-slide")
            if any(x.startswith("l:") for x in toks): t.add("psg-deflen")
    if noext: t.add("noextpitch")
    return sorted(t)


FM1 = "3 0 31 0 19 5 0 23 0 0 0 0 31 6 0 4 3 19 0 0 0 0 31 15 0 5 4 38 0 4 0 0 31 27 0 11 1 0 0 1 0 0".split()
FM2 = "4 0 20 5 0 1 1 9 0 4 7 0 31 8 4 7 2 0 0 4 0 0 20 5 0 1 1 9 0 1 7 0 31 8 4 7 2 127 0 1 0 0".split()

CORPUS = [
    # D20: a value after the loop mark equal to the value before it
    "ins ; @10 psg 15 | 15 10",
    "ins ; @10 psg 15 | 15",
    "ins ; @10 psg 15 / | 15 10",
    "ins ; @10 psg 3:4 | 3:20 2",
    # mml_ref.md examples
    "ins ; @1 fm " + " ".join(FM1) + " 0",
    "ins ; @2 fm " + " ".join(FM2) + " ; @24 2op 2 5 5 4 4 0 ; @25 2op 2 4 4 3 3 5 ; @26 2op 2 7 7 5 5 -4",
    "ins ; @10 psg 1 4 6 8 10 12 13 14 15 ; @11 psg 15>10 ; @12 psg 15:10 15>0:100 l:40 15 14 13 ; @13 psg 15 14 / 13>0:7 ; @14 psg 0>14:7 | 15 10 5 0 5 10",
    "ins ; @m1 0 4 7 ; @m2 0>12:10 | V0:1:5 ; @m3 V0:0.5:3 ; @m4 0:10 | 0>1:5 1>-1:10 -1>0:5",
    # float -> int16 overflow of the per-frame step (was undefined behaviour in add_pitch_node; an InputError since f788cbf),
    # the largest steps that still fit (+-127.99 semitones per frame), in every form
    "ins ; @m2 -127>127:1",
    "ins ; @m2 100>-100:1 0",
    "ins opt=noextpitch ; @m2 -127>127:1",
    "ins opt=noextpitch ; @m2 100>-100:1 0",
    "ins ; @m2 0 -127>127:1 ; @1 psg 15",
    "ins ; @m2 -64>63.99:1",
    "ins ; @m2 -64>64:1",
    "ins ; @m2 64>-64:1",
    "ins ; @m2 64>-64.01:1",
    "ins ; @m2 -127>127:2",
    "ins ; @m2 -127>127:1 0",
    "ins ; @m2 0>127:1 | -127>127.5:2",
    "ins opt=noextpitch ; @m2 -64>63.99:1",
    "ins opt=noextpitch ; @m2 64>-64:1",
    "ins ; @m2 V0:300:1",
    "ins ; @m2 V0:255:1",
    "insmml " + "@M1 -127>127:1\n".encode().hex(),
    # compact vs extended, with and without noextpitch
    "ins ; @m3 0>100:2",
    "ins opt=noextpitch ; @m3 0>100:2",
    "ins ; @m5 0>3:510 ; @m6 0>1:510 ; @m7 127>0:1000 ; @m8 127 ; @m9 0>12",
    # 2op: the base must be an FM instrument (fix 45b84a6: a PSG base was copied as if it were 30 bytes) —
    # psg, the predefined instrument 0 (type undefined), missing, itself, an fm, another 2op, an fm redefined as psg
    "ins ; @1 psg 15 ; @24 2op 1 1 1 1 1 0",
    "ins ; @1 psg 15 ; @2 2op 1 1 1 1 1 0",
    "ins ; @2 2op 0 1 1 1 1 0",
    "ins ; @2 2op 7 1 1 1 1 0",
    "ins ; @2 2op 2 1 1 1 1 0",
    "ins ; @1 fm " + " ".join(FM2) + " ; @2 2op 1 5 5 4 4 0 ; @3 2op 2 1 2 3 4 -4 ; @3 2op 3 9 9 9 9 9",
    "ins ; @1 fm " + " ".join(FM2) + " ; @01 psg 15 14 ; @2 2op 1 5 5 4 4 0",
    "ins ; @1 fm " + " ".join(FM2) + " ; @01 psg ; @2 2op 1 5 5 4 4 0",
    "ins ; @1 fm " + " ".join(FM2) + " ; @2 2op 257 5 5 4 4 0 ; @3 2op 513 1 1 1 1 1",
    # an instrument definition without a type (fix 696884e: tag.begin() of an empty tag was dereferenced)
    "ins ; @1",
    "ins ; @1 ; @2 psg 15",
    "ins ; @2 psg 15 ; @1 ; @3 psg 14",
    "insmml " + "@1 ;comment\n".encode().hex(),
    "insmml " + "@1\n@2 psg 15\n".encode().hex(),
    "insmml " + "@1 ;c\n\tpsg 15\n".encode().hex(),
    # FM transpose near LONG_MAX (fix 4b9aa87: (strtol + 24) * 2 overflowed a long; strtol saturates)
    "ins ; @1 fm " + " ".join(FM1) + " 9223372036854775807",
    "ins ; @1 fm " + " ".join(FM1) + " 9223372036854775795",
    "ins ; @1 fm " + " ".join(FM1) + " 99999999999999999999",
    "ins ; @1 fm " + " ".join(FM1) + " -9223372036854775808",
    "ins ; @1 fm " + " ".join(FM1) + " -99999999999999999999",
    "ins ; @1 fm " + " ".join(FM1) + " 4611686018427387904",
    # vibrato rate of 2^30 or more (fix a95256a: vibrato_rate*2 overflowed an int) and the 256-node limit
    # (fix 54bd60e: these were split into millions of nodes)
    "ins ; @m1 V0:1:1073741824",
    "insmml " + "@M1 V0:1:1073741824\n".encode().hex(),
    "insmml " + "@M1 V0:1:99999999\n".encode().hex(),
    "insmml " + "@M1 0>1:2000000000\n".encode().hex(),
    "ins ; @m1 V0:1:1073741823",
    "ins ; @m1 V0:1:2147483647",
    "ins ; @m1 V0:1:-1073741825",
    # the doubled rate is read back into an int: -2^31 * 2 wraps to 0, i.e. one frame (only the middle node exists)
    "ins ; @m1 V0:1:-2147483648",
    "ins ; @m1 V0:1:4294967297",
    "ins ; @m1 V0:1:99999999999999999999",
    # a written length is an int as well
    "ins ; @m1 0:4294967297",
    "ins ; @m1 0 0:2147483648 1",
    "ins ; @m1 0>1:4294967298",
    # exactly 255 / 256 / 257 nodes: single nodes, one long node, extended form, noextpitch
    "ins ; @m1 " + " ".join(["0", "1"] * 127) + " 0",
    "ins ; @m1 " + " ".join(["0", "1"] * 128),
    "ins ; @m1 " + " ".join(["0", "1"] * 128) + " 0",
    "ins ; @m1 0>1:65025 ; @m2 0>1:65280 ; @m3 0>1:65279",
    "ins ; @m1 0>1:65281",
    "ins ; @m1 0:255 0>1:65025",
    "ins ; @m1 0:255 0>1:65026",
    "ins ; @m1 " + " ".join(["0>100:2"] * 256),
    "ins ; @m1 " + " ".join(["0>100:2"] * 257),
    "ins ; @m1 0>120:65280",
    "ins ; @m1 0>120:65281",
    "ins opt=noextpitch ; @m1 " + " ".join(["0>100:2"] * 256),
    "ins opt=noextpitch ; @m1 " + " ".join(["0>100:2"] * 257),
    # the compact form throws invalid_argument at the 257th node before it would be too long: the extended pass reports it
    "ins ; @m1 " + " ".join(["0"] * 256) + " 0>100:2",
    "ins ; @m1 " + " ".join(["0"] * 255) + " 0>100:2",
    # loop position 256 = 256 nodes, then the mark (or a vibrato macro that adds no node): wrapped to 00 after 54bd60e,
    # an InputError since 1772c47; 255 nodes then the mark is position 255 and is accepted
    "ins ; @m1 " + " ".join(["0", "1"] * 128) + " |",
    "ins ; @m1 " + " ".join(["0", "1"] * 127) + " 0 |",
    "ins ; @m1 " + " ".join(["0", "1"] * 128) + " V0:1:-5",
    "ins ; @m1 " + " ".join(["0>100:2"] * 256) + " |",
    "ins ; @m1 " + " ".join(["0>100:2"] * 255) + " |",
    "ins ; @m1 0:65280 |",
    "ins ; @m1 " + " ".join(["0:1000"] * 64) + " |",
    "ins ; @m1 " + " ".join(["0:1000"] * 63) + " 0:999 |",
    # loop mark with 256 nodes in front of it / behind it
    "ins ; @m1 | " + " ".join(["0", "1"] * 128),
    "ins ; @m1 " + " ".join(["0", "1"] * 127) + " 0 | 5",
    "ins ; @m1 " + " ".join(["0", "1"] * 126) + " 0 V0:1:5",
    "ins ; @m1 " + " ".join(["0", "1"] * 126) + " 0 1 V0:1:5",
    # the error stops read_song: later definitions are not read
    "ins ; @m1 0>1:65281 ; @1 psg 15",
    # float vs exact-rational difference in a PSG slide (frame 3 is 0 in binary64, 1 in exact arithmetic)
    "ins ; @10 psg 0>1:7",
    # PSG loop position above 255: was emitted as one byte (wrapped), an InputError since ff36345; position 255 is the last
    # accepted one, 256 the first rejected; sustain bytes count; without a loop mark any size is accepted; the error stops read_song;
    # the pitch twins are an InputError since 54bd60e
    "ins ; @1 psg " + " ".join(["15", "14"] * 130) + " | 3 2",
    "ins ; @1 psg " + " ".join(["15", "14"] * 127) + " 15 | 3 2",
    "ins ; @1 psg " + " ".join(["15", "14"] * 128) + " | 3 2",
    "ins ; @1 psg " + " ".join(["15", "14"] * 128) + " |",
    "ins ; @1 psg " + " ".join(["15", "14"] * 128) + " 13",
    "ins ; @1 psg " + " ".join(["15", "14", "/"] * 85) + " | 3",
    "ins ; @1 psg " + " ".join(["15", "14", "/"] * 85) + " 13 | 3",
    "ins ; @1 psg | " + " ".join(["15", "14"] * 200),
    "ins ; @1 psg " + " ".join(["15", "14"] * 100) + " | " + " ".join(["15", "14"] * 100),
    "ins ; @1 psg 15:255 14:255 15:255 14:255 15:255 14:255 15:255 14:255 15:255 14:255 15:255 14:255 15:255 14:255 15:255 14:255 | 3",
    "ins ; @1 psg " + " ".join(["15", "14"] * 130) + " | 3 2 ; @2 psg 15",
    "insmml " + ("@1 psg " + " ".join(["15", "14"] * 130) + " | 3 2\n").encode().hex(),
    "ins ; @m1 " + " ".join(["0", "1"] * 130) + " | 3 2",
    "ins ; @m1 " + " ".join(["0>100:2", "1"] * 130) + " 0>1:5",
    # errors
    "ins ; @1 fm 1 2 3",
    "ins ; @1 bogus 1 2 3",
    "ins ; @1 psg 15 x",
    "ins ; @1 psg l:5 15 l5 l: 3",
    "ins ; @m1 0 x",
    # a pitch envelope whose only node has a non-positive length emits nothing (was: back() on an empty vector)
    "ins ; @m1 7:-3",
    "ins ; @m1 | 7:-3",
    "ins ; @m1 V0:1:0",
    "ins ; @1 psg ; @m2 ; #title hello ; @x 1",
]


def slide_family(rng, tier):
    """every single PSG slide (initial, target, length): the finite statement SlideOK for binary64"""
    lens = range(1, 256)
    for n in lens:
        full = tier == "thorough" or n <= 24 or n in (254, 255)
        pairs = [(i, t) for i in range(16) for t in range(16)]
        if not full:
            pairs = rng.sample(pairs, 10)
        # 16 slides per request, ids 1..16
        for k in range(0, len(pairs), 16):
            groups = [("@%d" % (j + 1), ["psg", "%d>%d:%d" % (i, t, n)]) for j, (i, t) in enumerate(pairs[k:k + 16])]
            yield Case(req(groups), ("psg", "psg-slide", "psg-slide-family"), "psg-slide")


def ref2op_family(rng, tier):
    """a 2op definition referencing every kind of base: an fm, a psg, the predefined instrument 0, a missing id, itself,
    another 2op, an fm whose id was redefined (key @01) as psg / empty psg / fm, an id that only differs modulo 256"""
    bases = ["fm", "psg", "zero", "missing", "self", "2op", "fm-then-psg", "fm-then-emptypsg", "psg-then-fm", "mod256", "later-fm",
             "pitch"]
    for kind in bases:
        for rep_ in range(3 if tier == "quick" else 12):
            d = fm_def(rng)
            two = [str(rng.randrange(16)) for _ in range(4)] + [str(rng.choice([0, 5, -4, -24, 103, rng.randrange(-24, 104)]))]
            fm = ("@1", ["fm"] + d + ([str(rng.randrange(-24, 104))] if rng.random() < 0.5 else []))
            psg = ("@1", ["psg"] + psg_def(rng))
            if kind == "fm": groups = [fm, ("@2", ["2op", "1"] + two)]
            elif kind == "psg": groups = [psg, ("@2", ["2op", "1"] + two)]
            elif kind == "zero": groups = [fm, ("@2", ["2op", "0"] + two)]
            elif kind == "missing": groups = [fm, ("@2", ["2op", str(rng.choice([3, 7, 200, 255]))] + two)]
            elif kind == "self": groups = [fm, ("@2", ["2op", "2"] + two)]
            elif kind == "2op": groups = [fm, ("@2", ["2op", "1"] + two), ("@3", ["2op", "2"] + [str(rng.randrange(16)) for _ in range(4)] + ["7"])]
            elif kind == "fm-then-psg": groups = [fm, ("@01", ["psg"] + psg_def(rng)), ("@2", ["2op", "1"] + two)]
            elif kind == "fm-then-emptypsg": groups = [fm, ("@01", ["psg"]), ("@2", ["2op", "1"] + two)]
            elif kind == "psg-then-fm": groups = [psg, ("@01", ["fm"] + fm_def(rng)), ("@2", ["2op", "1"] + two)]
            elif kind == "mod256": groups = [fm, ("@2", ["2op", str(rng.choice([257, 513, -255]))] + two)]
            elif kind == "later-fm": groups = [("@2", ["2op", "1"] + two), fm]
            else: groups = [("@m1", ["0", "1"]), ("@2", ["2op", "1"] + two)]
            yield Case(req(groups), tags_of(groups, False) + ["2op-ref:" + kind], "2op-ref")


def limit_family(rng, tier):
    """pitch envelopes of 254..258 nodes: add_pitch_node rejects the 257th (fix 54bd60e)"""
    counts = [254, 255, 256, 257, 258]
    for n in counts:
        for form in ["singles", "long", "two-long", "extended", "noext-capped", "late-extended", "loop-first", "loop-mid", "loop-end",
                     "loop-end-extended", "vib-none-end", "vib-tail", "vib-head", "two-envelopes"]:
            noext = form == "noext-capped"
            if form == "singles":
                toks = [str(rng.choice([0, 1, -1, 12])) for _ in range(n)]
            elif form == "long":
                k = rng.randrange(1, 256)
                toks = ["%d>%d:%d" % (rng.choice([0, 1, -3]), rng.choice([0, 2, 5]), 255 * (n - 1) + k)]
            elif form == "two-long":
                a = rng.randrange(1, n)
                toks = ["0:%d" % (255 * (a - 1) + rng.randrange(1, 256)), "1>0:%d" % (255 * (n - a - 1) + rng.randrange(1, 256))]
            elif form in ("extended", "noext-capped"):
                toks = ["0>100:2" if rng.random() < 0.5 else "0>-100:1" for _ in range(n)]
            elif form == "late-extended":
                toks = ["0"] * (n - 1) + ["0>100:2"]
            elif form == "loop-first":
                toks = ["|"] + [str(rng.choice([0, 1])) for _ in range(n)]
            elif form == "loop-mid":
                m = rng.randrange(1, min(n, 255))
                toks = [str(rng.choice([0, 1])) for _ in range(n)]
                toks.insert(m, "|")
            elif form == "loop-end":
                toks = [str(rng.choice([0, 1])) for _ in range(n)] + ["|"]
            elif form == "loop-end-extended":
                toks = ["0>100:2"] * n + ["|"]
            elif form == "vib-none-end":
                toks = [str(rng.choice([0, 1])) for _ in range(n)] + ["V0:1:%d" % rng.choice([-1, -5, -2147483647])]
            elif form == "vib-tail":
                toks = ["0"] * (n - 3) + ["V0:1:%d" % rng.choice([1, 5, 200])]
            elif form == "vib-head":
                toks = ["V0:1:%d" % rng.choice([1, 5, 200])] + ["0"] * (n - 3)
            else:
                toks = ["0"] * n
            groups = [("@m1", toks)]
            if form == "two-envelopes":
                # the limit is per envelope
                groups = [("@m1", ["1"] * 200), ("@m2", toks)]
            yield Case(req(groups, noext), tags_of(groups, noext) + ["pitch-nodes:%d" % n, "pitch-limit:" + form], "pitch-limit")
    # long single nodes and vibrato rates around the limit and around the int boundaries
    rates = [21760, 21761, 32640, 32641, 65280, 65281, 99999999, 1073741823, 1073741824, 2147483647, 2147483648, 4294967296, 4294967297,
             -1, -5, -1073741824, -1073741825, -2147483648, -2147483649]
    for r in rates:
        for tok in ("V0:1:%d" % r, "0>1:%d" % r, "3:%d" % r):
            groups = [("@m1", [tok])]
            yield Case(req(groups), tags_of(groups, False) + ["pitch-limit:rate"], "pitch-limit")
            if tier != "quick":
                groups = [("@m1", ["0", tok, "1"])]
                yield Case(req(groups), tags_of(groups, False) + ["pitch-limit:rate"], "pitch-limit")


def psg_limit_family(rng, tier):
    """PSG envelopes whose loop mark has 253..258 envelope bytes in front of it (the byte limit of fix ff36345), built from
    single values, merged runs (one byte per 15 frames), slides and sustain marks; with and without values behind the mark"""
    for nbytes in [253, 254, 255, 256, 257, 258, 300]:
        for form in ["singles", "runs", "sustains", "slides", "mixed", "no-loop", "loop-first", "two-loops"]:
            for rep_ in range(1 if tier == "quick" else 3):
                toks = []
                if form in ("singles", "no-loop", "loop-first", "two-loops"):
                    v = rng.randrange(16)
                    for k in range(nbytes):
                        v = (v + rng.randrange(1, 16)) % 16
                        toks.append(str(v))
                elif form == "runs":
                    # 15 frames per byte: a value held for 15*q+r frames takes q (+1) bytes
                    left = nbytes
                    v = rng.randrange(16)
                    while left > 0:
                        q = min(left, rng.randrange(1, 18))
                        v = (v + rng.randrange(1, 16)) % 16
                        n = 15 * (q - 1) + rng.randrange(1, 16)
                        if n > 255:
                            q = 17
                            n = 255
                            if q > left:
                                q, n = left, 15 * left
                        toks.append("%d:%d" % (v, n))
                        left -= q
                elif form == "sustains":
                    k = 0
                    while k < nbytes:
                        toks.append(str(rng.randrange(16)))
                        k += 1
                        if k < nbytes and rng.random() < 0.4:
                            toks.append("/")
                            k += 1
                    # two equal neighbours would merge: separate them
                    toks = [t if i == 0 or t == "/" or toks[i - 1] != t else str((int(t) + 1) % 16) for i, t in enumerate(toks)]
                else:
                    # slides expand to several bytes: the oracle (model) decides the size, the family only aims near the limit
                    k = 0
                    while k < nbytes - 16:
                        a, b = rng.randrange(16), rng.randrange(16)
                        toks.append("%d>%d" % (a, b) if a != b else str(a))
                        k += abs(a - b) + 1
                    toks += [str((j * 7) % 16) for j in range(nbytes - k)]
                if form == "loop-first":
                    toks = ["|"] + toks
                elif form == "two-loops":
                    toks = toks[:10] + ["|"] + toks[10:] + ["|"]
                elif form != "no-loop":
                    toks = toks + ["|"]
                if rng.random() < 0.7:
                    toks += [str(rng.randrange(16)) for _ in range(rng.randrange(1, 4))]
                groups = [("@1", ["psg"] + toks)]
                if rng.random() < 0.3:
                    groups.append(("@2", ["psg", "15", "14"]))
                yield Case(req(groups), tags_of(groups, False) + ["psg-limit:" + form, "psg-bytes:%d" % nbytes], "psg-limit")


def steep_family(rng, tier):
    """pitch nodes whose per-frame step is around the int16 limit (+-128 semitones per frame, fix f788cbf): single nodes,
    nodes behind others, in the compact pass, the extended pass and under noextpitch, steps reached through the length"""
    spans = [(-64, 63), (-64, 64), (64, -64), (63, -64), (-127, 127), (127, -127), (-127, 0), (0, 127), (-100, 100), (100, -100),
             (-127, 1), (-126, 2), (0, -127)]
    for a, b in spans:
        for n in [1, 2, 3]:
            for noext in (False, True):
                for form in ["single", "behind", "front", "decimal"]:
                    if form == "decimal":
                        tok = "%d>%d.%s:%d" % (a, abs(b) if b >= 0 else b, rng.choice(["99", "5", "996", "01"]), n)
                    else:
                        tok = "%d>%d:%d" % (a, b, n)
                    toks = {"single": [tok], "behind": ["0", "1>2:3", tok], "front": [tok, "0"], "decimal": [tok]}[form]
                    if rng.random() < 0.2:
                        toks = ["|"] + toks
                    groups = [("@m1", toks)]
                    if rng.random() < 0.3:
                        groups.append(("@1", ["psg", "15"]))
                    yield Case(req(groups, noext), tags_of(groups, noext) + ["pitch-steep:" + form], "pitch-steep")
    # vibrato depth: the middle node spans 2*depth/2 semitones in 2*rate frames
    for depth in [120, 127, 128, 200, 254, 255, 256, 300, 510, 512, 600]:
        for rate in [1, 2]:
            groups = [("@m1", ["V0:%d:%d" % (depth, rate)])]
            yield Case(req(groups), tags_of(groups, False) + ["pitch-steep:vibrato"], "pitch-steep")


def mml_text(rng):
    lines = []
    kind = []
    if rng.random() < 0.3:
        lines.append("#option noextpitch")
        kind.append("noextpitch")
    n = rng.choice([1, 2, 3])
    for k in range(n):
        r = rng.random()
        if r < 0.35:
            d = fm_def(rng)
            sep = rng.choice([" ", ", ", "\t", ","])
            lines.append("@%d fm ; patch" % (k + 1))
            lines.append("\t" + sep.join(d[:2]))
            for o in range(4):
                lines.append("\t " + sep.join(d[2 + 10 * o:12 + 10 * o]) + " ; OP%d" % (o + 1))
            if rng.random() < 0.5:
                lines.append("  %d" % rng.randrange(-12, 13))
            kind.append("fm")
            if rng.random() < 0.5:
                lines.append("@%d 2op %d %d %d %d %d %d" % (k + 20, k + 1, rng.randrange(16), rng.randrange(16), rng.randrange(16), rng.randrange(16), rng.randrange(-12, 13)))
                kind.append("2op")
        elif r < 0.7:
            d = psg_def(rng)
            if rng.random() < 0.5:
                lines.append("@%d psg %s" % (k + 10, " ".join(d)))
            else:
                lines.append("@%d psg" % (k + 10))
                lines.append("\t" + " ".join(d) + rng.choice(["", " ; env", "   "]))
            kind.append("psg")
        else:
            d = pitch_def(rng, rng.random() < 0.5)
            lines.append("@M%d %s" % (k + 1, " ".join(d)))
            kind.append("pitch")
    return "\n".join(lines) + "\n", kind


def cases(rng, tier):
    for c in CORPUS:
        yield Case(c, ("corpus",), "corpus")
    yield from slide_family(rng, tier)
    yield from ref2op_family(rng, tier)
    yield from limit_family(rng, tier)
    yield from psg_limit_family(rng, tier)
    yield from steep_family(rng, tier)
    big = tier != "quick"
    # FM + all 2op derivations
    for i in range(1500 if big else 120):
        d = fm_def(rng)
        tr = [str(rng.choice([0, 0, 1, -1, 12, -12, -24, 103, rng.randrange(-24, 104)]))] if rng.random() < 0.7 else []
        groups = [("@1", ["fm"] + d + tr)]
        for j in range(rng.choice([0, 1, 2, 4])):
            groups.append(("@%d" % (j + 2), ["2op", "1"] + [str(rng.randrange(16)) for _ in range(4)] + [str(rng.choice([0, 5, -4, -24, 103, rng.randrange(-24, 104)]))]))
        yield Case(req(groups), tags_of(groups, False), "fm")
    # bounded-exhaustive small PSG envelopes: two values with every mark placement
    vals = ["15", "14", "15:2", "15>13", "0"]
    marks = ["", "|", "/", "/ |"]
    if big:
        vals += ["15:16", "15:15", "7>7:3", "0>15:4"]
    for a in vals:
        for m in marks:
            for b in vals:
                for m2 in (["", "|"] if big else [""]):
                    toks = [a] + m.split() + [b] + m2.split() + (["3"] if m2 else [])
                    groups = [("@10", ["psg"] + toks)]
                    yield Case(req(groups), tags_of(groups, False), "psg-exhaustive")
    for i in range(10000 if big else 500):
        groups = [("@%d" % (10 + j), ["psg"] + psg_def(rng)) for j in range(rng.choice([1, 1, 2]))]
        yield Case(req(groups), tags_of(groups, False), "psg")
    # pitch: integer nodes exhaustive-ish small family
    small = [-127, -13, -1, 0, 1, 12, 127]
    lens = [1, 2, 3, 255, 256, 510, 1000]
    for a in small:
        for b in small:
            for n in (lens if big else [1, 2, 255, 256, 1000]):
                for noext in (False, True):
                    groups = [("@m1", ["%d>%d:%d" % (a, b, n)])]
                    yield Case(req(groups, noext), tags_of(groups, noext), "pitch-exhaustive")
    for i in range(12000 if big else 700):
        noext = rng.random() < 0.3
        dec = rng.random() < 0.4
        groups = [("@m%d" % (j + 1), pitch_def(rng, dec)) for j in range(rng.choice([1, 1, 2]))]
        yield Case(req(groups, noext), tags_of(groups, noext), "pitch")
    # mixed songs
    for i in range(2000 if big else 100):
        groups = []
        noext = rng.random() < 0.2
        for j in range(rng.choice([2, 3, 5])):
            r = rng.random()
            if r < 0.3:
                groups.append(("@%d" % (j + 1), ["fm"] + fm_def(rng)))
            elif r < 0.45 and any(t[:1] == ["fm"] for _, t in groups):
                base = rng.choice([k for k, t in groups if t[:1] == ["fm"]])[1:]
                groups.append(("@%d" % (j + 1), ["2op", base] + [str(rng.randrange(16)) for _ in range(4)] + [str(rng.randrange(-24, 104))]))
            elif r < 0.75:
                groups.append(("@%d" % (j + 1), ["psg"] + psg_def(rng)))
            else:
                groups.append(("@m%d" % (j + 1), pitch_def(rng, rng.random() < 0.3)))
        yield Case(req(groups, noext), tags_of(groups, noext), "mixed")
    # through MML text
    for i in range(2000 if big else 120):
        text, kind = mml_text(rng)
        yield Case("insmml " + text.encode().hex(), tuple(sorted(set(kind))) + ("mml",), "mml")
    # malformed stream (safe alphabet for the strtod model: no e/x/p/i/n after digits)
    alphabet = ["15", "0", "7>", ">3", "5:", "5:0", "300", "5>300", "16>2:3", "l:0", "l:300", "l:", "lx", "l7", "|", "/", "|5", "/3", "-", "-5",
                "1.5", "2>1.5", "7:-3", "7:256", "7:257", "7>3:0", "V", "V:", "V1", "V1:2", "V1:2:", "V::3", "V0:1:0", "V0:1:-2", "V-1:3:4", "3>", "3>:5",
                "0>0:0", "+5", "5>+7", "5>-7", "99999", "1>2>3", "1:2:3", "fm", "psg", "", "a", "@"]
    alphabet = [a for a in alphabet if a]
    for i in range(5000 if big else 300):
        kind = rng.choice(["psg", "pitch", "fm", "2op", "key"])
        if kind == "psg":
            groups = [("@1", ["psg"] + [rng.choice(alphabet) for _ in range(rng.randrange(1, 6))])]
        elif kind == "pitch":
            groups = [("@m1", [rng.choice(alphabet) for _ in range(rng.randrange(1, 6))])]
        elif kind == "fm":
            d = fm_def(rng, wild=True)
            if rng.random() < 0.3:
                d = d[:rng.randrange(0, 42)]
            tr = [str(rng.choice([0, -25, 104, 200, -200, 127, -128, 9223372036854775807, -9223372036854775808, 2 ** 63 - 24, 2 ** 64, -2 ** 64 + 3,
                                  2 ** 62, rng.randrange(-2 ** 65, 2 ** 65)]))] if rng.random() < 0.6 else []
            groups = [("@1", [rng.choice(["fm", "FM", "Fm"])] + d + tr)]
        elif kind == "2op":
            groups = [("@1", ["fm"] + fm_def(rng)), ("@2", ["2op"] + [str(rng.choice([1, 1, 1, 2, 0, 257, 3, -1])) ] + [str(rng.choice([0, 15, 16, 255, -1, rng.randrange(16)])) for _ in range(rng.choice([4, 4, 4, 3, 2]))] + [str(rng.choice([0, -30, 110, 127, -128, 5]))])]
        else:
            groups = [(rng.choice(["@1", "@01", "@65536", "@65537", "@-1", "@+3", "@m", "@m2", "@m02", "@3x", "#title", "@@1", "@m-1"]), rng.choice([["psg", "15", "14"], ["0>12:5"], ["fm"] + fm_def(rng), [], []]))]
            if rng.random() < 0.3:
                groups.append(("@9", ["psg", "15"]))
        yield Case(req(groups, rng.random() < 0.2), ("malformed",), "malformed")


FQ = {"slides": 0, "differ": 0, "examples": []}


def extra_fail(case, impl, judge):
    """never fails a case; collects the Float-vs-exact-rational comparison the judge reports for the
    single-slide family (`ok fq=<slides>/<differ>[:<first differing slide>]`)"""
    m = re.search(r"fq=(\d+)/(\d+)(?::(\S+))?", judge)
    if m and case.family == "psg-slide":
        FQ["slides"] += int(m.group(1))
        FQ["differ"] += int(m.group(2))
        if m.group(3) and len(FQ["examples"]) < 5:
            FQ["examples"].append(m.group(3))
    return False


def run(tier, seed, replay):
    """core.run_check + the Float-vs-Q counts of this run added to the evidence"""
    import json, os
    from vlib import core
    FQ.update(slides=0, differ=0, examples=[])
    me = __import__("sys").modules[__name__]
    rc = core.run_check(me, tier, seed, replay)
    if replay is None:
        p = os.path.join(core.EVID, ID + ".json")
        ev = json.load(open(p))
        ev["coverage"]["float_vs_rational"] = {
            "what": "single PSG slides (initial,target,length) of this run compiled by the model with IEEE binary64 and with exact rationals",
            "slides_compared": FQ["slides"], "slides_where_bytes_differ": FQ["differ"], "examples": FQ["examples"],
            "exhaustive": tier == "thorough"}
        json.dump(ev, open(p, "w"), indent=1, sort_keys=True)
        open(p, "a").write("\n")
    return rc


def outcome_class(a):
    m = re.match(r"exc=(\S+)", a)
    return "exc=" + m.group(1) if m else a.split(" ")[0][:24]


def finding_key(case, impl, judge):
    if impl.startswith("crash") or impl == "timeout" or impl.startswith("uncaught"):
        m = re.search(r"at .*?(\w+\.cpp:\d+)", impl)
        return "crash:" + (m.group(1) if m else impl.split(" ")[1] if " " in impl else impl)
    if judge.startswith("fail b64"):
        return "b64"
    # (a PSG loop position above 255, more than 256 pitch nodes, a pitch loop mark behind the 256th node and a pitch step
    # outside 16 bits are InputErrors now: no index-overflow / step-overflow keys)
    if "psg" in judge.lower():
        return "psg"
    if "@m" in judge:
        return "pitch"
    if "2op" in judge:
        return "fm2op"
    return "fm"


def shrink(reqline):
    if not reqline.startswith("ins "):
        return
    body = reqline[4:]
    groups = [g.split() for g in body.split(";")]
    head, groups = groups[0], [g for g in groups[1:] if g]
    def render(gs):
        return "ins " + " ".join(head) + (" " if head else "") + " ".join("; " + " ".join(g) for g in gs)
    for i in range(len(groups)):
        if len(groups) > 1:
            yield render(groups[:i] + groups[i + 1:])
    for i, g in enumerate(groups):
        lo = 1 if g[0].startswith("@m") else 2
        if len(g) > 1 and g[1] in ("fm", "2op"):
            continue
        for j in range(lo, len(g)):
            if len(g) - lo > 1:
                yield render(groups[:i] + [g[:j] + g[j + 1:]] + groups[i + 1:])
        for j in range(lo, len(g)):
            m = re.match(r"(.*):(\d+)$", g[j])
            if m and int(m.group(2)) > 1:
                yield render(groups[:i] + [g[:j] + [m.group(1) + ":" + str(int(m.group(2)) // 2)] + g[j + 1:]] + groups[i + 1:])


TECHNIQUE = "Lean 4 proof (bit-level arithmetic, codec invariants generic in the floating-point arithmetic) + differential correspondence model<->mdsdrv.cpp"
LEVEL_TEXT = ("Machine-checked theorems over a Lean model of MDSDRV_Data: every in-range FM definition decodes back from its 30-byte register image "
              "(operators in hardware order, AM flag, transpose byte); a 2op definition is its base patch with only the multipliers, the fourth operator's "
              "level and the transpose replaced; a 2op base is always a 30-byte FM image (state invariant of read_song); every single PSG slide has the "
              "slide shape in IEEE binary64 (C11_psg_slide_binary64: proved for binary64 written out in Lean, by an error bound on the rounded additions "
              "plus kernel-evaluated tables of the 7874 steps and 16 start values), hence every PSG envelope that add_ins_psg accepts expands to the "
              "written frames with sustain/loop marks at the written places (merging of equal frames, the 15-frame cap, the end/loop command and the "
              "range check of the loop position are handled by the proof; C11_psg_binary64 has no hypothesis left), and it is rejected only when the loop "
              "mark lies behind more than 255 bytes; pitch envelopes: node structure, the 256-node limit, the 16-bit step limit (no accepted node carries a "
              "wrapped step), both read-back forms, vibrato, the loop-position check. C11_full_partial assembles the full PSG+pitch statement for every "
              "arithmetic from two hypotheses (SlideOK, PitchExact). The model runs IEEE binary64 and is tied to mdsdrv.cpp byte for byte on the "
              "generated definitions.")
LEVEL_NOTE = ("Partial: the exact-decimal pitch clauses (PitchExact: start = floor(256*initial), written length, error below one step per frame) are "
              "decided per generated definition by the independent decoder runPitchEnv + pitchMeets on the real bytes, not proved; SlideOK is proved "
              "for Arith.b64 (binary64 written out in Lean), whose agreement with the hardware doubles is checked by the driver on every request (all "
              "65280 single slides per thorough run) but not proved; token parsing (strtol/strtod) is tied by correspondence only. "
              "Trusted: Lean kernel, hand-written model and spec, IEEE-754 binary64 semantics (Float and Arith.b64), g++/ASan/UBSan, harness.")
