"""C07 — The VGM export keys every note at the right time with the right pitch."""
import re
from vlib.core import Case
from vlib import songgen

ID = "C07"
LEAN_MODULE = "Ctrmml.Properties.C07"
THEOREMS = ["C07_multiples_of_147", "C07_tempo_closed_form", "C07_tempo_step_le_two", "C07_play_step_grid", "C07_log_on_grid",
            "C07_attenuation_antitone", "C07_pitch_tables_sound", "C07_short_note_counterexample",
            "C07_tick_delivery", "C07_update_ticks", "C07_key_frame_partial", "C07_key_frame_start", "C07_pitch_value_partial",
            "C07_tick_delivery_all_passes", "C07_log_by_updates", "C07_schedule_fm_partial",
            "C07_tempo_table_partial", "C07_schedule_fm_tempo_partial", "C07_slur_update_partial", "C07_psg_update_partial",
            "C07_list_machine_times", "C07_export_extent_noloop_partial", "C07_export_covers_first_pass_partial",
            "C07_schedule_fm_slur_partial", "C07_schedule_psg_partial", "C07_loop_marker_partial"]
LEVEL = "proof"
STREAM = "vgm.bytes"
CHUNK = 25
CASE_SECONDS = 20
TECHNIQUE = ("Lean 4 proofs over the executable model of MD_Driver/MD_Channel/Platform::vgm_export (plain subset) + byte-exact differential "
             "correspondence of whole VGM files + independent frame-schedule oracle (Spec/Schedule + Spec/VgmParse) on the real files")
LEVEL_TEXT = ("Machine-checked theorems over Model/MdDriver.lean. Clock: the play_step scheduler stays on the 147-sample grid and fires one sequence "
              "update every 735 samples (no floating-point assumption). Whole log: the export loop of every successful export is exactly the sequence "
              "updates 0..K, the writes of update k at sample 735k, waits summing to 735K, K the first update after which no channel plays or the loop "
              "count is reached, a loop marker after update k iff loop_trigger is set and get_loop_count()=0 (C07_log_by_updates). Tick stream: "
              "play_tick delivers on EVERY pass of a track what the looping list machine over perf delivers (loop-back to the loop point, a loop "
              "section that takes no time ends the track; C07_tick_delivery_all_passes) and the item starting at tick t is delivered by call t, its "
              "synthetic rest at t+on (C07_list_machine_times). Schedule: for a song with one channel track the tick table (N_k, c_k, tempo_k) is a "
              "function of the tick stream alone, tempo commands taking effect from the next update (C07_tempo_table_partial); for an FM channel "
              "without SLUR every update k of the log writes key-off / key-on (last) iff the events of ticks N_k..N_{k+1}-1 call for them "
              "(C07_schedule_fm_partial, C07_schedule_fm_tempo_partial), and with slurs the slur flag and the suppressed key writes follow the tick stream update by update (C07_schedule_fm_slur_partial); for a PSG melody channel the last attenuation write of a key-on update is psgAtt(volume, first envelope level) and 15 in the update in which the track ends (C07_schedule_psg_partial); per update: slurred FM notes (no key-off, no key-on, pitch only), PSG "
              "attenuation at key-on and 15 at the end of the track (C07_slur_update_partial, C07_psg_update_partial); extent of the log for a track "
              "without loop point (C07_export_extent_noloop_partial), and for any loop structure the log covers the whole first pass (C07_export_covers_first_pass_partial); loop marker: loop_trigger after an update = loop_trigger before or a SEGNO/END among the delivered events (trigChain, the loop_trigger instance of the chain), and for one channel track update k writes set_loop iff a SEGNO is delivered in the ticks N_k..N_{k+1}-1 and the channel plays on - once per loop point, in the update that reads it, in no other update (C07_loop_marker_partial). Closed form of the tempo accumulator, antitonicity of the attenuation formulas, "
              "soundness of the regenerated frequency tables. The model reproduces every real file byte for byte; the schedule oracle judges every real export.")
LEVEL_NOTE = ("Partial: the whole-log theorems are for songs with ONE channel track (plus subroutine tracks); SegTop (every SEGNO at the top level of the "
              "channel's own track) is a hypothesis of the all-pass theorems - outside it the real player resumes elsewhere (known findings segno-in-sub, "
              "segno-in-loop); the PSG theorem reads the volume setting and the envelope off the channel state (their derivation from the VOL/INS commands is the oracle's); C07_pitch_value_partial gives "
              "the computed/written words, not the register-file replay; export_extent is proved for tracks without loop point only - for looping songs "
              "C07_log_by_updates says when set_loop/stop happen in terms of loop_trigger/get_loop_count and C07_loop_marker_partial places the marker (extra hypotheses: "
              "one channel track, SegTop, ItemOK = the hook is never shown an END and a SEGNO only when one was read, and no update that delivers a SEGNO also jumps "
              "back to it - with a loop section shorter than the rest of that update the real code writes NO marker and stops, known finding short-loop); the loop-count lemma (reset position re-crossed "
              "one loop length after the marker: the upper end of the extent of a looping log) is NOT proved. These, several channels (tempo commands of all channels compete in track order), and "
              "max_seconds stay in C07_full_statement, decided per export by the spec oracle (Spec/Schedule on the real VGM log) and by byte-exact "
              "correspondence. Trusted: Lean kernel, Model/MdDriver.lean + PlayerCh + Vgm (agreement with the C++ by differential testing), "
              "Spec/Schedule.lean, Spec/VgmParse.lean.")
RULE = ("IR songs of the plain playback subset: 1..9 FM/PSG channels (+ occasional noise/dummy channels and subroutine tracks), notes, rests, "
        "ties, slurs, counted loops with breaks, calls, loop point, BPM tempo 30..255 and native tempo 1..255 incl. mid-song changes, coarse/"
        "fine/relative volume, transpose (abs/rel), detune, instrument changes (FM 4op with random TL/algorithm/transpose, PSG envelopes with "
        "slides, sustain and loop); families: short loop sections at fast tempi (several passes), tempo commands at the first/last tick of an update, "
        "slur chains, PSG notes at the boundaries of the volume scales; non-trivial = has tempo change, loop, call, segno, slur, instrument or volume "
        "command; distinct by request text")
EXPLANATION = ("byte-exact comparison of the exported VGM with the model's VGM; the oracle replays the real log frame by frame on a register "
               "file and compares key-on/key-off frames, block/fnum or PSG divider and attenuation at each key-on with the schedule computed "
               "from the structural expansion of the tracks and the tempo events")
ASSUMPTIONS = ["songs shorter than one hour of samples (vgm_export max_seconds)",
               "plain subset: no PLATFORM events, portamento, pitch envelope, macro track, FM3, PCM",
               "instrument TL values 0..127 (7-bit register field)"]

T = None


def ev(name, p=0, on=0, off=0):
    return (T[name], p, on, off)


def fm_ins(rng, transpose=None):
    """42 parameters: ALG FB, then 4 rows of AR DR SR RR SL TL KS ML DT SSG"""
    vals = [rng.randrange(8), rng.randrange(8)]
    for _ in range(4):
        vals += [rng.randrange(32), rng.randrange(32), rng.randrange(32), rng.randrange(16), rng.randrange(16),
                 rng.choice([0, 0, 10, 20, 40, 100, 127, rng.randrange(128)]), rng.randrange(4), rng.randrange(16), rng.randrange(8),
                 rng.choice([0, 0, 0, 8, 100])]
    w = ["fm"] + [str(v) for v in vals]
    if transpose is not None:
        w.append(str(transpose))
    return w


def psg_ins(rng):
    w = ["psg"]
    n = rng.randrange(1, 6)
    looped = False
    for i in range(n):
        r = rng.random()
        if r < 0.15 and not looped and i > 0:
            w.append("|")
            looped = True
        elif r < 0.3 and i > 0:
            w.append("/")
        a = rng.randrange(16)
        if rng.random() < 0.3:
            tok = "%d>%d" % (a, rng.randrange(16))
        else:
            tok = str(a)
        if rng.random() < 0.4:
            tok += ":%d" % rng.randrange(1, 12)
        w.append(tok)
    return w


class Gen:
    def __init__(self, rng, chan, subs, fm_ids, psg_ids, durs, rich=True):
        self.rng = rng
        self.chan = chan
        self.subs = subs
        self.ins_ids = fm_ids if chan < 6 else psg_ids
        self.durs = durs
        self.rich = rich
        self.tags = set()

    def cmd(self):
        rng = self.rng
        r = rng.random()
        if r < 0.14:
            self.tags.add("tempo-bpm")
            return ev("TEMPO_BPM", rng.choice([30, 60, 75, 90, 120, 150, 180, 200, 255, rng.randrange(30, 256)]))
        if r < 0.26:
            self.tags.add("tempo-native")
            return ev("TEMPO", rng.choice([1, 10, 31, 63, 64, 100, 127, 128, 150, 200, 254, 255, rng.randrange(1, 256)]))
        if r < 0.38:
            self.tags.add("vol")
            return ev("VOL", rng.randrange(0, 16))
        if r < 0.46:
            self.tags.add("volfine")
            return ev("VOL_FINE", rng.choice([0, 1, 2, 10, 41, 42, 63, 64, 100, 127, rng.randrange(128)]))
        if r < 0.54:
            self.tags.add("volrel")
            return ev(rng.choice(["VOL_REL", "VOL_FINE_REL"]), rng.choice([-3, -2, -1, 1, 2, 3]))
        if r < 0.64:
            self.tags.add("transpose")
            return ev("TRANSPOSE", rng.randrange(-12, 13))
        if r < 0.70:
            self.tags.add("transpose")
            return ev("TRANSPOSE_REL", rng.randrange(-5, 6))
        if r < 0.80:
            self.tags.add("detune")
            return ev("DETUNE", rng.choice([0, 1, 16, 64, 127, 128, 255, -1, -16, -64, rng.randrange(-128, 256)]))
        if r < 0.92 and self.ins_ids:
            self.tags.add("ins")
            return ev("INS", rng.choice(self.ins_ids))
        if r < 0.96 and self.chan < 6:
            self.tags.add("pan")
            return ev("PAN", rng.randrange(0, 4))
        self.tags.add("slur")
        return ev("SLUR")

    def item(self, depth, segno_ok):
        rng = self.rng
        r = rng.random()
        if self.rich:
            if r < 0.10 and depth < 3:
                return self.loop(depth)
            if r < 0.15 and self.subs:
                self.tags.add("call")
                return [ev("JUMP", rng.choice(self.subs))]
            if r < 0.19 and segno_ok and depth == 0:
                self.tags.add("segno")
                return [ev("SEGNO")]
            if r < 0.40:
                return [self.cmd()]
        if r < 0.50:
            return [ev("REST", 0, 0, rng.choice(self.durs))]
        if r < 0.56:
            d = rng.choice(self.durs)
            on = rng.randrange(0, d + 1)
            self.tags.add("tie")
            return [ev("TIE", 0, on, d - on)]
        d = rng.choice(self.durs)
        on = rng.randrange(1, d + 1) if rng.random() < 0.6 else d
        return [ev("NOTE", rng.randrange(12, 90), on, d - on)]

    def seq(self, depth, segno_ok, lo=0, hi=7):
        out = []
        for _ in range(self.rng.randrange(lo, hi + 1)):
            out += self.item(depth, segno_ok)
        return out

    def loop(self, depth):
        rng = self.rng
        self.tags.add("loop")
        body = self.seq(depth + 1, False, 1, 4)
        if rng.random() < 0.4:
            cuts, d = [0], 0
            for i, e in enumerate(body):
                if e[0] == T["LOOP_START"]:
                    d += 1
                if e[0] == T["LOOP_END"]:
                    d -= 1
                if d == 0:
                    cuts.append(i + 1)
            k = rng.choice(cuts)
            body = body[:k] + [ev("LOOP_BREAK")] + body[k:]
            self.tags.add("break")
        return [ev("LOOP_START")] + body + [ev("LOOP_END", rng.choice([0, 1, 2, 2, 3, 4]))]


def render(song, ins):
    s = songgen.render(song)
    for iid, words in ins:
        s += " @%d=%s" % (iid, ",".join(words))
    return ("mdvgm " + s).rstrip()


def ticks_of(song, tid, depth=0):
    """expanded duration of a track (rough: loops multiplied, calls inlined)"""
    if depth > 8 or tid not in song:
        return 0
    total, stack = 0, []
    for t, p, on, off in song[tid]:
        if t == T["LOOP_START"]:
            stack.append(total)
            total = 0
        elif t == T["LOOP_END"] and stack:
            total = stack.pop() + total * max(1, p)
        elif t == T["JUMP"]:
            total += ticks_of(song, p & 0xffff, depth + 1)
        else:
            total += on + off
    return total


def random_song(rng, tier):
    nch = rng.choice([1, 1, 2, 2, 3, 4, 6, 9])
    chans = sorted(rng.sample(range(9), nch))
    if rng.random() < 0.08:
        chans.append(rng.choice([9, 10, 12, 15]))
    subs = rng.choice([[], [], [100], [100, 101]])
    fm_ids = [1, 2, 3][: rng.randrange(1, 4)]
    psg_ids = [10, 11][: rng.randrange(1, 3)]
    durs = rng.choice([[1, 2, 3], [1, 2, 3, 4, 6, 8], [3, 6, 12, 24], [6, 12, 24, 48]])
    ins = [(i, fm_ins(rng, rng.choice([None, None, 0, -12, 12, 7, -5]))) for i in fm_ids] + [(i, psg_ins(rng)) for i in psg_ids]
    song, tags = {}, set()
    allloop = rng.random() < 0.35
    for c in chans:
        g = Gen(rng, c, subs, fm_ids, psg_ids, durs)
        evs = g.seq(0, not allloop, 1, 8)
        if rng.random() < 0.7 and c < 9:
            evs = [ev("INS", rng.choice(g.ins_ids))] + evs
        song[c] = evs
        tags |= g.tags
    for i, sid in enumerate(subs):
        g = Gen(rng, 0, subs[i + 1:], [], [], durs)
        song[sid] = [e for e in g.seq(1, False, 1, 4) if e[0] not in (T["INS"], T["PAN"])]
        tags |= g.tags
    if allloop:
        # every channel loops with the same loop length: pad the loop sections with rests
        tags.add("all-loop")
        for c in chans:
            g = Gen(rng, c, subs, fm_ids, psg_ids, durs)
            body = g.seq(0, False, 1, 5)
            song[c] = song[c] + [ev("SEGNO")] + body
        # equalise loop lengths
        def looplen(c):
            k = max(i for i, e in enumerate(song[c]) if e[0] == T["SEGNO"])
            tmp = dict(song)
            tmp[999] = song[c][k + 1:]
            return ticks_of(tmp, 999)
        L = max(looplen(c) for c in chans)
        if L == 0:
            L = 3
        for c in chans:
            pad = L - looplen(c)
            if pad > 0:
                song[c] = song[c] + [ev("REST", 0, 0, pad)]
    return song, ins, tags


def fam_loop_passes(rng):
    """one or two channels, every one `pre L post` with the same short loop length, fast tempi: several loop
    passes inside few updates, loop sections of 2..6 ticks, loop point reached at different ticks"""
    chans = rng.choice([[0], [3], [0, 1], [0, 6], [7], [2, 8]])
    L = rng.choice([2, 2, 3, 4, 5, 6])
    song = {}
    tempo = rng.choice([None, ("TEMPO", 255), ("TEMPO", 200), ("TEMPO", 127), ("TEMPO", 64), ("TEMPO_BPM", 255), ("TEMPO_BPM", 150)])
    for i, c in enumerate(chans):
        evs = []
        if tempo and i == 0:
            evs.append(ev(tempo[0], tempo[1]))
        for _ in range(rng.randrange(0, 3)):
            d = rng.choice([1, 2, 3])
            on = rng.randrange(1, d + 1)
            evs.append(ev("NOTE", rng.randrange(24, 80), on, d - on) if rng.random() < 0.7 else ev("REST", 0, 0, d))
        evs.append(ev("SEGNO"))
        left = L
        while left > 0:
            d = rng.randrange(1, left + 1)
            r = rng.random()
            if r < 0.6:
                on = rng.randrange(1, d + 1)
                evs.append(ev("NOTE", rng.randrange(24, 80), on, d - on))
            elif r < 0.8:
                evs.append(ev("REST", 0, 0, d))
            else:
                on = rng.randrange(0, d + 1)
                evs.append(ev("TIE", 0, on, d - on))
            left -= d
        song[c] = evs
    return song, [], {"loop-pass", "segno"}


def fam_tempo_boundary(rng):
    """a tempo command after k ticks of 1-tick items at two ticks per update (k odd / even: first or second
    tick of an update), then notes whose frames depend on when the new tempo takes effect"""
    c = rng.choice([0, 4, 6])
    k = rng.randrange(0, 7)
    evs = [ev("TEMPO", 255)]
    for i in range(k):
        evs.append(ev("NOTE", 30 + i, 1, 0) if rng.random() < 0.5 else ev("REST", 0, 0, 1))
    evs.append(ev(*rng.choice([("TEMPO", 127), ("TEMPO", 63), ("TEMPO", 254), ("TEMPO", 128), ("TEMPO", 1), ("TEMPO_BPM", 75),
                               ("TEMPO_BPM", 150), ("TEMPO_BPM", 300)])))
    for i in range(rng.randrange(2, 6)):
        d = rng.choice([1, 2, 3])
        on = rng.randrange(1, d + 1)
        evs.append(ev("NOTE", 50 + i, on, d - on))
        if rng.random() < 0.25:
            evs.append(ev("TEMPO", rng.choice([255, 200, 100, 31])))
    song = {c: evs}
    if rng.random() < 0.4:
        other = 1 if c != 1 else 2
        song[other] = [ev("NOTE", 40, 3, 1), ev("TEMPO", rng.choice([255, 64, 180])), ev("NOTE", 41, 2, 2), ev("NOTE", 43, 4, 0)]
    return song, [], {"tempo-boundary", "tempo-native"}


def fam_slur_chain(rng):
    """chains of slurred notes (no re-key, pitch change only), with ties and rests in between, on FM and PSG"""
    c = rng.choice([0, 5, 6, 8])
    evs = []
    if rng.random() < 0.5:
        evs.append(ev("TEMPO", rng.choice([255, 200, 128, 90])))
    for _ in range(rng.randrange(1, 4)):
        d = rng.choice([2, 3, 4, 6])
        evs.append(ev("NOTE", rng.randrange(30, 70), d, 0))
        for _ in range(rng.randrange(1, 5)):
            evs.append(ev("SLUR"))
            d = rng.choice([2, 3, 4])
            on = d if rng.random() < 0.7 else rng.randrange(2, d + 1)
            evs.append(ev("NOTE", rng.randrange(30, 70), on, d - on))
            if rng.random() < 0.2:
                evs.append(ev("TIE", 0, 2, 0))
        if rng.random() < 0.6:
            evs.append(ev("REST", 0, 0, rng.choice([1, 2, 3])))
    return {c: evs}, [], {"slur-chain", "slur"}


def fam_psg_volume(rng):
    """PSG notes at the boundaries of the volume scales: coarse 0/15 and one step beyond, fine 0,1,2,41,42,63,64,
    relative steps across them, envelopes whose first level is 15 / 8 / 0"""
    c = rng.choice([6, 7, 8])
    ins = [(10, ["psg", "15"]), (11, ["psg", "8", "4:3"]), (12, ["psg", "0"])]
    evs = []
    if rng.random() < 0.7:
        evs.append(ev("INS", rng.choice([10, 11, 12])))
    for _ in range(rng.randrange(2, 6)):
        r = rng.random()
        if r < 0.35:
            evs.append(ev("VOL", rng.choice([0, 1, 14, 15])))
        elif r < 0.6:
            evs.append(ev("VOL_FINE", rng.choice([0, 1, 2, 3, 41, 42, 43, 63, 64, 65, 127])))
        elif r < 0.85:
            evs.append(ev(rng.choice(["VOL_REL", "VOL_FINE_REL"]), rng.choice([-2, -1, 1, 2])))
        else:
            evs.append(ev("INS", rng.choice([10, 11, 12])))
        d = rng.choice([2, 3, 4])
        evs.append(ev("NOTE", rng.randrange(30, 80), d, rng.choice([0, 1, 2])))
    return {c: evs}, ins, {"psg-volume", "vol"}


CORPUS = [
    # one FM note / one PSG note, default tempo
    "mdvgm T0:2.48.2.1,2.50.3.0",
    "mdvgm T6:2.48.2.1,2.50.3.0",
    # FM instrument with negative transpose (left shift of a negative value before the fix)
    "mdvgm T0:17.1.0.0,2.48.2.1 @1=fm,4,0,31,0,0,0,0,20,0,1,0,0,31,0,0,0,0,30,0,1,0,0,31,0,0,0,0,40,0,1,0,0,31,0,0,0,0,10,0,1,0,0,-3",
    # note + transpose negative
    "mdvgm T0:18.-50.0.0,2.3.2.1",
    # no channel at all / only a subroutine track
    "mdvgm",
    "mdvgm T20:2.3.1.1",
    # loop point: all channels loop, equal lengths
    "mdvgm T0:2.40.4.2,7.0.0.0,2.42.3.3 T6:1.0.0.6,7.0.0.0,2.50.6.0",
    # loop point reached at different times, one channel without loop
    "mdvgm T0:7.0.0.0,2.40.12.12,2.41.12.12 T1:2.30.6.0",
    # zero-length loop section
    "mdvgm T0:2.40.4.2,7.0.0.0",
    # slur and tie
    "mdvgm T0:2.40.4.0,10.0.0.0,2.42.4.0,3.0.2.2 T7:2.40.4.0,10.0.0.0,2.42.4.0,3.0.2.2",
    # tempo change in the middle, native and BPM
    "mdvgm T0:27.255.0.0,2.40.3.3,27.10.0.0,2.41.2.2,16.200.0.0,2.42.6.6",
    # coarse volume sweep on FM and PSG with instruments
    "mdvgm T0:17.1.0.0,13.15.0.0,2.40.2.0,13.8.0.0,2.40.2.0,13.0.0.0,2.40.2.0 T6:17.10.0.0,13.15.0.0,2.40.2.0,13.8.0.0,2.40.2.0,13.0.0.0,2.40.2.0 "
    "@1=fm,7,0,31,0,0,0,0,20,0,1,0,0,31,0,0,0,0,30,0,1,0,0,31,0,0,0,0,40,0,1,0,0,31,0,0,0,0,10,0,1,0,0 @10=psg,15,12:3,/,8>0:6",
    # relative volume beyond the coarse range (v15 then volume up)
    "mdvgm T6:13.15.0.0,14.1.0.0,2.40.3.0 T0:13.15.0.0,14.1.0.0,2.40.3.0",
    # fine volume above 127 on FM
    "mdvgm T0:17.1.0.0,20.200.0.0,2.40.3.0 @1=fm,7,0,31,0,0,0,0,100,0,1,0,0,31,0,0,0,0,100,0,1,0,0,31,0,0,0,0,100,0,1,0,0,31,0,0,0,0,100,0,1,0,0",
    # loops with break, calls
    "mdvgm T0:4.0.0.0,2.40.2.0,5.0.0.0,2.42.2.0,6.3.0.0,8.100.0.0,2.45.2.2 T100:2.60.1.1,18.2.0.0",
    # PSG envelope with loop, long note
    "mdvgm T8:17.11.0.0,2.50.40.8 @11=psg,15,|,12:2,10:2",
    # panning
    "mdvgm T3:21.1.0.0,2.40.2.2,21.2.0.0,2.41.2.2",
    # unsupported panning value / PSG panning: InputError
    "mdvgm T3:21.7.0.0,2.40.2.2",
    "mdvgm T6:21.1.0.0,2.40.2.2",
    # loop point inside a subroutine: the second pass resumes at that index of the channel's own track (known finding segno-in-sub)
    "mdvgm T0:2.40.2.0,8.100.0.0,2.45.2.2 T100:2.60.1.1,7.0.0.0,2.61.1.1",
    # loop point inside a counted loop: the jump back lands in the loop body with an empty stack (known finding segno-in-loop)
    "mdvgm T0:27.255.0.0,4.0.0.0,2.40.2.0,7.0.0.0,2.42.1.0,6.2.0.0,2.45.4.4",
    # the song of the non-vacuity examples of Properties/C07 (loop passes of a single FM channel)
    "mdvgm T0:2.40.2.1,7.0.0.0,2.42.2.2",
    # a loop section that takes no time ends the track; two loop points at the top level
    "mdvgm T0:2.40.2.0,7.0.0.0,13.5.0.0",
    "mdvgm T0:2.40.2.0,7.0.0.0,2.41.1.1,7.0.0.0,2.42.2.2",
    # a loop section of one tick at two ticks per update: loop point, jump back and reset position in ONE update - no loop marker,
    # the export stops after that update (known finding short-loop; non-vacuity example of C07_loop_marker_partial)
    "mdvgm T0:27.255.0.0,1.0.0.1,7.0.0.0,2.40.1.0",
    # structural errors
    "mdvgm T0:2.40.2.2,6.2.0.0",
    "mdvgm T0:8.300.0.0",
]


def cases(rng, tier):
    global T
    T = songgen.event_types()
    for c in CORPUS:
        yield Case(c, ("corpus",), "corpus")
    # bounded-exhaustive: every native tempo / a BPM ladder with a fixed two-note phrase on one FM and one PSG channel
    step = 8 if tier == "quick" else 1
    for t in list(range(1, 256, step)) + [255]:
        yield Case("mdvgm T0:27.%d.0.0,2.40.5.3,2.43.4.0,1.0.0.2 T6:2.52.3.3,2.40.6.0" % t, ("tempo-native", "exh"), "exhaustive")
    for b in list(range(1, 400, 16 if tier == "quick" else 3)) + [300, 600, 32767, 65535]:
        yield Case("mdvgm T1:16.%d.0.0,2.40.5.3,2.43.4.0,1.0.0.2" % (b if b < 32768 else b - 65536), ("tempo-bpm", "exh"), "exhaustive")
    # every note number on FM and PSG (pitch tables), a detune ladder
    for n in range(0, 128, 4 if tier == "quick" else 1):
        yield Case("mdvgm T2:27.255.0.0,2.%d.1.1 T7:2.%d.1.1" % (n, n), ("pitch", "exh"), "exhaustive")
    for dt in range(-128, 256, 32 if tier == "quick" else 5):
        yield Case("mdvgm T2:27.255.0.0,19.%d.0.0,2.40.1.1,2.51.1.1 T7:19.%d.0.0,2.40.1.1,2.51.1.1" % (dt, dt), ("detune", "exh"), "exhaustive")
    # every coarse volume, a fine ladder, on every algorithm
    for alg in range(8):
        for v in (range(0, 16, 5) if tier == "quick" else range(16)):
            yield Case("mdvgm T0:17.1.0.0,13.%d.0.0,2.40.1.1 T6:13.%d.0.0,2.40.1.1 @1=fm,%d,0,%s" % (
                v, v, alg, ",".join("31,0,0,0,0,%d,0,1,0,0" % tl for tl in (20, 127, 64, 0))), ("vol", "exh"), "exhaustive")
    for v in range(0, 128, 16 if tier == "quick" else 1):
        yield Case("mdvgm T4:17.1.0.0,20.%d.0.0,2.40.1.1 T8:20.%d.0.0,2.40.1.1 @1=fm,5,0,%s" % (
            v, v, ",".join("31,0,0,0,0,%d,0,1,0,0" % tl for tl in (20, 127, 64, 0))), ("volfine", "exh"), "exhaustive")
    for fam, cnt in ((fam_loop_passes, 60), (fam_tempo_boundary, 50), (fam_slur_chain, 40), (fam_psg_volume, 40)):
        for _ in range(cnt if tier == "quick" else cnt * 12):
            song, ins, tags = fam(rng)
            yield Case(render(song, ins), sorted(tags), "structured")
    n = 600 if tier == "quick" else 12000
    made = 0
    while made < n:
        song, ins, tags = random_song(rng, tier)
        total = max([ticks_of(song, c) for c in song if c < 16] or [0])
        if total > (300 if tier == "quick" else 600):
            continue
        made += 1
        yield Case(render(song, ins), sorted(tags) or ["plain"], "structured")
    # malformed: unbalanced loops, missing callee, break outside loop (InputError paths)
    for _ in range(10 if tier == "quick" else 100):
        song, ins, tags = random_song(rng, tier)
        c = sorted(song)[0]
        evs = list(song[c])
        k = rng.randrange(0, len(evs) + 1)
        evs.insert(k, rng.choice([ev("LOOP_END", 2), ev("LOOP_START"), ev("LOOP_BREAK"), ev("JUMP", 555), ev("LOOP_END", -1)]))
        song[c] = evs
        if max([ticks_of(song, c) for c in song if c < 16] or [0]) > 300:
            continue
        yield Case(render(song, ins), ("malformed",), "malformed")


def outcome_class(a):
    if a.startswith("vgm"):
        return "vgm"
    return a.split(" ")[0][:32]


def finding_key(case, impl, judge):
    if impl.startswith("crash") or impl == "timeout" or impl.startswith("uncaught"):
        m = re.search(r"(\w+\.cpp:\d+)", impl)
        return "crash:" + (m.group(1) if m else "unknown")
    m = re.match(r"fail (\S+)", judge)
    return m.group(1) if m else "case"


def shrink(req):
    song = songgen.parse_request_song(req)
    extra = " ".join(t for t in req.split()[1:] if t.startswith("@"))
    for s2 in songgen.shrink_song(song):
        if s2:
            yield ("mdvgm " + songgen.render(s2) + (" " + extra if extra else "")).rstrip()
    toks = [t for t in req.split()[1:] if t.startswith("@")]
    for i in range(len(toks)):
        rest = toks[:i] + toks[i + 1:]
        yield ("mdvgm " + songgen.render(song) + (" " + " ".join(rest) if rest else "")).rstrip()
