"""C13 — RIFF containers round-trip."""
import re
from vlib.core import Case

ID = "C13"
LEAN_MODULE = "Ctrmml.Properties.C13"
THEOREMS = ["C13_serialize_layout", "C13_walk_serialize", "C13_reserialize_id", "C13_no_oob", "C13_ofBytes_no_oob", "C13_walk_total"]
LEVEL = "proof"
STREAM = "riff.ops"
CHUNK = 60
RULE = ("chunk trees (depth 0..4, 0..8 children, payload sizes from the boundary set {0,1,2,3,255,256,257,65535,65536,65537,131328} "
        "and random) built through the public RIFF API, serialised, parsed and walked; plus truncations at every header boundary and "
        "size-field corruptions (0, +-1, 2^31-1, 2^32-16, 2^32-1) of the serialised files. non-trivial = has a list node, an odd payload, "
        "a payload >= 65536 or a mutation; distinct by request text")
EXPLANATION = ("theorems over Model/Riff + Spec/RiffTree (all trees, all payload sizes < 4 GiB, all reader states); the model is tied to "
               "riff.cpp by running both on the generated trees/mutations and diffing, and the spec oracle (Tree.file, the tree itself) is "
               "applied to the implementation's answers")
ASSUMPTIONS = ["vectors shorter than 4 GiB (position is a uint32_t in the C++, a Nat in the model)",
               "client walk = get_id / at_end / get_chunk / get_data as in harness/h_riff.cpp and Spec/RiffTree.walk"]

BOUNDARY = [0, 1, 2, 3, 255, 256, 257, 65535, 65536, 65537, 131328]


def fourcc(rng):
    while True:
        s = "".join(rng.choice("abcdefghijklmnopqrstuvwxyzABCDEFGHIJKLMNOPQRSTUVWXYZ0123456789 _") for _ in range(4))
        if s not in ("RIFF", "LIST"):
            return s.encode().hex()


def gen_tree(rng, depth, budget, big_ok):
    """returns (tokens, node) where node = ('C', size) | ('L', [children])"""
    if depth == 0 or rng.random() < 0.35:
        r = rng.random()
        if r < 0.45:
            n = rng.choice(BOUNDARY[:7])
        elif r < 0.6 and big_ok and budget[0] > 140000:
            n = rng.choice(BOUNDARY[7:])
        else:
            n = rng.randrange(0, 40)
        budget[0] -= n
        if n <= 24 and rng.random() < 0.7:
            payload = "h:" + ("".join("%02x" % rng.randrange(256) for _ in range(n)) or "-")
        else:
            payload = "f:%d:%d" % (n, rng.randrange(256))
        return ["C", fourcc(rng), payload], ("C", n)
    ty = rng.choice(["52494646", "4c495354"])
    idv = "%08x" % rng.choice([0x20202020, 0x4d445330, rng.randrange(1 << 32)])
    nk = rng.choice([0, 1, 1, 2, 2, 3, 4, 8]) if depth < 4 else rng.choice([0, 1, 2])
    toks, kids = ["L", ty, idv, str(nk)], []
    for _ in range(nk):
        t, k = gen_tree(rng, depth - 1, budget, big_ok)
        toks += t
        kids.append(k)
    return toks, ("L", kids)


def body_len(node):
    if node[0] == "C":
        return node[1]
    n = 4
    for k in node[1]:
        n += n % 2 + 8 + body_len(k)
    return n


def header_offsets(node, base, out):
    """file offsets of every size field (base = offset of this node's type field)"""
    out.append(base + 4)
    if node[0] == "L":
        n = 4
        for k in node[1]:
            n += n % 2
            header_offsets(k, base + 8 + n, out)
            n += 8 + body_len(k)


def tags_of(node, mutated):
    t = set()
    def go(n, d):
        if n[0] == "C":
            if n[1] % 2: t.add("odd-payload")
            if n[1] >= 65536: t.add("payload>=65536")
            if n[1] == 0: t.add("empty-payload")
        else:
            t.add("list-depth-%d" % d)
            t.add("children-%d" % len(n[1]))
            for k in n[1]: go(k, d + 1)
    go(node, 0)
    if mutated:
        t.add("mutated")
    t.discard("list-depth-0") if False else None
    return sorted(t)


CORPUS = [
    # D8: child whose byte-swapped size is smaller than the size
    "riff L 52494646 4d445330 1 C 64617461 f:65536:7",
    "riff L 52494646 4d445330 2 C 64617461 f:131328:1 C 66666d74 h:010203",
    # unit-test shapes
    "riff L 52494646 20202020 0",
    "riff C 74657374 h:0102030405",
    "riff L 52494646 74657374 2 C 61626364 h:01 C 65666768 h:0203",
    # D9: size field close to 2^32 in a nested header
    "riff L 52494646 4d445330 1 C 64617461 h:0102030405060708 | w32:16:4294967280",
    "riff L 52494646 4d445330 1 C 64617461 h:0102030405060708 | w32:16:4294967295",
    # aliasing: a list added to itself (`r.add_chunk(r)`) gets a COPY of itself as its last child
    "riff S 52494646 4d445330 0",
    "riff S 52494646 4d445330 1 C 64617461 h:010203",
    "riff S 52494646 4d445330 2 C 64617461 h:0102030405 L 4c495354 6162 1 C 66666d74 h:01",
    "riff L 52494646 4d445330 2 S 4c495354 61626364 1 C 64617461 h:0102 C 65666768 h:03",
]


def cases(rng, tier):
    for c in CORPUS:
        yield Case(c, ("corpus",), "corpus")
    n = 260 if tier == "quick" else 4000
    nbig = 0
    for i in range(n):
        budget = [300000]
        big_ok = (i % 6 == 0)
        toks, node = gen_tree(rng, rng.choice([0, 1, 2, 2, 3, 4]), budget, big_ok)
        req = "riff " + " ".join(toks)
        yield Case(req, tags_of(node, False), "tree")
        if i % 2 == 0 and body_len(node) < 5000:
            offs = []
            header_offsets(node, 0, offs)
            total = 8 + body_len(node)
            total += total % 2
            ops = []
            for _ in range(rng.choice([1, 1, 2])):
                if rng.random() < 0.4:
                    cut = rng.choice([o + d for o in offs for d in (-4, 0, 1, 4)] + [total - 1, 7, 8, 0])
                    ops.append("trunc:%d" % max(0, cut))
                else:
                    o = rng.choice(offs)
                    v = rng.choice([0, 1, 2, 3, 7, 8, 9, total, total + 1, 0x7fffffff, 0xfffffff0, 0xffffffff, 0xfffffff8,
                                    0xfffffffc, 0x100 , 0x10000, rng.randrange(1 << 32), (1 << 32) - rng.randrange(1, 64)])
                    ops.append("w32:%d:%d" % (o, v))
            yield Case(req + " | " + " ".join(ops), tags_of(node, True), "mutated")


def finding_key(case, impl, judge):
    if impl.startswith("crash") or impl == "timeout" or impl.startswith("uncaught"):
        m = re.search(r"at .*?(\w+\.cpp:\d+)", impl)
        return "crash:" + (m.group(1) if m else impl.split(" ")[1] if " " in impl else impl)
    sizes = [int(x) for x in re.findall(r"f:(\d+):", case.req)]
    def bswap(n): return int.from_bytes(n.to_bytes(4, "little"), "big")
    if "|" not in case.req and any(bswap(s) < s for s in sizes):
        return "roundtrip:child-size-bswap"
    return "roundtrip" if "|" not in case.req else "mutated"


def shrink(req):
    """structural shrinking: drop a child / shrink a payload / drop an op"""
    head, _, ops = req.partition("|")
    toks = head.split()
    opl = ops.split()
    for i in range(len(opl)):
        yield head.strip() + (" | " + " ".join(opl[:i] + opl[i + 1:]) if len(opl) > 1 else "")
    # parse into nested structure
    def parse(i):
        if toks[i] == "C":
            return ("C", toks[i + 1], toks[i + 2]), i + 3
        ty, idv, n = toks[i + 1], toks[i + 2], int(toks[i + 3])
        i += 4
        kids = []
        for _ in range(n):
            k, i = parse(i)
            kids.append(k)
        return ("L", ty, idv, kids), i
    def render(n):
        if n[0] == "C":
            return ["C", n[1], n[2]]
        out = ["L", n[1], n[2], str(len(n[3]))]
        for k in n[3]:
            out += render(k)
        return out
    try:
        tree, _ = parse(1)
    except Exception:
        return
    tail = (" | " + " ".join(opl)) if opl else ""
    def variants(n):
        if n[0] == "L":
            for i in range(len(n[3])):
                yield ("L", n[1], n[2], n[3][:i] + n[3][i + 1:])
                for v in variants(n[3][i]):
                    yield ("L", n[1], n[2], n[3][:i] + [v] + n[3][i + 1:])
            if len(n[3]) == 1:
                yield n[3][0]
        else:
            if n[2].startswith("h:") and n[2] != "h:-":
                yield ("C", n[1], "h:-")
    for v in variants(tree):
        yield "riff " + " ".join(render(v)) + tail

TECHNIQUE = "Lean 4 proof (induction over chunk trees) + differential correspondence model<->riff.cpp"
LEVEL_TEXT = ("Machine-checked theorems over a Lean model of riff.cpp: every well-formed chunk tree with data vectors < 4 GiB serialises to the "
              "RIFF layout (pad after odd data, sizes exclude it) and is recovered exactly by parse+walk; re-serialising a well-formed file is the "
              "identity; get_chunk never performs out-of-bounds iterator arithmetic in any reader state. The model is tied to the code by "
              "regenerated constants and by running model and riff.cpp on generated trees, truncations and size-field corruptions.")
LEVEL_NOTE = ("Trusted: Lean kernel (axioms propext, Classical.choice, Quot.sound at most), the hand-written model Model/Riff.lean (agreement with "
              "riff.cpp is established by differential testing, not proved), Spec/RiffTree.lean, vectors < 4 GiB, g++/ASan/UBSan and the harness.")
