"""C15 — Every input ends in output or a diagnosed input error."""
import os, re, struct
from vlib import core
from vlib.core import Case

ID = "C15"
LEAN_MODULE = "Ctrmml.Properties.C15"
THEOREMS = ["C15_parse_routed", "C15_reader_never_foreign", "C15_wav_reader_total", "C15_validator_never_out_of_range",
            "C15_validate_routed", "C15_parsed_song_validates", "C15_optimize_routed", "C15_optimizer_never_foreign", "C15_stack_lists_complete",
            "C15_mds_export_no_ub", "C15_mds_export_routed", "C15_link_stage_kinds", "C15_link_accepts_strict_files", "C15_exported_file_parses_partial", "C15_link_stage_routed_partial",
            "C15_vgm_never_non_integer", "C15_vgm_export_no_ub_partial", "C15_pipeline_total_under_stage_hyps", "C15_pipeline_total_partial", "C15_pipeline_total_mds_partial", "C15_pipeline_terminates",
            "C15_modelled_components_never_foreign"]
LEVEL = "other"
STREAM = "total"
HARNESS_VARIANT = "align"      # the C15 harness keeps UBSan's alignment check (D22)
CHUNK = 60
CASE_SECONDS = 900             # the handler runs each case in a forked child with its own CPU/wall limits
REPO = core.REPO
SAMPLE_DIR = os.path.join(REPO, "sample")

RULE = ("byte strings given as an MML file (+ side files): corpus of every defect input; the five shipped songs unchanged; grammar-aware "
        "mutations of them (token delete/duplicate/swap, line truncation/duplication/deletion, spliced instrument tables, every number "
        "replaced by a boundary value 0,-1,255,256,32767,32768,65535,65536,2^31,2^32); instrument/envelope tables (fm, 2op, psg, pcm, "
        "@M) with missing/extra/non-numeric fields; PCM references to missing, empty, truncated and header-corrupted WAV files; random "
        "text over the MML alphabet; structured random command sequences; very long lines; NUL and >=0x80 bytes. Each text is run "
        "through the mds export, and a share through the vgm export, the optimiser (-O) and mdslink's path, in-process under "
        "ASan+UBSan (alignment check on) in a forked child; a sample is also given to the built mmlc/mdslink executables. "
        "non-trivial = every case (all carry tags); distinct by request text")
EXPLANATION = ("Proof side (Properties/C15): the pipeline model (Model/Pipeline) composes the stage models of the other properties: MML reader, tags, validator, optimiser, "
               "MDSDRV converter (definitions, track writer, codec, RIFF), MD_Driver + VGM_Writer (Model/MdDriver, for the songs of its subset) and MDSDRV_Linker (Model/Linker on the exported container). "
               "Theorems, each for ALL inputs of its stage: the parse stage (whole MML reader, every byte string), the validate stage (every song without explicit END events — which includes every "
               "song the reader can produce), sample loading (every byte string as a WAV file), the optimise stage (every validated song that satisfies the decidable side conditions OptDomain of C01's "
               "termination theorem: pass loop ends, no stack list read outside its bounds, no get_track on a missing track, the validator after a pass ends) and the converter's undefined-behaviour "
               "constructors (no RIFF-writer failure, no at() on an empty stream, no data_bank index outside the bank, no vector::at in the writer's player — for every input); the link stage never ends in a foreign outcome on ANY file the strict "
               "container reader of C10 accepts (every foreign Linker.Err constructor excluded), and that reader accepts the converter's own file (partial: LinkFileHyps); the VGM driver never takes a non-integer step (every input) and, on the data "
               "read_song built, never indexes a PSG envelope or the sample headers out of range nor makes the VGM_Writer fail (partial: VgmDataHyps). Still explicit hypotheses of the composite "
               "theorem, all PER INPUT of the run (ExportHyps, Proofs/PipelineRound3): the MODEL's fixed writer budget (20 000 000 player steps per stream, recursion depth 64) on the converted song; for vgm PsgEnvsOK (every PSG-typed instrument's stored "
               "envelope is well formed) and FilesSmall (side files below 1 GiB); for link TreeSmall (every RIFF data vector below 4 GiB), PlatformClean (no raw cmd with an index-bearing opcode), SeqFits (seq chunk at most 64 KiB), SideFilesSmall, "
               "PcmKeysAreHeaders (PCM-tagged used_data_map keys select items stored by add_ins_pcm); OptInDomain (with -O); and two residual stages without a model (VGM play loop outside Model/MdDriver's subset, definitions / platform commands outside C09/C11's models). "
               "Execution side: every generated text runs through the real code in-process under ASan+UBSan (alignment check on) in a forked child; the judge applies the outcome set {ok, InputError with a message} to the implementation's "
               "answer. Correspondence: the compiled pipeline model (Driver/Total.lean) names the first stage whose outcome is not ok and its class "
               "(ok / input_error@stage / foreign@stage) and is compared per stage with the harness' answer (checks/c15.py agree()), now including the link stage (Model/Linker) and the VGM export (Model/MdDriver); `unmodelled@S` "
               "answers only claim that stage S is reached (VGM export of songs with platform commands, portamento, pitch envelopes or macro tracks; register-name platform commands; PCM files of a real directory); the notes of the run give "
               "their share per format. BOUNDS of the model stream (the implementation still runs these inputs under the sanitizers, the model answers `skipped`): MML text "
               "over 6000 bytes (1500 with -O), more than 120 events with -O (optimiser search is cubic), a definition with more than 100 values, a VGM export of a channel track longer than 1500 ticks or with a tempo parameter below 24 "
               "(the driver model iterates once per 1/60 s), and runs that exhaust the executable model's step budget (validator 3*10^6 steps, optimiser 10^5 passes); the theorems are not bounded. "
               "Stream wavfix (Wave_Bank::add_sample(Tag) on canonical and malformed WAV files, in a forked child) is diffed literally against C14's "
               "model of the reader (Model/Wave).")
ASSUMPTIONS = ["a run that is still computing after 8 s of CPU time (90 s with -O) under ASan is counted as a hang; inputs whose legitimate cost exceeds that (a 70000-command line: the reader copies the line once per command; -O on tracks of tens of thousands of events or thousands of tracks) are not generated",
               "the file system holds exactly the side files of the request (the work directory is private to the case)",
               "VGM export is bounded by the library's own 3600 s song limit",
               "allocator_may_return_null=0: an allocation request beyond ASan's limit is reported as a defect (it would be std::bad_alloc or an OOM kill outside the sanitizer)",
               "memory safety and absence of undefined behaviour of the compiled binary are OBSERVED by ASan/UBSan on the generated inputs, not proved; the theorems are about the Lean models, tied to the code by the per-stage correspondence of this check and by the other properties' checks",
               "std::isalpha/isblank on negative char values (bytes >= 0x80) behave as in glibc's C locale (the reader passes plain char)"]
TRUSTED = ["harness/h_total.cpp reproduces the call sequence of mmlc.cpp/mdslink.cpp main(); the `tool` stream runs the real executables on a sample",
           "throw-site attribution through a __cxa_throw wrapper (harness/h_total_throw.cpp); the CPU limit as the definition of a hang"]

B = [0, -1, 255, 256, 32767, 32768, 65535, 65536, 2 ** 31, 2 ** 32, 1, 2, 127, 128, -128, -32768, -32769, 2 ** 31 - 1, -2 ** 31, 2 ** 63, 99999999999999999999]


def workdir():
    d = os.path.join(core.BUILD, "c15w")
    os.makedirs(d, exist_ok=True)
    # stale per-case directories of crashed runs (older than 15 minutes: another check may be running)
    import time
    for n in os.listdir(d):
        p = os.path.join(d, n)
        try:
            if os.path.isdir(p) and not os.path.islink(p) and n.startswith("w") and time.time() - os.path.getmtime(p) > 900:
                for f in os.listdir(p):
                    os.unlink(os.path.join(p, f))
                os.rmdir(p)
        except OSError:
            pass
    core.build_tools(HARNESS_VARIANT)
    return d


def hx(b):
    if isinstance(b, str):
        b = b.encode("utf-8", "surrogateescape")
    return b.hex() or "-"


# ------------------------------------------------------------------ WAV files
def chunk(cid, data, size=None):
    return cid + struct.pack("<I", len(data) if size is None else size & 0xffffffff) + data + (b"\0" if len(data) % 2 else b"")


def fmt_chunk(ch=1, rate=17500, bits=8, tag=1, extra=b""):
    ba = ch * ((bits + 7) // 8)
    return chunk(b"fmt ", struct.pack("<HHIIHH", tag & 0xffff, ch & 0xffff, rate & 0xffffffff, (rate * ba) & 0xffffffff, ba & 0xffff, bits & 0xffff) + extra)


def smpl_chunk(loops, note=60):
    d = struct.pack("<IIIIIIIII", 0, 0, 0, note, 0, 0, 0, len(loops), 0)
    for (s, e) in loops:
        d += struct.pack("<IIIIII", 0, 0, s & 0xffffffff, e & 0xffffffff, 0, 0)
    return chunk(b"smpl", d)


def riff(chunks, size=None, form=b"WAVE"):
    body = form + b"".join(chunks)
    return b"RIFF" + struct.pack("<I", len(body) if size is None else size & 0xffffffff) + body


def wav_ok(n=40, ch=1, bits=8, rate=17500, loops=None):
    data = bytes((i * 37 + 11) & 255 for i in range(n * ch * (bits // 8)))
    cs = [fmt_chunk(ch, rate, bits), chunk(b"data", data)]
    if loops is not None:
        cs.append(smpl_chunk(loops))
    return riff(cs)


def wav_variants(rng):
    """(tag, bytes) — canonical and malformed WAV files"""
    d40 = bytes((i * 37 + 11) & 255 for i in range(40))
    out = [
        ("wav-ok8", wav_ok()), ("wav-ok16", wav_ok(bits=16)), ("wav-stereo", wav_ok(ch=2, bits=16)), ("wav-loop", wav_ok(loops=[(4, 30)])),
        ("wav-empty-file", b""), ("wav-4bytes", b"RIFF"), ("wav-riff-only", riff([])), ("wav-not-riff", b"JUNKJUNKJUNKJUNKJUNK"),
        ("wav-not-wave", riff([fmt_chunk(), chunk(b"data", d40)], form=b"AVI ")),
        ("wav-24bit", riff([fmt_chunk(bits=24), chunk(b"data", d40 * 3)])),
        ("wav-32bit", riff([fmt_chunk(bits=32), chunk(b"data", d40 * 4)])),
        ("wav-0bit", riff([fmt_chunk(bits=0), chunk(b"data", d40)])),
        ("wav-12bit", riff([fmt_chunk(bits=12), chunk(b"data", d40)])),
        ("wav-0ch", riff([fmt_chunk(ch=0), chunk(b"data", d40)])),
        ("wav-65535ch", riff([fmt_chunk(ch=65535), chunk(b"data", d40)])),
        ("wav-rate0", riff([fmt_chunk(rate=0), chunk(b"data", d40)])),
        ("wav-rate-max", riff([fmt_chunk(rate=0xffffffff), chunk(b"data", d40)])),
        ("wav-tag-float", riff([fmt_chunk(tag=3, bits=32), chunk(b"data", d40)])),
        ("wav-no-fmt", riff([chunk(b"data", d40)])),
        ("wav-no-data", riff([fmt_chunk()])),
        ("wav-data-before-fmt", riff([chunk(b"data", d40), fmt_chunk()])),
        ("wav-empty-data", riff([fmt_chunk(), chunk(b"data", b"")])),
        ("wav-1byte-data16", riff([fmt_chunk(bits=16), chunk(b"data", b"\x01")])),
        ("wav-short-fmt", riff([chunk(b"fmt ", b"\x01\x00\x01\x00"), chunk(b"data", d40)])),
        ("wav-empty-fmt", riff([chunk(b"fmt ", b""), chunk(b"data", d40)])),
        ("wav-riffsize-big", riff([fmt_chunk(), chunk(b"data", d40)], size=100000)),
        ("wav-riffsize-max", riff([fmt_chunk(), chunk(b"data", d40)], size=0xffffffff)),
        ("wav-riffsize-0", riff([fmt_chunk(), chunk(b"data", d40)], size=0)),
        ("wav-datasize-big", riff([fmt_chunk(), chunk(b"data", d40, size=100000)])),
        ("wav-datasize-max", riff([fmt_chunk(), chunk(b"data", d40, size=0xffffffff)])),
        ("wav-datasize-fff8", riff([fmt_chunk(), chunk(b"data", d40, size=0xfffffff8)])),
        ("wav-junk-fff8", riff([chunk(b"JUNK", b"abcd", size=0xfffffff8), fmt_chunk(), chunk(b"data", d40)])),
        ("wav-junk-fff7", riff([chunk(b"JUNK", b"abcd", size=0xfffffff7), fmt_chunk(), chunk(b"data", d40)])),
        ("wav-fmtsize-big", riff([chunk(b"fmt ", fmt_chunk()[8:], size=5000), chunk(b"data", d40)])),
        ("wav-smpl-end-beyond", wav_ok(loops=[(4, 4000)])),
        ("wav-smpl-start-beyond", wav_ok(loops=[(5000, 6000)])),
        ("wav-smpl-end-max", wav_ok(loops=[(0, 0xffffffff)])),
        ("wav-smpl-start>end", wav_ok(loops=[(30, 4)])),
        ("wav-smpl-short", riff([fmt_chunk(), chunk(b"data", d40), chunk(b"smpl", b"\0" * 10)])),
        ("wav-smpl-count-big", riff([fmt_chunk(), chunk(b"data", d40), chunk(b"smpl", struct.pack("<IIIIIIIII", 0, 0, 0, 60, 0, 0, 0, 1000, 0))])),
        ("wav-smpl-before-data", riff([fmt_chunk(), smpl_chunk([(4, 30)]), chunk(b"data", d40)])),
        ("wav-odd-chunk", riff([fmt_chunk(), chunk(b"LIST", b"abc"), chunk(b"data", d40)])),
        ("wav-big-rate-data", wav_ok(n=3000, rate=44100, bits=16)),
        ("wav-two-data", riff([fmt_chunk(), chunk(b"data", d40), chunk(b"data", d40[:7])])),
        ("wav-two-fmt", riff([fmt_chunk(), fmt_chunk(bits=16), chunk(b"data", d40)])),
        # chunks start on even offsets only: after a chunk of length 2 mod 4 every 32-bit field is misaligned
        ("wav-chunk-2mod4", riff([chunk(b"JUNK", b"ab"), fmt_chunk(), chunk(b"data", d40)])),
        ("wav-chunk-2mod4", riff([fmt_chunk(), chunk(b"data", d40[:38]), smpl_chunk([(4, 30)])])),
        ("wav-chunk-2mod4", riff([chunk(b"LIST", b"abcdef"), fmt_chunk(bits=16), chunk(b"data", d40), chunk(b"JUNK", b"xy"), smpl_chunk([(1, 9)])])),
    ]
    ok = wav_ok(n=24, bits=16, loops=[(2, 20)])
    for cut in (1, 8, 11, 12, 16, 20, 21, 35, 36, 40, 44, 45, 60, len(ok) - 1, len(ok) - 24):
        out.append(("wav-truncated", ok[:cut]))
    for _ in range(6):
        b = bytearray(ok)
        for _ in range(rng.choice([1, 1, 2, 3])):
            if rng.random() < 0.5:
                b[rng.randrange(len(b))] = rng.choice([0, 1, 0x7f, 0x80, 0xff, rng.randrange(256)])
            else:
                o = rng.randrange(0, len(b) - 4)
                b[o:o + 4] = struct.pack("<I", rng.choice([0, 1, 2, 3, 7, 8, 0x7fffffff, 0x80000000, 0xffffffff, 0xfffffff8, len(b), len(b) - o, rng.randrange(1 << 32)]))
        out.append(("wav-random-corruption", bytes(b)))
    return out


PCM_SONG = "#title t\n@30 pcm \"a.wav\"%s\nF @30 o4l8 cde r c\nK @30 l4 c c\n"


def wav_cases(rng, tier):
    # the repaired reader against its Lean model (Model/Pipeline.readWav) behind add_sample(Tag)
    for tag, data in wav_variants(rng):
        for extra in ("", " rate=8000", " offset=4"):
            yield Case("wavfix 4096 0 | T x:%s%s" % (data.hex() or "00", extra), ("wav", "wavfix", tag), "wavfix")
    for tag, data in wav_variants(rng):
        for extra in ("",) + ((" rate=8000", " offset=4", " offset=100000", " rate=0") if tier == "thorough" or tag in ("wav-ok8", "wav-loop") else ()):
            text = PCM_SONG % extra
            for opts in ("m", "v", "l"):
                yield Case("total %s %s a.wav=h:%s" % (opts, hx(text), data.hex() or "-"), ("wav", tag), "wav")
            if rng.random() < 0.2:
                yield Case("tool %s %s a.wav=h:%s" % (rng.choice(["m", "v", "l"]), hx(text), data.hex() or "-"), ("wav", tag, "tool"), "tool")
    # missing file, directory instead of file, other platform modes
    for text, tag in [(PCM_SONG % "", "wav-missing"), ("@30 pcm\nF @30 c", "pcm-no-filename"), ("@30 pcm \"\"\nF @30 c", "pcm-empty-filename"),
                      ("@30 pcm \".\"\nF @30 c", "pcm-directory"), ("@30 pcm \"" + "x" * 300 + ".wav\"\nF @30 c", "pcm-long-filename"),
                      ("#platform mdsdrv\n" + PCM_SONG % "", "wav-missing")]:
        for opts in ("m", "v", "l"):
            yield Case("total %s %s" % (opts, hx(text)), ("wav", tag), "wav")
    ok = wav_ok(n=600)
    for text, tag in [("#platform mdsdrv\n" + PCM_SONG % "", "pcm-mdsdrv-mode"),
                      ("#platform mdsdrv\n@30 pcm \"a.wav\"\nF @30 'pcmmode 3' o4 c 'pcmrate 1' c 'pcmrate 8' c 'pcmrate 0' c 'pcmrate 9' c\nK @30 c\nL @30 c", "pcm-modes")]:
        for opts in ("m", "v", "l"):
            yield Case("total %s %s a.wav=h:%s" % (opts, hx(text), ok.hex()), ("wav", tag), "wav")


# ------------------------------------------------------------------ instrument / envelope tables
FM_OK = "@1 fm 3 0\n 31 0 19 5 0 23 0 0 0 0\n 31 6 0 4 3 19 0 0 0 0\n 31 15 0 5 4 38 0 4 0 0\n 31 27 0 11 1 0 0 1 0 0\n"
NONNUM = ["x", "", "-", "+", "$", "$zz", "1e9", "0x10", "1.5", "\"3\"", "3;", "3,", ",", ",,", "|", "/", ">", ":", "15>", ">15", "15:", ":3", "15>0:", "15>0:0",
          "15>0:-1", "l", "l:", "l:0", "V", "V0", "V0:1", "V0:1:0", "V0:0:5", "V:::", "0>0", "1>2>3", "1:2:3", "-", "99999999999", "-99999999999", "1e400", "nan", "inf",
          "0.0000001", "127.999", "-128", "128", "300", "é", "\x01"]


def table_texts(rng, tier):
    """(text, tags)"""
    nums = ["3", "0"] + "31 0 19 5 0 23 0 0 0 0 31 6 0 4 3 19 0 0 0 0 31 15 0 5 4 38 0 4 0 0 31 27 0 11 1 0 0 1 0 0".split()
    use = "\nA @1 o4l4 c d\n"
    # fm: every field count 0..46, plus one field replaced by each non-number / boundary
    for n in list(range(0, 47)) + [60, 100]:
        body = (nums * 3)[:n]
        yield "@1 fm " + " ".join(body) + use, ("table", "fm-count-%s" % ("short" if n < 42 else "exact" if n in (42, 43) else "long"))
    picks = NONNUM + [str(b) for b in B]
    for v in picks:
        i = rng.randrange(len(nums))
        body = list(nums)
        body[i] = v
        yield "@1 fm " + " ".join(body) + use, ("table", "fm-field-bad")
    for i in range(len(nums)):
        body = list(nums)
        body[i] = str(rng.choice(B))
        yield "@1 fm " + " ".join(body) + " " + str(rng.choice(B)) + use, ("table", "fm-field-boundary")
    # fm spread over lines / continuation / comments / commas
    yield FM_OK + use, ("table", "fm-ok")
    yield FM_OK.replace(" ", ",") + use, ("table", "fm-commas")
    yield "@1 fm\n" + use, ("table", "fm-empty")
    yield "@1\nA @1 c", ("table", "ins-no-type")
    yield "@1 \nA @1 c", ("table", "ins-no-type")
    yield "@1 xyz 1 2 3\nA @1 c", ("table", "ins-unknown-type")
    yield "@ fm 1 2\nA @1 c", ("table", "ins-no-number")
    yield "@x fm 1 2\nA @1 c", ("table", "ins-no-number")
    yield "@99999 fm 1 2\nA @99999 c", ("table", "ins-big-number")
    yield "@65536 psg 15\nG @65536 c\nG @0 c", ("table", "ins-big-number")
    yield "@-1 psg 15\nG @-1 c", ("table", "ins-neg-number")
    yield "@\nA c", ("table", "ins-bare-at")
    yield "@@@@\n@ @ @\nA c", ("table", "ins-bare-at")
    yield "@1 fm \"3\" \"0\" \"a b\"\nA @1 c", ("table", "fm-quoted")
    # 2op
    for body in ["", "1", "1 5", "1 5 5 4", "1 5 5 4 4", "1 5 5 4 4 0", "1 5 5 4 4 0 9 9 9", "2 5 5 4 4 0", "24 1 1 1 1 0", "x 5 5 4 4 0", "1 x 5 4 4 0", "1 5 5 4 4 x",
                 "1 -1 256 65536 16 0", "1 5 5 4 4 -200", "1 5 5 4 4 200", "1 5 5 4 4 2147483648", "65535 1 1 1 1 1", "-1 1 1 1 1 1", "0 1 1 1 1 1", "1 99999999999 5 4 4 0"]:
        yield FM_OK + "@24 2op " + body + "\nA @24 o4 c @1 c\n", ("table", "2op")
        yield "@24 2op " + body + "\n" + FM_OK + "A @24 o4 c\n", ("table", "2op-before-fm")
    yield "@1 psg 15\n@24 2op 1 5 5 4 4 0\nA @24 c", ("table", "2op-of-psg")
    yield "@24 2op 24 5 5 4 4 0\nA @24 c", ("table", "2op-of-itself")
    yield "@24 2op 25 1 1 1 1 0\n@25 2op 24 1 1 1 1 0\nA @24 c @25 c", ("table", "2op-cycle")
    # psg
    for body in ["", "15", "15 14 13", "0>15:10", "15>0:100 | 5", "15 / 10", "| 15", "/ 15", "15 |", "15 /", "| |", "/ /", "| / |", "l:40 15 14", "l:0 15", "l:-1 15",
                 "l:65536 15", "l:99999999999 15", "15:0", "15:-1", "15:256", "15:65536", "15:99999999999", "16", "-1", "256", "65535", "65536", "4294967296", "15>16:3", "0>15:0",
                 "0>15:1", "15>0:256", "15>0:70000", "15 > 0 : 7", "7|15", "0>14:7|15", "15>>0", "15::3", "15:3:3", "15>0>3:4", " ".join(["15"] * 300), " ".join(["%d:255" % (i % 16) for i in range(300)]),
                 " ".join(["0>15:255"] * 200)] + NONNUM:
        yield "@10 psg " + body + "\nG @10 o4l4 c d\nJ @10 c\n", ("table", "psg")
    # pitch envelopes
    for body in ["", "| 0 3 5", "-2>0:20 0", "0:20 | 0>0.5:5 0.5>-0.5:10 -0.5>0:5", "0:20 | V0:1:5", "0", "0>1", "0>0", "0>0:0", "0>1:0", "0:0", "1>2:-5", "1>2:65536", "1:256", "1:65535", "1:65536",
                 "-127>127:1", "127>-127:1", "128", "-129", "1e9", "1e400", "-1e400", "nan", "inf", "-inf", "0>nan:3", "0>inf:3", "0>1e30", "0.00001>0.00002:1", "|", "| |", "0 |", "V", "V0", "V0:1",
                 "V0:1:0", "V0:0:5", "V0:1:-5", "V0:1e9:5", "V0:1:9999", "V0:1:99999999", "0>1:2000000000", "V1e9:1:5", "Vnan:nan:nan", "V0:1:5 V0:1:5 V0:1:5", " ".join(["%d" % (i % 12) for i in range(300)]),
                 " ".join(["V0:1:5"] * 80), "| " + " ".join(["0>1:1"] * 256), "0 > 1 : 5", "0>1:5x", "0>1>2", "0:1:2", "$10", "x"] + NONNUM:
        yield "@M1 " + body + "\nA M1 o4l4 c d M0 e\nG M1 c\n", ("table", "pitch-env")
    for t in ["@M\nA M1 c", "@M x\nA c", "@Mx 0\nA c", "@M-1 0\nA M-1 c", "@M256 0\nA M256 c", "@M65536 0\nA M65536 c", "@m1 0 1\nA M1 c", "@M1\nA M1 c", "A M1 c", "A M99 c", "G M300 c", "A E5 c", "G E99 c d",
              "A @5 c", "G @5 c", "A @10 c\n@10 psg 15", "G @1 c\n" + FM_OK, "F @1 c\n" + FM_OK, "F @10 c\n@10 psg 15", "J @1 c\n" + FM_OK, "A P1 c", "A P100 c\n*100 V0 [V+5 r32]15", "A P100 c\n*100 P100 c",
              "A P100 c\n*100 *100", "A P100 c\n*100 [c]0", "A P100 c\n*100 'carry' l4 L p3 r p1 r", "A P100 l4c\n*100 L", "A P100 l4c\n*100 L L r", "A P100 l1c\n*100 [[[[[[[[[[[r]2]2]2]2]2]2]2]2]2]2]2",
              "A P100 l1c\n*100 @1 M1 E1 P100 D1 c", "A P0 c", "A P-1 c", "A P65535 c\n*65535 r", "A P26 c\n0 r"]:
        yield t, ("table", "envelope-use")
    # tags
    for t in ["#", "# ", "#\n#\n", "#title", "#title ", "#platform", "#platform ", "#platform x", "#platform mdsdrv", "#PLATFORM MegaDrive", "#option", "#option noextpitch", "#volume", "#volume x",
              "#volume -1", "#volume 99999999999", "#title " + "x" * 300, "#title " + "é" * 300, "#title \xff\xfe", "#composer \xc3", "#comment \xed\xa0\x80", "#title \xf4\x90\x80\x80", "#titlej \x80",
              "#game \xf0\x9f\x98\x80" * 70, "#vgmdate " + "9" * 400, "#programmer\n#author x", "#title a\n#title b\n #continued", "#tag_order x", "#include_path /nonexistent/", "@include_path x",
              "#cmd_-32768 x", "@cmd_-32768 fm3 0001\nA 'x'", "#title\t\t", "#" + "k" * 500 + " v", "@" + "k" * 500 + " v", "@1" + " 1" * 5000, "@1 fm " + "\"" * 501, "@1 fm \"unterminated",
              "@1 fm \"a\\", "@1 fm \\", "@1 ,,,,,,", "@1 ;;;", "@1 fm 1;2;3", "@30 pcm \"a.wav\" rate", "@30 pcm \"a.wav\" rate=", "@30 pcm \"a.wav\" rate=x", "@30 pcm \"a.wav\" offset=-1",
              "@30 pcm \"a.wav\" =", "@30 pcm \"a.wav\" = =", "@30 pcm \"a.wav\" rate=99999999999 offset=99999999999", "@30 pcm a.wav extra extra"]:
        yield t + "\nA o4 c\nF @30 c\n", ("table", "tag-line")


def table_cases(rng, tier):
    okw = wav_ok()
    for text, tags in table_texts(rng, tier):
        side = " a.wav=h:" + okw.hex() if "a.wav" in text else ""
        b = text.encode("latin-1", "replace")
        yield Case("total m %s%s" % (hx(b), side), tags, "table")
        yield Case("total v %s%s" % (hx(b), side), tags, "table")
        r = rng.random()
        if r < 0.25 or tier == "thorough":
            yield Case("total l %s%s" % (hx(b), side), tags, "table")
        if r > 0.85:
            yield Case("tool %s %s%s" % (rng.choice("mvl"), hx(b), side), tags + ("tool",), "tool")


# ------------------------------------------------------------------ corpus
CORPUS = [
    ("*", "d12"), ("A ~", "d12"), ("A ~ ", "d12"), ("A ~z", "d12"), ("A ~\x80", "d12"), ("A D1 ~", "d12"), ("*x c", "d12"), ("A*", "d12"), ("*1*", "d12"), ("* 5 c", "d12"),
    ("*99999999999 c", "boundary"), ("*65536 c\nA *65536", "boundary"), ("*-1 c", "boundary"), ("*32768 c\nA *32768 *-32768", "boundary"),
    ("A c\n c", "continuation"), (" c", "continuation"), ("\tc", "continuation"), ("A\n c", "continuation"), ("#title x\n more", "continuation"), ("@1 fm\n 3 0\n\n 1", "continuation"),
    ("A", "trivial"), ("", "trivial"), ("\n\n\n", "trivial"), (";", "trivial"), ("A ;", "trivial"), ("AB", "trivial"), ("A\x00c", "nul"), ("\x00", "nul"), ("A c\x00d\nB \x00", "nul"),
    ("#title a\x00b", "nul"), ("@1 psg 15\x00 3", "nul"), ("A o4 c \x80\xff", "highbytes"), ("\xff", "highbytes"), ("A \xe9", "highbytes"), ("\x80\x80 c", "highbytes"), ("A '\xff'", "highbytes"),
    ("A {c/d}", "conditional"), ("AB {c/d}", "conditional"), ("ABC {c/d}", "conditional"), ("AB {c", "conditional"), ("AB c}", "conditional"), ("AB {c/_{D} f} g", "conditional"),
    ("AB {{c/d}/e}", "conditional"), ("AB {c;/d}", "conditional"), ("ABCD {a/b/c/d/e/f}", "conditional"), ("AB /", "conditional"), ("AB {/}", "conditional"), ("AB {}", "conditional"), ("A {", "conditional"),
    ("A }", "conditional"), ("A {/", "conditional"), ("A [c/d]2", "loop"), ("A [c", "loop"), ("A c]", "loop"), ("A ]", "loop"), ("A [", "loop"), ("A /", "loop"), ("A []", "loop"), ("A []0", "loop"),
    ("A [c]0", "loop"), ("A [c]1", "loop"), ("A [c]-1", "loop"), ("A [c]256", "loop"), ("A [c]32767", "loop"), ("A [c]32768", "loop"), ("A [c]65535", "loop"), ("A [c]65536", "loop"),
    ("A [c]99999999999", "loop"), ("A [[[[[[[[[[[c]2]2]2]2]2]2]2]2]2]2]2", "loop"), ("A " + "[" * 200 + "c" + "]2" * 200, "loop"), ("A [c/]2", "loop"), ("A [/c]2", "loop"), ("A [c/d/e]2", "loop"),
    ("A [/]", "loop"), ("A L", "segno"), ("A c L", "segno"), ("A L c", "segno"), ("A L L c L", "segno"), ("A [c L d]2", "segno"), ("A [c / d L e]2", "segno"), ("A c L\nA d", "segno"),
    ("A l1 L r", "segno"), ("A L [r]0", "segno"), ("A L r0", "segno"), ("A L c:0", "segno"), ("A t0 c", "tempo"), ("A T0 c", "tempo"), ("A t1 c1", "tempo"), ("A T1 c1", "tempo"),
    ("A t-1 c", "tempo"), ("A t65535 c", "tempo"), ("A T256 c", "tempo"), ("A t99999 L c", "tempo"), ("A t1 l1 [c]255", "slow"), ("A T1 l1 [c]255", "slow"), ("A T1 c:65535 c:65535 c:65535", "slow"),
    ("A C0 c", "duration"), ("A C0 l4 c", "duration"), ("A C65536 c4", "duration"), ("A c0", "duration"), ("A l0 c", "duration"), ("A c-1", "duration"), ("A c:0", "duration"), ("A c:-1", "duration"),
    ("A c:65536", "duration"), ("A c1........................................", "duration"), ("A c:2147483647.", "duration"), ("A c:99999999999", "duration"), ("A l:2147483647. c", "duration"),
    ("A c256", "duration"), ("A c65536", "duration"), ("A r0 ^0 &", "duration"), ("A Q0 c", "quantize"), ("A Q9 c", "quantize"), ("A Q-1 c", "quantize"), ("A Q65536 c", "quantize"), ("A Q4 c:1", "quantize"),
    ("A q0 c", "quantize"), ("A q65535 c", "quantize"), ("A q5 s-30 c", "quantize"), ("A s32767 c", "shuffle"), ("A s-32768 c", "shuffle"), ("A s65535 c ^ r", "shuffle"), ("A R", "reverse-rest"),
    ("A R4", "reverse-rest"), ("A c R1", "reverse-rest"), ("A c R8 R8 R8", "reverse-rest"), ("A c:5 R:6", "reverse-rest"), ("A L R", "reverse-rest"), ("A [c]2 R8", "reverse-rest"), ("A ~c", "grace"),
    ("A c~d", "grace"), ("A c:1~d", "grace"), ("A r~c:500", "grace"), ("A &", "slur"), ("A c&d", "slur"), ("A r&c", "slur"), ("A ^", "tie"), ("A c v5 ^", "tie"), ("A c ^ ^ ^", "tie"),
    ("A Q2 c v1 ^1", "tie"), ("A \\", "echo"), ("A \\=", "echo"), ("A \\=1", "echo"), ("A \\=1,", "echo"), ("A \\=1,2 c \\ \\", "echo"), ("A \\=-3,2 c d e \\", "echo"), ("A \\=99,99 c \\", "echo"),
    ("A \\=0,0 \\", "echo"), ("A \\=3,1 c \\", "echo"), ("A \\=1,-32768 c \\", "echo"), ("A \\=65535,65535 c\\", "echo"), ("A o0 c", "octave"), ("A o-1 c", "octave"), ("A o9 b", "octave"),
    ("A o99 c", "octave"), ("A o2147483647 c", "octave"), ("A o-2147483648 c", "octave"), ("A o2800 c", "octave"), ("A " + "<" * 40 + "c", "octave"), ("A " + ">" * 40 + "c", "octave"), ("A o8 >>>>> b+", "octave"),
    ("A o0 < c-", "octave"), ("G o0 c", "octave"), ("G o9 b", "octave"), ("J o0 c o9 b", "octave"), ("G o-5 c", "octave"), ("A k127 o8 b", "transpose"), ("A k-128 o0 c", "transpose"), ("A k32767 c", "transpose"),
    ("A _", "transpose"), ("A __", "transpose"), ("A __5 c", "transpose"), ("A _{", "transpose"), ("A _{}", "transpose"), ("A _{C}", "transpose"), ("A _{zz}", "transpose"), ("A _{+}", "transpose"),
    ("A _{+z}", "transpose"), ("A _{+cdefgab} c", "transpose"), ("A _{+h} h", "transpose"), ("A _{-i}", "transpose"), ("A _{=\x80}", "transpose"), ("A _{1}", "transpose"), ("A _{+1}", "transpose"),
    ("A _{C+} c+ c- c=", "transpose"), ("A k", "transpose"), ("A k{C}", "transpose"), ("A K32767 c K-32768 c", "detune"), ("A K99999 c", "detune"), ("A v0 c v15 c v16 c v255 c v-1 c v65535 c", "volume"),
    ("A V0 c V127 c V128 c V255 c V+300 c V-300 c V+ V-", "volume"), ("A V", "volume"), ("A (((((((((((((((((((( c", "volume"), ("A )))))))))))))))))))) c", "volume"), ("A (-5 )-5 c", "volume"),
    ("A (2147483648 c", "volume"), ("A (-2147483648 c", "volume"), ("G v0 c v15 c v16 c v255 c (((((((((((((((( c", "volume"), ("G V200 c", "volume"), ("A p0 c p3 c p4 c p-1 c p255 c p32767 c", "pan"),
    ("G p1 c", "pan"), ("A G0 c G255 c G256 c G-1 c", "portamento"), ("A G50 o2 c o8 b", "portamento"), ("A D0 c", "drum"), ("A D1 c", "drum"), ("A D100 a b c\n*100 @1 c\n*101 c\n*102 r", "drum"),
    ("A D100 abc", "drum"), ("A D100 c\n*102 D100 c", "drum"), ("A D100 c\n*102 *102", "drum"), ("A D100 c\n*102", "drum"), ("A D100 c\n*102 r", "drum"), ("A D65535 h", "drum"), ("A D30 c\n0 c", "drum"),
    ("A D100 c+\n*103 c", "drum"), ("A D100 c D0 c\n*102 c", "drum"), ("A *100\n*100 *100", "jump"), ("A *100\n*100 *101\n*101 *100", "jump"), ("A *100", "jump"), ("A *0", "jump"), ("A *", "jump"),
    ("A *-1", "jump"), ("A *65536", "jump"), ("A *1\nB c", "jump"), ("A *1 *1 *1 *1\nB c L", "jump"), ("A *100\n*100 L c", "jump"), ("A *100\n*100 [c", "jump"), ("A *100\n*100 c]", "jump"),
    ("A [*100]2\n*100 /", "jump"), ("A *36\nA0 c", "jump"), ("A %0 c", "platform-cmd"), ("A %-32768 c", "platform-cmd"), ("A %5 c", "platform-cmd"), ("A %", "platform-cmd"), ("A '", "platform-cmd"),
    ("A ''", "platform-cmd"), ("A 'x'", "platform-cmd"), ("A 'fm3'", "platform-cmd"), ("A 'fm3 x'", "platform-cmd"), ("A 'fm3 0011' c", "platform-cmd"), ("I 'fm3 0011' c", "platform-cmd"),
    ("M 'fm3 0001' c\nC c", "platform-cmd"), ("A 'fm3 99999999999'", "platform-cmd"), ("A 'fm3 0011 extra'", "platform-cmd"), ("A 'lfo'", "platform-cmd"), ("A 'lfo 1'", "platform-cmd"), ("A 'lfo 3 7' c", "platform-cmd"),
    ("A 'lfo 9 9' c", "platform-cmd"), ("A 'lfo x y' c", "platform-cmd"), ("A 'lforate' c", "platform-cmd"), ("A 'lforate 0' c 'lforate 9' c 'lforate 10' c 'lforate -1' c", "platform-cmd"),
    ("J 'mode' c", "platform-cmd"), ("J 'mode 0' c 'mode 1' c 'mode 2' c", "platform-cmd"), ("A 'mode 1' c", "platform-cmd"), ("A 'pcmmode' c", "platform-cmd"), ("A 'pcmmode 2' c 'pcmmode 3' c 'pcmmode 4' c 'pcmmode 0' c", "platform-cmd"),
    ("A 'pcmrate' c", "platform-cmd"), ("A 'pcmrate 0' c 'pcmrate 9' c 'pcmrate -1' c", "platform-cmd"), ("A 'write'", "platform-cmd"), ("A 'write x'", "platform-cmd"), ("A 'write 0'", "platform-cmd"),
    ("A 'write 0 0' c", "platform-cmd"), ("A 'write 999 999' c", "platform-cmd"), ("A 'write dtml1 5' c", "platform-cmd"), ("A 'write dtml5 5' c", "platform-cmd"), ("A 'write fbal 255' c", "platform-cmd"),
    ("A 'write tl1' c", "platform-cmd"), ("A 'tl1' c", "platform-cmd"), ("A 'tl1 5' c 'tl4 +5' c 'tl2 -5' c 'tl5 1' c 'tl0 1' c", "platform-cmd"), ("A 'tl1 +' c", "platform-cmd"), ("A 'tl1 999' c 'tl1 -999' c", "platform-cmd"),
    ("G 'tl1 5' c", "platform-cmd"), ("G 'write 0 0' c", "platform-cmd"), ("G 'lfo 1 1' c", "platform-cmd"), ("A 'carry' c", "platform-cmd"), ("A 'carry x' c", "platform-cmd"), ("A '" + "x" * 600 + "'", "platform-cmd"),
    ("A '\"'", "platform-cmd"), ("A '\"abc'", "platform-cmd"), ("A '\"a\\'", "platform-cmd"), ("A ',,,'", "platform-cmd"), ("A ';'", "platform-cmd"), ("A ' '", "platform-cmd"),
    ("A " + "'fm3 0001' " * 300, "platform-cmd"), ("\"a\\", "d17"), ("@x \"abc\\", "d17"), ("A o4l16 " + "c" * 300, "long"), ("A v1[]2v1[]2v1[]2v1[]2v1[]2", "d1"),
    ("A o4l8 c d e [[[[[[[[[[g]2]2]2]2]2]2]2]2]2]2 c d e", "d18"), ("A o4l4 cdefgab v1 cdefgab v2 cdefgab v3 *15000\n*15000 o4 c", "d3"), ("A o4l4 c c L r2 c", "d4"),
    ("A " + " ".join("*%d" % i for i in range(100, 400)) + "\n" + "\n".join("*%d c" % i for i in range(100, 400)), "d19"),
    ("A " + "c" * 20000, "long"), ("A" + " " * 70000 + "c", "long"), ("#title " + "t" * 70000, "long"), ("@1 psg " + "15 " * 30000, "long"), ("A " + "[c]2" * 5000, "long"), ("A l1" + "r" * 20000, "long"),
    ("ABCDEFGHIJKLMNOPQRSTUVWXYZ0123456789 c", "manytracks"), ("A" * 3000 + " c", "manytracks"), ("".join("*%d" % i for i in range(300)) + " c", "manytracks"),
    ("\r\n", "crlf"), ("A c\r\nB d\r\n", "crlf"), ("#title x\r\n@1 psg 15\r\nG @1 c\r\n", "crlf"), ("A c\r", "crlf"), ("A 'fm3 0001'\r", "crlf"), ("@30 pcm \"a.wav\"\r\nF @30 c\r\n", "crlf"),
    ("A o-2147483647 < c", "octave"), ("A o2147483647 >> c", "octave"), ("@M1 V0:1:1073741824\nA M1 o4 c", "boundary"), ("@M1 V0:1:2147483647\nA M1 o4 c", "boundary"),
    ("A o4 cdefg *40000 cdefg cdefg\n*40000 o4 cdefgab cdefgab cdefgab", "d3"), ("A o4 cdefg *65535 cdefg cdefg\n*65535 o4 cdefgab cdefgab cdefgab", "d3"),
    ("A o4 cdefg *32767 cdefg cdefg\n*32767 o4 cdefgab cdefgab cdefgab", "d3"),
    # raw 'cmd' platform command: any MDSDRV event; loop end / loop break outside a loop (fix 3e0ed67: was top() of an empty stack)
    ("A 'cmd 251 2' c", "raw-cmd"), ("A 'cmd 252 0' c", "raw-cmd"), ("A P100 c\n*100 'cmd 252 0' c", "raw-cmd"), ("A P100 c\n*100 'cmd 251 3' c", "raw-cmd"),
    ("A [c 'cmd 252 0' d]2", "raw-cmd"), ("A 'cmd 250 0' c 'cmd 251 2'", "raw-cmd"), ("A 'cmd 250' c", "raw-cmd"), ("A 'cmd 245 0' c", "raw-cmd"), ("A 'cmd 255 0' c 'cmd 251 1'", "raw-cmd"),
    ("A 'cmd 254 7' c", "raw-cmd"), ("A 'cmd 254 300' c", "raw-cmd"), ("A 'cmd 225 9' c", "raw-cmd"), ("A 'cmd 235 1' c", "raw-cmd"), ("A 'cmd' c", "raw-cmd"), ("A 'cmd x y' c", "raw-cmd"),
    ("A 'cmd 253 1' c", "raw-cmd"), ("A 'cmd 232 4' c", "raw-cmd"), ("A 'cmd 240 2' c", "raw-cmd"), ("G 'cmd 251 2' c", "raw-cmd"), ("A *100\n*100 'cmd 251 2' c", "raw-cmd"),
    # PSG envelopes with levels, slide targets and lengths outside their ranges, played on a PSG channel
    # (the VGM driver indexes the attenuation table with the stored level)
    ("@1 psg 5>29:1 0\nG @1 o4 c d", "psg-range"), ("@1 psg 99 3\nG @1 o4 c", "psg-range"), ("@1 psg -3>40:5\nG @1 o4 c", "psg-range"),
    ("@1 psg 15>0:300\nG @1 o4 c1 c1", "psg-range"), ("@1 psg 0>255:2 / 16>31:2\nH @1 o3 c", "psg-range"), ("@1 psg 15:0 14:999999\nG @1 c", "psg-range"),
    ("@1 psg 15>-1:3 | 20\nG @1 o4 c", "psg-range"), ("@1 psg 2147483647 >\nG @1 c", "psg-range"),
    ("A t150 o4l4 @1 cdef\n" + FM_OK, "ordinary"), ("G o4l4 cdef\nH o3 l8 cdefgab\nJ c4 r4", "ordinary"), ("ABCDEF o4 l4 cdefg", "ordinary"),
]


def cmd_sweep():
    """the raw `cmd` platform command with every sequence opcode, in a channel track, inside a loop, in a
    subroutine and in a macro track (a loop break / loop end without loop start was a top() on an empty
    stack until repository fix 3e0ed67)"""
    out = []
    for op in list(range(0xe0, 0x100)) + [0x7f, 0x80, 0x81, 0x82, 0xdf]:
        for arg in ("", " 0", " 2", " 300"):
            c = "'cmd 0x%02x%s'" % (op, arg)
            out.append(("A %s c" % c, "cmd-sweep"))
            if arg == " 2":
                out.append(("A [c %s d]2 e" % c, "cmd-sweep"))
                out.append(("A c *20 d\n*20 %s e" % c, "cmd-sweep"))
                out.append(("A P1 c\n*1 %s r" % c, "cmd-sweep"))
    return out


def note_edit_triples(tier):
    """every sequence of three commands that write or edit the last note (note, echo, tie, slur, reverse
    rest, grace note, rest, loop brackets, loop point) after an echo setting with and without volume:
    the commands that reach back into the event list (`add_tie`, `reverse_rest`, `add_echo`) index it"""
    toks = ["c", "\\", "^", "&", "R8", "~d", "r", "[", "]2", "L"] + (["/", "^2.", "c16"] if tier == "thorough" else [])
    out = []
    for head in ("\\=1,0 o4 l4", "\\=1,3 o4 l4", "\\=2,0 o4 l8 Q4"):
        for a in toks:
            for b in toks:
                for c in toks:
                    out.append(("A %s c %s %s %s" % (head, a, b, c), "note-edit-triple"))
    return out


def corpus_cases(rng, tier):
    okw = wav_ok().hex()
    for text, tag in note_edit_triples(tier):
        yield Case("total m %s" % hx(text.encode("latin-1")), ("corpus", tag), "note-edit")
    for text, tag in CORPUS + cmd_sweep():
        b = text.encode("latin-1")
        side = " a.wav=h:" + okw if "a.wav" in text else ""
        # the optimiser is quadratic or worse in the track length / count: long inputs go without -O
        opts = (["m", "l"] if tag == "cmd-sweep" else ["m", "v", "l", "mO", "vO"]) if len(b) < 3000 else ["m", "v", "l"]
        for o in opts:
            yield Case("total %s %s%s" % (o, hx(b), side), ("corpus", tag), "corpus")
        if tag in ("d12", "ordinary", "d17", "nul", "trivial"):
            for o in ("m", "v", "l"):
                yield Case("tool %s %s%s" % (o, hx(b), side), ("corpus", tag, "tool"), "tool")


# ------------------------------------------------------------------ shipped songs and mutations
def sample_songs():
    out = []
    for n in sorted(os.listdir(SAMPLE_DIR)):
        if n.endswith(".mml"):
            out.append((n, open(os.path.join(SAMPLE_DIR, n), "rb").read()))
    return out


PCM_SIDE = " pcm=d:" + os.path.join(SAMPLE_DIR, "pcm")
TOKEN_RE = re.compile(rb"-?\d+|[A-Za-z]|\s+|.", re.S)
INS_HEAD = re.compile(rb"^@", re.M)


def split_blocks(song):
    """instrument/envelope tables (a line starting with @ and its continuation lines)"""
    lines = song.split(b"\n")
    blocks, cur = [], None
    for l in lines:
        if l.startswith(b"@"):
            if cur:
                blocks.append(cur)
            cur = [l]
        elif cur is not None and (l.startswith((b" ", b"\t")) or l == b""):
            cur.append(l)
        else:
            if cur:
                blocks.append(cur)
            cur = None
    if cur:
        blocks.append(cur)
    return [b"\n".join(b) for b in blocks]


def mutate(rng, song, others):
    """one grammar-aware mutation; returns (bytes, tag)"""
    lines = song.split(b"\n")
    kind = rng.choice(["tok-del", "tok-dup", "tok-swap", "num-boundary", "num-boundary", "num-boundary", "line-trunc", "line-del", "line-dup", "line-swap",
                       "splice-table", "splice-line", "insert-char", "cut-file", "join-lines", "tok-del-many", "replace-track-letter"])
    def pick_line(pred=lambda l: len(l) > 2):
        idx = [i for i, l in enumerate(lines) if pred(l)]
        return rng.choice(idx) if idx else 0
    if kind in ("tok-del", "tok-dup", "tok-swap", "tok-del-many", "num-boundary"):
        i = pick_line()
        toks = TOKEN_RE.findall(lines[i])
        if not toks:
            return song, kind
        if kind == "num-boundary":
            nums = [k for k, t in enumerate(toks) if re.fullmatch(rb"-?\d+", t)]
            if not nums:
                return song + b"\nA c" + str(rng.choice(B)).encode(), kind
            toks[rng.choice(nums)] = str(rng.choice(B)).encode()
        elif kind == "tok-del":
            del toks[rng.randrange(len(toks))]
        elif kind == "tok-del-many":
            for _ in range(rng.randrange(2, 8)):
                if toks:
                    del toks[rng.randrange(len(toks))]
        elif kind == "tok-dup":
            k = rng.randrange(len(toks))
            toks[k:k] = [toks[k]] * rng.choice([1, 1, 2, 20])
        else:
            a, b = rng.randrange(len(toks)), rng.randrange(len(toks))
            toks[a], toks[b] = toks[b], toks[a]
        lines[i] = b"".join(toks)
    elif kind == "line-trunc":
        i = pick_line()
        lines[i] = lines[i][:rng.randrange(len(lines[i]) + 1)]
    elif kind == "line-del":
        del lines[pick_line()]
    elif kind == "line-dup":
        i = pick_line()
        lines[i:i] = [lines[i]] * rng.choice([1, 2, 30])
    elif kind == "line-swap":
        a, b = pick_line(), pick_line()
        lines[a], lines[b] = lines[b], lines[a]
    elif kind == "join-lines":
        i = pick_line()
        if i + 1 < len(lines):
            lines[i:i + 2] = [lines[i] + rng.choice([b"", b" "]) + lines[i + 1]]
    elif kind == "splice-table":
        o = rng.choice(others)
        bl = split_blocks(o)
        if bl:
            blk = rng.choice(bl)
            if rng.random() < 0.5:
                # into the middle of one of our own tables
                i = pick_line(lambda l: l.startswith(b"@"))
                lines[i + 1:i + 1] = blk.split(b"\n")[rng.randrange(0, 2):]
            else:
                i = rng.randrange(len(lines) + 1)
                lines[i:i] = blk.split(b"\n")
    elif kind == "splice-line":
        o = rng.choice(others).split(b"\n")
        i = rng.randrange(len(lines) + 1)
        lines[i:i] = [rng.choice(o)]
    elif kind == "insert-char":
        i = pick_line()
        k = rng.randrange(len(lines[i]) + 1)
        ch = rng.choice([b"\x00", b"\xff", b"[", b"]", b"/", b"{", b"}", b"'", b"\"", b"*", b"~", b"\\", b"L", b"|", b";", b"_", b"^", b"&", b"R", b"-", b"$", b":", b".", b",", b"@", b"#", b"%", b"D1", b"\r"])
        lines[i] = lines[i][:k] + ch + lines[i][k:]
    elif kind == "cut-file":
        s = b"\n".join(lines)
        return s[:rng.randrange(len(s))], kind
    elif kind == "replace-track-letter":
        i = pick_line(lambda l: len(l) > 1 and l[:1].isalpha() and l[:1].isupper())
        lines[i] = rng.choice([b"*", b"*100", b"Z", b"0", b"J", b"G", b"K", b"AB", b"ABCDEFGHIJKL", b"*99999999999", b"M"]) + lines[i][1:]
    return b"\n".join(lines), kind


def song_cases(rng, tier):
    songs = sample_songs()
    for name, s in songs:
        for o in ("m", "v", "l", "mO", "vO"):
            yield Case("total %s %s%s" % (o, hx(s), PCM_SIDE), ("song", "shipped-unchanged"), "song")
        yield Case("tool m %s%s" % (hx(s), PCM_SIDE), ("song", "shipped-unchanged", "tool"), "tool")
        yield Case("tool l %s%s" % (hx(s), PCM_SIDE), ("song", "shipped-unchanged", "tool"), "tool")
        # without the sample directory: missing files
        yield Case("total m %s" % hx(s), ("song", "shipped-without-pcm"), "song")
        yield Case("total v %s" % hx(s), ("song", "shipped-without-pcm"), "song")
    n = 200 if tier == "quick" else 9000
    bodies = [s for _, s in songs]
    for i in range(n):
        s = rng.choice(bodies)
        s0 = s
        others = [o for o in bodies if o is not s]
        tags = []
        for _ in range(rng.choice([1, 1, 1, 2, 3])):
            s, k = mutate(rng, s, others)
            tags.append("mut-" + k)
        r = rng.random()
        o = "m" if r < 0.5 else "v" if r < 0.8 else "l" if r < 0.92 else "mO" if r < 0.97 else "vO"
        # a mutation that multiplies the song (a line or token repeated 20-30 times) makes the optimiser's
        # legitimate cost approach the CPU limit (84 s for midnight.mml with one melody line x30): no -O there
        if "O" in o and len(s) > len(s0) + 1500:
            o = o.replace("O", "")
        cmd = "tool" if rng.random() < 0.04 else "total"
        yield Case("%s %s %s%s" % (cmd, o, hx(s), PCM_SIDE), ("song",) + tuple(sorted(set(tags))) + (("tool",) if cmd == "tool" else ()), "tool" if cmd == "tool" else "mutated-song")


# ------------------------------------------------------------------ random text
ALPHABET = "abcdefghr^&o<>lQqR~Cs\\[]/L*'@_kKv()VpEMPGDtT{}|;%+-=.:,$x0123456789 \t\n#\"ABCGHIJKZ"
CMDS = ["c", "d", "e", "f", "g", "a", "b", "h", "r", "^", "&", "o", "<", ">", "l", "Q", "q", "R", "~", "C", "s", "\\", "\\=", "[", "]", "/", "L", "*", "'", "@", "_", "__", "_{", "k", "K", "v",
        "(", ")", "V", "V+", "V-", "p", "E", "M", "P", "G", "D", "t", "T", "{", "}", "|", ";", "%", "+", "-", "=", ".", ":", ","]
PLATFORM_CMDS = ["fm3 0011", "fm3 1111", "fm3", "lfo 1 2", "lfo", "lforate 3", "mode 1", "pcmmode 3", "pcmrate 4", "write 48 5", "write tl1 9", "write x", "tl1 +5", "tl3 40", "carry", "bogus", "",
                 "cmd 250 0", "cmd 251 2", "cmd 252 0", "cmd 254 1", "cmd 225 0", "cmd 245", "cmd"]


def rnd_num(rng):
    r = rng.random()
    if r < 0.55:
        return str(rng.randrange(0, 20))
    if r < 0.75:
        return str(rng.choice(B))
    if r < 0.85:
        return str(rng.randrange(-300, 70000))
    if r < 0.92:
        return "$" + "%x" % rng.randrange(0, 70000)
    return ""


def rnd_structured(rng):
    """lines of plausible commands with random/boundary parameters on random tracks"""
    lines = []
    if rng.random() < 0.3:
        lines.append("#platform " + rng.choice(["mdsdrv", "megadrive", "x"]))
    if rng.random() < 0.4:
        lines.append(FM_OK.rstrip("\n"))
    if rng.random() < 0.4:
        lines.append("@10 psg 15 14 | 12>0:20")
    if rng.random() < 0.3:
        lines.append("@M1 0:10 | V0:1:4")
    if rng.random() < 0.3:
        lines.append("@30 pcm \"a.wav\"")
    for _ in range(rng.randrange(1, 7)):
        tr = rng.choice(["A", "B", "F", "G", "J", "K", "I", "M", "AB", "ABC", "*100", "*101", "*102", "AG", "Z", "0"])
        n = rng.randrange(1, 30)
        s = []
        for _ in range(n):
            c = rng.choice(CMDS)
            if c == "'":
                s.append("'" + rng.choice(PLATFORM_CMDS) + rng.choice(["'", "'", "'", ""]))
            elif c == "_{":
                s.append("_{" + rng.choice(["C", "G", "a", "f+", "+cf", "-be", "=a", "x", ""]) + rng.choice(["}", "}", ""]))
            elif c == "\\=":
                s.append("\\=" + rnd_num(rng) + "," + rnd_num(rng))
            elif c in "cdefgabhr^":
                s.append(c + rng.choice(["", "", "+", "-", "="]) + rng.choice(["", "", "4", "8", "16", ":" + rnd_num(rng), rnd_num(rng)]) + rng.choice(["", "", "."]))
            elif c in ("@", "E", "M", "P", "D", "*"):
                s.append(c + rng.choice(["1", "10", "30", "100", "101", "102", "0", rnd_num(rng)]))
            elif c in "[{":
                s.append(c)
            elif c == "]":
                s.append("]" + rnd_num(rng))
            else:
                s.append(c + rng.choice(["", rnd_num(rng), rnd_num(rng)]))
        lines.append(tr + " " + rng.choice(["", " "]).join(s))
    rng.shuffle(lines)
    return "\n".join(lines)


def random_cases(rng, tier):
    okw = wav_ok().hex()
    n = 600 if tier == "quick" else 30000
    for i in range(n):
        r = rng.random()
        if r < 0.35:
            ln = rng.choice([1, 2, 3, 5, 8, 20, 60, 200])
            text = "".join(rng.choice(ALPHABET) for _ in range(ln))
            if rng.random() < 0.7:
                text = rng.choice(["A ", "AB ", "G ", "*100 ", "@1 ", "#x ", "J", "F "]) + text
            tag = "random-alphabet"
        elif r < 0.4:
            text = bytes(rng.randrange(256) for _ in range(rng.choice([1, 4, 16, 64]))).decode("latin-1")
            if rng.random() < 0.5:
                text = "A " + text
            tag = "random-bytes"
        else:
            text = rnd_structured(rng)
            tag = "random-structured"
        b = text.encode("latin-1", "replace")
        side = " a.wav=h:" + okw if "a.wav" in text else ""
        q = rng.random()
        o = "m" if q < 0.4 else "v" if q < 0.65 else "l" if q < 0.75 else "mO" if q < 0.92 else "vO"
        cmd = "tool" if rng.random() < 0.03 else "total"
        yield Case("%s %s %s%s" % (cmd, o, hx(b), side), (tag, "opt-" + o) + (("tool",) if cmd == "tool" else ()), "tool" if cmd == "tool" else tag)


def cases(rng, tier):
    for g in (corpus_cases, table_cases, wav_cases, song_cases, random_cases):
        for c in g(rng, tier):
            yield c


# ------------------------------------------------------------------ verdict helpers
STAGES = ["parse", "validate", "optimize", "export", "link"]


def _stage_of(ans):
    m = re.match(r"\w+@(\w+)", ans)
    return STAGES.index(m.group(1)) if m and m.group(1) in STAGES else None


def agree(case, impl, model):
    """Correspondence relation of the pipeline model (Driver/Total.lean) with the implementation:
    the model names the first stage whose outcome is not `ok` and its class; `unmodelled@S` only
    claims that stage S is reached; `skipped` claims nothing (input above the bound of the model
    stream).  Outcomes of the implementation that are failures (sanitizer report, foreign
    exception, hang) are judged, not compared.  `wavfix` is compared literally."""
    if case.req.startswith("wavfix "):
        return impl == model
    if model.startswith("skipped:") or model == "bad-request":
        return True
    if case.req.startswith("tool "):
        if model == "ok":
            return impl.startswith("exit:0:") or not impl.startswith("exit:")
        if model.startswith("input_error@"):
            return impl.startswith("exit:255:") or not impl.startswith("exit:")
        return True
    routed = impl == "ok" or impl.startswith("input_error@")
    if model.startswith("foreign@"):
        # the model predicts a foreign exception / UB site at this stage: the implementation must fail there too
        return not routed
    if not routed:
        return True
    if model == "ok":
        return impl == "ok"
    if model.startswith("input_error@"):
        return impl.startswith(model + ":")
    if model.startswith("unmodelled@"):
        return impl == "ok" or (_stage_of(impl) is not None and _stage_of(impl) >= _stage_of(model))
    return False


def model_notes(cases, impl, model):
    """how much of the run the stage models cover: the model's answers by class, per format (the
    `unmodelled@…` answers are the `Residual`s of Model/Pipeline; `skipped` the bounds of the model stream)"""
    fmts = {"m": "mds", "v": "vgm", "l": "link"}
    hist = {}
    for c, m in zip(cases, model):
        t = c.req.split(" ")
        if t[0] not in ("total", "tool") or len(t) < 2:
            continue
        f = fmts.get(t[1][:1], "?")
        k = re.sub(r"^(foreign@\w+):.*", r"\1", m)
        k = m.split(":")[0] if m.startswith(("unmodelled@", "skipped", "foreign@")) else k
        hist.setdefault(f, {})
        hist[f][k] = hist[f].get(k, 0) + 1
    out = []
    for f in ("mds", "vgm", "link"):
        h = hist.get(f, {})
        tot = sum(h.values())
        if not tot:
            continue
        un = sum(v for k, v in h.items() if k.startswith("unmodelled@"))
        sk = sum(v for k, v in h.items() if k.startswith("skipped"))
        reach = sum(v for k, v in h.items() if k in ("ok", "input_error@export", "input_error@link", "foreign@export", "foreign@link") or k.startswith("unmodelled@"))
        full = sum(v for k, v in h.items() if k in ("ok", "input_error@export", "input_error@link"))
        out.append("model answers, format %s: %d cases; %d reach the export stage, of these %d (%.1f%%) are answered by the stage models to the end "
                   "(ok / input_error@export / input_error@link) and %d are `unmodelled@…`; skipped (stream bounds) %d; classes: %s"
                   % (f, tot, reach, full, 100.0 * full / reach if reach else 0.0, un, sk, ", ".join("%s x%d" % kv for kv in sorted(h.items()))))
    return out


def outcome_class(ans):
    if ans.startswith(("r=", "exc:")):
        return "wavfix:" + ans.split(" ")[0].split("=")[0]
    m = re.match(r"(input_error@\w+)", ans)
    if m:
        return m.group(1)
    return ans[:90]


def finding_key(case, impl, judge):
    """(outcome class, top in-repo frame); the tool stream has its own prefix"""
    if case.req.startswith("wavfix "):
        t = impl.split(" ")
        return "wavfix:" + (t[1] if t[0] == "crash" and len(t) > 1 else t[0].split("=")[0])
    k = impl.split(" ")[0]
    if case.req.startswith("tool "):
        k = "tool:" + k
    return k[:120]


def shrink(req):
    """drop side files, lines, halves of lines, single characters"""
    t = req.split(" ")
    if len(t) < 3:
        return
    if t[0] == "wavfix":
        # drop the override argument, then bytes from the end of the file
        if len(t) > 6:
            yield " ".join(t[:6])
        h = t[5][2:] if len(t) > 5 and t[5].startswith("x:") else ""
        for cut in (len(h) // 2, len(h) - 16, len(h) - 2):
            cut -= cut % 2
            if 0 < cut < len(h):
                yield " ".join(t[:5] + ["x:" + h[:cut]] + t[6:])
        return
    head, opts, hexs, side = t[0], t[1], t[2], t[3:]
    for i in range(len(side)):
        yield " ".join([head, opts, hexs] + side[:i] + side[i + 1:])
    b = bytes.fromhex(hexs) if hexs != "-" else b""
    if "O" in opts:
        # an optimiser run costs up to 90 s of CPU: try without -O, then halves only
        yield " ".join([head, opts.replace("O", ""), hexs] + side)
        ls = b.split(b"\n")
        if len(ls) > 1:
            h = len(ls) // 2
            yield " ".join([head, opts, hx(b"\n".join(ls[:h]))] + side)
            yield " ".join([head, opts, hx(b"\n".join(ls[h:]))] + side)
        return
    lines = b.split(b"\n")
    def out(ls):
        return " ".join([head, opts, hx(b"\n".join(ls))] + side)
    if len(lines) > 1:
        h = len(lines) // 2
        yield out(lines[:h])
        yield out(lines[h:])
        for i in range(min(len(lines), 40)):
            yield out(lines[:i] + lines[i + 1:])
    for i, l in enumerate(lines[:12]):
        if len(l) > 1:
            h = len(l) // 2
            yield out(lines[:i] + [l[:h]] + lines[i + 1:])
            yield out(lines[:i] + [l[:1] + b" " + l[h:]] + lines[i + 1:])
            if len(l) <= 24:
                for k in range(len(l)):
                    yield out(lines[:i] + [l[:k] + l[k + 1:]] + lines[i + 1:])


TECHNIQUE = ("Lean 4 proof of outcome totality per modelled stage (weakest-precondition calculus over the MML reader; stack-frame invariant + C04 for the validator; "
             "C01's termination measure + a stack-list completeness invariant + validator stability for the optimiser; bank-index and player invariants by induction over the mutually recursive track writer for the converter; "
             "C14 for the WAV reader; composition theorem with explicit stage hypotheses) + sanitizer-instrumented execution of the real pipeline on generated inputs "
             "(ASan+UBSan incl. alignment, forked child, CPU limit) + per-stage differential correspondence pipeline model <-> implementation")
LEVEL_TEXT = ("Level `other` (mixed proof + execution, stated as partial). PROVED over the Lean models, for ALL inputs of the stage: (1) parse — for every byte string given "
              "as the MML file the reader ends in a parsed song or an InputError with a non-empty message, never in another exception type, an undefined-behaviour site of "
              "Line_Buffer/MML_Input/Track, or an exhausted loop (C15_parse_routed, C15_reader_never_foreign); (2) validate — Song_Validator on every song without explicit END events "
              "terminates in success or one of the player's messages, and its vector::at can never throw (C15_validate_routed, C15_validator_never_out_of_range; from C04 + a new invariant); "
              "(3) sample files — load_file + Wave_File::read on every byte string return a decoded file or 'not found' without reading outside the buffer or stalling (C15_wav_reader_total, from C14); "
              "(4) optimise — for every validated song in the decidable domain OptDomain (ids in order and below 32767, tracks shorter than 32767 events, LOOP_BREAKs without duration, int16 JUMP/NOTE parameters, "
              "initialSubId + totalEvents < 32767) Optimizer::optimize ends in the optimised song or an InputError with a message: the pass loop ends (C01), analyze_stack builds a complete stack list for every track so "
              "find_match_length never reads event_list outside its bounds, Song::get_track is never called on a missing track, and the Song_Validator run after every pass ends — the run with the executable validator is "
              "shown equal to the run with the ideal validator (C15_optimize_routed, C15_optimizer_never_foreign, C15_stack_lists_complete); (5) export mds — for EVERY input the converter model never fails in the RIFF writer, "
              "never reports at() on an empty stream, never indexes data_bank outside the bank and its writer's player never hits the vector::at of the final-pass break (C15_mds_export_no_ub, C15_mds_export_routed); the two other "
              "undefined-behaviour constructors of the model were REACHABLE and are repaired in the repository: header_size wrapping at 16 bits (5952bf5) and a raw `cmd` loop end outside a loop = top() of an empty std::stack, SIGSEGV (3e0ed67); "
              "(6) RIFF reader, conf parser, VGM writer have no UB outcome (collected from C13/C20/C08); (7) link — on EVERY byte string that C10's strict container reader accepts (PCM windows below 1 GiB) add_song / get_seq_data / the headers end in output or "
              "an InputError: each foreign Linker.Err constructor (out_of_range, invalid_argument, out-of-bounds, hang, division by zero) is excluded (C15_link_accepts_strict_files); the strict reader accepts the converter's own file under the five named conditions of "
              "LinkFileHyps (C15_exported_file_parses_partial, C15_link_stage_routed_partial; an export whose seq chunk exceeds 64 KiB is provably rejected by the strict reader — the converter bounds only the start of each stream); (8) export vgm — play_step never takes the "
              "non-integer branch, for every driver data and song (C15_vgm_never_non_integer); on the data read_song built the PSG envelope stepper and the PCM sample lookup stay in range and the VGM_Writer does not fail, under PsgEnvsOK + FilesSmall "
              "(C15_vgm_export_no_ub_partial; the wave_map part is proved: waveMapOK_of_readSong); (9) the composition with PER-INPUT hypotheses (C15_pipeline_total_partial over ExportHyps, C15_pipeline_terminates; round 2's form with universally "
              "quantified stage hypotheses is kept as C15_pipeline_total_under_stage_hyps) and the mds path without -O with no residual at all under two hypotheses decided by evaluation (C15_pipeline_total_mds_partial). "
              "NOT PROVED, tested: the MODEL's writer budget (20 000 000 steps per stream, depth 64) on the given song, PsgEnvsOK (read_song stores only well-formed PSG envelopes: the channel-level proof is done, the induction over add_ins_psg / read_song is not), "
              "PcmKeysAreHeaders + PlatformClean + SeqFits + the size bounds TreeSmall / SideFilesSmall / FilesSmall for the link and vgm stages, "
              "songs outside OptDomain with -O, the VGM play loop outside Model/MdDriver's subset, instrument/platform-command inputs outside the "
              "C09/C11 models; and — for every stage — memory safety / UB-freedom of the compiled binary, which is observed by ASan+UBSan (alignment on) on generated inputs in a forked child "
              "with CPU limits, every outcome other than ok or an InputError with a message being a finding keyed by (class, first repository frame).")
LEVEL_NOTE = ("Partial by construction. UNDER A THEOREM (all inputs): MML reader (parse stage), track/song validator, optimise stage on OptDomain, WAV loader, the converter's undefined-behaviour constructors (RIFF writer, at() on an "
              "empty stream, data_bank index, the writer's vector::at), the link stage on every strictly readable container, the driver's clock (non-integer step), RIFF get_chunk/constructor, Conf::from_string, VGM_Writer buffer arithmetic, composition of stage outcomes. HYPOTHESES of the composite theorem "
              "(ExportHyps, Proofs/PipelineRound3 — each about the inputs the run of the given text hands to its export stage, not about all inputs): the model's own writer budget on the converted song (not a property of the code); vgm: PsgEnvsOK (every PSG-typed "
              "instrument's stored envelope is level/sustain bytes followed by an end or a backward loop command) and FilesSmall (side files below 1 GiB) — the non-integer step and the PCM lookup are theorems; link: TreeSmall (RIFF data vectors below 4 GiB), "
              "PlatformClean (no raw cmd with PAT/INS/PCM/PEG/MTAB), SeqFits (seq chunk at most 64 KiB: the bound of the strict reader the proof goes through, not of the linker), SideFilesSmall, PcmKeysAreHeaders — the linker on an accepted file is a theorem; OptInDomain (with -O: the parsed song satisfies OptDomain; decidable, checked by the model stream on every -O case), Residual routed (VGM play loop outside "
              "Model/MdDriver's subset, definitions or platform commands outside Model/MdsData / MdsPlatform). ONLY UNDER SANITIZER EXECUTION: those hypotheses, the tools' main(), and memory safety of the real "
              "binary in every stage. The executable pipeline model — now including the linker and the VGM driver — is compared per stage with the implementation on every generated input within stated bounds (EXPLANATION). Trusted: g++/ASan/UBSan "
              "runtimes, harness/h_total.cpp, the CPU limit as the definition of a hang, the Lean kernel and compiler, the hand-written models (Mml, Lexer, TrackBuilder, Tags, Player, Optimizer, "
              "MdsData, MdsConv, MdsFile, MdDriver, Linker, Wave, Riff) whose agreement with the code is established by differential testing here and in C01/C04/C05/C07/C08/C09/C10/C11/C14/C17/C18, not proved.")
