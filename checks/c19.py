"""C19 — The command-line tools report success truthfully and write the library's output.

The implementation side of this check is the BUILT EXECUTABLES of the current tree (mmlc, mdslink;
ASan+UBSan, core.build_tools) run as subprocesses in scratch directories under build/cli/, plus the
in-process harness (`clilib`) for "what the library produces for the same input and options".

request line (see lean/Driver/Cli.lean):
    cli <tool> <args> <items|-> <unwritable|-> <fs> <plan> <lib>
  <fs>   = comma-separated <hex relpath>=<content id>   (content ids: see content_bytes)
  <plan> = the model's answer to `cliplan` (which library calls main makes), <lib> = the harness's
           answers to those calls; both are recomputed when a request is replayed and a change of
           <lib> is reported (`libnow=`).
impl answer:  exit=<status> err=<0|1> files=<hex name>=<len>:<fnv64>,…|-     or   crash <what>
"""
import atexit, hashlib, os, re, shutil, subprocess, threading
from concurrent.futures import ThreadPoolExecutor
from vlib import core
from vlib.core import Case

ID = "C19"
LEAN_MODULE = "Ctrmml.Properties.C19"
THEOREMS = ["C19_output_name_spec", "C19_format_case_insensitive", "C19_exit_zero_iff_written", "C19_no_crash",
            "C19_link_song_name_spec", "C19_link_exit_zero_iff_written", "C19_link_no_crash",
            "C19_v0_missing_operand", "C19_v0_link_missing_operand", "C19_v0_output_name"]
LEVEL = "other"
STREAM = "cli.run"
CHUNK = 100
CASE_SECONDS = 60
TECHNIQUE = ("Lean 4 proof of the pure naming / option / exit-status logic (model of mmlc.cpp and mdslink.cpp main, output_filename, get_filename, iequal) "
             "+ execution of the built executables over generated argument vectors, compared with the model's prediction and with the in-process library export")
LEVEL_TEXT = ("Machine-checked theorems over a Lean model of the tools' own logic (argument loops written with the C++ index arithmetic and an explicit NULL at argv[argc], "
              "format lookup, output-name derivation, song-name derivation with size_t wrap-around, exit-status decision as a function of the library's and the file system's answers): "
              "the derived output name is directory part + stem of the last path component + '.' + format for ALL paths; the format option selects case-insensitively; status 0 exactly "
              "when every library step succeeded and the requested files hold the library's bytes; no argument vector reaches an undefined-behaviour site. That the argument loop computes the "
              "documented meaning of a well-formed command line in every option order is NOT a theorem (C19_full_statement); it is checked per generated command by the judge. File I/O, process exit status and signals live in the runtime and are NOT covered by a theorem: they are "
              "checked by running the real mmlc and mdslink (sanitizer build) and comparing exit status, stderr, the set of files written and their bytes with the model and with the "
              "library export obtained in-process.")
LEVEL_NOTE = ("Level 'other': proof for the pure logic, execution of the real tools for the rest. Trusted: Lean kernel (propext, Classical.choice, Quot.sound at most), Model/Cli.lean "
              "(agreement with mmlc.cpp/mdslink.cpp established by running the executables, not proved), Spec/Cli.lean, the library oracle interface (what parse/validate/optimise/export/"
              "link answer is taken from the in-process harness), POSIX path separator '/', output locations writable (unwritable locations are outside the property; mmlc and mdslink do "
              "not check the stream state and exit 0 there — reported as an observation), ASCII case folding for the format name, the derived extension is the format name as the user "
              "spelled it (-f MDS writes song.MDS).")
RULE = ("argument vectors for the built mmlc/mdslink: well-formed commands (input path x -o x -f in {none,vgm,mds,VGM,Mds,mDS,unknown,empty} x -O x -v, both spellings, every order) "
        "over valid songs (generated, /repo/sample/*.mml), rejected songs (unterminated loop, stray bracket, missing subroutine, '*' line, binary garbage, missing file), input paths "
        "with/without extension or directory part, dot only in a directory, hidden files, 255..257-character paths; raw vectors (missing operands, -h anywhere, options as operands, "
        "empty strings, duplicates); mdslink with 1..3 inputs (.mml, .mds, .MDS, broken .mds), -o/-h/-i. non-trivial = anything but the bare 'tool input.mml'; distinct by request text")
EXPLANATION = ("theorems over Model/Cli + Spec/Cli for all argument vectors, paths and library answers; the model is tied to the code by running the built executables on generated "
               "argument vectors and comparing status/stderr/files/bytes; the spec oracle (Spec.mmlcVerdict/linkVerdict) is applied to the observed runs; the bytes are compared with "
               "the library export computed in-process for the same path and options")
ASSUMPTIONS = ["output locations writable (cases with an unwritable location are run and compared with the model but judged 'skip')",
               "argument strings are valid UTF-8 without NUL; POSIX build ('/' is the only separator)",
               "path length below 2^63 (C19_link_song_name_spec)",
               "the library's answers (parse/validate/optimise/export/link) are an oracle to the tool logic; they are obtained in-process for the same path and options"]
TRUSTED = ["the built executables are compiled from /repo/src/mmlc.cpp and /repo/src/platform/mdslink.cpp of the current tree with the harness flags (core.build_tools)"]

REPO = core.REPO
TAGS = "#vgmdate 2020-01-01\n#comment verif\n"
OK1 = TAGS + "A o4l4 cdef\n"
SAMPLES = ["idk", "junkers_high", "midnight", "passport", "sand_light"]
_lock = threading.Lock()
_base = None
_mds_cache = {}
_lib_cache = {}


def hx(s):
    b = s if isinstance(s, bytes) else s.encode("utf-8")
    return b.hex() or "_"


def unhx(h):
    return "" if h == "_" else bytes.fromhex(h).decode("utf-8")


def base_dir():
    global _base
    with _lock:
        if _base is None:
            _base = os.path.join(core.BUILD, "cli", "p%d" % os.getpid())
            shutil.rmtree(_base, ignore_errors=True)
            os.makedirs(_base)
            atexit.register(lambda: shutil.rmtree(_base, ignore_errors=True))
    return _base


def tool_env():
    return core.env_clean()


# ------------------------------------------------------------------ file-system scenarios
def compile_mds(text_bytes, with_pcm):
    key = hashlib.sha1(text_bytes).hexdigest()
    with _lock:
        if key in _mds_cache:
            return _mds_cache[key]
    d = os.path.join(base_dir(), "mds_" + key[:12])
    os.makedirs(d, exist_ok=True)
    with open(os.path.join(d, "in.mml"), "wb") as f:
        f.write(text_bytes)
    if with_pcm and not os.path.exists(os.path.join(d, "pcm")):
        os.symlink(os.path.join(REPO, "sample", "pcm"), os.path.join(d, "pcm"))
    tools = core.build_tools()
    subprocess.run([tools["mmlc"], "in.mml", "-f", "mds", "-o", "out.mds"], cwd=d, capture_output=True, env=tool_env(), timeout=120)
    p = os.path.join(d, "out.mds")
    data = open(p, "rb").read() if os.path.exists(p) else b""
    with _lock:
        _mds_cache[key] = data
    return data


def compile_mds_wav(nbytes):
    import struct
    key = "wav%d" % nbytes
    with _lock:
        if key in _mds_cache:
            return _mds_cache[key]
    d = os.path.join(base_dir(), "mds_" + key)
    os.makedirs(d, exist_ok=True)
    data = bytes((i * 7 + 3) % 256 for i in range(nbytes))
    wav = b"RIFF" + struct.pack("<I", 36 + nbytes) + b"WAVEfmt " + struct.pack("<IHHIIHH", 16, 1, 1, 8000, 8000, 1, 8) + b"data" + struct.pack("<I", nbytes) + data
    with open(os.path.join(d, "odd.wav"), "wb") as f:
        f.write(wav + (b"\0" if nbytes % 2 else b""))
    with open(os.path.join(d, "in.mml"), "wb") as f:
        f.write((TAGS + "@1 pcm odd.wav\nF @1 o4 l4 c\n").encode())
    tools = core.build_tools()
    subprocess.run([tools["mmlc"], "in.mml", "-f", "mds", "-o", "out.mds"], cwd=d, capture_output=True, env=tool_env(), timeout=120)
    p = os.path.join(d, "out.mds")
    out = open(p, "rb").read() if os.path.exists(p) else b""
    with _lock:
        _mds_cache[key] = out
    return out


def sample_text(name, tagged):
    with open(os.path.join(REPO, "sample", name + ".mml"), "rb") as f:
        t = f.read()
    return (TAGS.encode() + t) if tagged else t


def content_bytes(cid):
    k, v = cid[0], cid[1:]
    if k == "g":            # inline text (hex)
        return bytes.fromhex(v)
    if k == "s":            # /repo/sample/<v>.mml with #vgmdate/#comment prepended (deterministic VGM)
        return sample_text(v, True)
    if k == "u":            # /repo/sample/<v>.mml unmodified
        return sample_text(v, False)
    if k == "m":            # the .mds the current mmlc compiles from inline text (hex)
        return compile_mds(bytes.fromhex(v), False)
    if k == "M":            # the .mds of a sample
        return compile_mds(sample_text(v, True), True)
    if k == "r":            # raw bytes (hex)
        return bytes.fromhex(v)
    if k == "o":            # the .mds the current mmlc compiles from a song with one 8-bit mono sample of <v> bytes
        return compile_mds_wav(int(v))
    raise ValueError("content id " + cid)


def fs_str(fs):
    return ",".join("%s=%s" % (hx(p), c) for p, c in fs) or "-"


def fs_parse(s):
    if s == "-":
        return []
    return [(unhx(a), b) for a, b in (x.split("=", 1) for x in s.split(","))]


def materialize(fs, root):
    os.makedirs(root, exist_ok=True)
    for rel, cid in fs:
        p = os.path.join(root, rel)
        if cid == "d":
            os.makedirs(p, exist_ok=True)
            continue
        os.makedirs(os.path.dirname(p), exist_ok=True)
        with open(p, "wb") as f:
            f.write(content_bytes(cid))
        if cid[0] in "su":
            link = os.path.join(os.path.dirname(p), "pcm")
            if not os.path.lexists(link):
                os.symlink(os.path.join(REPO, "sample", "pcm"), link)


def world_dir(fss):
    d = os.path.join(base_dir(), "w_" + hashlib.sha1(fss.encode()).hexdigest()[:16])
    with _lock:
        fresh = not os.path.exists(d)
        if fresh:
            os.makedirs(d)
    if fresh:
        materialize(fs_parse(fss), d)
        open(d + ".ready", "w").close()
    else:
        import time
        for _ in range(600):
            if os.path.exists(d + ".ready"):
                break
            time.sleep(0.05)
    return d


# ------------------------------------------------------------------ plan + library answers
def args_str(args):
    return ",".join(hx(a) for a in args) or "x"


def lib_requests(hexe, todo):
    """todo: list of (fss, tool, plan) → list of lib answers ('+'-joined)"""
    reqs, idx = [], {}
    for fss, tool, plan in todo:
        if plan == "plan none":
            continue
        key = (fss, tool, plan)
        if key in _lib_cache or key in idx:
            continue
        idx[key] = len(reqs)
        reqs.append("clilib %s %s %s" % (hx(world_dir(fss)), tool, plan[len("plan "):]))
    if reqs:
        ans, _ = core.run_harness_chunked(hexe, reqs, CASE_SECONDS, chunk=8)
        # a library call that ran out of time on a loaded machine is asked again, alone and with a
        # generous limit: only a real hang stays a timeout
        slow = [i for i, a in enumerate(ans) if a == "timeout" or a == "not-run-after-timeouts"]
        for i in slow:
            a2, _ = core.run_harness(hexe, [reqs[i]], CASE_SECONDS * 8)
            ans[i] = a2[0]
        for key, i in idx.items():
            _lib_cache[key] = ans[i].replace(" ", "+")
    return ["none" if plan == "plan none" else _lib_cache[(fss, tool, plan)] for fss, tool, plan in todo]


def make_requests(scens):
    """scens: list of dict(tool, args, items, unw, fs) → request lines"""
    drv, dout = core.build_driver()
    if drv is None:
        raise core.InfraError("model driver does not build: " + dout[-600:])
    hexe = core.build_harness()
    plans = core.run_driver_chunked(drv, ["M cliplan %s %s" % (s["tool"], args_str(s["args"])) for s in scens], chunk=400)
    fsss = [fs_str(s["fs"]) for s in scens]
    libs = lib_requests(hexe, [(fsss[i], scens[i]["tool"], plans[i]) for i in range(len(scens))])
    out = []
    for i, s in enumerate(scens):
        out.append("cli %s %s %s %s %s %s %s" % (s["tool"], args_str(s["args"]), s.get("items") or "-",
                                                ",".join(hx(u) for u in s.get("unw", [])) or "-", fsss[i],
                                                plans[i].replace(" ", "+"), libs[i]))
    return out


# ------------------------------------------------------------------ running the executables
def snapshot(root):
    out = {}
    for d, dirs, fs in os.walk(root):
        for f in fs:
            p = os.path.join(d, f)
            if os.path.islink(p):
                continue
            st = os.stat(p)
            out[os.path.relpath(p, root)] = (st.st_size, st.st_mtime_ns, st.st_ino)
    return out


def crash_text(rc, err):
    m = re.search(r"(runtime error: [^\n]*|ERROR: AddressSanitizer: [^\n]*)", err)
    what = m.group(1) if m else ("signal %d" % -rc if rc < 0 else "rc=%d" % rc)
    what = re.sub(r"0x[0-9a-f]+", "ADDR", what)
    what = re.sub(r"pc ADDR bp ADDR sp ADDR T\d+", "", what).strip()
    t = re.search(r"terminate called after throwing an instance of '([^']+)'", err)
    if t:
        what += " uncaught " + t.group(1)
    fm = re.search(r"#\d+ 0x[0-9a-f]+ in [^\n]*?/src/((?:platform/)?\w+\.cpp:\d+)", err)
    return "crash " + what + (" at " + fm.group(1) if fm else "")


def run_one(tools, idx, req):
    t = req.split(" ")
    if len(t) != 8 or t[0] != "cli" or t[1] not in tools:
        return ("bad-request", None, [])
    tool, args = t[1], ([] if t[2] == "x" else [unhx(a) for a in t[2].split(",")])
    root = os.path.join(base_dir(), "run_%d_%d" % (idx, threading.get_ident()))
    shutil.rmtree(root, ignore_errors=True)
    materialize(fs_parse(t[5]), root)
    before = snapshot(root)
    try:
        p = subprocess.run([tools[tool]] + args, cwd=root, capture_output=True, env=tool_env(), timeout=CASE_SECONDS * 2, stdin=subprocess.DEVNULL)
    except subprocess.TimeoutExpired:
        return ("timeout", root, [])
    err = p.stderr.decode("utf-8", "replace")
    if p.returncode < 0 or p.returncode in (98, 99) or "AddressSanitizer" in err or "runtime error:" in err:
        return (crash_text(p.returncode, err), root, [])
    after = snapshot(root)
    changed = sorted(n for n in after if before.get(n) != after[n])
    return ("exit=%d err=%d" % (p.returncode, 1 if err else 0), root, changed)


def run_impl(hexe, reqs, secs):
    tools = core.build_tools()
    # the library's answers now, for the same world and plan (replayed requests may be stale)
    todo = []
    for r in reqs:
        t = r.split(" ")
        todo.append((t[5], t[1], t[6].replace("+", " ")) if len(t) == 8 else ("-", "mmlc", "plan none"))
    libnow = lib_requests(hexe, todo)
    with ThreadPoolExecutor(max_workers=14) as ex:
        res = list(ex.map(lambda ir: run_one(tools, ir[0], ir[1]), enumerate(reqs)))
    hreqs, where = [], []
    for i, (head, root, changed) in enumerate(res):
        for n in changed:
            where.append((i, n))
            hreqs.append("clifile " + hx(os.path.join(root, n)))
    hashes = {}
    if hreqs:
        ans, _ = core.run_harness_chunked(hexe, hreqs, 30, chunk=100)
        for (i, n), a in zip(where, ans):
            hashes.setdefault(i, []).append((hx(n), a))
    out, ncrash = [], 0
    for i, (head, root, changed) in enumerate(res):
        if head.startswith("exit="):
            fl = ",".join("%s=%s" % (n, h) for n, h in sorted(hashes.get(i, []))) or "-"
            a = "%s files=%s" % (head, fl)
            t = reqs[i].split(" ")
            if libnow[i] != t[7]:
                a += " libnow=" + libnow[i]
        else:
            a = head
            ncrash += 1 if head.startswith("crash") or head == "timeout" else 0
        out.append(a)
        if root:
            shutil.rmtree(root, ignore_errors=True)
    return out, ncrash


# ------------------------------------------------------------------ generators
def g(text):
    return "g" + (text.encode("utf-8") if isinstance(text, str) else text).hex()


def gen_song(rng):
    lines = [TAGS]
    if rng.random() < 0.3:
        lines.append("#title T%d\n" % rng.randrange(100))
    if rng.random() < 0.3:
        lines.append("#platform %s\n" % rng.choice(["megadrive", "mdsdrv", "MegaDrive"]))
    for tr in rng.sample("ABCDEFGH", rng.choice([1, 1, 2, 3])):
        body = []
        for _ in range(rng.randrange(1, 7)):
            r = rng.random()
            if r < 0.6:
                body.append(rng.choice("cdefgab") + rng.choice(["", "4", "8", "2", "16"]))
            elif r < 0.75:
                body.append("r" + rng.choice(["", "4", "8"]))
            elif r < 0.9:
                body.append("[" + "".join(rng.choice("cdefgab") for _ in range(rng.randrange(1, 4))) + "]%d" % rng.choice([2, 3, 4]))
            else:
                body.append(rng.choice(["o3", "o5", ">", "<", "v10", "l8"]))
        lines.append("%s o4l4 %s\n" % (tr, " ".join(body)))
    return "".join(lines)


BAD_SONGS = [
    ("unterminated-loop", TAGS + "A o4 [c\n"),
    ("stray-bracket", TAGS + "A o4 c]2\n"),
    ("missing-subroutine", TAGS + "A o4 c *77\n"),
    ("unknown-command", TAGS + "A o4 c ` d\n"),
    ("star-line", "*\n"),                                   # std::invalid_argument, not InputError (D12)
    ("garbage", b"\xff\xfe\x00\x01RIFF\x80\x81 [[[ ]]] @@@ \n\n*x"),
    ("optimizer-throws", TAGS + "A v1[]2v1[]2v1[]2v1[]2v1[]2\n"),   # D1: valid song, -O throws InputError
    # input errors raised WITHOUT a source position (InputError(nullptr, ...)): definitions, sample files, tags
    ("fm-too-few-params", TAGS + "@1 fm 3 0\nA @1 o4 c\n"),
    ("missing-sample-file", TAGS + "@1 pcm nothere.wav\nF @1 o4 c\n"),
    ("2op-missing-base", TAGS + "@2 2op 9 1 1 1 1 0\nA @2 o4 c\n"),
    ("instrument-without-type", TAGS + "@1\nA @1 o4 c\n"),
    ("tag-not-utf8", b"#title \xff\xfe\nA o4 c\n"),
]
PATHS = [("plain", "song.mml"), ("nodot", "nodot"), ("dirdot-noext", "dir.v1/song"), ("dirdot-ext", "dir.v1/song.mml"),
         ("subdir", "sub/s.mml"), ("dotslash", "./song.mml"), ("hidden", "sub/.hidden"), ("multi-dot", "a.b.c.mml"),
         ("trailing-dot", "song."), ("only-ext", ".mml"), ("deep", "sub/deep/x.y/z"), ("space", "sp ace.mml"),
         ("utf8", "söng.mml"), ("dotdot", "sub/../up.mml"), ("upper-ext", "SONG.MML")]
LONG_PATHS = [("len255", "x" * 251 + ".mml"), ("len255-shortext", "y" * 253 + ".m"), ("len254-shortext", "y" * 252 + ".m"),
              ("len256", "d/" + "x" * 250 + ".mml"), ("len257", "./" + "x" * 251 + ".mml"), ("len257-nodot", "dd/" + "z" * 254),
              ("len300", "a" * 100 + "/" + "b" * 100 + "/" + "c" * 94 + ".mml")]
FORMATS = [("fmt-default", None), ("fmt-vgm", "vgm"), ("fmt-mds", "mds"), ("fmt-VGM", "VGM"), ("fmt-Mds", "Mds"), ("fmt-mDS", "mDS"),
           ("fmt-unknown", "xyz"), ("fmt-prefix", "vg"), ("fmt-longer", "vgmm"), ("fmt-empty", "")]
W = {"o": ["-o", "--output"], "f": ["-f", "--format"], "O": ["-O", "--optimize"], "h": ["-h", "--c-header"], "a": ["-i", "--asm-header"]}


def render_mmlc(items):
    args, enc = [], []
    for it in items:
        k = it[0]
        if k == "o":
            args += [W["o"][it[1]], it[2]]; enc.append("o%d:%s" % (it[1], hx(it[2])))
        elif k == "f":
            args += [W["f"][it[1]], it[2]]; enc.append("f%d:%s" % (it[1], hx(it[2])))
        elif k == "O":
            args += [W["O"][it[1]]]; enc.append("O%d" % it[1])
        elif k == "v":
            args += ["-v"]; enc.append("v")
        else:
            args += [it[1]]; enc.append("i:" + hx(it[1]))
    return args, ",".join(enc)


def render_link(items):
    args, enc = [], []
    for it in items:
        k = it[0]
        if k == "o":
            args += [W["o"][it[1]], it[2], it[3]]; enc.append("o%d:%s:%s" % (it[1], hx(it[2]), hx(it[3])))
        elif k == "h":
            args += [W["h"][it[1]], it[2]]; enc.append("h%d:%s" % (it[1], hx(it[2])))
        elif k == "a":
            args += [W["a"][it[1]], it[2]]; enc.append("a%d:%s" % (it[1], hx(it[2])))
        else:
            args += [it[1]]; enc.append("i:" + hx(it[1]))
    return args, ",".join(enc)


def derived_name(path, fmt):
    i = path.rfind("/")
    d, b = path[:i + 1], path[i + 1:]
    stem = b.rsplit(".", 1)[0] if "." in b else b
    return d + stem + "." + fmt


def mmlc_scen(items, fs, tags, family, unw=()):
    args, enc = render_mmlc(items)
    return dict(tool="mmlc", args=args, items=enc, unw=list(unw), fs=fs, tags=tags, family=family)


def scenarios(rng, tier):
    S = []
    # ---------------- corpus: the defect inputs of DESIGN 2.2 D13 and the design's questions
    S.append(dict(tool="mmlc", args=["nodot"], items="i:" + hx("nodot"), fs=[("nodot", g(OK1))], tags=["corpus", "D13a-nodot"], family="corpus"))
    S.append(dict(tool="mmlc", args=["x.mml", "-o"], items="-", fs=[("x.mml", g(OK1))], tags=["corpus", "D13b-missing-operand"], family="corpus"))
    S.append(dict(tool="mmlc", args=["x.mml", "-f"], items="-", fs=[("x.mml", g(OK1))], tags=["corpus", "D13b-missing-operand"], family="corpus"))
    S.append(dict(tool="mmlc", args=["x.mml", "--output"], items="-", fs=[("x.mml", g(OK1))], tags=["corpus", "D13b-missing-operand"], family="corpus"))
    S.append(mmlc_scen([("i", "dir.v1/song")], [("dir.v1/song", g(OK1))], ["corpus", "D13c-dirdot"], "corpus"))
    for tag, p in LONG_PATHS:
        fmt = "vgm"
        unw = [derived_name(p, fmt)] if len(os.path.basename(derived_name(p, fmt))) > 255 else []
        S.append(mmlc_scen([("i", p)], [(p, g(OK1))], ["corpus", "D13d-longpath", tag] + (["unwritable"] if unw else []), "corpus", unw))
        S.append(mmlc_scen([("i", p), ("o", 0, "o.bin")], [(p, g(OK1))], ["corpus", "longpath-with-o", tag], "corpus"))
    S.append(dict(tool="mmlc", args=["star.mml"], items="i:" + hx("star.mml"), fs=[("star.mml", g("*\n"))], tags=["corpus", "foreign-exception"], family="corpus"))
    S.append(dict(tool="mdslink", args=["star.mml"], items="i:" + hx("star.mml"), fs=[("star.mml", g("*\n"))], tags=["corpus", "foreign-exception", "mdslink"], family="corpus"))
    for a in (["x.mml", "-o"], ["x.mml", "-o", "a.bin"], ["x.mml", "-h"], ["x.mml", "-i"], ["x.mml", "--c-header"], ["-o", "a", "b"], ["-o"]):
        S.append(dict(tool="mdslink", args=a, items="-", fs=[("x.mml", g(OK1))], tags=["corpus", "D13e-mdslink-missing-operand", "mdslink"], family="corpus"))
    S.append(mmlc_scen([("i", "sub/s.mml"), ("o", 0, "nonexist/x.vgm")], [("sub/s.mml", g(OK1))], ["corpus", "unwritable"], "corpus", ["nonexist/x.vgm"]))
    S.append(dict(tool="mdslink", args=["x.mml", "-o", "nonexist/a", "nonexist/b"], items="i:%s,o0:%s:%s" % (hx("x.mml"), hx("nonexist/a"), hx("nonexist/b")),
                  unw=["nonexist/a", "nonexist/b"], fs=[("x.mml", g(OK1))], tags=["corpus", "unwritable", "mdslink"], family="corpus"))
    S.append(dict(tool="mmlc", args=[], items="-", fs=[], tags=["corpus", "no-args"], family="corpus"))
    S.append(dict(tool="mdslink", args=[], items="-", fs=[], tags=["corpus", "no-args", "mdslink"], family="corpus"))
    S.append(dict(tool="mmlc", args=["-h"], items="-", fs=[], tags=["corpus", "help"], family="corpus"))
    S.append(dict(tool="mmlc", args=["x.mml", "--help", "-o"], items="-", fs=[("x.mml", g(OK1))], tags=["corpus", "help"], family="corpus"))
    S.append(mmlc_scen([("i", "missing.mml")], [], ["corpus", "missing-file"], "corpus"))
    S.append(mmlc_scen([("i", "song.mml"), ("f", 0, "MDS")], [("song.mml", g(OK1))], ["corpus", "fmt-upper"], "corpus"))
    S.append(mmlc_scen([("i", "song.mml"), ("i", "extra.mml")], [("song.mml", g(OK1))], ["corpus", "second-input-ignored"], "corpus"))
    S.append(mmlc_scen([("o", 0, "song.mml"), ("i", "song.mml")], [("song.mml", g(OK1))], ["corpus", "output-overwrites-input"], "corpus"))
    S.append(mmlc_scen([], [], ["corpus", "no-input"], "corpus"))
    S.append(mmlc_scen([("O", 0), ("v",)], [], ["corpus", "no-input"], "corpus"))
    # hand-assembled .mds inputs for mdslink whose payload size is odd (RIFF pads to even) / even
    from checks import c10 as _c10
    for nbytes in (101, 100, 1, 33):
        raw = _c10.mds(seq=_c10.SEQ0, dblk=[(b"pcmh", 0, _c10.sample(0, 0, nbytes))], pcmd=_c10.fill(nbytes, 3))
        S.append(dict(tool="mdslink", args=["odd.mds"], items="i:" + hx("odd.mds"), fs=[("odd.mds", "r" + raw.hex())],
                      tags=["corpus", "mdslink", "in:mds", "pcm-bytes-%d" % nbytes], family="corpus"))
        if len(raw) % 2:
            # as RIFF::to_bytes writes it: the pad byte after an odd payload is in the file but not in the size field
            S.append(dict(tool="mdslink", args=["pad.mds"], items="i:" + hx("pad.mds"), fs=[("pad.mds", "r" + (raw + b"\0").hex())],
                          tags=["corpus", "mdslink", "in:mds", "pcm-bytes-%d" % nbytes, "riff-pad-byte"], family="corpus"))
    # the same through the real converter: a song whose only sample has an odd / even number of bytes
    # (RIFF::to_bytes leaves the pad byte after an odd payload out of the size field)
    for nbytes in (101, 100):
        S.append(dict(tool="mdslink", args=["conv.mds"], items="i:" + hx("conv.mds"), fs=[("conv.mds", "o%d" % nbytes)],
                      tags=["corpus", "mdslink", "in:mds", "converted", "pcm-bytes-%d" % nbytes], family="corpus"))
    for name, text in BAD_SONGS:
        for fmt in ((None, "mds", "vgm") if name in ("fm-too-few-params", "missing-sample-file", "2op-missing-base", "instrument-without-type", "tag-not-utf8") else (None,)):
            if fmt:
                S.append(mmlc_scen([("i", "bad.mml"), ("f", 0, fmt)], [("bad.mml", g(text))], ["corpus", "rejected:" + name, "fmt-" + fmt], "corpus"))
        S.append(mmlc_scen([("i", "bad.mml")] + ([("O", 0)] if name == "optimizer-throws" else []), [("bad.mml", g(text))], ["corpus", "rejected:" + name], "corpus"))
        S.append(dict(tool="mdslink", args=["bad.mml"], items="i:" + hx("bad.mml"), fs=[("bad.mml", g(text))], tags=["corpus", "rejected:" + name, "mdslink"], family="corpus"))
    # ---------------- bounded-exhaustive: path x format x -o x -O x position of the input (small valid song)
    paths = PATHS if tier == "thorough" else PATHS[:9]
    fmts = FORMATS if tier == "thorough" else FORMATS[:7]
    for ptag, p in paths:
        for ftag, f in fmts:
            for has_o in (0, 1):
                for opt in (0, 1):
                    for first in ((0, 1) if tier == "thorough" else (len(S) % 2,)):
                        its = []
                        if f is not None:
                            its.append(("f", (len(S) // 3) % 2, f))
                        if has_o:
                            its.append(("o", (len(S) // 2) % 2, "out/put.bin" if opt else "o.x"))
                        if opt:
                            its.append(("O", (len(S) // 5) % 2))
                        its = [("i", p)] + its if first else its + [("i", p)]
                        tags = ["path:" + ptag, ftag, "with-o" if has_o else "derived-name", "input-first" if first else "input-last"] + (["-O"] if opt else [])
                        if p == "song.mml" and f is None and not has_o and not opt:
                            tags = []
                        S.append(mmlc_scen(its, [(p, g(OK1)), ("out", "d")], tags, "exhaustive"))
    # ---------------- seeded random: well-formed mmlc commands
    n = 60 if tier == "quick" else 900
    for _ in range(n):
        r = rng.random()
        if r < 0.55:
            song, stag = g(gen_song(rng)), "song:generated"
        elif r < 0.7:
            nm, text = rng.choice(BAD_SONGS)
            song, stag = g(text), "rejected:" + nm
        elif r < 0.8:
            song, stag = None, "missing-file"
        else:
            song, stag = "s" + rng.choice(SAMPLES), "song:sample"
        ptag, p = rng.choice(PATHS + LONG_PATHS[:1] + LONG_PATHS[3:5]) if not (song and song[0] == "s") else rng.choice(PATHS[:5])
        its = [("i", p)]
        tags = [stag, "path:" + ptag]
        ftag, f = rng.choice(FORMATS)
        if f is not None:
            its.append(("f", rng.randrange(2), f))
        tags.append(ftag)
        if rng.random() < 0.45:
            its.append(("o", rng.randrange(2), rng.choice(["o.bin", "out/o.vgm", "noext", "-O", "-h", "x.y.z", "o.out"])))
            tags.append("with-o")
        if rng.random() < 0.4:
            its.append(("O", rng.randrange(2))); tags.append("-O")
        if rng.random() < 0.25:
            its.append(("v",)); tags.append("-v")
        if rng.random() < 0.15:
            its.append(("i", "second.mml")); tags.append("second-input")
        if rng.random() < 0.15:
            its.append(("o", rng.randrange(2), "o2.bin")); tags.append("duplicate-option")
        if rng.random() < 0.1:
            its.append(("f", rng.randrange(2), rng.choice(["vgm", "MDS", "zzz"]))); tags.append("duplicate-option")
        rng.shuffle(its)
        fs = ([(p, song)] if song else []) + [("out", "d")]
        S.append(mmlc_scen(its, fs, tags, "random-mmlc"))
    # ---------------- seeded random: raw vectors (mutations of well-formed ones)
    n = 50 if tier == "quick" else 700
    for _ in range(n):
        tool = rng.choice(["mmlc", "mmlc", "mdslink"])
        base = ["song.mml"]
        pool = (["-o", "--output", "-f", "--format", "-O", "--optimize", "-v", "-h", "--help", "vgm", "MDS", "o.bin", "", "song.mml", "nodot", "-", "--", "-x"]
                if tool == "mmlc" else ["-o", "--output", "-h", "--c-header", "-i", "--asm-header", "a.bin", "b.bin", "x.h", "x.inc", "", "song.mml", "nodot", "two.mml", "-x"])
        args = [rng.choice(pool) for _ in range(rng.randrange(0, 6))]
        if rng.random() < 0.7:
            args.insert(rng.randrange(len(args) + 1), base[0])
        if rng.random() < 0.4:
            args.append(rng.choice(pool[:6]))      # an option word last: missing operand
        tags = ["raw", tool] + (["option-last"] if args and args[-1] in pool[:6] else []) + (["empty-arg"] if "" in args else [])
        S.append(dict(tool=tool, args=args, items="-", fs=[("song.mml", g(OK1)), ("nodot", g(OK1)), ("two.mml", g(TAGS + "B o3l8 gab\n"))], tags=tags, family="random-raw"))
    # ---------------- seeded random: well-formed mdslink commands
    n = 30 if tier == "quick" else 450
    for _ in range(n):
        fs, its, tags = [], [], ["mdslink"]
        for k in range(rng.choice([1, 1, 2, 2, 3])):
            r = rng.random()
            ptag, p = rng.choice(PATHS[:9])
            p = "i%d_" % k + p if "/" not in p else "i%d/" % k + p
            if r < 0.45:
                fs.append((p, g(gen_song(rng)))); tags.append("in:mml")
            elif r < 0.65:
                p = p + rng.choice([".mds", ".MDS", ".Mds"])
                fs.append((p, "m" + gen_song(rng).encode().hex())); tags.append("in:mds")
            elif r < 0.75:
                p = p + ".mds"
                fs.append((p, "r" + rng.choice(["", "00", "52494646", "524946460400000041424344", "52494646040000004d445330"]))); tags.append("in:broken-mds")
            elif r < 0.85:
                nm, text = rng.choice(BAD_SONGS[:5])
                fs.append((p, g(text))); tags.append("rejected:" + nm)
            elif r < 0.92:
                tags.append("missing-file")
            else:
                nm = rng.choice(SAMPLES)
                fs.append((p, ("s" if rng.random() < 0.5 else "u") + nm)); tags.append("song:sample")
            its.append(("i", p)); tags.append("path:" + ptag)
        if rng.random() < 0.5:
            a, b = rng.choice([("a.bin", "b.bin"), ("out/seq", "out/pcm"), ("", ""), ("same", "same"), ("a.bin", ""), ("", "b.bin")])
            its.append(("o", rng.randrange(2), a, b)); tags.append("with-o" if a and b else "o-empty-name")
        if rng.random() < 0.4:
            its.append(("h", rng.randrange(2), rng.choice(["x.h", "out/x.h"]))); tags.append("c-header")
        if rng.random() < 0.4:
            its.append(("a", rng.randrange(2), rng.choice(["x.inc", "out/x.inc"]))); tags.append("asm-header")
        rng.shuffle(its)
        args, enc = render_link(its)
        S.append(dict(tool="mdslink", args=args, items=enc, fs=fs + [("out", "d")], tags=tags, family="random-mdslink"))
    # ---------------- the shipped sample songs, every format
    for nm in (SAMPLES if tier == "thorough" else SAMPLES[:2]):
        for f in ("vgm", "mds"):
            S.append(mmlc_scen([("i", "sample/%s.mml" % nm), ("f", 0, f)], [("sample/%s.mml" % nm, "s" + nm)], ["song:sample", "fmt-" + f, "path:subdir"], "samples"))
        S.append(mmlc_scen([("i", "%s.mml" % nm), ("f", 1, "MDS"), ("O", 0)], [("%s.mml" % nm, "u" + nm)], ["song:sample", "fmt-MDS", "-O", "unmodified-sample"], "samples"))
    S.append(dict(tool="mdslink", args=["%s.mml" % n for n in SAMPLES[:3]] + ["-i", "s.inc", "-h", "s.h"],
                  items=",".join(["i:" + hx("%s.mml" % n) for n in SAMPLES[:3]] + ["a0:" + hx("s.inc"), "h0:" + hx("s.h")]),
                  fs=[("%s.mml" % n, "s" + n) for n in SAMPLES[:3]], tags=["mdslink", "song:sample", "asm-header", "c-header"], family="samples"))
    return S


def cases(rng, tier):
    S = scenarios(rng, tier)
    reqs = make_requests(S)
    for s, r in zip(S, reqs):
        yield Case(r, s["tags"], s["family"])


def outcome_class(a):
    if a.startswith("crash") or a == "timeout":
        return a.split(" at ")[0][:40]
    m = re.match(r"exit=(\d+) err=(\d) files=(\S+)", a)
    if not m:
        return a[:20]
    nfiles = 0 if m.group(3) == "-" else m.group(3).count(",") + 1
    return "exit=%s err=%s files=%d" % (m.group(1), m.group(2), nfiles)


def normalize(a):
    return "crash" if a.startswith("crash") else a


def not_fail(case, impl, judge):
    """a sanitizer abort INSIDE THE LIBRARY (seen in-process by the harness for the same path and options)
    is not the tools' logic: the run is compared with the model ('crash library') but not judged"""
    t = case.req.split(" ")
    return len(t) == 8 and (t[7].startswith("crash") or t[7] == "timeout" or "crash" in re.split(r"[+=,]", t[7])) and judge == "skip" \
        and (impl.startswith("crash") or impl == "timeout")


def finding_key(case, impl, judge):
    tool = case.req.split(" ")[1] if " " in case.req else "?"
    if impl.startswith("crash") or impl == "timeout":
        m = re.search(r" at (\S+)", impl)
        if m:
            return "crash:%s:%s" % (tool, m.group(1))
        m = re.search(r"uncaught (\S+)", impl)
        return "crash:%s:%s" % (tool, m.group(1) if m else re.sub(r"[^A-Za-z]+", "-", impl[6:40]))
    msg = judge[5:] if judge.startswith("fail ") else judge
    msg = re.sub(r"\[.*?\]", "", msg)
    return "judge:%s:%s" % (tool, re.sub(r"[^A-Za-z0-9]+", "-", msg)[:60])


def shrink(req):
    """drop one argument (raw vectors) or one item (well-formed commands); the plan and the library's
    answers are recomputed for every candidate"""
    t = req.split(" ")
    if len(t) != 8:
        return
    tool, args, items, unw, fss = t[1], ([] if t[2] == "x" else [unhx(a) for a in t[2].split(",")]), t[3], t[4], t[5]
    cands = []
    if items != "-":
        its = items.split(",")
        for i in range(len(its)):
            rest = its[:i] + its[i + 1:]
            a = []
            for it in rest:
                f = it.split(":")
                k = f[0]
                if k in ("o0", "o1"):
                    a += [W["o"][int(k[1])]] + [unhx(x) for x in f[1:]]
                elif k in ("f0", "f1"):
                    a += [W["f"][int(k[1])], unhx(f[1])]
                elif k in ("O0", "O1"):
                    a += [W["O"][int(k[1])]]
                elif k in ("h0", "h1"):
                    a += [W["h"][int(k[1])], unhx(f[1])]
                elif k in ("a0", "a1"):
                    a += [W["a"][int(k[1])], unhx(f[1])]
                elif k == "v":
                    a += ["-v"]
                else:
                    a += [unhx(f[1])]
            cands.append(dict(tool=tool, args=a, items=",".join(rest) or "-", unw=[unhx(u) for u in unw.split(",")] if unw != "-" else [], fs=fs_parse(fss)))
    else:
        for i in range(len(args)):
            cands.append(dict(tool=tool, args=args[:i] + args[i + 1:], items="-", unw=[], fs=fs_parse(fss)))
    if cands:
        for r in make_requests(cands):
            yield r
