"""C16 — Output is a function of the input alone."""
import glob, os, random, re, shutil, struct
from vlib import core, songgen
from vlib.core import Case

ID = "C16"
LEAN_MODULE = "Ctrmml.Properties.C16"
THEOREMS = ["C16_export_history_independent", "C16_compile_defined", "C16_export_idempotent_on_song", "C16_compile_frame", "C16_full_from_assumptions"]
LEVEL = "other"
STREAM = "hist+pcmtab"
CHUNK = 6
CASE_SECONDS = 120
# every fresh heap byte of the parent harness process is 0xbe; the children get their own fill bytes
ENV = {"ASAN_OPTIONS": "detect_leaks=0:abort_on_error=0:exitcode=99:allocator_may_return_null=0:"
                       "max_malloc_fill_size=1073741824:malloc_fill_byte=190"}

ROOT = os.path.dirname(os.path.dirname(os.path.abspath(__file__)))
WORK = os.path.join(ROOT, "build", "c16work")
REPO = os.environ.get("VERIF_REPO", "/repo")
DOT = b".".hex()   # the harness runs with the work directory as cwd: requests (and replays) carry no absolute path


# ------------------------------------------------------------------ work directory (tiny WAVs, sample PCM)
def wav_bytes(n, rate, seed, bits=8, channels=1):
    r = random.Random(seed)
    if bits == 8:
        data = bytes(r.randrange(256) for _ in range(n * channels))
    else:
        data = b"".join(struct.pack("<h", r.randrange(-32768, 32768)) for _ in range(n * channels))
    block = channels * bits // 8
    fmt = struct.pack("<HHIIHH", 1, channels, rate, rate * block, block, bits)
    body = b"WAVE" + b"fmt " + struct.pack("<I", len(fmt)) + fmt + b"data" + struct.pack("<I", len(data)) + data
    return b"RIFF" + struct.pack("<I", len(body)) + body


WAVS = {  # name -> (samples, rate, bits, channels)
    "w0.wav": (1, 8000, 8, 1), "w1.wav": (16, 17500, 8, 1), "w2.wav": (255, 17500, 8, 1), "w3.wav": (1000, 17500, 8, 1),
    "w4.wav": (4000, 11025, 8, 1), "w5.wav": (20000, 17500, 8, 1), "w6.wav": (3000, 17500, 16, 1), "w7.wav": (2000, 13000, 8, 2),
    "w8.wav": (60000, 17500, 8, 1),
}


def workdir():
    """called by run_check before the harness runs: the directory the harness works in; also builds the
    non-ASan harness variant with the interposed allocator and tells the harness where it is"""
    os.makedirs(os.path.join(WORK, "pcm"), exist_ok=True)
    for i, (name, (n, rate, bits, ch)) in enumerate(sorted(WAVS.items())):
        p = os.path.join(WORK, name)
        if not os.path.exists(p):
            with open(p + ".tmp%d" % os.getpid(), "wb") as f:
                f.write(wav_bytes(n, rate, 1000 + i, bits, ch))
            os.replace(p + ".tmp%d" % os.getpid(), p)
    # malformed sample files: the outcome (an input error or a decoded sample) must not depend on what
    # lies behind the file buffer — truncated data chunk, data size beyond the file, chunk size near 2^32
    good = wav_bytes(600, 17500, 77, 8, 1)
    bad = {"wt_trunc.wav": good[:len(good) - 300], "wt_big.wav": good[:40] + (100000).to_bytes(4, "little") + good[44:],
           "wt_huge.wav": good[:40] + (0xffffffe0).to_bytes(4, "little") + good[44:], "wt_short.wav": good[:30]}
    for name, data in bad.items():
        p = os.path.join(WORK, name)
        if not os.path.exists(p):
            with open(p + ".tmp%d" % os.getpid(), "wb") as f:
                f.write(data)
            os.replace(p + ".tmp%d" % os.getpid(), p)
    for src in glob.glob(os.path.join(REPO, "sample", "pcm", "*.wav")):
        dst = os.path.join(WORK, "pcm", os.path.basename(src))
        if not os.path.exists(dst):
            shutil.copyfile(src, dst + ".tmp%d" % os.getpid())
            os.replace(dst + ".tmp%d" % os.getpid(), dst)
    # samples named by the shipped songs but not shipped: small synthetic ones
    for mml in sample_files():
        for m in re.finditer(r'pcm\s+"(pcm/[^"]+\.wav)"', open(mml, encoding="utf-8", errors="replace").read()):
            dst = os.path.join(WORK, m.group(1))
            if not os.path.exists(dst):
                with open(dst + ".tmp%d" % os.getpid(), "wb") as f:
                    f.write(wav_bytes(1500 + len(m.group(1)) * 37, 17500, len(m.group(1))))
                os.replace(dst + ".tmp%d" % os.getpid(), dst)
    core.HARNESS_ENV["VERIF_PLAIN_HARNESS"] = core.build_harness("plain")
    return WORK


def sample_files():
    return sorted(glob.glob(os.path.join(REPO, "sample", "*.mml")))


# ------------------------------------------------------------------ request construction
def mtok(text):
    return "M:" + text.encode("utf-8").hex()


def ctok(tokens):
    return "C:" + ";".join(tokens)


def hist(songs, fills=(0, 85, 255), seeds=(1, 2), mode=""):
    return "hist D:%s F:%s P:%s %s%s" % (DOT, ",".join(map(str, fills)), ",".join(map(str, seeds)),
                                          (mode + " ") if mode else "", " ".join(songs))


FM = "@%d fm %d %d\n 31 0 19 5 0 23 0 0 0 0\n 31 6 0 4 3 19 0 0 0 0\n 31 15 0 5 4 38 0 4 0 0\n 31 27 0 11 1 0 0 1 0 0\n"

S_TINY = "A o4l4 cdef\n"
S_LOOP0 = "A L o4l4 c\n"                                      # D10c: loop point at sample 0
S_BREAK = "A o4l4 [c/d]3 L e [f/g [a/b]2]2\nG o3 [c1 / r]2\n"  # LOOP_BREAK write-backs
S_SUB = "*100 o4 c8d8\n*101 [e16/f16]3\nA l4 *100 *101 L *100 r\nB *101 *100\n"
S_PSG = "@1 psg 15 14 13 12\n@2 psg 11>15:3 15>12:20 / 15>0:20\nG @1 o4l8 cdefgab>c\nH @2 o3l2 c e\nJ @1 o2 l16 c r c r\n"
S_FM = FM % (1, 3, 0) + FM % (2, 4, 7) + "@M1 0:20 | V0:1:5\n@M2 -2>0:20 0\nA @1 o4l8 v12 cdefgab>c r1 c1\nB @2 o3l4 M1 c e G10 g e\nC @1 p1 K5 M2 o5 l2 c&d\n"
S_PCM_MD = "#platform megadrive\n@30 pcm \"w3.wav\"\n@31 pcm \"w4.wav\" rate=8000\n" + FM % (1, 3, 0) + "F @30 o4l8 c r @31 c r @1 c\nK @31 l4 c c\n"
S_PCM_MIX = "#platform mdsdrv\n@30 pcm \"w3.wav\"\n@31 pcm \"w2.wav\"\n@32 pcm \"w5.wav\"\nF @30 o4l8 v15 c r v8 c r\nK @31 l16 c c c c v3 c\nL @32 l2 c\n"
S_PCM_MIX3 = "#platform mdsdrv\n@30 pcm \"w4.wav\"\n@31 pcm \"w6.wav\"\n@32 pcm \"w7.wav\"\nF 'pcmmode 3' @30 o4l4 c v10 c\nK @31 l8 c c 'pcmrate 3' c\nL @32 l4 v5 c c\n"
S_DRUM = "@30 pcm \"w1.wav\"\n@31 pcm \"w2.wav\"\n*30 @30 c\n*31 @31 c\nF D30 l8 a b a r b\nA o3 l4 c d\n"
S_MACRO = "*100 V0 [V+5 r32]7 [V-5 r32]7\n*101 'carry' l4 L p3 r p1 r p3 r p2 r\n" + FM % (1, 3, 0) + "A @1 P100 l4 o4 cdef\nB @1 P101 l4 o4 [c]8\n"
S_FM3 = FM % (9, 4, 7) + "C @9 'fm3 0011' o4 l4 c d\nI 'fm3 1100' o5 l4 e f\nJ 'mode 1' o2 l8 c d\n"
S_TAGS = "#title T%s\n#composer me\n#game G\n#titlej タイトル\n#programmer p\n#vgmdate 2021-03-04\n#comment note\nA o4 c\n" % ("x" * 300)
S_NODATE = "#title no date\nA o4l4 L c d\n"
S_LONGSILENCE = "A o4 l1 t40 c r r r r r r r r r r r r r r r r\n"
S_ERR = "A o4 [c d\n"                                          # unterminated loop: the error must be the same everywhere
S_ERR2 = "A @99 c\n"                                           # undefined instrument
S_TEMPO = "A t200 o4l16 L [cdef]8 T100 [gab>c<]4\nB t60 l4 c\n"
# per-song options and definitions that must not leak into the next song: `#option noextpitch` followed by
# a song whose pitch envelope needs the extended form; a song with a key signature / transpose / echo setting
S_NOEXT = "#option noextpitch\n" + FM % (1, 3, 0) + "@M1 0>1:20 1\nA @1 v12 M1 o4 l4 cdef\n"
S_STEEP = FM % (1, 3, 0) + "@M1 12>0:4 0\nA @1 v12 M1 o4 l2 cg\n"
S_KEYSIG = "A _{+fc} k2 \\=2,3 o4 l8 c d e f \\ \\ \nB __3 o3 l4 f g\n"


def s_straddle(frames, pad, title=0):
    """a PCM-mixing song whose VGM log is ~70 bytes per frame while the sample plays: the end of the log is aimed
    at the growth steps of the VGM buffer (100000, 200000) by `frames`, finely by `pad` extra PSG writes and
    `title` characters of GD3 text"""
    t = "#platform mdsdrv\n"
    if title:
        t += "#title %s\n" % ("t" * title)
    t += "@30 pcm \"w8.wav\"\n@1 psg 15\nF @30 o4 c:%d\n" % frames
    t += "G @1 o4 l:1 " + " ".join("v%d c" % (1 + i % 14) for i in range(pad)) + "\n" if pad else ""
    return t


# (frames, pad, title) found by calibrate(): VGM log end within reserve distance of 100000 / 200000
STRADDLE = [(86, 0, 0), (85, 76, 0), (173, 0, 0), (85, 80, 0), (85, 0, 0), (85, 72, 0), (87, 0, 0), (85, 84, 0), (172, 0, 0), (86, 10, 256), (173, 5, 10), (87, 20, 100)]


def calibrate():
    """prints the VGM length for a sweep of s_straddle parameters (run by hand when vgm.cpp changes:
    python3 -c 'from checks import c16; c16.calibrate()')"""
    exe = core.build_harness()
    workdir()
    params = [(f, p, 0) for f in range(80, 92) for p in (0, 4)] + [(f, 0, 0) for f in range(168, 178)]
    reqs = ["hist1 D:%s %s" % (DOT, mtok(s_straddle(*p))) for p in params]
    ans, _ = core.run_harness(exe, reqs, 60, WORK)
    for p, a in zip(params, ans):
        print(p, a)


# ------------------------------------------------------------------ generated MML
NOTES = "cdefgab"


def gen_body(rng, n, depth=0, subs=(), allow_l=True, pcm=False):
    out = []
    used_l = not allow_l
    for _ in range(n):
        r = rng.random()
        if r < 0.45:
            out.append(rng.choice(NOTES) + rng.choice(["", "", "+", "-"]) + rng.choice(["", "", "4", "8", "16", "2.", ":3", ":1"]))
        elif r < 0.55:
            out.append("r" + rng.choice(["", "8", "16", ":2"]))
        elif r < 0.60:
            out.append("^" + rng.choice(["", "8"]))
        elif r < 0.70 and depth < 3:
            inner = gen_body(rng, rng.randrange(1, 5), depth + 1, subs, False, pcm)
            if rng.random() < 0.5:
                inner.insert(rng.randrange(0, len(inner) + 1), "/")
            out.append("[" + " ".join(inner) + "]" + str(rng.choice([1, 2, 2, 3, 4])))
        elif r < 0.75 and subs and depth < 2:
            out.append("*%d" % rng.choice(subs))
        elif r < 0.79 and not used_l and depth == 0:
            out.append("L")
            used_l = True
        elif r < 0.84:
            out.append(rng.choice([">", "<", "o3", "o4", "o5"]))
        elif r < 0.89:
            out.append("v%d" % rng.randrange(0, 16))
        elif r < 0.92:
            out.append(rng.choice(["V100", "V+5", "V-7", "(", ")", "(2"]))
        elif r < 0.94:
            out.append(rng.choice(["t120", "t200", "t90", "T80"]))
        elif r < 0.96 and not pcm:
            out.append(rng.choice(["K5", "K-3", "k2", "_-2", "__1", "G0", "G20", "&"]))
        elif r < 0.98:
            out.append(rng.choice(["l4", "l8", "l16", "Q6", "q2", "Q8"]))
        else:
            out.append("|")
    return out


def gen_song(rng, size):
    """a random valid-looking MML song; size = number of commands per track"""
    lines = []
    tags = set()
    plat = rng.choice(["", "#platform megadrive", "#platform mdsdrv", "#platform mdsdrv"])
    if plat:
        lines.append(plat)
    if rng.random() < 0.5:
        lines.append("#title " + rng.choice(["song", "タイトル", "x" * rng.choice([1, 255, 256, 257])]))
    if rng.random() < 0.3:
        lines.append("#vgmdate 2022-0%d-11" % rng.randrange(1, 10))
    if rng.random() < 0.3:
        lines.append("#comment " + rng.choice(["hello", "c" * 300]))
    if rng.random() < 0.2:
        lines.append("#volume %d" % rng.randrange(0, 30))
    lines.append((FM % (1, rng.randrange(8), rng.randrange(8))).rstrip("\n"))
    lines.append((FM % (2, rng.randrange(8), rng.randrange(8))).rstrip("\n"))
    lines.append("@3 psg " + rng.choice(["15 14 13", "11>15:3 15>12:20 / 15>0:20", "15", "13>0:4", "10 | 12 11"]))
    lines.append("@M1 " + rng.choice(["0:20 | V0:1:5", "-2>0:20 0", "| 0 3 5", "0:5 | 0>0.5:5 0.5>-0.5:10 -0.5>0:5"]))
    subs = []
    if rng.random() < 0.5:
        subs = [100, 101][: rng.randrange(1, 3)]
        tags.add("subroutine")
    use_pcm = rng.random() < 0.5
    if use_pcm:
        ws = rng.sample(["w0.wav", "w1.wav", "w2.wav", "w3.wav", "w4.wav", "w6.wav", "w7.wav"], 2)
        lines.append('@30 pcm "%s"%s' % (ws[0], rng.choice(["", " rate=8000", " rate=17500"])))
        lines.append('@31 pcm "%s"' % ws[1])
        tags.add("pcm-mix" if "mdsdrv" in plat else "pcm-stream")
    for i, sid in enumerate(subs):
        lines.append("*%d %s" % (sid, " ".join(gen_body(rng, rng.randrange(1, 6), 1, subs[i + 1:], False))))
    ntr = rng.choice([1, 2, 3, 5])
    for ch in rng.sample("ABCDE", min(ntr, 5)):
        lines.append("%s @%d %s %s" % (ch, rng.choice([1, 2]), rng.choice(["", "M1", "p%d" % rng.randrange(1, 4)]),
                                       " ".join(gen_body(rng, size, 0, subs))))
    if rng.random() < 0.6:
        lines.append("%s @3 %s" % (rng.choice("GHI"), " ".join(gen_body(rng, size, 0, subs))))
    if rng.random() < 0.3:
        lines.append("J @3 o2 %s" % " ".join(gen_body(rng, max(1, size // 2), 0, [])))
    if use_pcm:
        for ch in rng.sample("FKL", rng.randrange(1, 4)):
            lines.append("%s @%d %s" % (ch, rng.choice([30, 31]), " ".join(gen_body(rng, max(1, size // 2), 0, [], True, True))))
    text = "\n".join(lines) + "\n"
    if "[" in text: tags.add("loop")
    if "/" in text.replace("/ 15", ""): tags.add("break")
    if " L" in text: tags.add("loop-point")
    tags.add("size<=8" if size <= 8 else "size<=40" if size <= 40 else "size>40")
    tags.add("platform:" + (plat.split()[-1] if plat else "default"))
    return text, tags


def excerpt(rng, text):
    """header and instrument lines of a shipped song + a random subset of its track lines, truncated"""
    out = []
    for ln in text.split("\n"):
        if re.match(r"^[A-P]+\s", ln):
            if rng.random() < 0.5:
                toks = ln.split(" ")
                # cut at a token boundary outside loops where possible: keep balanced brackets only
                k = rng.randrange(1, len(toks) + 1)
                cut = " ".join(toks[:k])
                if cut.count("[") == cut.count("]") and cut.count("{") == cut.count("}"):
                    out.append(cut)
                else:
                    out.append(ln)
        else:
            out.append(ln)
    return "\n".join(out) + "\n"


def ir_song(rng, T):
    g = songgen.G(rng, max_depth=rng.choice([0, 1, 2, 3]), subs=rng.choice([[], [100], [100, 101]]),
                  counts=[1, 2, 2, 3, 4], allow_neg=False, p_segno=0.0, notes=list(range(12, 84)), p_break=0.7,
                  durs=[1, 2, 3, 6, 12, 24, 48, 96, 127, 128, 129, 200],
                  cmds=["VOL", "TRANSPOSE", "VOL_REL", "TEMPO_BPM", "DETUNE", "TRANSPOSE_REL", "SLUR", "VOL_FINE_REL"])
    ntr = rng.choice([1, 2, 4])
    song = g.song(ntr)
    for t in range(ntr):
        if rng.random() < 0.4:
            evs = song[t]
            cuts = [0]
            d = 0
            for i, e in enumerate(evs):
                if e[0] == T["LOOP_START"]: d += 1
                if e[0] == T["LOOP_END"]: d -= 1
                if d == 0: cuts.append(i + 1)
            k = rng.choice(cuts)
            song[t] = evs[:k] + [g.ev("SEGNO")] + evs[k:] + [g.ev("NOTE", 40, 3, 1)]
    extra = []
    if rng.random() < 0.3:
        extra.append("V:%d" % rng.randrange(0, 40))
    if any(songgen.expanded_size(song, t, T) > 800 for t in range(ntr)):
        return None
    return ctok(extra + songgen.render(song).split(" "))


def song_tags(text):
    t = set()
    if "pcm" in text: t.add("pcm")
    if "mdsdrv" in text: t.add("pcm-mix")
    if "[" in text: t.add("loop")
    if re.search(r"\[[^\]]*/", text): t.add("break")
    if re.search(r"(^|\s)L(\s|$)", text, flags=re.M): t.add("loop-point")
    if "*1" in text: t.add("subroutine")
    return t


def cases(rng, tier):
    quick = tier == "quick"
    T = songgen.event_types()
    yield Case("pcmtab", ("statics",), "corpus")
    samples = [open(p, encoding="utf-8", errors="replace").read() for p in sample_files()]
    named = [S_TINY, S_LOOP0, S_BREAK, S_SUB, S_PSG, S_FM, S_PCM_MD, S_PCM_MIX, S_PCM_MIX3, S_DRUM, S_MACRO, S_FM3, S_TAGS, S_NODATE,
             S_LONGSILENCE, S_ERR, S_ERR2, S_TEMPO, S_NOEXT, S_STEEP]
    # ---- corpus: every named song alone, then histories that mix PCM-table users, errors, write-back users
    for s in named:
        yield Case(hist([mtok(s)]), sorted({"corpus", "single"} | song_tags(s)), "corpus")
    yield Case(hist([mtok(S_PCM_MIX), mtok(S_TINY), mtok(S_PCM_MIX3), mtok(S_PCM_MD)]), ("corpus", "history", "pcm", "pcm-mix"), "corpus")
    yield Case(hist([mtok(S_ERR), mtok(S_BREAK), mtok(S_ERR2), mtok(S_SUB)]), ("corpus", "history", "error-then-valid", "break"), "corpus")
    yield Case(hist([mtok(S_NOEXT), mtok(S_STEEP), mtok(S_NOEXT), mtok(S_STEEP)]), ("corpus", "history", "option-leak", "pitch"), "corpus")
    yield Case(hist([mtok(S_STEEP), mtok(S_NOEXT), mtok(S_STEEP)], fills=(0,), seeds=(1,)), ("corpus", "history", "option-leak", "pitch"), "corpus")
    yield Case(hist([mtok(S_KEYSIG), mtok(S_TINY), mtok(S_KEYSIG)], fills=(0,), seeds=(1,)), ("corpus", "history", "option-leak"), "corpus")
    for wn in ("wt_trunc.wav", "wt_big.wav", "wt_huge.wav", "wt_short.wav"):
        bad_song = "#platform mdsdrv\n@30 pcm \"%s\"\n@31 pcm \"w2.wav\"\nF @30 o4l8 c r @31 c\n" % wn
        yield Case(hist([mtok(S_PCM_MIX), mtok(bad_song), mtok(S_TINY), mtok(bad_song)], fills=(0, 85, 255), seeds=(1, 2)),
                   ("corpus", "history", "pcm", "malformed-sample"), "corpus")
    yield Case(hist([mtok(S_BREAK), mtok(S_SUB), mtok(S_MACRO)], mode="V"), ("corpus", "history", "validated-first", "break"), "corpus")
    yield Case(hist([mtok(S_BREAK), mtok(S_SUB), mtok(S_TEMPO)], mode="O"), ("corpus", "history", "optimized", "break"), "corpus")
    yield Case(hist([ctok(["T0:2.36.2.0,2.36.2.0,7.0.0.0,1.0.0.4,2.36.2.0"]), ctok(["V:5", "T0:4.0.0.0,2.36.6.0,5.0.0.0,2.38.6.0,6.3.0.0"])]),
               ("corpus", "ir", "break"), "corpus")
    for i, s in enumerate(samples):
        yield Case(hist([mtok(s)], fills=(0, 255), seeds=(1,)), ("corpus", "sample", "single") + tuple(sorted(song_tags(s))), "corpus")
    if samples:
        yield Case(hist([mtok(s) for s in samples], fills=(0, 170), seeds=(3,)), ("corpus", "sample", "history", "pcm"), "corpus")
        yield Case(hist([mtok(samples[0]), mtok(S_PCM_MIX), mtok(samples[-1])], fills=(0, 170), seeds=(3,), mode="V"), ("corpus", "sample", "history", "validated-first"), "corpus")
    # ---- D15 probe (MDSDRV_Linker::get_seq_data appends to data_offset)
    yield Case("linktwice D:%s %s %s" % (DOT, mtok(S_FM), mtok(S_PSG)), ("corpus", "linker"), "corpus")
    yield Case("linktwice D:%s %s" % (DOT, mtok(S_FM)), ("corpus", "linker"), "corpus")
    # ---- VGM log straddling the buffer growth steps (GD3 block lands in realloc'ed memory)
    for i, (fr, pad, title) in enumerate(STRADDLE if not quick else STRADDLE[::2]):
        yield Case(hist([mtok(s_straddle(fr, pad, title)), mtok(S_TINY)], fills=(0, 255), seeds=(1 + i,)), ("straddle", "pcm", "pcm-mix", "history"), "straddle")
    # ---- bounded exhaustive: every ordered pair of the small named songs (history of length 1 before each song)
    small = [S_TINY, S_LOOP0, S_BREAK, S_SUB, S_PSG, S_PCM_MIX, S_DRUM, S_ERR]
    pairs = [(a, b) for a in small for b in small if a is not b]
    if quick:
        pairs = pairs[:: 4]
    for a, b in pairs:
        yield Case(hist([mtok(a), mtok(b)], fills=(0,), seeds=(1,)), sorted({"pair", "history"} | song_tags(a) | song_tags(b)), "pairs")
    # ---- seeded random: lists of generated songs, excerpts of the shipped songs and IR songs
    n = 90 if quick else 1400
    for i in range(n):
        k = rng.choice([1, 2, 3, 3, 4])
        songs, tags = [], {"random", "history" if k > 1 else "single", "list-len-%d" % k}
        for _ in range(k):
            r = rng.random()
            if r < 0.55:
                text, tg = gen_song(rng, rng.choice([2, 5, 8, 20, 40] + ([] if quick else [120])))
                songs.append(mtok(text)); tags |= tg | song_tags(text)
            elif r < 0.70 and samples:
                text = excerpt(rng, rng.choice(samples))
                songs.append(mtok(text)); tags |= {"excerpt"} | song_tags(text)
            elif r < 0.80:
                songs.append(mtok(rng.choice(named))); tags.add("named")
            else:
                c = ir_song(rng, T)
                if c:
                    songs.append(c); tags.add("ir")
        if not songs:
            continue
        mode = rng.choice(["", "", "", "V", "O"])
        if mode:
            tags.add({"V": "validated-first", "O": "optimized"}[mode])
        fills = rng.choice([(0,), (0, 255), (85, 170), (0, 85, 255)])
        seeds = tuple(rng.sample(range(1, 1000), rng.choice([1, 1, 2])))
        yield Case(hist(songs, fills=fills, seeds=seeds, mode=mode), sorted(tags), "random")
    # ---- malformed stream: broken MML, binary garbage, empty text: the error (or the output) must not depend on history
    bad = ["", "\x00\x01\xff", "A [[[[c\n", "A o4 c ]\n", "@1 fm 1\nA @1 c\n", "A *200 c\n", "#platform nothing\nA c\n", "A c" * 500 + "\n",
           "@30 pcm \"missing.wav\"\nF @30 c\n", "A l0 c\n", "A D30 c\n"]
    for i, b in enumerate(bad):
        others = [mtok(S_TINY), mtok(S_PCM_MIX)]
        yield Case("hist D:%s F:0 P:1 %s M:%s %s" % (DOT, others[0], b.encode("latin-1").hex(), others[1]), ("malformed", "history"), "malformed")


def normalize(x):
    if x.startswith("linktwice"):
        return "linktwice skip"
    if x.startswith("hist "):
        return " ".join(t for t in x.split(" ") if not t.startswith(("mseq=", "mds=", "vgm=", "obs=")))
    return x


def outcome_class(a):
    if a.startswith("hist "):
        return "hist " + ("all-equal" if re.search(r"diff=[^-]", a) is None else "DIFFERS")
    return a.split(" ")[0][:24]


def finding_key(case, impl, judge):
    if impl.startswith("crash") or impl == "timeout" or impl.startswith("uncaught"):
        m = re.search(r"(\w+\.cpp:\d+)", impl)
        return "crash:" + (m.group(1) if m else impl.split(" ")[0])
    if case.req.startswith("linktwice"):
        return "d15:linker-data-offset"
    if case.req.startswith("pcmtab"):
        return "pcm-table"
    m = re.search(r"diff=([a-z0-9-]+)/(mds|vgm|seq)", impl)
    if m:
        ctx = re.sub(r"\d+", "", m.group(1))
        return "differs:%s:%s" % (m.group(2), ctx)
    if "observations missing" in judge or "only" in judge:
        return "observations-missing"
    return "other"


def shrink(reqline):
    """candidates, cheapest first: fewer fill variants (fewer child processes), fewer songs, shorter songs; bounded because one
    evaluation of a candidate is a whole history run"""
    toks = reqline.split()
    if toks[0] != "hist":
        return
    head = [t for t in toks if not t.startswith(("M:", "C:"))]
    songs = [t for t in toks if t.startswith(("M:", "C:"))]
    n = 0
    for i, t in enumerate(head):
        if t.startswith(("F:", "P:")) and "," in t:
            vals = t[2:].split(",")
            for k in range(len(vals)):
                yield " ".join(head[:i] + [t[:2] + ",".join(vals[:k] + vals[k + 1:])] + head[i + 1:] + songs)
    for i in range(len(songs)):
        if len(songs) > 1:
            yield " ".join(head + songs[:i] + songs[i + 1:])
    for i, s in enumerate(songs):
        if not s.startswith("M:"):
            continue
        text = bytes.fromhex(s[2:]).decode("utf-8", "replace")
        lines = text.split("\n")
        # halves of the line list first, then single lines, then halves of long lines
        if len(lines) > 3:
            for part in (lines[: len(lines) // 2], lines[len(lines) // 2:]):
                yield " ".join(head + songs[:i] + [mtok("\n".join(part) + "\n")] + songs[i + 1:])
        for j in range(len(lines)):
            if lines[j] and n < 40:
                n += 1
                yield " ".join(head + songs[:i] + [mtok("\n".join(lines[:j] + lines[j + 1:]))] + songs[i + 1:])
        for j in range(len(lines)):
            w = lines[j].split(" ")
            if len(w) > 3 and n < 80:
                for half in (w[: len(w) // 2], w[:1] + w[len(w) // 2:]):
                    cut = " ".join(half)
                    if cut.count("[") == cut.count("]"):
                        n += 1
                        yield " ".join(head + songs[:i] + [mtok("\n".join(lines[:j] + [cut] + lines[j + 1:]))] + songs[i + 1:])


RULE = ("lists of 1..5 MML/IR songs (shipped samples and excerpts, named songs for every mechanism: loop breaks, subroutines, drum mode, "
        "macro tracks, FM3, PSG, pitch envelopes, PCM streaming, PCM mixing 2/3 channels, 300-character tags, errors; seeded random songs; "
        "VGM logs aimed at the buffer growth steps). Per list: every song alone in a fresh ASan process (fill byte f0), the reversed list in "
        "fresh processes under further fill bytes, the list in fresh non-ASan processes with an interposed allocator filling malloc/realloc/"
        "free memory from a seed, k rotations of the list in the harness process (fill 0xbe), MDS/VGM/MDS/VGM, VGM/MDS/VGM and validated "
        "MDS/MDS/VGM/VGM on one Song object; optionally Song_Validator or the optimizer first. non-trivial = every hist case; distinct by request text")
EXPLANATION = ("theorems over Model/Globals (statics list regenerated from the clang AST and pinned by statics_known; PCM volume table; heap cells; "
               "clock) + Model/Vgm + Model/MdsConv; the decisive tie is the history/heap-perturbation differential execution of the real exporters: "
               "all observations of one input are byte-compared (length + FNV-64), the model predicts 'no difference', the static table content "
               "(4096 bytes, hash) and, for IR songs, the seq chunk")
ASSUMPTIONS = ["#vgmdate and #comment are fixed (the harness sets them when the song does not): the clock and the build stamp are masked as the property allows",
               "heap contents are sampled (fill bytes 0x00/0x55/0xaa/0xff/0xbe under ASan, seeded pseudo-random fill of malloc/realloc/free memory without ASan), not quantified",
               "the part of MD_Driver between construction and stop() is an arbitrary function of the input and of the volume table in the theorems (not modelled in Lean in this tree)",
               "outputs are compared by length and FNV-64 hash"]
TRUSTED = ["clang++-14 AST dump for the list of statics (tools/tables/d_statics.py)", "glibc __libc_malloc/__libc_realloc/__libc_free behind the interposed allocator (harness/h_mallocfill.cpp)"]
TECHNIQUE = ("Lean 4 theorems over a model with explicit hidden inputs (globals reachable by any compilation history, indeterminate heap cells, clock, "
             "player write-backs) + history / fresh-process / heap-fill differential execution of the real exporters")
LEVEL_TEXT = ("Theorems over a Lean model in which every hidden input is an explicit parameter: (1) for every Globals reachable from the zero-initialised "
              "statics by any sequence of VGM/MDS compilations and tool calls, a compilation gives the same result as from the initial Globals (invariant: "
              "the PCM volume table is unset or equal to the constant table; the list of statics is regenerated from the clang AST and pinned by a theorem); "
              "(2) after any exporter operation sequence, stop and write_tag, every byte of the file is determinate, so the file is the same for every heap fill; "
              "(3) MDSDRV_Track_Writer (hook/runWriter/get_subroutine/get_macro_track) and the converter give the same result on songs that differ only in "
              "LOOP_BREAK params, and a player step only changes LOOP_BREAK params and play_time stamps; (4) compiling a list of songs gives, for each, the result "
              "of compiling it alone. Decisive tie: the real exporters run under histories, repeated exports of one Song object, fresh processes and different "
              "heap fills; every pair of observations of one input is byte-compared.")
LEVEL_NOTE = ("Level `other` (translation-validation flavoured): the heap contents and histories of the real process are sampled, not quantified; MD_Driver is "
              "a parameter of the theorems; the MML front end is exercised only by the differential execution. Trusted: Lean kernel, Model/Globals+Vgm+MdsConv, "
              "clang AST extraction of statics, g++/ASan, the interposed allocator, harness/h_hist.cpp.")
