"""C20 — Configuration text parses to the tree it denotes."""
import itertools, re
from vlib.core import Case

ID = "C20"
LEAN_MODULE = "Ctrmml.Properties.C20"
THEOREMS = ["C20_conf_roundtrip", "C20_conf_terminates", "C20_conf_no_oob", "C20_conf_total", "C20_every_tree_has_a_rendering",
            "C20_D14_before_fix", "C20_D17_before_fix"]
LEVEL = "proof"
STREAM = "conf.tree"
CHUNK = 500
CASE_SECONDS = 1
RULE = ("decorated trees of depth 0..5 (0..5 nodes per list; keys over printable ASCII incl. every delimiter, control characters, "
        "VT/FF and bytes >= 0x80; every key spelled bare where the syntax allows or quoted with a random mix of literal / escaped "
        "characters, \\n and backslash-CR continuations; forms `k`, `k,`, `,`, `k: c`, `k { .. }`; random filler = blanks, VT/FF runs, "
        "`;` comments, at every place filler may stand) rendered to text; all strings of length <= 4 (quick) / <= 6 (thorough) over "
        "the alphabet a \" \\ : , ; { } space LF and of length <= 3 / <= 4 over that alphabet plus n CR TAB VT; random and mutated texts. non-trivial = the text contains at least one delimiter; "
        "distinct by request text")
EXPLANATION = ("theorems over Model/Conf + Spec/ConfRender (all decorated trees, all strings); the model is tied to conf.cpp by the "
               "regenerated strpbrk set and by running model and Conf::from_string on every generated text and diffing the trees / "
               "errors; the judge re-renders the decorated tree with the Lean spec, checks it is legal and equals the request text, "
               "and requires the implementation's tree to be the denoted one")
ASSUMPTIONS = ["a std::string is a list of chars; bytes >= 0x80 are passed to isspace as negative ints (formally undefined, glibc answers no)",
               "the text handed to from_string is NUL-terminated and read only through that pointer"]
TRUSTED = ["Python renderer in checks/c20.py is cross-checked against Spec/ConfRender.text on every decorated case by the judge"]

DELIMS = [32, 9, 13, 10, 34, 58, 44, 59, 123, 125]
BLANK = [32, 9, 13, 10]
WHITE = BLANK + [11, 12]


def hx(cs):
    return "".join("%02x" % c for c in cs) or "-"


# ------------------------------------------------------------------ decorated trees (mirror of Spec/ConfRender)
def piece_text(p):
    return {"l": lambda: [p[1]], "e": lambda: [92, p[1]], "n": lambda: [92, 110], "r": lambda: [92, 13]}[p[0]]()


def piece_den(p):
    return {"l": lambda: [p[1]], "e": lambda: [p[1]], "n": lambda: [10], "r": lambda: []}[p[0]]()


def key_text(k):
    if k is None:
        return []
    if k[0] == "b":
        return list(k[1])
    return [34] + [c for p in k[1] for c in piece_text(p)] + [34]


def key_den(k):
    if k is None:
        return []
    if k[0] == "b":
        return list(k[1])
    return [c for p in k[1] for c in piece_den(p)]


def key_legal(k):
    if k is None:
        return True
    if k[0] == "b":
        return len(k[1]) > 0 and all(c not in DELIMS for c in k[1]) and k[1][0] not in WHITE
    for p in k[1]:
        if p[0] == "l" and p[1] in (34, 92):
            return False
        if p[0] == "e" and p[1] in (110, 13):
            return False
    return True


def gap_text(g):
    out = []
    for it in g:
        out += ([it[1]] + list(it[2])) if it[0] == "w" else ([59] + list(it[1]) + [it[2]])
    return out


def gap_legal(g):
    for it in g:
        if it[0] == "w":
            if it[1] not in BLANK or any(c not in WHITE for c in it[2]):
                return False
        else:
            if any(c in (10, 13) for c in it[1]) or it[2] not in (10, 13):
                return False
    return True


def n_text(n):
    t = n[0]
    if t == "L":
        return gap_text(n[1]) + key_text(n[2])
    if t == "C":
        return gap_text(n[1]) + key_text(n[2]) + gap_text(n[3]) + [44]
    if t == "P":
        return gap_text(n[1]) + key_text(n[2]) + gap_text(n[3]) + [58] + n_text(n[4])
    return gap_text(n[1]) + key_text(n[2]) + gap_text(n[3]) + [123] + [c for k in n[4] for c in n_text(k)] + gap_text(n[5]) + [125]


def n_erase(n):
    t = n[0]
    if t in ("L", "C"):
        return (key_den(n[2]), [])
    if t == "P":
        return (key_den(n[2]), [n_erase(n[4])])
    return (key_den(n[2]), [n_erase(k) for k in n[4]])


def keyed(n): return n[2] is not None
def starts_bare(n): return n[2] is not None and n[2][0] == "b"
def is_open(n): return n[0] == "L" or (n[0] == "P" and is_open(n[4]))
def ends_bare(n): return (n[0] == "L" and n[2][0] == "b") or (n[0] == "P" and ends_bare(n[4]))


def follows(n, rest):
    if not rest:
        return True
    m = rest[0]
    return (not is_open(n)) or (keyed(m) and not (ends_bare(n) and starts_bare(m) and len(m[1]) == 0))


def n_legal(n):
    t = n[0]
    if not gap_legal(n[1]) or not key_legal(n[2]):
        return False
    if t == "L":
        return n[2] is not None
    if not gap_legal(n[3]):
        return False
    if t == "P":
        return n_legal(n[4])
    if t == "B":
        return ns_legal(n[4]) and gap_legal(n[5])
    return True


def ns_legal(ns):
    return all(n_legal(n) and follows(n, ns[i + 1:]) for i, n in enumerate(ns))


def top_text(t):
    ns, trail, lc = t
    return [c for n in ns for c in n_text(n)] + gap_text(trail) + ([] if lc is None else [59] + list(lc))


def top_legal(t):
    ns, trail, lc = t
    return ns_legal(ns) and gap_legal(trail) and (lc is None or all(c not in (10, 13) for c in lc))


def canon(tree):
    return "(" + " ".join([hx(tree[0])] + [canon(k) for k in tree[1]]) + ")"


# ---- token encoding (read by Driver/Conf.lean)
def enc_gap(g):
    out = [str(len(g))]
    for it in g:
        out += ["w", hx([it[1]] + list(it[2]))] if it[0] == "w" else ["c", hx(it[1]), hx([it[2]])]
    return out


def enc_key(k):
    if k is None:
        return ["-"]
    if k[0] == "b":
        return ["b", hx(k[1])]
    out = ["q", str(len(k[1]))]
    for p in k[1]:
        out += [p[0], hx([p[1]])] if p[0] in "le" else [p[0]]
    return out


def enc_node(n):
    t = n[0]
    if t == "L":
        return ["L"] + enc_gap(n[1]) + enc_key(n[2])
    if t == "C":
        return ["C"] + enc_gap(n[1]) + enc_key(n[2]) + enc_gap(n[3])
    if t == "P":
        return ["P"] + enc_gap(n[1]) + enc_key(n[2]) + enc_gap(n[3]) + enc_node(n[4])
    return ["B"] + enc_gap(n[1]) + enc_key(n[2]) + enc_gap(n[3]) + [str(len(n[4]))] + [x for k in n[4] for x in enc_node(k)] + enc_gap(n[5])


def enc_top(t):
    ns, trail, lc = t
    return [str(len(ns))] + [x for n in ns for x in enc_node(n)] + enc_gap(trail) + (["-"] if lc is None else ["f", hx(lc)])


class Rd:
    def __init__(self, toks): self.t, self.i = toks, 0
    def tok(self):
        x = self.t[self.i]; self.i += 1; return x
    def hexs(self):
        x = self.tok(); return [] if x == "-" else list(bytes.fromhex(x))
    def gap(self):
        g = []
        for _ in range(int(self.tok())):
            k = self.tok()
            if k == "w":
                cs = self.hexs(); g.append(("w", cs[0], cs[1:]))
            else:
                b = self.hexs(); g.append(("c", b, self.hexs()[0]))
        return g
    def key(self, opt):
        k = self.tok()
        if k == "-" and opt: return None
        if k == "b": return ("b", self.hexs())
        ps = []
        for _ in range(int(self.tok())):
            p = self.tok()
            ps.append((p, self.hexs()[0]) if p in "le" else (p,))
        return ("q", ps)
    def node(self):
        t = self.tok()
        if t == "L": return ("L", self.gap(), self.key(False))
        if t == "C": return ("C", self.gap(), self.key(True), self.gap())
        if t == "P": return ("P", self.gap(), self.key(True), self.gap(), self.node())
        p, k, m = self.gap(), self.key(True), self.gap()
        kids = [self.node() for _ in range(int(self.tok()))]
        return ("B", p, k, m, kids, self.gap())
    def top(self):
        ns = [self.node() for _ in range(int(self.tok()))]
        tr = self.gap()
        x = self.tok()
        return (ns, tr, None if x == "-" else self.hexs())


def request_of(t):
    return "conf %s | %s" % (hx(top_text(t)), " ".join(enc_top(t)))


# ------------------------------------------------------------------ generators
def gen_char(rng, profile):
    r = rng.random()
    if profile == "plain":
        return rng.choice(b"abcxyz019_-.")
    if r < 0.55:
        return rng.choice(b"abcdefnrtxyzABC0123456789_-+./*@#$%&'()<=>?[]^`|~!")
    if r < 0.80:
        return rng.choice([32, 34, 58, 44, 59, 123, 125, 92, 92, 34])
    if r < 0.90:
        return rng.choice([9, 10, 13, 11, 12])
    if r < 0.95:
        return rng.randrange(1, 32)
    return rng.randrange(127, 256)


def gen_keyden(rng, profile):
    n = rng.choice([0, 1, 1, 2, 3, 4, 6, 10]) if profile != "plain" else rng.choice([1, 2, 3, 5])
    return [gen_char(rng, profile) for _ in range(n)]


def spell(rng, den, want_bare):
    """a written form of the key `den`"""
    bare = ("b", list(den))
    if key_legal(bare) and (want_bare or rng.random() < 0.5):
        return bare
    ps = []
    for c in den:
        if rng.random() < 0.12:
            ps.append(("r",))
        if c in (34, 92):
            ps.append(("e", c))
        elif c == 10:
            ps.append(rng.choice([("l", 10), ("n",), ("e", 10)]))
        elif c in (13, 110):
            ps.append(("l", c))
        else:
            ps.append(("e", c) if rng.random() < 0.25 else ("l", c))
    if rng.random() < 0.1:
        ps.append(("r",))
    return ("q", ps)


def gen_gap(rng, minimal=False, nonempty=False):
    g = []
    n = rng.choice([0, 1, 1, 1, 2, 3]) if not minimal else rng.choice([0, 0, 1])
    if nonempty and n == 0:
        n = 1
    for _ in range(n):
        if rng.random() < 0.75:
            more = [rng.choice(WHITE) for _ in range(rng.choice([0, 0, 0, 1, 2, 4]))]
            g.append(("w", rng.choice(BLANK), more))
        else:
            body = [c for c in (gen_char(rng, "any") for _ in range(rng.choice([0, 1, 3, 8, 20]))) if c not in (10, 13)]
            g.append(("c", body, rng.choice([10, 13])))
    return g


def gen_node(rng, depth, profile, must_key=False):
    forms = ["L", "C", "C"] if depth == 0 else ["L", "C", "P", "B", "B", "B"]
    f = rng.choice(forms)
    minimal = rng.random() < 0.3
    pre = gen_gap(rng, minimal)
    nokey = (not must_key) and f != "L" and rng.random() < 0.15
    key = None if nokey else spell(rng, gen_keyden(rng, profile), rng.random() < 0.6)
    if f == "L":
        return ("L", pre, key)
    mid = gen_gap(rng, True)
    if f == "C":
        return ("C", pre, key, mid)
    if f == "P":
        return ("P", pre, key, mid, gen_node(rng, depth - 1, profile))
    kids = gen_list(rng, depth - 1, profile, rng.choice([0, 1, 2, 2, 3, 5]))
    return ("B", pre, key, mid, kids, gen_gap(rng, minimal))


def gen_list(rng, depth, profile, n):
    ns = []
    for i in range(n):
        d = depth if i == 0 else rng.randrange(0, depth + 1)
        prev = ns[-1] if ns else None
        m = gen_node(rng, d, profile, must_key=prev is not None and is_open(prev))
        if prev is not None and is_open(prev) and ends_bare(prev) and starts_bare(m) and not m[1]:
            m = (m[0], gen_gap(rng, nonempty=True)) + tuple(m[2:])
        ns.append(m)
    return ns


def gen_top(rng, depth, profile):
    ns = gen_list(rng, depth, profile, rng.choice([1, 1, 2, 3, 5]) if depth else rng.choice([0, 1, 2, 3]))
    lc = None
    if rng.random() < 0.15:
        lc = [c for c in (gen_char(rng, "any") for _ in range(rng.choice([0, 2, 9]))) if c not in (10, 13)]
    return (ns, gen_gap(rng, rng.random() < 0.5), lc)


def depth_of(tree):
    return 0 if not tree[1] else 1 + max(depth_of(k) for k in tree[1])


def deco_tags(t):
    tags = set()
    def key(k):
        if k is None:
            tags.add("key-absent"); return
        if k[0] == "b":
            tags.add("key-bare")
        else:
            tags.add("key-quoted")
            for p in k[1]:
                tags.add({"l": "q-literal", "e": "q-escape", "n": "q-backslash-n", "r": "q-continuation"}[p[0]])
                if p[0] == "l" and p[1] in DELIMS: tags.add("q-delimiter-inside")
            if not key_den(k): tags.add("key-empty-quoted")
        if any(c >= 127 for c in key_den(k)): tags.add("key-high-byte")
    def gap(g):
        for it in g:
            tags.add("gap-ws" if it[0] == "w" else "gap-comment")
            if it[0] == "w" and any(c in (11, 12) for c in it[2]): tags.add("gap-vt-ff")
    def node(n):
        tags.add({"L": "form-key", "C": "form-comma", "P": "form-colon", "B": "form-braces"}[n[0]])
        gap(n[1]); key(n[2])
        if n[0] != "L": gap(n[3])
        if n[0] == "P": node(n[4])
        if n[0] == "B":
            gap(n[5]); tags.add("kids-%d" % len(n[4]))
            for k in n[4]: node(k)
    for n in t[0]: node(n)
    gap(t[1])
    if t[2] is not None: tags.add("last-comment")
    tags.add("depth-%d" % depth_of(([], [n_erase(n) for n in t[0]])))
    return sorted(tags)


def text_tags(bs):
    tags = set()
    for c, name in ((34, "quote"), (92, "backslash"), (58, "colon"), (44, "comma"), (59, "semicolon"), (123, "open-brace"), (125, "close-brace")):
        if c in bs: tags.add("has-" + name)
    if any(c in WHITE for c in bs): tags.add("has-space")
    return sorted(tags)


CORPUS_TEXT = [
    b'a }', b'}', b'a: }', b'x { a: } }', b'{}}',            # D14: stray } at top level
    b'"a\\', b'"\\', b'k { "a\\',                           # D17: backslash before the NUL
    b'test { some stuff }', b'foo: bar baz', b'"escaped string": "another escaped string" "i love them"',
    b'"more testing": {strange,love}', b'foo bar; baz',     # unit tests
    b'level0 {\n\tlevel1 { level2 level2 level2 }\n\tlevel1: level2\n\tlevel1\n\tlevel1,\n\t,\n}',   # the documented example
    b'"a\\nb\\\tc\\\rd\\te"', b'"unterminated', b'{', b'a {b', b'a { b { c }', b'a \x0bb', b'\x0bb', b'a\x0b b',
    b',,', b': a', b'{a}b', b'a"b"c', b'"a""b"', b'a:b:c:d', b'a:,b', b';only a comment', b'a;c\rb', b'a ; c\n , b', b'',
    b'a\xe9 \xe9b', b'"\xff"', b'x{a:}y',
]


def cases(rng, tier):
    for t in CORPUS_TEXT:
        yield Case("conf " + hx(t), ["corpus"] + text_tags(t), "corpus")
    # bounded-exhaustive: all strings up to length L over the delimiter alphabet
    alpha = [97, 34, 92, 58, 44, 59, 123, 125, 32, 10]
    L = 4 if tier == "quick" else 6
    for n in range(1, L + 1):
        for s in itertools.product(alpha, repeat=n):
            yield Case("conf " + hx(s), text_tags(s) and ["exh-len-%d" % n] + text_tags(s), "exhaustive")
    # ... and over the white-space / escape alphabet (CR, TAB, VT, n join the delimiters)
    alpha2 = [97, 110, 34, 92, 58, 44, 59, 123, 125, 32, 13, 9, 11]
    for n in range(1, (3 if tier == "quick" else 4) + 1):
        for s in itertools.product(alpha2, repeat=n):
            if any(c in (110, 13, 9, 11) for c in s):
                yield Case("conf " + hx(s), ["exh2-len-%d" % n] + text_tags(s), "exhaustive-ws")
    # decorated trees
    ntree = 6000 if tier == "quick" else 60000
    for i in range(ntree):
        depth = [0, 1, 2, 3, 4, 5][i % 6]
        profile = "plain" if i % 5 == 0 else "any"
        t = gen_top(rng, depth, profile)
        assert top_legal(t), t
        yield Case(request_of(t), deco_tags(t), "decorated")
        # malformed neighbours of the rendering: delete / insert / replace one character
        if i % 3 == 0:
            bs = top_text(t)
            for _ in range(2):
                m = list(bs)
                op = rng.randrange(3)
                pos = rng.randrange(len(m) + 1)
                c = rng.choice([34, 92, 58, 44, 59, 123, 125, 32, 10, 13, 11, 97])
                if op == 0 and m:
                    del m[min(pos, len(m) - 1)]
                elif op == 1:
                    m.insert(pos, c)
                elif m:
                    m[min(pos, len(m) - 1)] = c
                yield Case("conf " + hx(m), ["mutated"] + text_tags(m), "mutated")
    # random texts
    nrand = 4000 if tier == "quick" else 40000
    for i in range(nrand):
        n = rng.choice([1, 2, 5, 8, 13, 21, 40, 80])
        s = [gen_char(rng, "any") for _ in range(n)]
        yield Case("conf " + hx(s), ["random-text"] + text_tags(s), "random-text")


def outcome_class(a):
    return a.split(" ")[0][:40]


def finding_key(case, impl, judge):
    if impl == "timeout":
        return "nontermination"
    if impl.startswith("crash"):
        m = re.search(r"(\w+\.cpp:\d+)", impl)
        return "crash:" + (m.group(1) if m else "?")
    if impl.startswith("uncaught"):
        return impl
    if "|" in case.req:
        if "not legal" in judge or "not the rendering" in judge or "cannot read" in judge:
            return "generator"
        return "roundtrip"
    return "total"


def shrink(req):
    head, _, deco = req.partition("|")
    if not deco.strip():
        bs = list(bytes.fromhex(head.split()[1])) if head.split()[1] != "-" else []
        for i in range(len(bs)):
            yield "conf " + hx(bs[:i] + bs[i + 1:])
        return
    try:
        t = Rd(deco.split()).top()
    except Exception:
        return
    ns, trail, lc = t
    def emit(cand):
        if top_legal(cand):
            return request_of(cand)
        return None
    def node_variants(n):
        # simpler fillers / keys, then structural
        if n[1]: yield (n[0], []) + tuple(n[2:])
        if n[1] and n[1] != [("w", 32, [])]: yield (n[0], [("w", 32, [])]) + tuple(n[2:])
        if n[2] is not None and key_den(n[2]) != [97]:
            yield (n[0], n[1], ("b", [97])) + tuple(n[3:])
            yield (n[0], n[1], ("q", [("l", 97)])) + tuple(n[3:])
        if n[0] != "L" and n[3]: yield n[:3] + ([],) + tuple(n[4:])
        if n[0] == "P":
            yield n[4]
            for v in node_variants(n[4]): yield n[:4] + (v,)
        if n[0] == "B":
            if n[5]: yield n[:5] + ([],)
            for v in list_variants(n[4]): yield n[:4] + (v, n[5])
    def list_variants(l):
        for i in range(len(l)):
            yield l[:i] + l[i + 1:]
        for i in range(len(l)):
            for v in node_variants(l[i]):
                yield l[:i] + [v] + l[i + 1:]
    if lc is not None:
        r = emit((ns, trail, None))
        if r: yield r
    if trail:
        r = emit((ns, [], lc))
        if r: yield r
    for v in list_variants(ns):
        r = emit((v, trail, lc))
        if r: yield r


TECHNIQUE = "Lean 4 proof (mutual induction over decorated trees; fuel bound for termination) + differential correspondence model<->conf.cpp"
LEVEL_TEXT = ("Machine-checked theorems over a Lean model of Conf::parse_token / Conf::from_string: every legal written form of every tree "
              "(any depth; bare or quoted keys with any mix of escapes; `k`, `k,`, `,`, `k: c`, `k { .. }`; blanks and `;` comments wherever "
              "the syntax admits them) parses to exactly that tree; every tree has a written form; on every input string all loops end "
              "within 2|s|+2 iterations and no read goes past the terminating NUL. The model is tied to the code by the regenerated strpbrk "
              "set and by running model and conf.cpp on generated renderings, all short strings over the delimiter alphabet, and random text.")
LEVEL_NOTE = ("Trusted: Lean kernel (axioms propext, Classical.choice, Quot.sound at most), the hand-written model Model/Conf.lean (agreement with "
              "conf.cpp is established by differential testing, not proved), Spec/ConfRender.lean as the reading of 'the documented syntax', "
              "isspace in the C locale, g++/ASan/UBSan and the harness. Holds for the code after the two fix: commits (stray `}`; backslash before NUL).")
