"""C05 — MML text means what the reference says: pitch, duration, articulation."""
import re
from vlib.core import Case

ID = "C05"
LEAN_MODULE = "Ctrmml.Properties.C05"
THEOREMS = ["C05_on_off_sum", "C05_on_time_rule", "C05_on_time_positive_partial", "C05_on_time_zero_counterexample",
            "C05_duration_conservation_partial", "C05_shuffle_underflow_counterexample", "C05_tie_cases", "C05_slur_effect",
            "C05_reverse_rest_effect", "C05_grace_borrows", "C05_shuffle_alternates", "C05_echo_replays", "C05_pitch_rule",
            "C05_group_live", "C05_tie_group_law", "C05_tie_group_on_time_partial", "C05_tie_group_counterexample",
            "C05_slur_group_on_time", "C05_reverse_rest_group_on_time", "C05_grace_group_on_time",
            "C05_keysig_table_correct", "C05_getNum_render", "C05_getNum_is_numSpan", "C05_read_duration_render",
            "C05_command_span", "C05_command_span_canonical", "C05_parse_render_partial",
            "C05_command_span_ext", "C05_command_span_ext_canonical", "C05_parse_render_ext_partial"]
LEVEL = "proof"
STREAM = "mml.events+track.api"
CHUNK = 250
CASE_SECONDS = 10
TECHNIQUE = ("Lean 4 proof (invariants over Track API call sequences, UInt16 arithmetic; symbolic execution of the reader monad over the rest of the line) + "
             "differential correspondence model<->track.cpp/mml_input.cpp/input.cpp on typed command sequences")
LEVEL_TEXT = ("Machine-checked theorems over Lean models of Track (track.cpp), Line_Buffer (input.cpp) and MML_Input (mml_input.cpp): on_time+off_time "
              "of every added note is its duration and on_time follows the quantise / early-release rule; total track duration is conserved by every "
              "builder call (ties in their three cases, slurs, rests, echo, reverse rests subtract) under the no-16-bit-wrap hypothesis; pitch rule incl. "
              "the 15-row key-signature table against the circle of fifths. The extended note (a note with its ties, slur, reverse rests, grace borrow; sums over the NOTE/TIE/REST "
              "events it is recorded in): the law of add_tie on every live extended note in its three cases (tie_group_law: duration = split-off part + new length, key-on = split-off "
              "part + on_time(new length) under the setting at the tie); for every call sequence note, (settings | ties)*, (untimed calls)*, tie the events last the written durations "
              "and are keyed on for the rule applied to the TOTAL (tie_group_on_time_partial; extra hypothesis: the earlier ties stand directly behind the note), the statement "
              "without that hypothesis is FALSE (Q4 c4 v5 ^2 ^4 keys 96 ticks on for 60 instead of 48: D24, counterexample theorem + known finding); slur = legato over the whole "
              "extended note, reverse rest / grace borrow = duration - d and key-on = min(old key-on, new duration), on every live extended note. Reader layer: get_num is proved equal to a state-free function of the rest of the line on every "
              "buffer and reads every rendered decimal / $-hexadecimal signed numeral exactly; read_duration on every rendered duration form; every covered command "
              "(notes with accidental and duration, r ^ l o < > Q q C s &) consumes exactly its canonical spelling and performs exactly its builder call (command_span); "
              "whole canonical lines of covered commands parse to the builder calls in order with the model's own fuel (parse_render_partial). Extended set (round T, on C06's "
              "span lemmas): for R, ~, D, [ L ] ( ) * @ v p K E M P G t T _n __n kn %n, \\ + duration and \\=delay,volume one iteration of parse_mml_track on the canonical spelling "
              "followed by any tail meeting the command's look-ahead condition stamps the reference, performs exactly the command's builder call(s) (~: reverse_rest then add_note; "
              "\\=: clear_echo_buffer unless the delay is negative, then set_echo) and leaves the cursor behind the spelling; when the builder refuses R or ~ the run ends with the InputError "
              "'unable to backtrack' / 'previous note is not long enough' positioned behind the command and no note is added (command_span_ext); whole canonical lines over that set "
              "without the echo commands parse, up to source references, to the builder calls in order (parse_render_ext_partial). The remaining commands (V, key signatures _{..} k{..}, "
              "'..', /, {/}) rest on the correspondence check and the spec oracle. on_time >= 1 is FALSE of the "
              "current code (Q4 c:1, D6a) and shuffle underflow breaks conservation (q5 s-30 c, D6b): both are proved as counterexample theorems and "
              "recorded as known findings. The models are tied to the code by regenerated tables and by diffing model and real code on every generated case.")
LEVEL_NOTE = ("Trusted: Lean kernel (propext, Classical.choice, Quot.sound), the hand-written models Model/Lexer, Model/TrackBuilder, Model/Mml (agreement with the "
              "C++ is established by differential testing, not proved), Spec/MmlMeaning (my reading of mml_ref.md), glibc strtol in the C locale. The whole-line "
              "reader theorems are partial: with exact source references they cover notes, rests, ties, default length, octave, quantise, early release, measure length, shuffle and slur; "
              "up to source references also R ~ D % and the one-number event commands of mml_control / mml_envelope (hypothesis CmdsOk: numbers in int range, & R ~ accepted by the builder); "
              "the echo commands are proved per command only (no blanks between \\ and its duration in the interface form; echo_step has the general form); for V, _{..} / k{..}, '..', /, {/} "
              "and for non-canonical spellings, text -> builder calls is carried by correspondence (all events, references, error messages and positions) "
              "and by the spec oracle on the implementation's events. Decided per case by the oracle only (not proved): the key-on time of extended notes that start with an echo "
              "note, and everything about an extended note after one of its ties was recorded as a REST (the builder forgets the note there: D24). The oracle (Spec/MmlMeaning Item) "
              "prescribes an interval, not a point, where mml_ref.md leaves a choice: Q/q changed inside an extended note, slur across loop commands, tie behind a slur, key-on time "
              "of a note shortened by R or ~, tie behind a rest; each is explained in the Item comment.")
RULE = ("typed command sequences over the documented command set rendered canonically on track A (lengths 1..192 incl. non-divisors, dots 0..3, frames incl. "
        "1/255/256/65535, octaves, all 30 key signatures + modifier lists, Q0..9, q0..200, shuffle +-, decimal/hex/signed numbers) with the AST sent along so that "
        "the spec oracle computes the intended pitches, durations, key-on times (of every extended note as a whole) and totals; bounded-exhaustive families (all lengths x dots, all key signatures x "
        "letters x accidentals, Q x short durations, the extended note: Q1..8/q1..4 x 5 note lengths x 0-2 untimed commands before the first or second of 1-2 ties / slurs / R / ~, number spellings, numbers at the ends of int in every place the reader computes with a parsed number); multi-track / multi-line / conditional-block layouts; a malformed stream (mutated and random "
        "lines); direct Track API call sequences. non-trivial = uses a tie, slur, reverse rest, grace, echo, shuffle, key signature, drum mode, dots or frames, "
        "more than one track or line, or is malformed; distinct by request text")
EXPLANATION = ("theorems over Model/TrackBuilder + Model/Lexer + Model/Mml; correspondence on the events (and references for mmlr) of every track, the error "
               "message with its position, and the tag order; spec oracle = Spec/MmlMeaning.meaning of the generated AST compared with the implementation's events")
ASSUMPTIONS = ["lines shorter than 2^32 characters; char is signed; glibc strtol, C locale",
               "duration_conservation: no tied group exceeds 65535 ticks, no duration becomes 0 after shuffle (NoWrap hypothesis; the excluded points are D6b)",
               "on_time_positive: quantise with d*Q < 8 excluded (D6a)",
               "tie_group_on_time: the ties before the last one stand directly behind the note (no event-recording call in between); otherwise the split-off part stays keyed on in full (D24, tie_group_law)"]

LETTERS = "abcdefgh"
SCALES = ["C", "G", "D", "A", "E", "B", "F+", "C+", "F", "B-", "E-", "A-", "D-", "G-", "C-",
          "a", "e", "b", "f+", "c+", "g+", "d+", "a+", "d", "g", "c", "f", "b-", "e-", "a-"]
SIMPLE = {"loopStart": "[", "loopBreak": "/", "loopEnd": "]", "segno": "L", "call": "*", "ins": "@", "vol": "v", "volDown": "(", "volUp": ")",
          "volFine": "V", "volFineUp": "V+", "volFineDown": "V-", "pan": "p", "transpose": "_", "transposeRel": "__", "kTranspose": "k",
          "detune": "K", "env": "E", "pitchEnv": "M", "panEnv": "P", "porta": "G", "tempoBpm": "t", "tempo": "T", "platform": "%"}
NEEDS_PARAM = [k for k in SIMPLE if k not in ("loopStart", "loopBreak", "segno", "loopEnd", "volDown", "volUp")]


def hx(s):
    return s.encode("latin-1").hex() or "-"


class Num:
    def __init__(self, v, hex_=False):
        self.v, self.hex = v, hex_

    def text(self):
        if self.hex:
            return "$" + ("-" if self.v < 0 else "") + "%x" % abs(self.v)
        return str(self.v)

    def tok(self):
        return ("$" if self.hex else "") + str(self.v)


def num(rng, v, hexp=0.25):
    return Num(v, rng.random() < hexp)


def dur_text(d):
    if d[0] == "D":
        return "." * d[1]
    if d[0] == "L":
        return d[1].text() + "." * d[2]
    return ":" + d[1].text() + "." * d[2]


def dur_tok(d):
    if d[0] == "D":
        return "D/%d" % d[1]
    return "%s/%s/%d" % (d[0], d[1].tok(), d[2])


ACC = {"n": "", "s": "+", "f": "-", "e": "="}


class Cmd:
    def __init__(self, kind, *a):
        self.kind, self.a = kind, a

    def text(self):
        k, a = self.kind, self.a
        if k == "n":
            return LETTERS[a[0]] + ACC[a[1]] + dur_text(a[2])
        if k == "g":
            return "~" + LETTERS[a[0]] + ACC[a[1]] + dur_text(a[2])
        if k in ("r", "l", "R"):
            return k + dur_text(a[0])
        if k == "t":
            return "^" + dur_text(a[0])
        if k == "e":
            return "\\" + dur_text(a[0])
        if k == "S":
            return "&"
        if k in (">", "<", "|"):
            return k
        if k in ("o", "Q", "q", "C", "s", "D"):
            return k + a[0].text()
        if k == "E":
            return "\\=" + a[0].text() + "," + a[1].text()
        if k == "K":
            return "_{" + a[0] + "}"
        if k == "k":
            return "_{" + "".join(sg + "".join(LETTERS[l] for l in ls) for sg, ls in a[0]) + "}"
        if k == "x":
            return SIMPLE[a[0]] + (a[1].text() if a[1] is not None else "")
        raise ValueError(k)

    def tok(self):
        k, a = self.kind, self.a
        if k in ("n", "g"):
            return "%s/%d/%s/%s" % (k, a[0], a[1], dur_tok(a[2]))
        if k in ("r", "l", "R", "t", "e"):
            return k + "/" + dur_tok(a[0])
        if k in ("S", ">", "<", "|"):
            return k
        if k in ("o", "Q", "q", "C", "s", "D"):
            return k + "/" + a[0].tok()
        if k == "E":
            return "E/%s/%s" % (a[0].tok(), a[1].tok())
        if k == "K":
            return "K/" + a[0]
        if k == "k":
            return "k/" + ",".join(sg + "".join(str(l) for l in ls) for sg, ls in a[0])
        if k == "x":
            return "x/%s/%s" % (a[0], a[1].tok() if a[1] is not None else "-")
        raise ValueError(k)


def req_of(cmds, cmd="mml"):
    text = "A " + " ".join(c.text() for c in cmds)
    return "%s %s @ %s" % (cmd, hx(text), " ".join(c.tok() for c in cmds))


def tags_of(cmds):
    t = set()
    for c in cmds:
        k = c.kind
        if k in ("t", "S", "R", "g", "e", "E", "s", "K", "k", "D", "C", "q", "Q", "l"):
            t.add({"t": "tie", "S": "slur", "R": "reverse-rest", "g": "grace", "e": "echo", "E": "echo-set", "s": "shuffle",
                   "K": "key-scale", "k": "key-modifier", "D": "drum-mode", "C": "measure-len", "q": "early-release", "Q": "quantize", "l": "default-length"}[k])
        if k == "x":
            t.add("cmd-" + c.a[0])
        if k in ("n", "g") and c.a[1] != "n":
            t.add("accidental")
        d = None
        if k in ("n", "g"):
            d = c.a[2]
        elif k in ("r", "l", "R", "t", "e"):
            d = c.a[0]
        if d is not None:
            if d[0] == "F":
                t.add("frames")
            if d[0] == "L" and 96 % max(1, d[1].v) != 0:
                t.add("length-nondivisor")
            if d[-1] > 0:
                t.add("dots-%d" % d[-1])
            if d[0] != "D" and d[1].hex:
                t.add("hex-number")
    return sorted(t)


def gen_dur(rng, kind="any"):
    r = rng.random()
    dots = rng.choice([0, 0, 0, 1, 1, 2, 3])
    if r < 0.3:
        return ("D", dots)
    if r < 0.8:
        n = rng.choice([1, 2, 3, 4, 4, 4, 6, 8, 8, 12, 16, 16, 24, 32, 48, 64, 96]) if rng.random() < 0.7 else rng.randrange(1, 193)
        return ("L", num(rng, n, 0.15), dots)
    n = rng.choice([1, 2, 3, 5, 7, 8, 24, 100, 127, 128, 255, 256, 1000]) if rng.random() < 0.8 else rng.choice([32767, 32768, 65535, 20000, rng.randrange(1, 65536)])
    return ("F", num(rng, n, 0.15), dots if n < 20000 else 0)


def gen_cmd(rng, big=False):
    r = rng.random()
    if r < 0.34:
        return Cmd("n", rng.randrange(8), rng.choice("nnnnsfe"), gen_dur(rng))
    if r < 0.40:
        return Cmd("r", gen_dur(rng))
    if r < 0.48:
        return Cmd("t", gen_dur(rng))
    if r < 0.52:
        return Cmd("S")
    if r < 0.56:
        return Cmd("o", num(rng, rng.choice([0, 1, 2, 3, 4, 5, 6, 7, 8, 9, -1, 10]) if not big else rng.randrange(-100, 101)))
    if r < 0.60:
        return Cmd(rng.choice("<>"))
    if r < 0.64:
        return Cmd("l", gen_dur(rng))
    if r < 0.68:
        return Cmd("Q", num(rng, rng.choice([1, 2, 3, 4, 5, 6, 7, 8, 8, 4, 0, 9])))
    if r < 0.72:
        return Cmd("q", num(rng, rng.choice([0, 1, 2, 3, 5, 8, 12, 24, 100, 200])))
    if r < 0.755:
        return Cmd("R", gen_dur(rng))
    if r < 0.79:
        return Cmd("g", rng.randrange(8), rng.choice("nnnsf"), gen_dur(rng))
    if r < 0.80:
        return Cmd("C", num(rng, rng.choice([96, 192, 48, 128, 100, 24, 1, 384])))
    if r < 0.82:
        return Cmd("s", num(rng, rng.choice([0, 1, 2, 3, -1, -2, -3, 6, -6, 12, -30, 30]), 0.1))
    if r < 0.84:
        return Cmd("E", num(rng, rng.choice([0, 1, 2, 3, -1, -2, 5, 10, 11, -10]), 0.1), num(rng, rng.choice([0, 1, 2, 3, -2, 10]), 0.1))
    if r < 0.88:
        return Cmd("e", gen_dur(rng))
    if r < 0.90:
        return Cmd("K", rng.choice(SCALES))
    if r < 0.92:
        groups = [(rng.choice("+-="), [rng.randrange(8) for _ in range(rng.choice([0, 1, 1, 2, 3]))]) for _ in range(rng.choice([1, 1, 2, 3]))]
        return Cmd("k", groups)
    if r < 0.93:
        return Cmd("D", num(rng, rng.choice([0, 0, 1, 30, 100, 200])))
    if r < 0.94:
        return Cmd("|")
    name = rng.choice(list(SIMPLE))
    if name in ("loopStart", "loopBreak", "segno"):
        return Cmd("x", name, None)
    if name in ("loopEnd", "volDown", "volUp"):
        return Cmd("x", name, None if rng.random() < 0.4 else num(rng, rng.choice([0, 1, 2, 3, 4, 255])))
    v = rng.choice([0, 1, 2, 5, 15, 100, 127, 128, 255]) if rng.random() < 0.8 else rng.choice([-1, -5, -128, 32767, -32768, 65535, 40000])
    if name in ("volFine", "volFineUp", "volFineDown"):
        v = abs(v)
        return Cmd("x", name, Num(v, False) if name == "volFineDown" else num(rng, v))
    return Cmd("x", name, num(rng, v))


def gen_seq(rng, n, big=False):
    return [gen_cmd(rng, big) for _ in range(n)]


def safe_dur(rng, short=False):
    r = rng.random()
    if r < 0.3:
        return ("D", rng.choice([0, 0, 1]))
    if r < 0.85:
        return ("L", num(rng, rng.choice([1, 2, 4, 4, 8, 8, 16, 3, 6, 12, 5, 7, 9])), rng.choice([0, 0, 0, 1, 2]))
    return ("F", num(rng, rng.choice([6, 7, 9, 10, 24, 25, 100, 1000])), rng.choice([0, 0, 1]))


def gen_seq_safe(rng, n):
    """sequences that stay inside the literal domain of Spec/MmlMeaning (the oracle judges them fully)"""
    out = []
    while len(out) < n:
        r = rng.random()
        if r < 0.40:
            out.append(Cmd("n", rng.randrange(8), rng.choice("nnnnsfe"), safe_dur(rng)))
            r2 = rng.random()
            if r2 < 0.10:
                out[-1] = Cmd("n", rng.randrange(8), rng.choice("nnsf"), ("L", Num(rng.choice([1, 2, 4])), 0))
                out.append(Cmd("R", ("F", num(rng, rng.choice([1, 2, 3, 5])), 0)))
            elif r2 < 0.20:
                out[-1] = Cmd("n", rng.randrange(8), rng.choice("nnsf"), ("L", Num(rng.choice([1, 2, 4])), 0))
                out.append(Cmd("g", rng.randrange(8), rng.choice("nnsf"), ("F", num(rng, rng.choice([6, 7, 8])), 0)))
        elif r < 0.46:
            out.append(Cmd("r", safe_dur(rng)))
        elif r < 0.54:
            out.append(Cmd("t", safe_dur(rng)))
        elif r < 0.58:
            out.append(Cmd("S"))
        elif r < 0.62:
            out.append(Cmd("o", num(rng, rng.randrange(2, 9))))
        elif r < 0.64:
            out.append(Cmd(rng.choice("<>")))
        elif r < 0.68:
            out.append(Cmd("l", ("L", num(rng, rng.choice([2, 4, 8, 16, 3])), rng.choice([0, 0, 1]))))
        elif r < 0.73:
            out.append(Cmd("Q", num(rng, rng.randrange(1, 9))))
        elif r < 0.77:
            out.append(Cmd("q", num(rng, rng.choice([0, 1, 2, 3, 5, 30]))))
        elif r < 0.79:
            out.append(Cmd("s", num(rng, rng.choice([0, 1, 2, -1, -2, 3]), 0.1)))
        elif r < 0.82:
            out.append(Cmd("E", num(rng, rng.choice([0, 1, 2, 3, -1, -2]), 0.1), num(rng, rng.choice([0, 1, 2, -2]), 0.1)))
        elif r < 0.86:
            out.append(Cmd("e", safe_dur(rng)))
        elif r < 0.89:
            out.append(Cmd("K", rng.choice(SCALES)))
        elif r < 0.91:
            out.append(Cmd("k", [(rng.choice("+-="), [rng.randrange(8) for _ in range(rng.choice([1, 1, 2, 3]))]) for _ in range(rng.choice([1, 1, 2]))]))
        elif r < 0.92:
            out.append(Cmd("D", num(rng, rng.choice([0, 0, 30, 100]))))
        elif r < 0.93:
            out.append(Cmd("|"))
        else:
            name = rng.choice(list(SIMPLE))
            if name in ("loopStart", "loopBreak", "segno"):
                out.append(Cmd("x", name, None))
            elif name in ("loopEnd", "volDown", "volUp"):
                out.append(Cmd("x", name, None if rng.random() < 0.4 else num(rng, rng.choice([0, 1, 2, 3, 4, 255]))))
            elif name in ("volFine", "volFineUp", "volFineDown"):
                v = rng.choice([0, 1, 5, 100, 127])
                out.append(Cmd("x", name, Num(v, False) if name == "volFineDown" else num(rng, v)))
            else:
                out.append(Cmd("x", name, num(rng, rng.choice([0, 1, 2, 5, 15, 100, 127, -1, -5, -128]))))
    return out


CORPUS_TEXT = [
    # D6a / D6b
    ["A Q4 c:1"], ["A q5 s-30 c"], ["A s-30 c"], ["A l:0 q1 c"], ["A Q1 c64"],
    # D12
    ["*"], ["A ~"], ["A o4 l4 cdefgab >c ~"], ["A ~r4"], ["A ~1"], ["A D1 ~"], ["A o4 l4 cdefgab D1 ~"], ["* c"], ["*-1 c"], ["*x c"],
    # numbers at the ends of int: signed overflow (undefined behaviour) before fixes 299434d / bc95701, ordinary wrapping cases since
    ["A o2147483648 c"], ["A o-2147483647 < c"], ["A o200000000 c"], ["A (2147483648"], ["A c:2147483647."], ["A o2147483647 c"],
    ["c:2147483647."], ["(2147483648"], ["o-2147483648"], ["o2147483647 c"], ["o-2147483647 <"], ["o2147483647 >>"],
    ["A o-2147483648"], ["A o-2147483648 c"], ["A o-2147483647 <"], ["A o-2147483647 < < c"], ["A o2147483647 >>"], ["A o2147483647 >> c"],
    ["A c:2147483647.."], ["A c:2147483647..."], ["A l:2147483647. c"], ["A (-2147483648"], ["A )2147483648"], ["A o178956971 c"], ["A o-178956971 c"],
    ["A D40 o2147483647 c"], ["A o2147483647 ~c"], ["A c o2147483647 ~c:1."],
    # unit-test shapes
    ["A cdefgab>c"], ["A o4l4cdefgab>c"], ["A c4d8e16f32g2.a4..b4...", "A r4^4&c^8"], ["ABC {c/d+/g} {d/f/a}"], ["A [cd/ef]4 L gab"],
    ["A c4 r4 ^4"], ["A c4 v5 ^4"], ["A Q4 c4 v5 ^4"], ["A Q4 c4 v5 ^4 ^4"], ["A Q6 c4 v10 ^4"], ["A Q4 c4 v5 ^2 ^4"], ["A q30 c:10 @1 ^ ^"], ["A Q4 c4 v5 ^4 & d4"], ["A c4 & d4"], ["A r4 & d4"], ["A c4 ] R8"], ["A c4 R4"], ["A c4 R8"], ["A r4 R4"],
    # the end-to-end example behind C05_parse_render_ext_partial (round T)
    ["A c R8 ~d16 \\=1,2 \\ [ e ]3 @5 D1"], ["A R"], ["A c8 R4"], ["A c8 ~d4"],
    ["A \\=2,3 c4d\\e\\"], ["A \\=1,0 c\\"], ["A \\=-1,2 c\\ r\\"], ["A \\=11,2 cdefgabcdefg\\"], ["A _{c} cdefgab"], ["A _{D} _{=f} cdefgab"], ["A _{+cfg} cfg"],
    ["A _{} c"], ["A _{h} c"], ["A _{+i} c"], ["A _{+c"], ["A _{ +c f }cf"], ["A _{-h} h b"], ["A _{F} h b"], ["A _{+C} c"],
    ["A cx10 c$10 c$10e"], ["A c 4 d\t8"], ["A c:$20"], ["A c$-4"], ["A c0"], ["A c-4"], ["A c=-4"], ["A c:-5"], ["A c$0x10 c$0x c$0xg"], ["A o$ c"],
    ["A 'fm3 0011' c 'lfo 1 2'"], ["A 'unterminated"], ["A %5 %"], ["A V5 V+5 V-5 V+-5 V-$5"], ["A (5 )5 ( )"], ["A ]"], ["A [c]"], ["A __5 _5 _-5 k5 K-3"],
    ["A D30 abcdefgh a+ b- D0 c"], ["A s2 c4 c4 R8 c4"], ["A s2 c4 ~d8 c4"], ["A l8. c l:7 c l c"], ["A C192 c4 c1 C1 c4"], ["A C0 c4"],
    ["#title Test  ", "#TITLE again", "@1 fm 1 2 3", " 4 5 6", "A @1 c"], ["#platform mdsdrv", "A c"], ["#title", "A c"], ["@", "A c"], ["#title\tx"], ["#title\rx"],
    ["A c", " d", "\te"], ["ABc"], ["A", " c"], ["A ; comment", " c"], ["; comment", " c"], ["x"], [""], [" "], ["A c ; d"], ["A c | d |"], ["0 c", "9 c", "*35 d"], ["*70000 c", "*4464 d"],
    ["AB {c/d} e"], ["AB {c} e"], ["AB {c/d e"], ["A {c/d} e"], ["AB o4 {c/_{D} f} g"], ["AB o4 {[c/d]2/e} g"], ["ABC {c/d} {e/f/g}"], ["A }"], ["A /"], ["A {/}"], ["AB {c;/d}"],
    ["A ?"], ["A c!"], ["A \x80"], ["A c\x00d"], ["A" + " " * 40 + "c"], ["A o"], ["A o "], ["A v"], ["A @"], ["A *"], ["A \\=1"], ["A \\=1,"], ["A \\=1 ,2 c\\"], ["A \\=-32768,2 c\\"],
    ["A Q0 c Q9 c Q8 c Q65536 c Q-1 c"], ["A q0 c q65535 c q65536 c"], ["A s32767 c s-32768 c c"], ["A c:65535^:1"], ["A c:65535 c:65536 c:65537"], ["A l:65535 c.."],
    ["A l1c^^^^^^^^^^^^^^^^^^^^^^^^^^^^^^^^^^^^^^^^^^^^^^^^^^^^^^^^^^^^^^^^^^^^^^^^^^^^^^^^^^^^^^^^^^^^^^^^^^^^^^^^^^^^^^^^^^^^^^^^^^^^^^^^^^^^^^^^^^^^^^^^^^^^^^^^^^^^^^^^^^^^^^^^^^^^^^^^^^^^^^^^^^^^^^^^^^^^^^^^^^^^^^^^^^^^^^^^^^^^^^^^^^^^^^^^^^^^^^^^^^^^^^^^^^^^^^^^^^^^^^^^^^^^^^^^^^^^^^^^^^^^^^^^^^^^^^^^^^^^^^^^^^^^^^^^^^^^^^^^^^^^^^^^^^^^^^^^^^^^^^^^^^^^^^^^^^^^^^^^^^^^^^^^^^^^^^^^^^^^^^^^^^^^^^^^^^^^^^^^^^^^^^^^^^^^^^^^^^^^^^^^^^^^^^^^^^^^^^^^^^^^^^^^^^^^^^^^^^^^^^^^^^^^^^^^^^^^^^^^^^^^^^^^^^^^^^^^^^^^^^^^^^^^^^^^^^^^^^^^^^^^^^^^^^^^^^^^^^^^^^^^^^^^^^^^^^^^^^^^^^^^^^^^^^^^^^^^^^^^^^^^^^^^^^^^^^^^^^^^^^^^^^^^^^^^^^^^^^^^^^^^^^^^^^^^^^^^^^^"],
]

CORPUS_API = [
    "tapi Q:4:8 n:0:1", "tapi q:5 s:-30 n:0:0", "tapi n:0:24 r:24 t:24", "tapi Q:4:8 n:0:24 ev:13:5:0:0 t:24", "tapi Q:4:8 n:0:24 ev:13:5:0:0 t:24 t:24",
    "tapi n:0:24 S", "tapi r:24 S", "tapi n:0:24 R:24", "tapi n:0:24 R:12", "tapi ev:6:2:0:0 R:1", "tapi R:1", "tapi E:2:3 n:0:24 n:2:24 e:24",
    "tapi K:43 G:97 G:105", "tapi K:2b6366 G:99 G:102", "tapi K:5a", "tapi K:- ", "tapi M:99:1 M:105:1 M:99:2", "tapi Q:1:3 n:0:2", "tapi Q:9:8 Q:0:8 Q:3:0",
     "tapi G:65", "tapi s:-32768 n:0:24 n:0:24", "tapi n:0:65535 t:1", "tapi D:65535 n:7:24", "tapi ref:3:4 n:0:24 ref:5:6 t:4",
]

# the extended note, with the AST (the oracle judges them): the input of seeded change C05-3, the three faces of D24, R / ~ / & / Q change / tie behind a rest
CORPUS_TYPED = [
    "Q/6 n/2/n/L/4/0 x/vol/10 t/L/4/0", "Q/4 n/2/n/L/4/0 x/vol/5 t/L/2/0 t/L/4/0", "q/30 n/2/n/F/10/0 x/ins/1 t/D/0 t/D/0",
    "Q/4 n/2/n/L/4/0 x/vol/5 t/L/4/0 S n/3/n/L/4/0", "Q/4 n/2/n/L/4/0 R/L/8/0", "Q/4 n/2/n/L/4/0 g/3/n/L/8/0", "Q/4 n/2/n/L/4/0 t/L/4/0 x/pan/3 R/L/8/0",
    "Q/4 n/2/n/L/4/0 S t/L/4/0", "Q/4 n/2/n/L/4/0 Q/8 t/L/4/0", "Q/8 n/2/n/L/4/0 x/vol/3 Q/2 t/L/4/0", "Q/4 n/2/n/L/4/0 r/L/4/0 t/L/4/0 t/L/4/0 n/3/n/L/4/0",
    "Q/4 t/L/4/0 S n/2/n/L/4/0", "q/3 n/2/n/L/4/0 x/loopEnd/2 S", "q/3 n/2/n/L/4/0 x/loopStart/- t/L/4/0 S", "E/1/2 n/2/n/L/4/0 e/L/4/0 t/L/4/0", "Q/5 n/2/n/L/4/0 S x/vol/1 R/F/3/0",
]

MML_ALPHABET = "abcdefghr^&o<>lQqR~Cs\\[]/L*'@_kKv()VpEMPGDtT{}|;%:.$x+-=, \t0123456789#"


def mutate(rng, text):
    if not text:
        return rng.choice(MML_ALPHABET)
    r = rng.random()
    i = rng.randrange(len(text))
    if r < 0.3:
        return text[:i] + text[i + 1:]
    if r < 0.6:
        return text[:i] + rng.choice(MML_ALPHABET) + text[i:]
    if r < 0.8:
        return text[:i] + rng.choice(MML_ALPHABET) + text[i + 1:]
    if r < 0.9:
        return text[:i]
    return text[:i] + rng.choice(["\x00", "\x80", "\xff", "\r", "\x0b", "2147483648", "-2147483649", "99999999999999999999", "0x", "$"]) + text[i:]


def layout_case(rng):
    """multi-track / multi-line / conditional-block layouts (no AST: correspondence + sanity only)"""
    ntr = rng.choice([1, 2, 2, 3, 4])
    ids = []
    for _ in range(ntr):
        r = rng.random()
        ids.append(rng.choice("ABCDEFGHIJKLMNOPQRSTUVWXYZ") if r < 0.7 else rng.choice("0123456789") if r < 0.8 else "*%d" % rng.choice([0, 5, 31, 32, 100, 255, 1000, 65535, 65536]))
    lines = []
    for li in range(rng.choice([1, 1, 2, 3])):
        parts = []
        for _ in range(rng.randrange(1, 8)):
            if rng.random() < 0.25:
                alts = [" ".join(c.text() for c in gen_seq(rng, rng.randrange(0, 3))) for _ in range(rng.choice([ntr, ntr, ntr, max(1, ntr - 1), ntr + 1]))]
                parts.append("{" + "/".join(alts) + "}")
            else:
                parts.append(gen_cmd(rng).text())
        sep = rng.choice([" ", " ", "", "  ", " | ", "\t"])
        body = sep.join(parts)
        if rng.random() < 0.15:
            body += " ; " + rng.choice(["comment", "c d e", "}", "/"])
        head = "".join(ids) if (li == 0 or rng.random() < 0.4) else ""
        lines.append(head + rng.choice([" ", "  ", "\t"]) + body)
        if rng.random() < 0.2:
            lines.append(rng.choice(["#title foo", "@1 fm 1 2", "; c", "", "#platform mdsdrv"]))
    return lines


def api_case(rng):
    ops = []
    for _ in range(rng.randrange(1, 30)):
        r = rng.random()
        d = rng.choice([0, 0, 1, 2, 3, 6, 12, 24, 24, 48, 96, 100, 1000, 32768, 65535])
        if r < 0.25: ops.append("n:%d:%d" % (rng.randrange(-3, 14), d))
        elif r < 0.35: ops.append("t:%d" % d)
        elif r < 0.42: ops.append("r:%d" % d)
        elif r < 0.47: ops.append("S")
        elif r < 0.52: ops.append("e:%d" % d)
        elif r < 0.58: ops.append("R:%d" % rng.choice([0, 1, 2, 6, 12, 24, 48]))
        elif r < 0.62: ops.append("o:%d" % rng.randrange(-2, 11))
        elif r < 0.65: ops.append("O:%d" % rng.choice([-1, 1, 2, -12]))
        elif r < 0.69: ops.append("l:%d" % d)
        elif r < 0.74:
            parts = rng.choice([8, 8, 8, 3, 16, 100, 0, 1])
            ops.append("Q:%d:%d" % (rng.randrange(0, parts + 2), parts))
        elif r < 0.78: ops.append("q:%d" % rng.choice([0, 1, 2, 5, 12, 24, 100, 65535]))
        elif r < 0.80: ops.append("D:%d" % rng.choice([0, 1, 30, 200, 65535]))
        elif r < 0.83: ops.append("E:%d:%d" % (rng.choice([0, 1, 2, 3, 10, 11, 65535]), rng.choice([0, 1, 3, -2, 32767, -32768])))
        elif r < 0.84: ops.append("X")
        elif r < 0.86: ops.append("C:%d" % rng.choice([96, 192, 0, 1, 65535]))
        elif r < 0.89: ops.append("s:%d" % rng.choice([0, 1, 2, -1, -2, 6, -6, -30, 30, 32767, -32768]))
        elif r < 0.92: ops.append("K:" + hx(rng.choice(SCALES + ["+cf", "-be", "=f", "+c-b=a", "+", "H", "c+", "+CF", "z", "+z", "1"])))
        elif r < 0.94: ops.append("M:%d:%d" % (rng.choice(list(range(97, 106)) + [65, 72, 73, 122]), rng.choice([1, -1, 0, 0, 1, 2])))
        elif r < 0.96: ops.append("G:%d" % rng.choice(list(range(97, 106)) + [65, 72, 73, 122]))
        elif r < 0.98: ops.append("ev:%d:%d:0:0" % (rng.choice([4, 5, 6, 7, 8, 10, 13, 14, 17]), rng.randrange(0, 20)))
        else: ops.append("ref:%d:%d" % (rng.randrange(100), rng.randrange(100)))
    return "tapi " + " ".join(ops)


def extended_note_cases():
    arts = [Cmd("Q", Num(n)) for n in range(1, 9)] + [Cmd("q", Num(n)) for n in range(1, 5)]
    notes = [("L", Num(4), 0), ("L", Num(8), 1), ("L", Num(8), 0), ("L", Num(3), 0), ("F", Num(9), 1)]
    inter1 = [Cmd("x", "vol", Num(10)), Cmd("x", "ins", Num(5)), Cmd("x", "pan", Num(3)), Cmd("o", Num(5)), Cmd(">"), Cmd("<"),
              Cmd("l", ("L", Num(8), 0))]
    inters = [[]] + [[a] for a in inter1] + [[a, b] for a in inter1 for b in inter1]
    t4, t16, td, t8d = Cmd("t", ("L", Num(4), 0)), Cmd("t", ("L", Num(16), 0)), Cmd("t", ("D", 0)), Cmd("t", ("L", Num(8), 1))
    sl, rr = Cmd("S"), Cmd("R", ("F", Num(2), 0))
    gr = Cmd("g", 3, "n", ("F", Num(2), 0))
    tails = [[t4], [t16], [td], [sl], [t4, t8d], [td, td], [t4, sl], [sl, t4], [rr], [t4, rr], [gr], [sl, rr]]
    for art in arts:
        for nd in notes:
            note = Cmd("n", 2, "n", nd)
            for tail in tails:
                for inter in inters:
                    for pos in range(len(tail) if inter else 1):
                        yield [art, note] + tail[:pos] + inter + tail[pos:] + [Cmd("n", 4, "n", ("L", Num(4), 0))]


def text_case(lines, cmd="mml"):
    return "%s %s" % (cmd, " ".join(hx(l) for l in lines))


def cases(rng, tier):
    quick = tier == "quick"
    for lines in CORPUS_TEXT:
        yield Case(text_case(lines), ("corpus",), "corpus")
        yield Case(text_case(lines, "mmlr"), ("corpus", "references"), "corpus")
    for c in CORPUS_API:
        yield Case(c, ("corpus", "api"), "corpus")
    for toks in CORPUS_TYPED:
        cmds = [cmd_of_tok(t) for t in toks.split(" ")]
        yield Case(req_of(cmds), tags_of(cmds) + ["corpus"], "corpus")
    # ---- bounded-exhaustive families
    arts = [[], [Cmd("Q", Num(4))], [Cmd("Q", Num(7))], [Cmd("q", Num(1))], [Cmd("q", Num(5))], [Cmd("Q", Num(1))]]
    for n in range(1, 193):
        for dots in range(4):
            a = arts[(n + dots) % len(arts)] if quick else None
            for art in ([a] if quick else arts):
                cmds = art + [Cmd("n", n % 8, "n", ("L", Num(n, (n + dots) % 5 == 0), dots)), Cmd("r", ("L", Num(n), dots)), Cmd("t", ("L", Num(n), dots))]
                yield Case(req_of(cmds), tags_of(cmds) + ["exh-length"], "exh-length")
    for sc in SCALES:
        for acc in "nsfe":
            cmds = [Cmd("K", sc)] + [Cmd("n", l, acc, ("D", 0)) for l in range(8)]
            yield Case(req_of(cmds), tags_of(cmds) + ["exh-keysig"], "exh-keysig")
        for sg in "+-=":
            for l in range(8):
                cmds = [Cmd("K", sc), Cmd("k", [(sg, [l])])] + [Cmd("n", x, "n", ("D", 0)) for x in range(8)]
                if quick and (l + len(sc)) % 4:
                    continue
                yield Case(req_of(cmds), tags_of(cmds) + ["exh-keysig"], "exh-keysig")
    for q in range(0, 10):
        cmds = [Cmd("Q", Num(q))] + [Cmd("n", 2, "n", ("F", Num(d), 0)) for d in range(1, 26)]
        yield Case(req_of(cmds), tags_of(cmds) + ["exh-quantize"], "exh-quantize")
    for q in [0, 1, 2, 3, 5, 8, 12, 23, 24, 25, 100, 200]:
        cmds = [Cmd("q", Num(q))] + [Cmd("n", 2, "n", ("F", Num(d), 0)) for d in range(1, 26)]
        yield Case(req_of(cmds), tags_of(cmds) + ["exh-early-release"], "exh-early-release")
    for f in [1, 2, 3, 127, 128, 255, 256, 257, 4095, 4096, 32767, 32768, 65534, 65535]:
        for dots in range(4):
            for hexf in (False, True):
                cmds = [Cmd("n", 0, "n", ("F", Num(f, hexf), dots)), Cmd("r", ("F", Num(f, hexf), 0))]
                yield Case(req_of(cmds), tags_of(cmds) + ["exh-frames"], "exh-frames")
    for o in range(-1, 11):
        for dm in (0, 40):
            cmds = [Cmd("D", Num(dm)), Cmd("o", Num(o))] + [Cmd("n", l, a, ("D", 0)) for l in range(8) for a in "nsf"]
            yield Case(req_of(cmds), tags_of(cmds) + ["exh-octave"], "exh-octave")
    for spelling in ["4", " 4", "\t4", "+4", "-4", "$4", "x4", "$ 4", "$+4", "$-4", "$0x4", "$0X4", "0x4", "$0x", "$x", "04", "$f", "$F", "$g", " \r4", "\x0b4", "4.", "4 .",
                     "$", "x", "+", "-", " ", "", "2147483647", "2147483648", "4294967300", "-2147483648", "9223372036854775807", "9223372036854775808",
                     "-9223372036854775809", "$ffffffff", "$100000004", "00000000000000000000004"]:
        for pre in ["A c", "A c:", "A o", "A l", "A v", "A ]", "A s", "A (", "*", "A *", "A \\=", "A \\=1,", "A q", "A Q"]:
            yield Case(text_case([pre + spelling + " d"]), ("exh-number", "number-spelling"), "exh-number")
    # numbers at the ends of int in every place the reader computes with them (wrap since fixes 299434d / bc95701)
    for v in [2147483647, 2147483646, 2147483648, -2147483648, -2147483647, -2147483649, 1073741824, 1073741823, -1073741824, 715827883, 178956971, 178956970,
              -178956971, 357913942, 4294967295, 4294967296, 65536, 65535, 32768, -32768, -32769]:
        for hexv in (False, True):
            n = Num(v, hexv).text()
            for pat in ["A o%s c", "A o%s < c", "A o%s > c", "A o%s >> c", "A o%s << c", "A o%s <", "A o%s >>", "A c:%s", "A c:%s.", "A c:%s..", "A c:%s...",
                        "A l:%s. c", "A r:%s. ^:%s..", "A (%s", "A )%s", "A (%s )%s", "A D40 o%s c", "A o%s ~c", "A c R:%s.", "A \\:%s.", "A c%s.", "A l%s.. c"]:
                yield Case(text_case([pat.replace("%s", n)]), ("exh-int-edge", "number-spelling"), "exh-int-edge")
    # the extended note: Q1..Q8 / q1..q4 x note length x 0-2 commands that are not timed, written before the
    # first or the second of 1-2 ties / slurs / a reverse rest / a grace note.  The oracle prescribes the key-on
    # time of the whole extended note (Spec/MmlMeaning `Item`); quick tier: every 10th case, offset by the seed.
    # (the cases with an event-recording command before the FIRST of two ties / tie + slur are the known finding D24)
    off = rng.randrange(10)
    for k, cmds in enumerate(extended_note_cases()):
        if quick and k % 10 != off:
            continue
        yield Case(req_of(cmds), tags_of(cmds) + ["exh-extended-note"], "exh-extended-note")
    # ---- seeded random typed sequences (with AST)
    n = 9000 if quick else 60000
    for i in range(n):
        if i % 2 == 0:
            cmds = gen_seq_safe(rng, rng.choice([1, 2, 3, 5, 8, 12, 20, 30]))
            yield Case(req_of(cmds), tags_of(cmds) + ["in-domain-profile"], "typed-random-safe")
        else:
            cmds = gen_seq(rng, rng.choice([1, 2, 3, 5, 8, 12, 20, 30]), big=(i % 10 == 1))
            yield Case(req_of(cmds), tags_of(cmds), "typed-random")
    # the same generator with references
    for i in range(1000 if quick else 6000):
        cmds = gen_seq(rng, rng.choice([2, 5, 10]))
        yield Case(req_of(cmds, "mmlr"), tags_of(cmds) + ["references"], "typed-random-refs")
    # ---- layouts
    for i in range(4000 if quick else 20000):
        lines = layout_case(rng)
        yield Case(text_case(lines, "mmlr" if i % 4 == 0 else "mml"), ("layout", "lines-%d" % min(len(lines), 4)), "layout")
    # ---- malformed stream
    for i in range(5000 if quick else 30000):
        r = rng.random()
        if r < 0.6:
            text = "A " + " ".join(c.text() for c in gen_seq(rng, rng.randrange(1, 8)))
            for _ in range(rng.choice([1, 1, 2, 3])):
                text = mutate(rng, text)
            lines = [text]
        elif r < 0.8:
            lines = ["".join(rng.choice(MML_ALPHABET) for _ in range(rng.randrange(0, 30)))]
        else:
            lines = [mutate(rng, l) for l in layout_case(rng)]
        yield Case(text_case(lines, "mmlr" if i % 5 == 0 else "mml"), ("malformed",), "malformed")
    # ---- direct API sequences
    for i in range(5000 if quick else 30000):
        yield Case(api_case(rng), ("api",), "track-api")


def normalize(x):
    if x.startswith("crash") or "err=ub:" in x or x.startswith("ub:"):
        return "CRASH"
    return x


def finding_key(case, impl, judge):
    if impl.startswith("crash") or impl == "timeout" or impl.startswith("uncaught"):
        if "shift exponent" in impl:
            return "crash:ub-shift-negative"
        if "signed integer overflow" in impl or "negation of" in impl:
            return "crash:ub-signed-overflow"
        if "AddressSanitizer" in impl:
            return "crash:asan-" + (re.search(r"AddressSanitizer: (\S+)", impl).group(1) if re.search(r"AddressSanitizer: (\S+)", impl) else "x")
        return "crash:" + impl.split(" ", 2)[1] if " " in impl else impl
    m = re.match(r"fail (\w+)", judge)
    k = m.group(1) if m else "judge"
    return {"on_time_zero": "d6a:on_time_zero", "duration_wrap": "d6b:duration_wrap", "zero_length_note": "d6b:zero_length_note"}.get(k, k)


def extra_fail(case, impl, judge):
    # a non-InputError exception escaping read_line (D12 class)
    return "err=foreign:" in impl


def outcome_class(a):
    m = re.match(r"err=(\S+)", a)
    if m:
        e = m.group(1)
        if e == "-":
            return "accepted"
        if e.startswith("input:"):
            return "input-error:" + e.split(":", 4)[-1][:40]
        return e[:40]
    return a.split(" ")[0][:24]


def shrink(req):
    parts = req.split(" ")
    cmd = parts[0]
    if "@" in parts:
        # typed case: drop one command at a time (text is re-rendered from the tokens)
        k = parts.index("@")
        toks = parts[k + 1:]
        for i in range(len(toks)):
            rest = toks[:i] + toks[i + 1:]
            cmds = [cmd_of_tok(t) for t in rest]
            if all(c is not None for c in cmds):
                yield req_of(cmds, cmd)
        return
    items = parts[1:]
    for i in range(len(items)):
        if len(items) > 1:
            yield " ".join([cmd] + items[:i] + items[i + 1:])
    if cmd in ("mml", "mmlr"):
        for i, it in enumerate(items):
            if it == "-":
                continue
            b = bytes.fromhex(it)
            for j in range(len(b)):
                nb = b[:j] + b[j + 1:]
                yield " ".join([cmd] + items[:i] + [nb.hex() or "-"] + items[i + 1:])


def num_of_tok(s):
    return Num(int(s[1:]), True) if s.startswith("$") else Num(int(s), False)


def dur_of_toks(f):
    if f[0] == "D":
        return ("D", int(f[1]))
    return (f[0], num_of_tok(f[1]), int(f[2]))


def cmd_of_tok(t):
    try:
        f = t.split("/")
        k = f[0]
        if k in ("n", "g"):
            return Cmd(k, int(f[1]), f[2], dur_of_toks(f[3:]))
        if k in ("r", "l", "R", "t", "e"):
            return Cmd(k, dur_of_toks(f[1:]))
        if k in ("S", ">", "<", "|"):
            return Cmd(k)
        if k in ("o", "Q", "q", "C", "s", "D"):
            return Cmd(k, num_of_tok(f[1]))
        if k == "E":
            return Cmd("E", num_of_tok(f[1]), num_of_tok(f[2]))
        if k == "K":
            return Cmd("K", f[1])
        if k == "k":
            return Cmd("k", [(g[0], [int(c) for c in g[1:]]) for g in f[1].split(",")])
        if k == "x":
            return Cmd("x", f[1], None if f[2] == "-" else num_of_tok(f[2]))
    except Exception:
        return None
    return None
