"""C01 — Optimisation never changes what is played."""
import itertools, re
from vlib.core import Case
from vlib import songgen

ID = "C01"
LEAN_MODULE = "Ctrmml.Properties.C01"
THEOREMS = ["C01_fold_sound", "C01_fold_sound_root", "C01_fold_accepts", "C01_fold0_sound", "C01_fold0_accepts",
            "C01_extract_one_sound", "C01_extract_sound", "C01_extract_accepts", "C01_passes_preserve",
            "C01_passes_preserve_nodepth", "C01_full_partial",
            # layers 2-3: the executable model of the optimiser performs these rewrites
            "C01_passesN_preserve_nodepth", "applyMatch_loop_is_step", "applyMatch_sub_is_step", "pass_loop_is_step",
            "pass_is_step", "optimize_loop_chain", "optimize_chain", "C01_optimize_preserves_partial",
            "C01_optimize_preserves", "C01_fold_pass_decreases",
            # termination: every continuing pass decreases (totalEvents, playedEvents); the stack analysis stays
            # within its recursion budget; the whole run does not end in OErr.fuel
            "C01_extract_pass_decreases", "C01_pass_decreases", "pass_i16", "optimize_no_fuel", "C01_analyzeStack_budget",
            "C01_analyzeTrack_budget", "C01_optimize_terminates_partial",
            # repair of D2: a fold takes at most 255 repetitions; every LOOP_END the optimiser inserts has a count in
            # 2..255; a pass / a whole run keeps every loop count of the song in the documented domain 0..255
            "C01_fold_count_le_255", "C01_pass_counts", "optimize_counts", "C01_optimize_counts_le_255",
            # repair of D18: the depth side of the loop fold.  One frame of headroom around the period is what the fold
            # needs (spec level); find_match's stack test covers the whole period / the source phrase of a subroutine;
            # the loop branch of apply_match keeps the song valid given that the stack analysis is right about the period
            "C01_fold_headroom", "C01_fold0_headroom", "C01_fold_budget_covers_period", "C01_sub_budget_covers_source",
            "C01_src_stack_le_limit", "C01_fold_keeps_depth_partial", "C01_loop_pass_keeps_valid_partial",
            # repair of D28: analyze_stack marks the unused macro tracks after the loop over all tracks
            "C01_analyzeStack_marks_after"]
LEVEL = "proof"
STREAM = "opt.final"
CHUNK = 150
CASE_SECONDS = 60     # (the real optimiser needs about 20 s under ASan for the 1000-event case of the D2 family)
TECHNIQUE = "Lean 4 proof of rewrite soundness (loop folding and subroutine extraction preserve the structural expansion) + spec expander applied to the real optimiser's output"
LEVEL_TEXT = ("see lean/Ctrmml/Properties/C01.lean: rewrite soundness over Spec/Expand (layer 1) and, for the executable model of the whole optimiser (Model/Optimizer.lean), "
              "C01_optimize_preserves: every normal return with a validating result preserves what every original track plays (layers 2-3: find_match_length / find_match / apply_match / "
              "find_subroutines perform only the proven-sound rewrites, up to LOOP_BREAK params); termination: C01_pass_decreases (every pass after which the pass loop goes on strictly "
              "decreases (number of events, number of non-bracket events): a loop fold by C01_fold_pass_decreases, a subroutine extraction by C01_extract_pass_decreases - find_subroutines "
              "replaces at least one of the occurrences find_match counted), C01_analyzeStack_budget (the recursion of analyze_track is bounded by 1 + number of tracks) and "
              "C01_optimize_terminates_partial (the run never ends in OErr.fuel for fuel above (events+1)^2; extra hypotheses: input tracks validate, JUMP/NOTE params are int16_t values, "
              "initialSubId + number of events < 32767); loop counts (repair of D2, repo 6f86090: apply_match folds at most max_loop_count = 255 repetitions, the rest stays for the next pass; "
              "the capped fold is the fold without remainder with k = 254, LoopWindow.cap): C01_fold_count_le_255 (every LOOP_END the loop branch inserts has a count in 2..255 and every other "
              "event of the new track is an old event, LOOP_START or LOOP_BREAK), C01_pass_counts / C01_optimize_counts_le_255 (a pass / a whole run keeps every loop count of the song in the "
              "documented domain 0..255); depth (repair of D18, repo 546f0ab: find_match applies its stack test to the source phrase too): C01_fold_headroom / "
              "C01_fold0_headroom (spec level: if the song validates with the period A0 A1 wrapped in one more loop, the folded song validates - one frame of headroom around the "
              "period is all a fold needs; exact-depth congruence Proofs/RewriteDepth), C01_fold_budget_covers_period (every event of [position, loopPosition), the part the break "
              "skips included, passed stack_depth < max_loop_stack), C01_sub_budget_covers_source (every event of the phrase a subroutine is made from passed stack_depth < "
              "max_src_stack = the validator's 10 frames, C01_src_stack_le_limit), C01_fold_keeps_depth_partial / C01_loop_pass_keeps_valid_partial (the loop branch of apply_match / "
              "a whole loop-fold pass keeps every track valid - no validator run needed - under the extra hypothesis StackSoundAt: the stack analysis is right that the period has "
              "one frame of headroom; a map that underestimates a base usage breaks the fold: Ex2.D28_witness, Ex2.stackSound_needed - the answer of analyze_stack before repo f7fbaab); "
              "stack analysis (repair of D28, repo f7fbaab: the unused macro tracks are marked base_usage = 100 AFTER the loop over all tracks, so a later unused caller raises the base "
              "usage of the chain below it): C01_analyzeStack_marks_after (a normal return is the map of the first loop with base_usage = 100 on exactly the collected unused roots), "
              "Ex2.D28_regression (the repaired answer on the D28 song fails the stack test, nothing is folded); NOT proved: termination without the bound on the number of events "
              "(sub_id wrap, C01_optimize_terminates_statement), that analyze_stack's lists are sound (C01_fold_keeps_depth_full_statement: StackSoundAt from analyzeStack song = .ok m; "
              "no counterexample known since the repair of D28) and "
              "the depth side of subroutine extraction beyond the budget test; every generated valid song is run "
              "through the REAL optimiser and the spec expander (perf) compares, for every original track, the played events with durations, the total length and the loop-point time "
              "before and after, and requires normal termination (per-case timeout), a validating result and loop counts within 0..255 whenever the input's are, for aggressiveness "
              "thresholds 0..10.")
LEVEL_NOTE = ("Trusted: Lean kernel; Spec/Tree + Spec/Expand (meaning of loops/breaks/calls, shared with C04 where the real player is proved/tested to refine it); harness. The model of the "
              "optimiser is tied to src/optimizer.cpp by the differential stream (same song and passes on every generated case); hypotheses of C01_optimize_preserves: distinct sorted track ids "
              "< 32767, no explicit END event, LOOP_BREAKs without duration, tracks < 32767 events, subroutine ids stay below 32768; of C01_optimize_terminates_partial additionally: min_score >= 0 "
              "(for a negative threshold the pass loop does not end: a pass with score 0 changes nothing), int16_t call params (the model keeps params as unbounded Int: "
              "Ex2.analyzeStack_fuel_artefact), initialSubId + events < 32767.  That no intermediate song exceeds the depth limit is a theorem for loop-fold passes only under StackSoundAt "
              "(soundness of analyze_stack's lists for the folded period: not proved; finding D28 was a counterexample with unused macro tracks, repaired in repo f7fbaab) and is otherwise "
              "decided per case by the oracle: every pass of every generated case must leave a validating song (family d18-budget walks the stack budget on both sides of its limits, "
              "family d28-chain the chains of unused macro tracks in every id order up to the validator's 10 frames).  "
              "The list-based model is quartic in the length of a run of equal phrases: the 1000-repetition cases of the D2 family are sent as `optx` (same harness handler), the model does "
              "not answer them and only the spec oracle judges the real optimiser there (reported in a note).")
RULE = ("motif-repetition songs (A^k, A^k A[0..j), motifs with nested loops, breaks (also two breaks in one loop) and calls, loop point at any depth-0 position, 1..4 channel tracks sharing "
        "motifs, tracks > 15, existing tracks >= 15000 (called or not)) + straddle family (a phrase and its repetition on the two sides of a break, loop bracket, loop point or call) "
        "x min_score in 0..10 + D18 family (phrase, material that nests j loops - directly, in a called subroutine, or with the folded track called inside ctx loops - , phrase again, "
        "for every ctx + j the 10-frame limit allows; a phrase inside j loops and again outside / in another track / called) + D28 family (chains of 1..10 unused macro tracks calling each other with descending / ascending / zigzag ids, the phrase at the bottom, in the middle, or around the call; also shared with a channel track) + D2 family (a phrase repeated 254..257, 300, 509..511, 1000 times back to back, with and without remainder, inside an outer loop, in two tracks) + all tracks over a 4-symbol alphabet up to length 6 (8 thorough); non-trivial = optimiser changed the song; distinct by request")
EXPLANATION = "spec expander on the real optimiser's output vs on its input"
ASSUMPTIONS = ["input songs validate (checked by the spec before judging)"]

CORPUS = [
    # D1: fold counts depth-0 events but erases raw events
    "opt 10 T0:13.1.0.0,4.0.0.0,6.2.0.0,13.1.0.0,4.0.0.0,6.2.0.0,13.1.0.0,4.0.0.0,6.2.0.0,13.1.0.0,4.0.0.0,6.2.0.0,13.1.0.0,4.0.0.0,6.2.0.0",
    # D2 (repaired): more than 255 repeats -> [c]255 [c]45; the whole family is `d2_cases`
    "opt 10 T0:" + ",".join(["2.48.6.0"] * 300),
    # D3: existing track 15000
    "opt 10 T0:" + ",".join(["2.%d.24.0" % n for n in (48, 50, 52, 53, 55, 57, 59)] + ["13.1.0.0"] + ["2.%d.24.0" % n for n in (48, 50, 52, 53, 55, 57, 59)] + ["13.2.0.0"] + ["2.%d.24.0" % n for n in (48, 50, 52, 53, 55, 57, 59)] + ["13.3.0.0", "8.15000.0.0"]) + " T15000:2.48.24.0",
    # D18 (repaired): the fold would wrap the ten-deep nest between the phrase and its repetition; the whole family is `d18_cases`
    "opt 10 T0:2.48.12.0,2.50.12.0,2.52.12.0," + ",".join(["4.0.0.0"] * 10) + ",2.55.12.0," + ",".join(["6.2.0.0"] * 10) + ",2.48.12.0,2.50.12.0,2.52.12.0",
    # D18, subroutine half (repaired): the source phrase `c [d]2 e f` sits inside nine loops, its copy outside
    "opt 0 T0:" + ",".join(["4.0.0.0"] * 9) + ",2.48.12.0,4.0.0.0,2.50.12.0,6.2.0.0,2.52.12.0,2.53.12.0," + ",".join(["6.2.0.0"] * 9) + ",2.48.12.0,4.0.0.0,2.50.12.0,6.2.0.0,2.52.12.0,2.53.12.0",
    # D28 (repaired): ten unused macro tracks calling each other downwards; the stack analysis took *30 to be one frame deep;
    # the whole family is `d28_cases`
    "opt 0 T20:8.30.0.0 " + " ".join("T%d:8.%d.0.0" % (i, i - 1) for i in range(21, 30)) + " T30:" + ",".join(["2.48.12.0", "2.50.12.0", "2.52.12.0"] * 3),
    "opt 10 T0:2.1.1.0,2.2.1.0,2.3.1.0,2.1.1.0,2.2.1.0,2.3.1.0,2.1.1.0,2.2.1.0,2.3.1.0,2.1.1.0,2.2.1.0",
    "opt 0 T0:2.1.1.0,2.2.1.0,2.1.1.0,2.2.1.0,2.1.1.0 T1:2.1.1.0,2.2.1.0,2.1.1.0,2.2.1.0",
]


def motif_song(rng, T):
    g = songgen.G(rng, max_depth=rng.choice([0, 0, 1, 2]), subs=rng.choice([[], [], [100]]), counts=[2, 3, 4], allow_neg=False,
                  p_segno=0.0, durs=[6, 12, 24], max_items=rng.choice([2, 3, 4, 6, 9]), notes=[36, 38, 40, 41, 43],
                  cmds=["VOL", "TRANSPOSE", "PAN"])
    motifs = [g.seq(0, False, False, n=rng.randrange(1, 8)) for _ in range(rng.choice([1, 2, 3]))]
    song = {}
    ntr = rng.choice([1, 1, 2, 3])
    for t in range(ntr):
        evs = []
        for _ in range(rng.randrange(1, 5)):
            m = rng.choice(motifs)
            k = rng.choice([1, 2, 2, 3, 4, 5, 8, 17])
            evs += m * k
            if rng.random() < 0.5 and len(m) > 1:
                # a proper prefix of the motif, cut at a depth-0 boundary
                cuts, d = [], 0
                for i, e in enumerate(m[:-1]):
                    if e[0] == T["LOOP_START"]: d += 1
                    if e[0] == T["LOOP_END"]: d -= 1
                    if d == 0: cuts.append(i + 1)
                if cuts:
                    evs += m[:rng.choice(cuts)]
            if rng.random() < 0.3:
                evs += g.seq(0, False, False, n=rng.randrange(1, 4))
        song[t] = evs
    if rng.random() < 0.3:
        # loop point at a depth-0 position of track 0
        evs = song[0]
        cuts, d = [0], 0
        for i, e in enumerate(evs):
            if e[0] == T["LOOP_START"]: d += 1
            if e[0] == T["LOOP_END"]: d -= 1
            if d == 0: cuts.append(i + 1)
        k = rng.choice(cuts)
        song[0] = evs[:k] + [g.ev("SEGNO")] + evs[k:]
    subs = list(g.subs)
    g.subs = []
    for sid in subs:
        song[sid] = g.seq(1, False, False, n=rng.randrange(1, 4))
    if rng.random() < 0.25:
        song[rng.choice([20, 32, 200])] = rng.choice(motifs) * 2
    if rng.random() < 0.15:
        # an existing track at or above the optimiser's first subroutine id (D3), called or not
        hid = rng.choice([15000, 15001, 15007, 20000, 32000])
        song[hid] = rng.choice(motifs) * rng.choice([1, 2])
        if rng.random() < 0.5:
            t = rng.randrange(ntr)
            song[t] = song[t] + [g.ev("JUMP", hid)]
    return song


def straddle_cases(T, tier):
    N = lambda k, d=12: (T["NOTE"], 36 + k, d, 0)
    LS, LB, SG = (T["LOOP_START"], 0, 0, 0), (T["LOOP_BREAK"], 0, 0, 0), (T["SEGNO"], 0, 0, 0)
    LE = lambda c: (T["LOOP_END"], c, 0, 0)
    J = (T["JUMP"], 100, 0, 0)
    sub = {100: [N(9), N(10)]}
    lens = [3, 4] if tier == "quick" else [2, 3, 4, 5, 7]
    for ln in lens:
        A = [N(k) for k in range(ln)]
        x, y = [N(7)], [N(8)]
        for cnt in (2, 3):
            shapes = {
                # the phrase before a break repeated right after it, inside the same loop
                "brk-A/A": [LS] + A + [LB] + A + [LE(cnt)],
                "brk-A/Ax": [LS] + A + [LB] + A + x + [LE(cnt)],
                "brk-xA/A": [LS] + x + A + [LB] + A + [LE(cnt)],
                "brk-AA/A": [LS] + A + A + [LB] + A + [LE(cnt)],
                "brk-A/AA": [LS] + A + [LB] + A + A + [LE(cnt)],
                "brk-A/A-then-A": [LS] + A + [LB] + A + [LE(cnt)] + A,
                # two breaks
                "brk2-A/A/A": [LS] + A + [LB] + A + [LB] + A + [LE(cnt)],
                # across loop brackets
                "ls-A[A": A + [LS] + A + x + [LE(cnt)],
                "ls-A[Ax]A": A + [LS] + A + [LE(cnt)] + A,
                "le-[xA]A": [LS] + x + A + [LE(cnt)] + A,
                "le-[A]A": [LS] + A + [LE(cnt)] + A + A,
                "nest-[A[A]A]": [LS] + A + [LS] + A + [LE(2)] + A + [LE(cnt)],
                "nest-brk-[A/[A/A]A]": [LS] + A + [LB] + [LS] + A + [LB] + A + [LE(2)] + A + [LE(cnt)],
                # across the loop point and across a call
                "segno-A|A": A + [SG] + A,
                "segno-AA|AA": A + A + [SG] + A + A,
                "segno-xA|Ay": x + A + [SG] + A + y,
                "call-A*A": A + [J] + A,
                "call-A*A*A": A + [J] + A + [J] + A,
            }
            for name, evs in shapes.items():
                song = {0: evs}
                if J in evs:
                    song.update(sub)
                for score in (0, 1, 10):
                    yield Case("opt %d %s" % (score, songgen.render(song)), ("straddle", name.split("-")[0]), "straddle")


def d2_cases(T, tier):
    """Repair of D2: a phrase repeated back to back more than 255 times.  One fold takes at most 255
    repetitions (`max_loop_count`), the rest is folded by later passes.  R = number of copies of the
    phrase; the neighbourhood of the cap (254..257, 509..511), with and without a remainder (break
    point), inside an outer loop, in two tracks.  The list-based model is quartic in the number of
    events of such a run (300: 6 s, 511: 25 s, 1000: > 15 min): the cases are few, and `cases` spreads
    them over the chunks; the 1000-event cases are sent as `optx` (same handler in the harness): the model
    does not answer and the spec oracle alone decides (`agree`)."""
    N = lambda k, d=6: (T["NOTE"], 36 + k, d, 0)
    LS = (T["LOOP_START"], 0, 0, 0)
    LE = lambda c: (T["LOOP_END"], c, 0, 0)
    quick = tier == "quick"
    out = []
    def add(name, song, score=10):
        cmd = "optx" if sum(len(v) for v in song.values()) > 700 else "opt"
        out.append(Case("%s %d %s" % (cmd, score, songgen.render(song)), ("d2-cap", name), "d2-cap"))
    for r in ([254, 255, 256, 257] if quick else [254, 255, 256, 257, 509, 510, 511, 1000]):
        add("R=%d" % r, {0: [N(0)] * r})
    # context around the run: the remaining repetitions stay where they are
    add("ctx", {0: [N(3), N(4)] + [N(0)] * 300 + [N(5)]}, 0)
    # with a remainder (break point), far from the cap and at the cap: (a b)^255 a is the longest fold
    # with a break that fits ([a / b]256 does not: 254 whole repetitions + remainder need count 256)
    add("rem", {0: [N(0), N(1)] * 100 + [N(0)]})
    add("rem-at-cap", {0: [N(0), N(1)] * 255 + [N(0)]})
    if not quick:
        add("rem-below-cap", {0: [N(0), N(1)] * 254 + [N(0)]})
        add("rem-above-cap", {0: [N(0), N(1)] * 300 + [N(0)]})
        add("rem-1000", {0: [N(0), N(1)] * 500 + [N(0)]})      # 1001 events
    # nested in an outer loop
    add("nested", {0: [LS] + [N(0)] * 300 + [LE(2)]}, 0)
    # two tracks: different notes (no cross-track match) and, thorough, the same note (loop fold against
    # subroutine extraction)
    add("two-tracks", {0: [N(0)] * 300, 1: [N(1)] * 260})
    if not quick:
        add("two-tracks-same", {0: [N(0)] * 300, 1: [N(0)] * 300})
        add("two-tracks-1000", {0: [N(0)] * 1000, 1: [N(1)] * 300})
    return out


def d18_cases(T, tier):
    """Repair of D18: the stack budget of the SOURCE phrase.  (a) loop folds `A R A`: the part R between the phrase and its
    repetition ends up inside the new loop; R nests j loops (directly, or inside a subroutine it calls), the whole sits in
    `ctx` outer loops, every combination the 10-frame limit allows: the budget (`max_loop_stack` = 6 units, 2 per loop, 1 per
    call) admits the fold up to ctx + j = 2.  (b) subroutine extractions: the phrase inside j loops (the source) and again
    outside / in another track: `max_src_stack` = 10 admits the source up to j = 4.  Every case must return normally with a
    validating result; model and implementation must agree on where the line is."""
    N = lambda k, d=12: (T["NOTE"], 36 + k, d, 0)
    LS = (T["LOOP_START"], 0, 0, 0)
    LE = lambda c=2: (T["LOOP_END"], c, 0, 0)
    J = lambda t: (T["JUMP"], t, 0, 0)
    quick = tier == "quick"
    A = [N(0), N(1), N(2)]
    def case(name, song, score):
        return Case("opt %d %s" % (score, songgen.render(song)), ("d18", name), "d18-budget")
    for ctx in ([0, 1, 3] if quick else range(0, 5)):
        for j in range(0, 11 - ctx):
            if quick and j not in (0, 1, 2, 3, 5, 10 - ctx):
                continue
            nest = [LS] * j + [N(7)] + [LE()] * j
            wrap = lambda evs: [LS] * ctx + evs + [LE()] * ctx
            for score in ((0, 10) if not quick else (0,)):
                yield case("loop-nest", {0: wrap(A + nest + A)}, score)
                yield case("loop-nest-AAA0", {0: wrap(A + nest + A + A + A[:2])}, score)
                if ctx + j + 1 <= 10:
                    # the nest inside a subroutine that R calls: usage 1 + 2j at the call
                    yield case("loop-call", {0: wrap(A + [J(100)] + A), 100: nest}, score)
                    # the folded track is itself called from inside ctx loops: base usage
                    yield case("loop-base", {0: [LS] * ctx + [J(100)] + [LE()] * ctx, 100: A + nest + A}, score)
    P = [N(0), N(1), N(2), N(3), N(4)]
    PL = [N(0), LS, N(1), LE(), N(2), N(3), N(4)]
    for j in (range(0, 11) if not quick else (0, 2, 4, 5, 7, 9, 10)):
        for ph, lim in ((P, 10), (PL, 9)):
            if j > lim:
                continue
            deep = [LS] * j + ph + [LE()] * j
            yield case("sub-src-deep", {0: deep + ph}, 0)
            yield case("sub-src-deep-3", {0: deep + ph + [N(9)] + ph}, 0)
            yield case("sub-dst-deep", {0: ph + deep}, 0)
            yield case("sub-cross", {0: deep, 1: [N(9)] + ph + [N(8)] + ph}, 0)
            if j + 1 <= lim:
                yield case("sub-base", {0: [LS] * j + [J(100)] + [LE()] * j, 1: ph + [N(9)], 100: ph + [N(8)] + ph}, 0)


def d28_cases(T, tier):
    """Repair of D28: chains of unused macro tracks (ids > 15 that no channel track reaches).  k calling tracks, each calling
    the next one; the ids descend along the calls (`down`, the shape of the finding: the callee was analysed - and marked
    unused - before its caller), ascend (`up`) or zigzag (`mix`).  The phrase `A A A` sits in the track at the bottom of the
    chain, in a track in the middle (followed by the call of the rest of the chain), or the middle track is `(A call)x3` (the
    call inside the folded period).  `shared`: a channel track calls the phrase track as well.  The chain is as deep as the
    10-frame limit of the validator allows; the fold is admitted while base usage + usage < `max_loop_stack`.  Every case must
    return normally with a validating result; model and implementation must agree on where the line is."""
    N = lambda k, d=12: (T["NOTE"], 36 + k, d, 0)
    J = lambda t: (T["JUMP"], t, 0, 0)
    quick = tier == "quick"
    A = [N(0), N(1), N(2)]
    def case(name, song, score=0):
        return Case("opt %d %s" % (score, songgen.render(song)), ("d28", name), "d28-chain")
    def ids(order, n):
        """ids of the n tracks of the chain, in call order (the first calls the second, ...)"""
        base = list(range(20, 20 + n))
        if order == "up":
            return base
        if order == "down":
            return base[::-1]
        lo, hi, out = 0, n - 1, []
        while lo <= hi:
            out.append(base[hi]); hi -= 1
            if lo <= hi:
                out.append(base[lo]); lo += 1
        return out
    for k in ((1, 2, 4, 5, 6, 9, 10) if quick else range(1, 11)):
        for order in ("down", "up", "mix"):
            ch = ids(order, k + 1)          # k callers + the track at the bottom
            chain = {ch[i]: [J(ch[i + 1])] for i in range(k)}
            # the phrase at the bottom of the chain (k = 10, down: the recorded finding)
            song = dict(chain); song[ch[k]] = A * 3; song[0] = [N(5)]
            yield case("bottom-" + order, song)
            if not quick or k in (1, 5, 10):
                song = dict(chain); song[ch[k]] = A * 3; song[0] = [N(5), J(ch[k])]
                yield case("bottom-shared-" + order, song)
                song = dict(chain); song[ch[k]] = A * 3 + [N(7)]; song[0] = A * 3
                yield case("bottom-channel-" + order, song, 10 if k % 2 else 0)
            # the phrase in the middle: track number `mid` of the chain plays it, then calls on
            for mid in sorted({0, k // 2, k - 1}):
                song = dict(chain); song[ch[k]] = [N(8)]; song[0] = [N(5)]
                song[ch[mid]] = A * 3 + chain[ch[mid]]
                yield case("middle-" + order, song)
                if not quick or mid == k // 2:
                    song = dict(chain); song[ch[k]] = [N(8)]; song[0] = [N(5)]
                    song[ch[mid]] = (A + chain[ch[mid]]) * 3
                    yield case("middle-call-" + order, song)


def has_break2(flat, T):
    """two LOOP_BREAKs directly in one loop body (the `[a / b / c]2` shape)"""
    stack = []
    for e in flat:
        if e[0] == T["LOOP_START"]:
            stack.append(0)
        elif e[0] == T["LOOP_END"]:
            if stack and stack.pop() >= 2:
                return True
        elif e[0] == T["LOOP_BREAK"] and stack:
            stack[-1] += 1
    return False


def cases(rng, tier):
    """the heavy cases of the D2 family go one to a chunk, so that the (slow) model runs them in parallel"""
    heavy = None
    k = 0
    for c in _cases(rng, tier):
        if heavy is None:
            heavy = d2_cases(songgen.event_types(), tier)
        if k % CHUNK == 0 and heavy:
            yield heavy.pop(0)
            k += 1
        yield c
        k += 1
    for c in heavy or []:
        yield c


def _cases(rng, tier):
    for c in CORPUS:
        yield Case(c, ("corpus",), "corpus")
    T = songgen.event_types()
    # bounded-exhaustive over a 4-symbol alphabet
    alpha = [(T["NOTE"], 36, 6, 0), (T["NOTE"], 38, 6, 0), (T["VOL"], 5, 0, 0), (T["REST"], 0, 0, 6)]
    maxlen = 6 if tier == "quick" else 8
    for n in range(3, maxlen + 1):
        for seq in itertools.product(range(4), repeat=n):
            if seq[0] != 0:
                continue   # symmetry: first symbol fixed
            evs = [alpha[i] for i in seq]
            yield Case("opt 0 " + songgen.render({0: evs}), ("exhaustive",), "exhaustive")
    # repeats that straddle a structural marker: a phrase and its repetition on the two sides of a
    # break, a loop bracket, the loop point or a call, in every loop context that keeps the song
    # valid.  The optimiser must not fold or extract across the marker.
    for c in straddle_cases(T, tier):
        yield c
    for c in d18_cases(T, tier):
        yield c
    for c in d28_cases(T, tier):
        yield c
    n = 500 if tier == "quick" else 8000
    scores = list(range(11))
    made = 0
    while made < n:
        song = motif_song(rng, T)
        if any(songgen.expanded_size(song, t, T) > 2500 for t in song if t < 16):
            continue
        flat = [e for evs in song.values() for e in evs]
        types = {e[0] for e in flat}
        tags = {"motif"}
        if T["LOOP_START"] in types: tags.add("loop")
        if T["LOOP_BREAK"] in types: tags.add("break")
        if T["JUMP"] in types: tags.add("call")
        if T["SEGNO"] in types: tags.add("segno")
        if len([t for t in song if t < 16]) > 1: tags.add("multi-track")
        if any(t >= 15000 for t in song): tags.add("track>=15000")
        if has_break2(flat, T): tags.add("break2")
        made += 1
        yield Case("opt %d %s" % (rng.choice(scores), songgen.render(song)), sorted(tags), "motif")


def normalize(a):
    """a non-InputError exception leaves the song half-rewritten in the real code; the model only
    reports the exception"""
    m = re.search(r"^(.*result=(?:exc|UB):\S+)", a)
    if m:
        return m.group(1)
    # LOOP_BREAK parameters are overwritten by the validator that runs after each pass
    global _BRK
    if _BRK is None:
        _BRK = songgen.event_types()["LOOP_BREAK"]
    return re.sub(r"(?<=[:,])%d\.-?\d+\." % _BRK, "%d.0." % _BRK, a)


_BRK = None


def outcome_class(a):
    m = re.search(r"result=(\S+)", a)
    if not m:
        return a.split(" ")[0][:30]
    r = m.group(1)
    pm = re.search(r"passes=(\d+)", a)
    return r if r != "ok" else ("ok-unchanged" if pm and pm.group(1) == "1" else "ok-rewritten")


SIZE_LIMIT = {"n": 0}


def agree(case, impl, model):
    """correspondence: equal answers (up to `normalize`); above the size bound of the optimiser model
    (`optx` requests, answer `MODEL:size-limit`, Driver/Song.lean) the model does not answer and the case is decided by the spec
    oracle on the implementation's answer alone"""
    if case.req.startswith("optx ") and model.startswith("MODEL:size-limit"):
        SIZE_LIMIT["n"] += 1
        return True
    return normalize(impl) == normalize(model)


def judge_notes(cases, impl, judge):
    if SIZE_LIMIT["n"]:
        yield "%d cases above the size bound of the optimiser model: decided by the spec oracle on the implementation's answer only" % SIZE_LIMIT["n"]


def finding_key(case, impl, judge):
    if impl.startswith("crash") or impl == "timeout" or impl.startswith("uncaught"):
        m = re.search(r"(\w+\.cpp:\d+)", impl)
        return "crash:" + (m.group(1) if m else impl.split(" ")[0])
    m = re.search(r"result=(threw|exc):(\S+)", impl)
    if m:
        return "throws:" + m.group(2)[:40]
    if "performance changed" in judge: return "performance-changed"
    if "length changed" in judge: return "length-changed"
    if "loop point" in judge: return "loop-time-changed"
    if "loop count" in judge: return "loop-count-domain"
    if "no longer validates" in judge or "does not validate" in judge: return "result-invalid"
    return "other"


def shrink(req):
    toks = req.split()
    song = songgen.parse_request_song(req)
    for s2 in songgen.shrink_song(song):
        if s2:
            yield " ".join([toks[0], toks[1], songgen.render(s2)])
