"""C18 — Metadata and table lines are tokenised as documented."""
import itertools, re
from vlib.core import Case

ID = "C18"
LEAN_MODULE = "Ctrmml.Properties.C18"
THEOREMS = ["C18_line_denotes", "C18_taglist_roundtrip", "C18_every_list_renderable", "C18_at_line_appends",
            "C18_hash_tag_single", "C18_keys_case_insensitive", "C18_tag_order_first_definition",
            "C18_platform_commands_distinct", "C18_platform_index_wraps"]
LEVEL = "proof"
STREAM = "tags.map"
CHUNK = 120
RULE = ("value lists (0..7 values drawn from: empty, words, blanks, commas, semicolons, quotes, backslashes, \\n/\\t, UTF-8 and high bytes) "
        "rendered with random legal separators (blank runs, one comma, comma runs for empty items), optional/mandatory quoting with random "
        "escapes, comments and 0..3 continuation-line splits, sent both as `@key` lines through MML_Input::read_line and line by line through "
        "Song::add_tag_list (cmd tagr); all strings of length <= 4 (quick) / <= 6 (thorough) over {a,b,blank,comma,quote,backslash,semicolon} through "
        "add_tag_list and as `@k` lines; random op sequences over a small key pool mixing set_tag/add_tag/add_tag_list/get_or_make_tag/"
        "register_platform_command/get_tag_order_list with `#`, `@`, continuation, comment, blank, track (`A 'cmd'`) and garbage lines (cmd tags); "
        "files of `#Key text`, `@Key words`, continuation lines with mixed-case/UTF-8 keys judged against the documented meaning (cmd tagl); "
        "plus a malformed byte stream. non-trivial = carries at least one tag of the input-distribution histogram; distinct by request text")
EXPLANATION = ("theorems over Model/Tags + Spec/TagRender (all lines of the documented shape, all value lists, all op sequences); the model is tied "
               "to song.cpp/mml_input.cpp by regenerated constants and by running both on the generated requests and diffing; the spec oracle "
               "(Line.denote of the rendered segments; firstDefs for key order; trimRight for set_tag) is applied to the implementation's answers")
ASSUMPTIONS = ["C library in the \"C\" locale: isspace={9..13,32}, isblank={9,32}, tolower maps only A-Z (bytes >= 0x80 are left alone by glibc)",
               "MML_Input model covers `#`/`@`/continuation/comment/blank lines fully; track lines only with platform-exclusive commands, `|`, blanks "
               "and comments; lines with NUL bytes or `*` track ids are outside the model",
               "the comma count of a separator is per line: a comma run split over a line break is two separators (stated in Spec/TagRender)"]
TECHNIQUE = "Lean 4 proof (induction over rendered lines / op sequences) + differential correspondence model<->song.cpp, mml_input.cpp"
LEVEL_TEXT = ("Machine-checked theorems over a Lean model of Song's tag API and MML_Input's tag-line dispatch: every line of the documented shape "
              "(blank/comma separators, plain or double-quoted items with backslash escapes, `;` comment) appends exactly its denoted values, with "
              "k-1 empty items per separator of k commas; every NUL-free value list has a rendering that round-trips; a `#` line leaves exactly "
              "[rest of line, right-trimmed]; keys differing in ASCII case are the same key; tag_order lists keys in order of first definition; "
              "sequential platform commands get pairwise distinct retrievable ids for fewer than 65536 registrations (the 16-bit wrap is stated).")
LEVEL_NOTE = ("Trusted: Lean kernel (axioms propext, Classical.choice, Quot.sound at most), the hand-written model Model/Tags.lean (agreement with "
              "song.cpp / mml_input.cpp is established by differential testing, not proved), Spec/TagRender.lean, C-locale ctype facts, "
              "g++/ASan/UBSan and the harness.")


def hx(b):
    if isinstance(b, str):
        b = b.encode("utf-8")
    return b.hex() or "-"


# ---------------------------------------------------------------- corpus
def L(k, v): return "L:%s:%s" % (hx(k), hx(v))
def S(k, v): return "S:%s:%s" % (hx(k), hx(v))
def A(k, v): return "A:%s:%s" % (hx(k), hx(v))
def M(l): return "M:%s" % hx(l)
def R(p, v): return "R:%d:%s" % (p, hx(v))

CORPUS = [
    # whole lines with a documented meaning (judge: spec semantics of `#`, `@`, continuation, key case, order)
    "tagl H:5469746c65:20:4d7920736f6e672020 T:466f6f:61,62 K:63 H:7449544c45:09:78 K:64 T:664f4f:. K:65",

    # the fixed defect: a quoted item ending in a backslash at the end of the text (read past the NUL)
    "tags " + L("k", '"abc\\'),
    "tags " + L("k", 'x "abc\\'),
    "tags " + M('@x "abc\\'),
    "tags " + M("A 'fm3 \"ab\\'"),
    "tags " + L("k", '"\\'),
    "tags " + L("k", '"a\\\\'),
    # unit-test strings (test_song.cpp, test_mml_input.cpp)
    "tags " + S("Tag1", "first value in tag1") + " " + S("Tag1", "overwritten value in tag1"),
    "tags " + A("Tag1", "first value in tag1") + " " + A("Tag1", "second value in tag1") + " " + A("Tag2", "Value2"),
    "tags " + A("Tag1", "trailing spaces   "),
    "tags " + L("Tag1", "my tag      list"),
    "tags " + L("Tag1", '" One enclosed tag with leading and trailing spaces " "Another enclosed tag", "and a final one"'),
    "tags " + L("Tag1", '"Enclosed tag with an \\"escaped\\" quote mark"'),
    "tags " + L("Tag1", "first, second,, fourth, , sixth"),
    "tags " + L("Tag1", "first, second") + " " + L("Tag1", "third, fourth"),
    "tags " + L("Tag1", "first, second; This is a comment"),
    "tags " + L("Tag1", "first, second ; This is a comment") + " " + L("Tag2", "first, second, ; This is a comment"),
    "tags " + L("Tag1", '";_;"'),
    "tags " + R(-1, "first") + " " + R(123, "second") + " " + R(-1, "third"),
    "tags " + A("Tag1", "first") + " " + A("Tag3", "second") + " " + A("Tag2", "third") + " O",
    "tags " + M("#title My song title.") + " " + M("#title My new song title."),
    "tags " + M('@blah One two, three "four, five"') + " " + M("\t sixth"),
    # quirks the model mirrors: quote inside a token (s+1), `#key` alone then continuation, #platform, CRLF, tag_order as a key
    "tags " + L("k", 'ab"cd" e'),
    "tags " + L("k", 'a\\"b"'),
    "tags " + L("k", '"a""b"c'),
    "tags " + M("#title") + " " + M(" foo"),
    "tags " + M("#title x") + " " + M(" foo"),
    "tags " + M("#platform mdsdrv") + " " + M("#Platform  megadrive "),
    "tags " + M("#title Foo\r") + " " + M("@x a b\r") + " " + M("@y\ra"),
    "tags G:%s" % hx("tag_order"),
    "tags " + A("a", "1") + " " + A("tag_order", "x") + " " + A("b", "2") + " O",
    "tags O " + A("a", "1"),
    # comma state is per line
    "tags " + M("@x a,") + " " + M(" ,b"),
    "tags " + M("@x a, ,b"),
    "tags " + L("k", ",a") + " " + L("k2", ",,a") + " " + L("k3", "a,,") + " " + L("k4", "a,") + " " + L("k5", ",") + " " + L("k6", ",,"),
    # keys: case, UTF-8, order
    "tags " + M("@Foo 1") + " " + M("@FOO 2") + " " + M("@foo 3") + " " + M("#TiTle A") + " " + M("#title B"),
    "tags " + M("@\xc3\x84b 1") + " " + M("@\xc3\xa4b 2"),
    # platform commands in tracks
    "tags " + M("AB 'fm3 0001' 'x'") + " " + M("  'carry'"),
    "tags " + M("A 'a' | 'b' ; 'c'") + " " + M("A 'unterminated"),
    "tags " + M("AA0 'x y, \"z w\"'") + " " + R(-32768, "clash"),
    "tags " + R(-1, "a") + " " + R(-32767, "explicit") + " " + R(-1, "b") + " " + R(-1, "c"),
    "tags " + M("!bad") + " " + M("@x never"),
    "tags " + M("; comment") + " " + M("") + " " + M("@x 1") + " " + M("; c") + " " + M(" 2") + " " + M("") + " " + M("\t3"),
    # NUL inside the text of the API calls (c_str cut for lists, kept by set_tag)
    "tags L:6b:61002c62 S:6b32:610062 A:6b33:00",
    "tagr 6b I:61 W:2c2c Q:625c2263 N W:202c20 I:7a C:3b206869",
    "tagr 6b W:2c2c2c N N W:2c I:61 W:2c",
    "tagr c3a4 Q:- W:20 Q:5c6e5c745c5c5c22 W:0d0a C:3b22",
]


# ---------------------------------------------------------------- rendered value lists (tagr)
WORDS = [b"a", b"fm3", b"0001", b"1", b"-12", b"$7f", b"x.wav", b"rate=8000", b"'", b"a'b", b"|", b"@", b"#t", b"\x0b", b"a\x0cb",
         "\u00e4\u00f6".encode(), "\u30c6\u30b9\u30c8".encode(), b"\xff\xfe", b"\x80", b"\x01"]
HARD = [b"", b" ", b"a b", b"a,b", b",", b";", b"a;b", b'"', b'a"b', b"\\", b"a\\", b"\\n", b"\n", b"\t", b"\r", b" lead", b"trail ",
        b'\\"', b'";,', b"a\\\\b", "\u3042 \u3044".encode(), b"\xc3", b'"\\', b"\\\\"]
PLAIN_BAD = set(b' \t\r\n",;\x00')


def gen_vals(rng):
    n = rng.choice([0, 1, 1, 2, 3, 3, 4, 5, 7])
    vals = []
    for _ in range(n):
        r = rng.random()
        if r < 0.2:
            vals.append(b"")
        elif r < 0.55:
            vals.append(rng.choice(WORDS))
        elif r < 0.85:
            vals.append(rng.choice(HARD))
        else:
            vals.append(bytes(rng.choice([rng.randrange(1, 256), rng.choice(b' ,;"\\ab\n')]) for _ in range(rng.randrange(1, 7))))
    return vals


def render_quoted(rng, v):
    out = bytearray()
    for b in v:
        if b in (0x22, 0x5c):
            out += bytes([0x5c, b])
        elif b == 10 and rng.random() < 0.6:
            out += b"\\n"
        elif b == 9 and rng.random() < 0.6:
            out += b"\\t"
        elif b not in (110, 116) and rng.random() < 0.08:
            out += bytes([0x5c, b])          # gratuitous escape \x = x
        else:
            out.append(b)
    return bytes(out)


def render_sep(rng, ncommas, need_nonempty):
    blanks = [b" ", b" ", b" ", b"\t", b"  ", b"\r", b"\n", b" \t "]
    parts = []
    if rng.random() < 0.5:
        parts.append(rng.choice(blanks))
    for i in range(ncommas):
        parts.append(b",")
        if rng.random() < 0.5:
            parts.append(rng.choice(blanks))
    s = b"".join(parts)
    if need_nonempty and not s:
        s = rng.choice(blanks)
    return s


def render_vals(rng, vals, nlines):
    """returns (segments, tags)"""
    tags = set()
    # entries: list of ('item', seg) and separators carrying a number of absorbed empty values
    units = []     # each: [empties_before, item_seg or None]
    pend = 0
    for v in vals:
        if v == b"" and rng.random() < 0.5:
            pend += 1
            tags.add("empty-by-comma")
            continue
        if v and not (set(v) & PLAIN_BAD) and rng.random() < 0.6:
            seg = "I:" + hx(v)
            tags.add("plain-item")
        else:
            seg = "Q:" + hx(render_quoted(rng, v))
            tags.add("quoted-item")
            if v == b"": tags.add("empty-quoted")
        units.append([pend, seg])
        pend = 0
    units.append([pend, None])
    breaks = set(rng.sample(range(len(units)), min(nlines, len(units)))) if nlines else set()
    segs = []
    for i, (e, seg) in enumerate(units):
        first = (i == 0)
        last = seg is None
        if i in breaks:
            # split the separator over a line break: e1 empties before, e2 after
            e1 = rng.randint(0, e)
            e2 = e - e1
            s1 = render_sep(rng, e1 + 1 if e1 else rng.choice([0, 0, 1]), False)
            if first and not s1:
                pass
            if s1: segs.append("W:" + hx(s1))
            if rng.random() < 0.3:
                segs.append("C:" + hx(b";" + rng.choice([b"", b" comment", b' "q', b", x ; y", b"\\"])))
                tags.add("comment")
            segs.append("N")
            tags.add("continuation")
            s2 = render_sep(rng, e2 + 1 if e2 else rng.choice([0, 0, 1]), False)
            if s2: segs.append("W:" + hx(s2))
        else:
            k = e + 1 if e else rng.choice([0, 0, 1])
            s = render_sep(rng, k, need_nonempty=(not first and not last))
            if first and k == 0 and rng.random() < 0.7:
                s = b""
            if s: segs.append("W:" + hx(s))
            if k > 1: tags.add("comma-run")
        if seg:
            segs.append(seg)
    if rng.random() < 0.25:
        segs.append("C:" + hx(b";" + rng.choice([b"", b" c", b'"', b" a, b"])))
        tags.add("comment")
    return segs, tags


def val_tags(vals):
    t = set()
    if not vals: t.add("empty-list")
    for v in vals:
        if v == b"": t.add("empty-value")
        if set(v) & set(b" \t\r\n"): t.add("blank-in-value")
        if b"," in v: t.add("comma-in-value")
        if b";" in v: t.add("semicolon-in-value")
        if b'"' in v: t.add("quote-in-value")
        if b"\\" in v: t.add("backslash-in-value")
        if any(b >= 0x80 for b in v): t.add("high-byte")
    return t


KEYS_R = ["k", "0", "e12", "fm_1", "\u00e4", "m1", "p3"]


def gen_tagr(rng):
    vals = gen_vals(rng)
    nl = rng.choice([0, 0, 1, 1, 2, 3])
    segs, t = render_vals(rng, vals, nl)
    return Case("tagr %s %s" % (hx(rng.choice(KEYS_R)), " ".join(segs)), sorted(t | val_tags(vals)), "rendered")


# ---------------------------------------------------------------- op sequences (tags)
KEYPOOL = ["@1", "@e2", "#title", "#composer", "@Foo", "Tag1", "x", "@\u00e4", "#comment", "cmd_5", "cmd_-32768"]


def rand_text(rng, n=None):
    alpha = [b"a", b"b", b"1", b" ", b" ", b",", b",", b'"', b"\\", b";", b"\t", b"\r", b"'", b"n", b"t", b"\xc3\xa4", b"\xff", b"\n"]
    n = rng.randrange(0, 12) if n is None else n
    return b"".join(rng.choice(alpha) for _ in range(n))


def rand_case(rng, s):
    return "".join(c.upper() if rng.random() < 0.4 else c for c in s)


def gen_line(rng, tags, state):
    """state['mml'] = the previous dispatching line was a track line (continuations are MML then)"""
    r = rng.random()
    if r < 0.22:
        k = rng.choice(["#title", "#composer", "#comment", "#x", "#platform", "#\u00e4"])
        tags.add("hash-line")
        state["mml"] = False
        sep = rng.choice([" ", " ", "\t", "  ", " \t", "", "\r"])
        return rand_case(rng, k).encode() + sep.encode() + rand_text(rng) + rng.choice([b"", b"", b"  ", b"\r", b" \t\r"])
    if r < 0.5:
        k = rng.choice(["@1", "@e2", "@foo", "@\u00e4", "@p"])
        tags.add("at-line")
        state["mml"] = False
        segs, t = render_vals(rng, gen_vals(rng), 0)
        body = b"".join(bytes.fromhex(s[2:].replace("-", "")) if s[0] != "Q" else b'"' + bytes.fromhex(s[2:].replace("-", "")) + b'"' for s in segs)
        if rng.random() < 0.3:
            body = rand_text(rng)
            tags.add("at-line-raw")
        return rand_case(rng, k).encode() + rng.choice([b" ", b"\t", b"  "]) + body
    if r < 0.66:
        tags.add("continuation-line")
        if state.get("mml"):
            return rng.choice([b" ", b"\t", b"   "]) + rng.choice([b"'p q' 'r'", b"; c", b"| 'x'", b"'a, \"b c\"'", b"", b"'open"])
        return rng.choice([b" ", b"\t", b"   "]) + (rand_text(rng) if rng.random() < 0.5 else rng.choice([b"1 2, 3", b'"a b" c', b",,x", b"'p q' 'r'", b"; c"]))
    if r < 0.74:
        tags.add("comment-or-blank-line")
        return rng.choice([b"", b"; hello", b";", b" ", b"\t "])
    if r < 0.94:
        tags.add("track-line")
        state["mml"] = True
        ids = "".join(rng.choice("ABCZ09") for _ in range(rng.choice([1, 1, 2, 3])))
        n = rng.choice([0, 1, 1, 2, 3])
        parts = []
        for _ in range(n):
            body = rng.choice([b"fm3 0001", b"carry", b"x", b"", b'a "b c", d', b"k,,v", b"a;b", b'"q\\', rand_text(rng, 5).replace(b"'", b"")])
            parts.append(b"'" + body + b"'")
            if rng.random() < 0.2: parts.append(b"|")
        line = ids.encode() + rng.choice([b" ", b"\t", b"  ", b""]) + b" ".join(parts)
        if rng.random() < 0.12:
            line += b" 'open"
            tags.add("unterminated-cmd")
        elif rng.random() < 0.15:
            line += b" ; 'not'"
        return line
    tags.add("garbage-line")
    return rng.choice([b"!x", b"?", b"\xc3\xa4", b"$1", b"\r", b"(a)", b"\x7f"])


def gen_ops(rng):
    tags = set()
    state = {}
    n = rng.choice([1, 2, 3, 4, 6, 8, 12])
    ops = []
    for _ in range(n):
        r = rng.random()
        k = rng.choice(KEYPOOL)
        if rng.random() < 0.03:
            k = "tag_order"; tags.add("key-tag_order")
        if r < 0.12:
            ops.append(S(k, rand_text(rng))); tags.add("set_tag")
        elif r < 0.22:
            ops.append(A(k, rand_text(rng))); tags.add("add_tag")
        elif r < 0.4:
            ops.append(L(k, rand_text(rng))); tags.add("add_tag_list")
        elif r < 0.45:
            ops.append("G:" + hx(k)); tags.add("get_or_make")
        elif r < 0.5:
            ops.append("O"); tags.add("order-list")
        elif r < 0.6:
            ops.append(R(rng.choice([-1, -1, -1, 5, -32768, -32767, 0, 32767]), rand_text(rng))); tags.add("register-cmd")
        else:
            ops.append(M(gen_line(rng, tags, state)))
    if len(set(o.split(":")[1] for o in ops if o[0] in "SALG")) > 1:
        tags.add("multi-key")
    return Case("tags " + " ".join(ops), sorted(tags), "ops")


def gen_api_only(rng):
    """API-only requests: the judge checks key order and final set_tag values against the spec."""
    n = rng.choice([2, 3, 5, 8, 14])
    ops = []
    pool = ["a", "b", "#t", "@1", "Tag", "tag", "\u00e4", "cmd_1"]
    for _ in range(n):
        r = rng.random()
        k = rng.choice(pool)
        if r < 0.35: ops.append(S(k, rand_text(rng)))
        elif r < 0.55: ops.append(A(k, rand_text(rng)))
        elif r < 0.75: ops.append(L(k, rand_text(rng)))
        elif r < 0.85: ops.append("G:" + hx(k))
        else: ops.append(R(rng.choice([-1, -1, 1, 7]), rand_text(rng)))
    return Case("tags " + " ".join(ops), ("api-only", "interleaved-keys"), "api")


LKEYS = ["title", "Title", "TITLE", "composer", "x", "1", "e2", "E2", "Foo", "fOO", "\u00e4", "\u00c4b", "comment", "pLatForms"]
LWORDS = [b"a", b"fm3", b"0001", b"1", b"-12", b"x.wav", b"'", b"\\", b"\xc3\xa4", b"\xff", b"a\\n", b"@", b"#"]


def gen_tagl(rng):
    """whole lines with a documented meaning: `#` lines, `@` lines, continuation lines, interleaved keys"""
    tags = set(["whole-lines"])
    n = rng.choice([1, 2, 3, 4, 6, 9])
    es = []
    def ws():
        k = rng.choice([0, 1, 1, 2, 3, 5])
        return ",".join(hx(rng.choice(LWORDS)) for _ in range(k)) or "."
    for _ in range(n):
        r = rng.random()
        if r < 0.4:
            v = rng.choice([b"My song", b"x", b"a  b", b"a, b; c", b'"q"', b"\xe3\x83\x86\xe3\x82\xb9\xe3\x83\x88", b"a\\", b";x", b",", b"v\x0b"]) \
                + rng.choice([b"", b"", b" ", b"  \t", b"\r", b" \r\n"])
            es.append("H:%s:%s:%s" % (hx(rng.choice(LKEYS)), hx(rng.choice([" ", "\t", "  ", " \t "])), hx(v)))
            tags.add("hash-line")
            if v[-1:] in b" \t\r\n": tags.add("trailing-blanks")
        elif r < 0.75:
            es.append("T:%s:%s" % (hx(rng.choice(LKEYS)), ws()))
            tags.add("at-line")
        else:
            es.append("K:" + ws())
            tags.add("continuation-line")
    keys = [e.split(":")[1].lower() for e in es if e[0] in "HT"]
    if len(set(keys)) > 1: tags.add("multi-key")
    raw = [bytes.fromhex(e.split(":")[1]) for e in es if e[0] in "HT" and e.split(":")[1] != "-"]
    if any(any(65 <= c <= 90 for c in k) for k in raw): tags.add("upper-case-key")
    return Case("tagl " + " ".join(es), sorted(tags), "lines")


def exhaustive(maxlen, per_req, as_lines):
    alpha = [b"a", b"b", b" ", b",", b'"', b"\\", b";"]
    cur = []
    i = 0
    for n in range(0, maxlen + 1):
        for tup in itertools.product(alpha, repeat=n):
            s = b"".join(tup)
            if as_lines:
                cur.append(M(b"@k%d " % i + s))
            else:
                cur.append(L("k%d" % i, s))
            i += 1
            if len(cur) == per_req:
                yield "tags " + " ".join(cur)
                cur = []
                i = 0
    if cur:
        yield "tags " + " ".join(cur)


def gen_malformed(rng):
    n = rng.randrange(1, 40)
    b = bytes(rng.choice([rng.randrange(0, 256), rng.choice(b' ,;"\\\t\r\n\x00ab')]) for _ in range(n))
    if rng.random() < 0.5:
        return Case("tags " + L("k", b), ("malformed", "api-bytes"), "malformed")
    b = b.replace(b"\x00", b"\x01")
    first = rng.choice([b"@k ", b"#k ", b" ", b"@K\t", b""])
    if not first and b[:1] and (b[:1].isalnum() or b[:1] == b"*"):
        b = b"!" + b
    return Case("tags " + M(b"@p 1") + " " + M(first + b), ("malformed", "line-bytes"), "malformed")


def cases(rng, tier):
    for c in CORPUS:
        yield Case(c, ("corpus",), "corpus")
    quick = tier == "quick"
    for req in exhaustive(4 if quick else 6, 40 if quick else 120, False):
        yield Case(req, ("exhaustive-add_tag_list",), "exhaustive")
    for req in exhaustive(3 if quick else 5, 40 if quick else 120, True):
        yield Case(req, ("exhaustive-at-line",), "exhaustive")
    for _ in range(2500 if quick else 40000):
        yield gen_tagr(rng)
    for _ in range(2000 if quick else 30000):
        yield gen_ops(rng)
    for _ in range(800 if quick else 10000):
        yield gen_api_only(rng)
    for _ in range(1200 if quick else 15000):
        yield gen_tagl(rng)
    for _ in range(1200 if quick else 15000):
        yield gen_malformed(rng)


def finding_key(case, impl, judge):
    if impl.startswith("crash") or impl == "timeout" or impl.startswith("uncaught") or impl == "no-answer":
        m = re.search(r"(\w+\.cpp:\d+)", impl)
        return "crash:" + (m.group(1) if m else impl.split(" ")[0])
    if judge.startswith("fail"):
        if case.req.startswith("tagr"):
            return "roundtrip"
        if "tag order" in judge:
            return "tags:order"
        if "set_tag" in judge:
            return "tags:set_tag"
        if "lines:" in judge:
            return "lines"
        if "undefined" in judge:
            return "tags:ub"
        return "tags:judge"
    return "other"


def shrink(req):
    cmd, _, rest = req.partition(" ")
    toks = rest.split()
    start = 1 if cmd == "tagr" else 0
    for i in range(start, len(toks)):
        yield cmd + " " + " ".join(toks[:i] + toks[i + 1:])
    for i in range(start, len(toks)):
        f = toks[i].split(":")
        h = f[-1]
        if len(f) > 1 and len(h) >= 4 and h != "-":
            for cut in (h[:len(h) // 4 * 2], h[len(h) // 4 * 2:], h[2:], h[:-2]):
                if cut:
                    yield cmd + " " + " ".join(toks[:i] + [":".join(f[:-1] + [cut])] + toks[i + 1:])


def outcome_class(a):
    if a.startswith("err=-"):
        return "tag-map"
    if a.startswith("err=InputError"):
        return "input-error+tag-map"
    if a.startswith("mml=exc"):
        return "rendered-input-error"
    if a.startswith("mml="):
        return "rendered-values"
    return a.split(" ")[0][:24]
