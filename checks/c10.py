"""C10 — Linking preserves every song and every sample.

Two stages.  Stage 1 (harness only, inside cases()): `mkmds` requests turn generated songs (IR
tokens, MML text, PCM instruments on generated WAV files) into MDS files with the real
MDSDRV_Converter::get_mds and also link them the way mdslink links .mml inputs (RIFF object
straight into add_song).  Stage 2: `link A:<name>:<mds bytes> … Q …` requests, answered by the
real MDSDRV_Linker and by the Lean model; the spec resolver judges the real answer."""
import os, re, struct
from vlib import core
from vlib.core import Case, BUILD

ID = "C10"
LEAN_MODULE = "Ctrmml.Properties.C10"
THEOREMS = ["C10_unique_data_spec", "C10_seq_bytes_unchanged", "C10_relocation_sound", "C10_song_numbering",
            "C10_unique_string_terminates", "C10_identifiers_unique_valid", "C10_linker_idempotent_query",
            "C10_pcm_region_sound_partial", "C10_offset_window_regression",
            "C10_pcm_histories", "C10_pcm_later_songs_keep", "C10_reader_agreement", "C10_stored_once", "C10_song_resolves_partial", "C10_group_key_agrees",
            "C10_resolver_songs_partial", "C10_full_bank_partial", "C10_full_bank_fresh_partial",
            "C10_full_headers_partial", "C10_full_partial"]
LEVEL = "proof"
STREAM = "link.out"
CHUNK = 20
CASE_SECONDS = 20
RULE = ("histories of add_song/get_seq_data on a fresh MDSDRV_Linker: 1..6 MDS files built by the real converter from generated songs "
        "(FM/PSG/PCM instruments and normal/extended pitch envelopes drawn from a shared pool so that songs share none, some or all "
        "data; PCM on generated 8/16-bit WAVs incl. rate/offset overrides and samples larger than a 32 KiB bank; MML text inputs), "
        "hand-assembled MDS files (shared/duplicate/prefix/empty data entries, shared and overlapping PCM windows, flagged ids), "
        "equal and clashing file and group names (case, blanks, punctuation, non-ASCII, leading digits, MIN/MAX, suffix clashes), every "
        "order of <= 3 songs over a 4-song base set, intermediate queries, pitch-code boundaries, a PCM placement family (samples built "
        "from one pattern: prefixes, zero tails, all-zero samples, repeats at other rates / loop starts, fillers ending around a 32 KiB "
        "bank boundary or larger than a bank, alignment gaps refilled later), and truncated / corrupted files. "
        "non-trivial = more than one plain song; distinct by request text")
EXPLANATION = ("theorems over Model/Linker + Spec/Link for all histories; the model is tied to mdsdrv.cpp by running both on the generated "
               "histories and diffing every answer byte (sequence bank, PCM bank, both headers, statistics, per-op results); the spec "
               "resolver (bank header -> song table -> song -> pointer slot -> data entry / PCM header -> PCM region; stored-once; header "
               "identifiers) is applied to the implementation's answers; the byte path is compared with the direct RIFF-object path")
ASSUMPTIONS = ["linked banks below 2 GiB (int offset in get_seq_data), MDS files below 4 GiB",
               "\"C\" locale character classes; bytes >= 0x80 in names are dropped (glibc tables)",
               "binary32 rounding of rate/2187.5 never crosses a rounding boundary for integer rates (checked on every boundary rate)"]
TRUSTED = ["Spec/Link.lean (MDS reader, bank resolver, group symbol and order, header reader)"]
TECHNIQUE = "Lean 4 proof (invariant over linker histories by induction on the operation list, refinement of the chunk walk to the spec reader, layout lemmas, fuel bound for unique_string) + differential correspondence model<->mdsdrv.cpp + spec resolver on the real output"
LEVEL_TEXT = ("Machine-checked theorems over a Lean model of MDSDRV_Linker, for all inputs. The main one (C10_full_partial): for EVERY list "
              "of MDS files the spec's own reader accepts that MDSDRV_Linker links without error, the spec's executable resolver - the "
              "same LinkSpec.resolveBank / resolveHeaders the judge runs on the real output - accepts the linked sequence bank, the PCM "
              "bank and both generated headers: bank header fields; every song through the table in group then input order with its "
              "bytes unchanged outside the pointer slots; every slot's pointer word with its flag bit addressing a byte-identical data "
              "entry or a PCM header with the rate's pitch code and the sample's size whose address selects exactly the sample's bytes "
              "in the PCM bank; non-overlapping song spans; identical data stored once, different data never merged; one valid unique "
              "identifier per song with MIN/MAX bracketing each group. Its only extra hypotheses are the two limits of the format: bank "
              "below 4 GiB, fewer than 65536 songs (32-bit offsets / 16-bit counts). Supporting theorems, each for all "
              "histories: the PCM/data invariant over arbitrary add_song histories on top of C14's allocator invariant (later songs never "
              "disturb earlier ones, bank rule), agreement of the linker's chunk walk with the spec reader, add_song = fold over exactly "
              "the entries read, group key = spec group symbol and map order = spec order, layout / relocation / stored-once / numbering "
              "/ identifier theorems, termination of unique_string, query independence.")
LEVEL_NOTE = ("Trusted: Lean kernel; Model/Linker.lean (+ Model/Riff, Model/Wave), tied to mdsdrv.cpp by differential testing only; "
              "Spec/Link.lean (the resolver and reader the theorem is stated against); the converter is not modelled here (its real "
              "output is the input). Decided per case by the oracle and not by proof: files the strict spec reader rejects but the "
              "linker accepts are covered by the history theorems (C10_pcm_histories) but not by the resolver theorem. See "
              "Properties/C10.lean for the exact hypotheses of each theorem.")

EXPECT = {}   # stage-2 request -> 'direct=' answer of stage 1


def workdir():
    d = os.path.join(BUILD, "c10work")
    os.makedirs(d, exist_ok=True)
    return d


def normalize(a):
    return "crash" if a.startswith("crash") else a


def fnv64(b):
    h = 0xcbf29ce484222325
    for x in b:
        h = ((h ^ x) * 0x100000001b3) & 0xffffffffffffffff
    return h


def lenfnv(b):
    return "%d:%016x" % (len(b), fnv64(b))


def hx(b):
    return b.hex() or "-"


# ------------------------------------------------------------------ hand-assembled MDS files
def chunk(t, d, size=None):
    b = t + struct.pack("<I", len(d) if size is None else size) + d
    if len(d) % 2:
        b += b"\0"
    return b


def lst(t, i, kids):
    body = i
    for k in kids:
        if len(body) % 2:
            body += b"\0"
        body += k
    return t + struct.pack("<I", len(body)) + body + (b"\0" if len(body) % 2 else b"")


def sample(pos, start, size, ls=0, le=0, rate=8000, tr=0, fl=0):
    return struct.pack("<8I", pos, start, size, ls, le, rate, tr & 0xffffffff, fl)


def mds(ver=b"\0\6", grp=b"", seq=b"", dblk=(), pcmd=b"", omit=(), extra=()):
    kids = []
    if "ver" not in omit: kids.append(chunk(b"ver ", ver))
    if "grp" not in omit: kids.append(chunk(b"grp ", grp))
    if "seq" not in omit: kids.append(chunk(b"seq ", seq))
    if "dblk" not in omit: kids.append(lst(b"LIST", b"dblk", [chunk(k, struct.pack("<I", i) + d) for (k, i, d) in dblk]))
    if "pcmd" not in omit: kids.append(chunk(b"pcmd", pcmd))
    kids += list(extra)
    return lst(b"RIFF", b"MDS0", kids)


def fill(n, seed):
    return bytes((seed + 31 * i + i // 256) & 255 for i in range(n))


DATA_POOL = [b"", b"\x01", b"\x01\x02", b"\x01\x02\x03", b"\x10\x01\x1f\x00", b"\xab" * 7, bytes(range(30)), bytes(range(1, 31)),
             b"\x00", b"\x00\x00", fill(29, 7), fill(30, 7), fill(5, 200), b"\x04\x00\x00\x00\x00\x00\x00\x08"]
PCM_POOL = [(16, 3), (16, 4), (8, 3), (1, 9), (33, 3), (64, 77), (7, 1), (0, 0), (300, 5), (16, 3)]


def raw_song(rng, grp=None, nslots=None, pcm_ok=True, d11=False):
    """a well-formed hand-assembled MDS file; returns (bytes, tags)"""
    nslots = rng.randrange(0, 6) if nslots is None else nslots
    pre = rng.choice([0, 0, 2, 6])
    sdata = 2 + pre
    seq = struct.pack(">H", sdata) + bytes(rng.randrange(256) for _ in range(pre))
    seq += bytes(rng.randrange(256) for _ in range(2 * nslots))
    seq += bytes(rng.randrange(256) for _ in range(rng.choice([0, 1, 2, 5, 9])))
    ids = list(range(nslots))
    rng.shuffle(ids)
    entries, pcmd, tags = [], b"", set()
    wins = []
    for i in ids:
        if rng.random() < 0.15:
            continue  # an unused slot
        if pcm_ok and rng.random() < 0.35:
            if wins and rng.random() < 0.3:
                pos, size = rng.choice(wins)
                if rng.random() < 0.5 and size > 2:
                    size = rng.randrange(1, size)   # a prefix of an earlier window
                    tags.add("pcm-prefix-window")
                else:
                    tags.add("pcm-shared-window")
            else:
                n, seed = rng.choice(PCM_POOL)
                pos, size = len(pcmd), n
                pcmd += fill(n, seed)
                if rng.random() < 0.3:
                    pcmd += b"\x55" * rng.randrange(1, 4)  # slack between samples
            wins.append((pos, size))
            rate = rng.choice([8000, 17500, 2187, 1093, 1094, 3281, 3282, 16406, 16407, 0, 44100, 560000, 562000, 4294967295])
            start = 0
            if d11 and size > 4:
                start = rng.randrange(1, 4)
                size -= start
                tags.add("pcm-start-offset")
            entries.append((b"pcmh", i, sample(pos, start, size, rate=rate, ls=rng.choice([0, 0, 3]))))
            tags.add("pcm")
        else:
            flag = 0x80000000 if rng.random() < 0.2 else 0
            if flag:
                tags.add("flagged-id")
            d = rng.choice(DATA_POOL)
            if not d:
                tags.add("empty-entry")
            entries.append((b"glob", i | flag, d))
    g = rng.choice([b"", b"", b"bgm", b"BGM", b"sfx", b"se 1", b"1up", b"a-b", b"\xc3\xa9", b"A_B", b"a"]) if grp is None else grp
    return mds(grp=g, seq=seq, dblk=entries, pcmd=pcmd), tags


# ------------------------------------------------------------------ PCM placement family
BANK = 32768   # MDSDRV_Linker::wave_rom(0x3f8000, 0x8000)


def pcm_family(rng, big=False):
    """2..4 songs whose samples are built from one base pattern: prefixes of it, the pattern with a zero tail (must not be
    matched against unallocated rom behind a stored copy), all-zero samples, repeats at other rates / loop starts, fresh data;
    `big`: a filler that ends just before / at / after a 32 KiB bank boundary or is larger than a bank, so that the following
    samples are moved to the next bank or to the next multiple of 32 and leave alignment gaps that later small samples fill.
    returns (songs [(name, mds)], tags)"""
    base = fill(rng.choice([24, 40, 64, 96, 200]), rng.randrange(256))
    pool, tags = [], set(["pcm", "pcm-family"])

    def shape():
        k, n = rng.random(), rng.randrange(1, len(base) + 1)
        if k < .2: return base[:n], "pcm-prefix"
        if k < .45: return base[:n] + b"\0" * rng.choice([1, 2, 7, 31, 32, 33, 64]), "pcm-zero-tail"
        if k < .55: return base + bytes([rng.randrange(1, 256)]) * rng.randrange(1, 5), "pcm-extended"
        if k < .65: return b"\0" * rng.choice([1, 5, 32, 64]), "pcm-all-zero"
        if k < .72: return base[n // 2:], "pcm-suffix"
        if k < .87 and pool: return rng.choice(pool), "pcm-repeat"
        return fill(rng.choice([3, 17, 32, 33, 100]), rng.randrange(256)), "pcm-fresh"

    songs = []
    ns = rng.randrange(2, 5)
    for si in range(ns):
        datas = []
        if big and si == 0:
            kind = rng.choice(["before", "at", "after", "over"])
            size = {"before": BANK - rng.choice([1, 5, 31, 33, 100]), "at": BANK, "after": BANK + rng.choice([1, 32, 100]),
                    "over": rng.choice([40000, 65536 - 7, 70001])}[kind]
            datas.append(fill(size, rng.randrange(256)))
            tags.add("pcm-bank-boundary")
            if rng.random() < .5:
                datas.insert(0, fill(rng.choice([1, 7, 33]), rng.randrange(256)))   # the filler does not start on a multiple of 32
                tags.add("pcm-align-gap")
        for _ in range(rng.randrange(1, 4)):
            d, t = shape()
            datas.append(d)
            pool.append(d)
            tags.add(t)
        if not big:
            rng.shuffle(datas)
        nsl = len(datas)
        seq = struct.pack(">H", 2) + bytes(rng.randrange(256) for _ in range(2 * nsl + rng.choice([0, 1, 3])))
        pcmd, entries = b"", []
        for i, d in enumerate(datas):
            if rng.random() < .3:
                pcmd += b"\xaa" * rng.randrange(1, 4)
            entries.append((b"pcmh", i, sample(len(pcmd), 0, len(d), rate=rng.choice([8000, 8000, 17500, 4000]), ls=rng.choice([0, 0, 0, 3]))))
            pcmd += d
        songs.append(("p%d" % si, mds(grp=rng.choice([b"", b"", b"sfx"]), seq=seq, dblk=entries, pcmd=pcmd)))
    return songs, tags


# ------------------------------------------------------------------ stage-1 song descriptions
FM = ["fm:%d" % k for k in (3, 5, 9, 77)]
PSG = ["psg:%d" % k for k in (5, 21, 200)]
WAV = ["8:1:8000:16:3", "8:1:8000:16:4", "16:1:11025:9:7", "8:2:17500:33:1", "16:2:4000:5:9", "8:1:8000:300:5", "8:1:8000:1:9"]
WAVARG = ["", "", "", ":rate=17500", ":rate=2000", ":rate=562000", ":offset=4", ":rate=1094", ":rate=1093"]
PENV = ["0,4,7", "0>12:10", "0>100:2", "0:10,|,0>1:5,1>-1:10", "V0:1:5"]
NAMES = ["a", "A", "a b", "a_b", "song", "song1", "min", "max", "MIN", "1", "", "é", "x.y", "B_a", "a_1", "A_1", "a_1_1", "b", "tune-2", "_"]
GROUPS = [None, None, None, "bgm", "BGM", "sfx", "se 1", "1up", "a", "A_B", "a b", "é", "-"]


def conv_song(rng, share):
    """one generated song over the shared pools; share in 0..1 = how much of the pool is common"""
    toks, tags = [], set()
    fm_pool = FM if share > 0.5 else [rng.choice(FM)]
    used_pcm = False
    tracks = {}
    iid = 1
    for tr in rng.sample([0, 1, 2, 5, 6, 7, 10, 11], rng.randrange(1, 5)):
        evs = []
        for _ in range(rng.randrange(1, 4)):
            if tr in (10, 11) or (tr == 5 and rng.random() < 0.5):
                w = rng.choice(WAV if share < 0.99 else WAV[:2]) + rng.choice(WAVARG)
                toks.append("W:%d=%s" % (iid, w))
                used_pcm = True
                if "offset" in w: tags.add("pcm-offset-arg")
                if "rate" in w: tags.add("pcm-rate-arg")
            elif tr >= 6:
                toks.append("I:%d=%s:0" % (iid, rng.choice(PSG)))
            else:
                toks.append("I:%d=%s:0" % (iid, rng.choice(fm_pool)))
            evs.append("17.%d.0.0" % iid)
            iid += 1
            evs.append("2.%d.%d.0" % (rng.randrange(24, 60), rng.choice([1, 2, 24, 200])))
            if rng.random() < 0.3:
                e = rng.choice(PENV)
                toks.append("E:%d=%s" % (iid, e))
                evs.append("23.%d.0.0" % iid)
                evs.append("2.40.3.0")
                tags.add("ext-pitch-env" if e == "0>100:2" else "pitch-env")
                iid += 1
        tracks[tr] = evs
    toks += ["T%d:%s" % (t, ",".join(e)) for t, e in sorted(tracks.items())]
    if used_pcm:
        tags.add("pcm")
    return toks, tags


MML_SONGS = [
    ("#title t\n@1 fm 4 0\n 31 0 0 0 0 20 0 1 0 0\n 31 0 0 0 0 20 0 1 0 0\n 31 0 0 0 0 20 0 1 0 0\n 31 0 0 0 0 0 0 1 0 0\nA @1 o4 l4 cdef\n", []),
    ("#group sfx\n@10 psg 15 14 13\nG @10 o4 l8 cdefg\n", []),
    ("#group Se 1\n@30 pcm \"w_8_1_8000_16_3.wav\"\n@31 pcm \"w_8_1_8000_16_4.wav\" rate=17500\nK @30 c @31 c\n", ["F:8:1:8000:16:3", "F:8:1:8000:16:4"]),
    ("@30 pcm \"w_8_1_8000_16_3.wav\"\n@M1 0>12:10\nF @30 M1 c2 d2\n", ["F:8:1:8000:16:3"]),
]


def name_hex(n):
    return hx(n.encode("utf-8") if isinstance(n, str) else n)


# ------------------------------------------------------------------ malformed files
def mutate(rng, f):
    kind = rng.choice(["trunc", "trunc", "byte", "size", "zero-id", "drop-tail", "swap-cc"])
    b = bytearray(f)
    if kind == "trunc":
        b = b[:rng.randrange(0, len(b))]
    elif kind == "byte" and b:
        i = rng.randrange(len(b))
        b[i] = rng.randrange(256)
    elif kind == "size" and len(b) > 24:
        offs = [m.start() + 4 for m in re.finditer(rb"(ver |grp |seq |LIST|pcmd|glob|pcmh|RIFF)", bytes(b))]
        o = rng.choice(offs)
        v = rng.choice([0, 1, 2, 3, 7, len(b), 0x7fffffff, 0xfffffff0, 0xffffffff, rng.randrange(1 << 16)])
        b[o:o + 4] = struct.pack("<I", v)
    elif kind == "zero-id":
        m = [x.start() for x in re.finditer(rb"(glob|pcmh)", bytes(b))]
        if m:
            o = rng.choice(m) + 8
            b[o:o + 4] = struct.pack("<I", rng.choice([0x7fffffff, 0xffffffff, 1000, 0x80000000, 0x7ffffff0]))
    elif kind == "drop-tail":
        b = b[:-rng.randrange(1, 6)]
    elif kind == "swap-cc":
        m = [x.start() for x in re.finditer(rb"(ver |grp |seq |LIST|pcmd|glob|pcmh)", bytes(b))]
        if m:
            o = rng.choice(m)
            b[o:o + 4] = rng.choice([b"seq ", b"pcmd", b"LIST", b"junk", b"ver ", b"RIFF", b"pcmh", b"glob"])
    return bytes(b), "malformed-" + kind


def pcm_field_mutation(rng, f):
    m = [x.start() for x in re.finditer(rb"pcmh", f)]
    if not m:
        return mutate(rng, f)
    o = rng.choice(m) + 12 + 4 * rng.choice([0, 1, 2])  # position / start / size
    b = bytearray(f)
    b[o:o + 4] = struct.pack("<I", rng.choice([1, 100, 0xfffffff0, 0xffffffff, 0x7fffffff, 65536]))
    return bytes(b), "malformed-pcm-field"


# ------------------------------------------------------------------ building stage-2 requests
def link_req(songs, queries=()):
    """songs: list of (name bytes/str, mds bytes); queries: positions (before song i) of Q ops"""
    ops = []
    for i, (n, f) in enumerate(songs):
        ops += ["Q"] * list(queries).count(i)
        ops.append("A:%s:%s" % (name_hex(n), hx(f)))
    ops += ["Q"] * list(queries).count(len(songs))
    return "link " + " ".join(ops)


SEQ0 = bytes([0, 8, 0, 1, 5, 0, 0, 2, 0, 0, 0xf0, 0, 0xa6, 1, 0xff, 0])


def corpus():
    ok = mds(seq=SEQ0, dblk=[(b"glob", 0, b"\x01\x02\x03")])
    two = mds(grp=b"sfx", seq=SEQ0, dblk=[(b"pcmh", 0, sample(0, 0, 16))], pcmd=fill(16, 3))
    out = []
    # D15: a query between two additions used the offsets of the first layout
    out.append((link_req([("a", ok), ("b", two)], [1]), ("corpus", "D15-query-between")))
    out.append((link_req([("a", ok), ("b", two)], [0, 1, 2, 2]), ("corpus", "D15-query-between")))
    # identifier beginning with a digit
    out.append((link_req([("a", mds(grp=b"1up", seq=SEQ0)), ("min", mds(grp=b"1up", seq=SEQ0)), ("min", mds(grp=b"1up", seq=SEQ0))]), ("corpus", "digit-group")))
    # pitch code above 255 before the clamp
    for rate in (559999, 560000, 562000, 4294967295, 17499, 17500, 1093, 1094, 0):
        out.append((link_req([("p", mds(seq=SEQ0, dblk=[(b"pcmh", 0, sample(0, 0, 4, rate=rate))], pcmd=b"\1\2\3\4"))]), ("corpus", "pitch-boundary")))
    # truncated / out-of-range inputs that used to read outside a vector
    bad = {
        "ver1": mds(ver=b"\0", seq=SEQ0), "ver0": mds(ver=b"", seq=SEQ0), "seq1": mds(seq=b"\x01"), "seq0": mds(seq=b""),
        "glob3": lst(b"RIFF", b"MDS0", [chunk(b"ver ", b"\0\6"), chunk(b"seq ", SEQ0), lst(b"LIST", b"dblk", [chunk(b"glob", b"\1\2\3")])]),
        "pcmhshort": lst(b"RIFF", b"MDS0", [chunk(b"ver ", b"\0\6"), chunk(b"seq ", SEQ0), lst(b"LIST", b"dblk", [chunk(b"pcmh", b"\0\0\0\0\1\2\3")])]),
        "pcmbeyond": mds(seq=SEQ0, dblk=[(b"pcmh", 0, sample(0, 0, 100))], pcmd=b"\1\2\3\4"),
        "pcmposbeyond": mds(seq=SEQ0, dblk=[(b"pcmh", 0, sample(1000, 0, 2))], pcmd=b"\1\2\3\4"),
        "pcmhuge": mds(seq=SEQ0, dblk=[(b"pcmh", 0, sample(0xfffffff0, 0, 0x20))], pcmd=b"\1\2\3\4"),
        "slotbeyond": mds(seq=SEQ0, dblk=[(b"glob", 100, b"\x01\x02\x03")]),
        "slotlast": mds(seq=SEQ0, dblk=[(b"glob", 3, b"\x01\x02\x03")]),
        "slotpastlast": mds(seq=SEQ0, dblk=[(b"glob", 4, b"\x01\x02\x03")]),
        "slotwrap": mds(seq=SEQ0, dblk=[(b"glob", 0x7ffffffc, b"\x01")]),
        "nodblk": mds(seq=SEQ0, omit=("dblk",)), "notriff": chunk(b"seq ", SEQ0), "riffshortid": chunk(b"RIFF", b"MD"),
        "listshort": lst(b"RIFF", b"MDS0", [chunk(b"ver ", b"\0\6"), chunk(b"seq ", SEQ0), chunk(b"LIST", b"db")]),
        "wrongid": lst(b"RIFF", b"MDS1", []), "verold": mds(ver=b"\0\1", seq=SEQ0), "vernew": mds(ver=b"\0\7", seq=SEQ0),
        "ver1.0": mds(ver=b"\1\0", seq=SEQ0), "short": b"RIFF\0\0", "empty": b"",
        "twoseq": mds(seq=SEQ0, extra=[chunk(b"seq ", SEQ0[:10])]),
        "otherlist": mds(seq=SEQ0, extra=[lst(b"LIST", b"INFO", [chunk(b"glob", b"\0\0\0\0\1")])]),
    }
    for k, v in bad.items():
        out.append((link_req([("a", ok), ("x", v)]), ("corpus", "malformed", "malformed-" + k)))
    # D11 (repaired; regression): a PCM header with a start offset used to be re-homed with the bytes before the window
    out.append((link_req([("a", mds(seq=SEQ0, dblk=[(b"pcmh", 0, sample(0, 4, 12))], pcmd=bytes(range(16, 48))))]), ("corpus", "D11-start-offset")))
    # a sample equal to a stored one plus a zero tail, then a third sample: the longer sample must
    # not be matched against unallocated (zero) rom behind the stored one
    base = fill(64, 5)
    for tail in (1, 7, 32, 64):
        sA = mds(seq=SEQ0, dblk=[(b"pcmh", 0, sample(0, 0, 64))], pcmd=base)
        sB = mds(seq=SEQ0, dblk=[(b"pcmh", 0, sample(0, 0, 64 + tail))], pcmd=base + b"\0" * tail)
        sC = mds(seq=SEQ0, dblk=[(b"pcmh", 0, sample(0, 0, 96))], pcmd=fill(96, 77))
        out.append((link_req([("a", sA), ("b", sB), ("c", sC)]), ("corpus", "pcm-zero-tail")))
        out.append((link_req([("b", sB), ("a", sA), ("c", sC)]), ("corpus", "pcm-zero-tail")))
    # two alignment gaps (a sample that does not fit the rest of its bank starts the next one), the
    # earlier gap the smaller, then small samples that refill the gaps: each must land in its own place
    big = [0x7000, 0x6000, 0x3000, 0x100, 0x100, 0x100]
    out.append((link_req([("g%d" % i, mds(seq=SEQ0, dblk=[(b"pcmh", 0, sample(0, 0, n))], pcmd=fill(n, 10 + i))) for i, n in enumerate(big)]),
                ("corpus", "pcm-two-gaps")))
    big = [0x7f00, 0x7000, 0x4000, 0x80, 0x800, 0x80, 0x1000]
    out.append((link_req([("h%d" % i, mds(seq=SEQ0, dblk=[(b"pcmh", 0, sample(0, 0, n))], pcmd=fill(n, 30 + i))) for i, n in enumerate(big)]),
                ("corpus", "pcm-two-gaps")))
    # the same sample bytes at two rates: two headers
    out.append((link_req([("a", mds(seq=SEQ0, dblk=[(b"pcmh", 0, sample(0, 0, 32, rate=8000))], pcmd=fill(32, 9))),
                          ("b", mds(seq=SEQ0, dblk=[(b"pcmh", 0, sample(0, 0, 32, rate=16000))], pcmd=fill(32, 9)))]), ("corpus", "pcm-same-data-two-rates")))
    # name clashes
    out.append((link_req([(n, mds(grp=g, seq=SEQ0)) for n, g in [("a_b", b"x"), ("b", b"x a"), ("b", b"x_a"), ("min", b"x"), ("max", b"x"), ("", b"x")]]), ("corpus", "name-clash")))
    out.append((link_req([(n, ok) for n in ["a", "a", "a_1", "a", "a_1", "A 1"]]), ("corpus", "name-clash")))
    # identical and prefix data across songs, empty entry
    s1 = mds(seq=SEQ0, dblk=[(b"glob", 0, b"\x01\x02"), (b"glob", 1, b"")])
    s2 = mds(seq=SEQ0, dblk=[(b"glob", 1, b"\x01\x02"), (b"glob", 0, b"\x01\x02\x03"), (b"glob", 0x80000002, b"\x01\x02")])
    out.append((link_req([("a", s1), ("b", s2), ("c", s1)]), ("corpus", "share-some")))
    return out


BASE4 = None


def base4():
    global BASE4
    if BASE4 is None:
        BASE4 = [
            ("s0", mds(seq=SEQ0, dblk=[(b"glob", 0, b"\x01\x02\x03"), (b"pcmh", 1, sample(0, 0, 16))], pcmd=fill(16, 3))),
            ("s1", mds(grp=b"sfx", seq=SEQ0[:12] + b"\x99", dblk=[(b"glob", 1, b"\x01\x02\x03"), (b"glob", 0, b"\x07")])),
            ("s0", mds(grp=b"a", seq=SEQ0, dblk=[(b"pcmh", 0, sample(2, 0, 16, rate=17500)), (b"pcmh", 1, sample(2, 0, 8))], pcmd=b"\x55\x55" + fill(16, 3))),
            ("s3", mds(grp=b"SFX", seq=struct.pack(">H", 2) + b"\0\0", dblk=[(b"glob", 0x80000000, b"\x07")])),
        ]
    return BASE4


def stage1(reqs):
    if not reqs:
        return []
    exe = core.build_harness()
    ans, _ = core.run_harness_chunked(exe, reqs, CASE_SECONDS, chunk=CHUNK, workdir=workdir())
    return ans


def cases(rng, tier):
    """VERIF_C10_FAMILY=<family> restricts the run to one case family (used to see which family catches a seeded change)"""
    only = os.environ.get("VERIF_C10_FAMILY")
    for c in all_cases(rng, tier):
        if not only or c.family == only:
            yield c


def all_cases(rng, tier):
    quick = tier == "quick"
    EXPECT.clear()
    for req, tags in corpus():
        yield Case(req, tags, "corpus")

    # ---- bounded-exhaustive: every sequence of 1..3 songs over the 4-song base set (with repetition)
    b4 = base4()
    idx = [[i] for i in range(4)] + [[i, j] for i in range(4) for j in range(4)] + [[i, j, k] for i in range(4) for j in range(4) for k in range(4)]
    for n, sel in enumerate(idx):
        q = [] if n % 3 else [rng.randrange(0, len(sel) + 1)]
        yield Case(link_req([b4[i] for i in sel], q), ("exhaustive-order", "songs-%d" % len(sel)) + (("query",) if q else ()), "exhaustive")
    # ---- bounded-exhaustive: pairs of names x groups (clashes)
    nm = ["a", "A", "a b", "a_1", "min", "1", "", "é"]
    gr = [b"", b"bgm", b"x", b"1"]
    pairs = [(n1, g1, n2, g2) for n1 in nm for n2 in nm for g1 in gr for g2 in gr]
    if quick:
        pairs = rng.sample(pairs, 150)
    for n1, g1, n2, g2 in pairs:
        yield Case(link_req([(n1, mds(grp=g1, seq=SEQ0)), (n2, mds(grp=g2, seq=SEQ0)), (n1, mds(grp=g2, seq=SEQ0))]), ("exhaustive-names", "name-clash"), "exhaustive")

    # ---- stage 1: converter-built sets
    nsets = 70 if quick else 700
    s1reqs, meta = [], []
    for k in range(nsets):
        share = rng.choice([0.0, 0.3, 0.7, 1.0])
        ns = rng.choice([1, 2, 2, 3, 3, 4, 5, 6])
        songs, tags = [], set(["conv", "songs-%d" % ns, "share-%s" % {0.0: "none", 0.3: "some", 0.7: "some", 1.0: "all"}[share]])
        same = None
        for i in range(ns):
            name = rng.choice(NAMES)
            if rng.random() < 0.12:
                text, files = rng.choice(MML_SONGS)
                songs.append("N:%s %s X:%s" % (name_hex(name), " ".join(files), hx(text.encode())))
                tags.add("mml-text")
                continue
            if rng.random() < 0.15:
                f, t = raw_song(rng)
                songs.append("N:%s R:%s" % (name_hex(name), hx(f)))
                tags |= t
                tags.add("mixed-raw")
                continue
            if share == 1.0 and same is not None and rng.random() < 0.7:
                toks, t = same
            else:
                toks, t = conv_song(rng, share)
                same = (toks, t)
            g = rng.choice(GROUPS)
            tags |= t
            songs.append("N:%s %s%s" % (name_hex(name), " ".join(toks), "" if g is None else " G:" + g.replace(" ", "_")))
        s1reqs.append("mkmds " + " ; ".join(songs))
        meta.append((songs, tags))
    # big PCM samples: cross the 32 KiB bank
    for k in range(2 if quick else 10):
        a, b = rng.choice([20000, 30000, 32768, 33000]), rng.choice([15000, 20000, 40000])
        songs = ["N:61 W:1=8:1:8000:%d:1 W:2=8:1:8000:%d:2 T10:17.1.0.0,2.36.2.0,17.2.0.0,2.36.2.0" % (a, b),
                 "N:62 W:1=8:1:8000:%d:3 W:2=8:1:8000:%d:1 T10:17.1.0.0,2.36.2.0,17.2.0.0,2.36.2.0" % (b, a)]
        s1reqs.append("mkmds " + " ; ".join(songs))
        meta.append((songs, set(["conv", "pcm", "pcm-bank-crossing", "songs-2"])))
    answers = stage1(s1reqs)
    valid_files = []
    for (songs, tags), a in zip(meta, answers):
        m = re.match(r"mds=(\S*) direct=(\S+)", a)
        if not m:
            yield Case("link stage1-failed " + a[:80].replace(" ", "_"), ("stage1-failed",), "conv")
            continue
        recs = m.group(1).split("|")
        named = []
        for s, r in zip(songs, recs):
            if r.startswith("err:") or r.startswith("exc:"):
                break   # the converter rejected the song: mdslink stops here
            named.append((bytes.fromhex(re.search(r"N:(\S+)", s).group(1).replace("-", "")), bytes.fromhex(r.replace("-", ""))))
        if not named:
            continue
        valid_files += [f for _, f in named]
        q = [rng.randrange(0, len(named) + 1) for _ in range(rng.choice([0, 0, 1, 2]))]
        req = link_req(named, q)
        if len(named) == len(songs):
            EXPECT[req] = m.group(2)
        if q:
            tags = tags | {"query"}
        yield Case(req, sorted(tags), "conv")
        if len(named) > 1 and rng.random() < 0.5:
            perm = named[:]
            rng.shuffle(perm)
            yield Case(link_req(perm), sorted(tags | {"reordered"}), "conv")

    # ---- hand-assembled sets
    for k in range(60 if quick else 900):
        ns = rng.choice([1, 2, 3, 4, 6])
        songs, tags = [], set(["raw", "songs-%d" % ns])
        d11 = rng.random() < 0.25   # PCM headers with start offsets (D11, repaired)
        for i in range(ns):
            f, t = raw_song(rng, d11=d11)
            tags |= t
            songs.append((rng.choice(NAMES), f))
            valid_files.append(f)
        q = [rng.randrange(0, ns + 1) for _ in range(rng.choice([0, 0, 1, 3]))]
        if q:
            tags.add("query")
        yield Case(link_req(songs, q), sorted(tags), "raw")

    # ---- PCM placement family: shared prefixes, zero tails, all-zero samples, alignment gaps, bank boundaries
    for k in range(45 if quick else 500):
        songs, tags = pcm_family(rng, big=(k % 9 == 8))
        q = [rng.randrange(0, len(songs) + 1)] if rng.random() < .3 else []
        yield Case(link_req(songs, q), sorted(tags | {"raw", "songs-%d" % len(songs)} | ({"query"} if q else set())), "pcm-family")

    # ---- many data entries: the 32 KiB data bank limit
    for k in range(1 if quick else 4):
        big = [(b"glob", i, fill(rng.choice([900, 1500, 2047]), i + 16 * k)) for i in range(20)]
        seq = struct.pack(">H", 2) + b"\0" * 40
        cut = rng.randrange(10, 20)
        yield Case(link_req([("big", mds(seq=seq, dblk=big[:cut])), ("big2", mds(seq=seq, dblk=big[cut - 3:]))]), ("raw", "data-bank-limit"), "raw")

    # ---- malformed stream
    for k in range(80 if quick else 1500):
        f = rng.choice(valid_files) if valid_files else mds(seq=SEQ0)
        g, tag = (pcm_field_mutation if rng.random() < 0.2 else mutate)(rng, f)
        first = [("ok", rng.choice(valid_files))] if valid_files and rng.random() < 0.5 else []
        yield Case(link_req(first + [("m", g)]), ("malformed", tag), "malformed")


def outcome_class(a):
    if a.startswith("crash") or a == "timeout":
        return "crash"
    m = re.match(r"ops=(\S+)", a)
    if not m:
        return a[:20]
    last = m.group(1).split(",")[-1]
    if "end=aborted" in a:
        return "aborted:" + last
    m2 = re.search(r" seq=(err:\w+|exc:\w+)", a)
    return "linked" if not m2 else "seq-" + m2.group(1)


def field(a, k):
    m = re.search(r"(?:^| )%s=(\S+)" % k, a)
    return m.group(1) if m else None


def direct_mismatch(case, impl):
    exp = EXPECT.get(case.req)
    if not exp or exp.startswith(("err:", "exc:", "skip")) or "seq=" not in impl:
        return False
    got = []
    for k in ("seq", "pcm", "asm", "c"):
        v = field(impl, k)
        if v is None:
            return True
        got.append(v if v.startswith(("err:", "exc:")) else lenfnv(bytes.fromhex(v.replace("-", ""))))
    return ",".join(got) != exp


def extra_fail(case, impl, judge):
    return direct_mismatch(case, impl)


def finding_key(case, impl, judge):
    if impl.startswith("crash") or impl == "timeout" or impl.startswith("uncaught"):
        m = re.search(r"(\w+\.cpp:\d+)", impl)
        return "crash:" + (m.group(1) if m else (impl.split(" ")[1] if " " in impl else impl))
    if judge.startswith("fail"):
        w = judge.split()
        what = re.sub(r"\d+", "N", " ".join(w[2:6]))
        return (w[1].rstrip(":") + ":" + re.sub(r"[^A-Za-z]+", "-", what).strip("-"))[:70]
    if direct_mismatch(case, impl):
        return "direct-vs-bytes"
    return "case"


def shrink(req):
    """drop one op at a time"""
    ops = req.split()[1:]
    for i in range(len(ops)):
        if len(ops) > 1:
            yield "link " + " ".join(ops[:i] + ops[i + 1:])
