"""C09 — The MDS container is complete and internally consistent."""
import itertools, os, re, struct
from vlib.core import Case, ROOT
from vlib import songgen
from checks import c11

ID = "C09"
LEAN_MODULE = "Ctrmml.Properties.C09"
THEOREMS = ["C09_mds_shape", "C09_track_table_exact", "C09_slot_count", "C09_volume_carried", "C09_ids_injective_partial",
            "C09_ids_injective", "C09_tracks_exact", "C09_index_resolves", "C09_event_names", "C09_data_resolves", "C09_nothing_unused",
            "C09_index_fits_byte", "C09_d19_counterexample_before_fix",
            "C09_reader_sees_operands_partial", "C09_seq_bytes", "C09_full_partial", "C09_nothing_unused_bytes", "fullPartialHyps_sound",
            "C09_writer_run_in_frag", "C09_writer_outputs_in_frag", "C09_small_of_sizes", "C09_small_of_2GiB", "C09_full_partial2", "fullHyps_sound",
            "ex4_construct", "ex4_hyps", "ex5_run", "ex5_construct", "ex5_hyps"]
LEVEL = "proof"
STREAM = "mds.bytes+conv.maps"
CHUNK = 120
CASE_SECONDS = 30
TECHNIQUE = ("Lean 4 theorems over the model of the MDSDRV_Converter constructor assembly / get_mds (Model/MdsFile on top of Model/MdsConv, MdsCodec, MdsData, Wave, Riff) "
             "+ resolver spec (Spec/MdsResolve) run on the REAL file + differential correspondence model<->mdsdrv.cpp on the whole MDS file")
LEVEL_TEXT = ("Machine-checked over the model of the converter (writer of Model/MdsConv + assembly/get_mds of Model/MdsFile): the exported bytes are the serialisation of "
              "RIFF/MDS0 [ver,grp,seq,LIST dblk(glob|pcmh)*,pcmd] and walk back to it (C09_mds_shape); header = base 4+4n, volume byte = min 127 #volume, count, one entry per channel "
              "track of the song (ids < 16, ascending, at most 16: C09_tracks_exact) whose offset is the start of that track's convert_track bytes (C09_track_table_exact); exactly "
              "|subs|+|macros|+|data| slots follow, stream slots point at the subroutine / macro streams, data slots are zero (C09_slot_count). An invariant carried through the "
              "mutually recursive hook/runWriter/getSubroutine/getMacroTrack by induction on the fuel (Proofs/MdsHook, MdsInv, MdsInd) gives: the three maps number their keys 0,1,2,.. "
              "injectively, hence dblk ids are pairwise distinct (C09_ids_injective); every PAT/INS/PCM/PEG/MTAB event of every emitted list refers to a key present in its map, the "
              "index leads through the pointer table to the bytes of the list registered under that key, and that list is what the writer makes of the track the key names "
              "(C09_index_resolves); every used_data_map key has its dblk entry holding the named data-bank item (C09_data_resolves); every subroutine, macro track and data item is "
              "the target of an emitted index-bearing event (C09_nothing_unused); operands fit their byte or the export is rejected (C09_index_fits_byte; D19 and the 16-bit offset wrap fixed). "
              "Round 3, reader side: convert_track's output is kept an instruction list through every iteration incl. the loop-break back-patch (Proofs/MdsRead*), so for every event list of the "
              "fragment Frag (all commands of convert_track's switch incl. PAT, drum mode, DMFINISH, loops with breaks, loop point/jump; only terminator last; loops balanced; stream < 64 KiB) the "
              "decoder of Spec/MdsResolve (decodeStream, boundaries by SeqWf.instrLen) walks the stream wherever it lies to exactly its end and returns exactly one reading per byte-emitting event; every "
              "decoded PAT/INS/PCM/PEG/MTAB operand is the offset argument of an event and every such event is decoded (C09_reader_sees_operands_partial). Composed with the invariant, THROUGH the "
              "serialised file: parseFile (RIFF walk, C13) returns the container with seq and the dblk entries (ids distinct, inside the data slots), headerOf reads base/slots/channel tracks at their "
              "stream positions, decodeStream at every channel track and at streamPos of every subroutine slot returns opsOf of the emitted list, and every decoded index operand resolves via "
              "MdsResolve.resolve to the stream of the subroutine / macro track registered under the writer's key resp. to the content of THE entry holding the data-bank item (C09_full_partial). "
              "Byte-level nothing_unused with the exceptions explicit (C09_nothing_unused_bytes). Round 4: every list the writer returns — any track, any conversion state, any budget — is in the "
              "reader fragment Frag (okEv events, the only terminator last, loops balanced: C09_writer_run_in_frag, by an invariant tying the LP/LPF depth of the emitted list to the player's stack, "
              "with D25's repair for drum routines), hence every channel/subroutine list of an export (C09_writer_outputs_in_frag); the 4 GiB format bound follows from a decidable bound on the input "
              "sizes (C09_small_of_sizes, C09_small_of_2GiB); C09_full_partial2 = C09_full_partial without the fragment hypothesis and with the size bound; its construct hypothesis is met by songs with "
              "a channel track (ex4_construct/ex4_hyps: one note; ex5_run/ex5_construct/ex5_hyps: `A [c]2 *100` with a subroutine — the well-founded writer unfolded one runWriter iteration per "
              "rewrite by the equation lemmas of Proofs/MdsFragEx, states unified by rfl).")
LEVEL_NOTE = ("Hypothesis PlatformClean: no platform `cmd` injects a raw PAT/INS/PCM/PEG/MTAB opcode (the song names nothing for such an operand). Residual hypotheses of C09_full_partial2: platformFrag (the events a "
              "raw platform `cmd` injects are okEv, no terminators, no LP/LPF — the fragment itself is proved), every stream < 64 KiB (then the exported seq consists of bytes: C09_seq_bytes), sorted "
              "track map, at least one channel track (Spec/MdsFrag.fullHyps, sound by fullHyps_sound), input sizes below 4 GiB - 64 in total (exportSmall) — all EVALUATED by the judge on the model's "
              "export of every accepted generated song together with fragB (a list outside Frag would now contradict a theorem): see the note 'C09_full_partial2 residual hypotheses' of each run; "
              "macro streams resolve when non-empty. Still decided per case by checkFile on the real file only "
              "(C09_full_statement): the comparison of the decoded operands with the SONG's events (namedOf/matchAll/visit work list: which id each operand must name is proved per hook call, "
              "C09_event_names, not along the player's traversal), drum-note operands (that a note decoded in drum mode is a routine index), the expected entry CONTENTS against the C11 encoder, "
              "contiguity of streams, pcm bounds. Byte-level nothing_unused: entries referenced only from a macro-track list (convert_macro_track drops index operands), by a zero-length drum note or "
              "by a drum note inside a drum routine (operand of DMFINISH) are emitted but named by no index operand of the sequence — they ARE named by the song (C09_nothing_unused), so this is "
              "recorded as an observation, not a violation of the 'nothing unused' clause; the oracle accounts for them as `dropped`. Trusted: Lean kernel, hand-written model and spec, C11 encoder "
              "model as the reference for entry contents, g++/ASan/UBSan, harness.")
RULE = ("songs built from items {fm, 2op, psg, pcm instrument, normal/extended pitch envelope, subroutine, shared subroutine, drum routine, macro track}: corpus (D7, D19 and the "
        "index-limit boundaries 254/255/256), all permutations of definition order x first-use order for item sets of size <= 4 (flat, nested in subroutines, shared between "
        "channels), seeded random songs (songgen material + references, unused and duplicate definitions, PCM from generated WAVs), malformed (missing/ill-typed references, "
        "bad definitions); non-trivial = at least one index-bearing reference; distinct by request text")
EXPLANATION = "whole MDS file byte-exact model vs real; resolver oracle (shape, header, track table, slots, every operand resolved, unused slots, layout) on the real file"
ASSUMPTIONS = ["MDSDRV sequence layout as written in Spec/SeqInterp.lean / Spec/MdsResolve.lean (data slots share the pointer-table index space: the linker patches slot id*2)",
               "entry contents are compared against the C11 encoder model (Model/MdsData, Model/Wave)",
               "files below 4 GiB; IEEE binary64 for envelope slides"]
TRUSTED = ["C11 encoder model as reference for dblk contents"]

WORK = os.path.join(ROOT, "build", "c09work")


def workdir():
    os.makedirs(WORK, exist_ok=True)
    return WORK


def clean_workdir():
    import shutil
    shutil.rmtree(WORK, ignore_errors=True)
    os.makedirs(WORK, exist_ok=True)


T = None


def E(name, p=0, on=0, off=0):
    return (T[name], p, on, off)


# ---------------------------------------------------------------- definitions
def fm_tokens(k):
    """a 42-number FM definition that differs for each k"""
    toks = [k % 8, (k // 8) % 8]
    for op in range(4):
        toks += [(k + op) % 32, (k * 3 + op) % 32, (k // 2) % 32, k % 16, (k + 5) % 16, (k * 7 + op) % 128, op % 4, (k + op) % 16, k % 8, 0]
    return ["fm"] + [str(t) for t in toks]


def wav_bytes(frames, seed, rate=8000):
    n = frames
    d = bytes(((seed + 31 * i + i // 256) & 255) for i in range(n))
    v = b"RIFF" + struct.pack("<I", 4 + 24 + 8 + n + (n & 1)) + b"WAVE" + b"fmt " + struct.pack("<IHHIIHH", 16, 1, 1, rate, rate, 1, 8)
    v += b"data" + struct.pack("<I", n) + d
    if n & 1:
        v += b"\0"
    return v


class Item:
    """kind, definition groups [(key, tokens)], extra request tokens (W:), tracks {id: events}, the use events"""
    def __init__(self, kind, groups=(), extra=(), tracks=None, use=()):
        self.kind, self.groups, self.extra, self.tracks, self.use = kind, list(groups), list(extra), dict(tracks or {}), list(use)


def make_item(kind, n, rng=None):
    """n: a small number making ids and contents distinct"""
    if kind == "fm":
        return Item(kind, [("@%d" % (n + 1), fm_tokens(n + 3))], use=[E("INS", n + 1)])
    if kind == "2op":
        return Item(kind, [("@%d" % (n + 40), fm_tokens(n + 11)), ("@%d" % (n + 1), ["2op", str(n + 40), "1", "2", "3", str(n % 16), str(n - 3)])], use=[E("INS", n + 1)])
    if kind == "psg":
        return Item(kind, [("@%d" % (n + 1), ["psg", "15", "%d>%d:%d" % (12, n % 12, 3 + n)])], use=[E("INS", n + 1)])
    if kind == "pcm":
        name = "c09_%d.wav" % n
        return Item(kind, [("@%d" % (n + 1), ["pcm", name])], extra=["W:%s=%s" % (name, wav_bytes(6 + 2 * n, 17 * n + 1).hex())], use=[E("INS", n + 1)])
    if kind == "pitch":
        return Item(kind, [("@m%d" % (n + 1), ["0>1:%d" % (10 + n)])], use=[E("PITCH_ENVELOPE", n + 1)])
    if kind == "pitchx":
        return Item(kind, [("@m%d" % (n + 1), ["0>%d:%d" % (5 + n, 10)])], use=[E("PITCH_ENVELOPE", n + 1)])
    if kind == "sub":
        tid = 110 + n
        return Item(kind, tracks={tid: [E("VOL", n % 16), E("NOTE", 30 + n, 3, 1)]}, use=[E("JUMP", tid)])
    if kind == "drum":
        tid = 200 + n
        return Item(kind, tracks={tid: [E("PAN", 1 + n % 3), E("NOTE", 20 + n, 0, 0)]}, use=[E("DRUM_MODE", 1), E("NOTE", tid, 4, 2), E("DRUM_MODE", 0)])
    if kind == "macro":
        tid = 300 + n
        evs = [E("PAN", 1)] + [E("VOL_REL", 1) for _ in range(n % 4)] + [E("REST", 0, 0, 5 + n), E("PAN", 2), E("REST", 0, 0, 300 + n)]
        return Item(kind, tracks={tid: evs}, use=[E("PAN_ENVELOPE", tid)])
    raise ValueError(kind)


def build_request(groups, extra, song, noext=False):
    defs = ("opt=noextpitch " if noext else "") + " ".join("; " + k + " " + " ".join(t) for k, t in groups)
    return "mds " + defs + " | " + " ".join(list(extra) + [songgen.render(song)])


def song_from_items(def_order, use_order, variant, rng=None):
    """def_order / use_order: lists of Item.  The uses go on channel 12 (no instrument-type
    constraint) in `use_order`; variants nest the tail in subroutine 90 shared with channel 13."""
    groups, extra, song = [], [], {}
    for it in def_order:
        groups += it.groups
        extra += it.extra
        song.update(it.tracks)
    uses = [u for it in use_order for u in it.use]
    note = E("NOTE", 36, 6, 0)
    if variant == "flat":
        song[12] = uses + [note]
    elif variant == "nested":
        k = len(use_order[0].use) if use_order else 0
        song[12] = uses[:k] + [E("JUMP", 90), note]
        song[90] = uses[k:] + [E("NOTE", 50, 2, 2)]
        song[13] = [E("JUMP", 90)] + uses[:k] + [note]
    elif variant == "shared":
        # channel 12 reaches the items through subroutine 90, channel 13 uses them directly in reverse
        song[12] = [E("JUMP", 90), note]
        h = len(use_order) // 2
        song[90] = [E("JUMP", 91)] + [u for it in use_order[:h] for u in it.use] + [E("NOTE", 50, 2, 2)]
        song[91] = [u for it in use_order[h:] for u in it.use] + [E("NOTE", 51, 2, 2)]
        song[13] = [u for it in reversed(use_order) for u in it.use] + [E("JUMP", 91), note]
    return groups, extra, song


def tags_for(kinds, more=()):
    t = set(more)
    for k in kinds:
        t.add({"pitchx": "pitch-ext"}.get(k, k))
    return sorted(t)


def many_subs(n, extra_defs=(), extra_uses=(), macro=0):
    """channel 12 calls n one-note subroutines, then the extra uses"""
    song = {12: [E("JUMP", 1000 + i) for i in range(n)]}
    for i in range(n):
        song[1000 + i] = [E("NOTE", 10 + i % 50, 2, 0)]
    for m in range(macro):
        song[300 + m] = [E("PAN", 1), E("REST", 0, 0, 4)]
        song[12].append(E("PAN_ENVELOPE", 300 + m))
    song[12] += list(extra_uses) + [E("NOTE", 36, 6, 0)]
    return build_request(list(extra_defs), [], song)


def corpus():
    out = []
    fm1 = ("@1", fm_tokens(1))
    out.append(("mds | V:5 T0:%d.1.1.0" % T["NOTE"], ["volume"]))                       # D7 (fixed)
    out.append(("mds | V:200 G:sfx T0:%d.1.1.0" % T["NOTE"], ["volume"]))
    out.append(("mds | T0:%d.36.24.0" % T["NOTE"], []))
    out.append((many_subs(300), ["idx-limit", "sub"]))                                     # D19
    out.append((many_subs(256), ["idx-limit", "sub"]))                                     # indices 0..255: accepted
    out.append((many_subs(257), ["idx-limit", "sub"]))
    out.append((many_subs(255, [fm1], [E("INS", 1)]), ["idx-limit", "sub", "fm"]))         # INS operand 255: accepted
    out.append((many_subs(256, [fm1], [E("INS", 1)]), ["idx-limit", "sub", "fm"]))         # INS operand 256: must reject
    out.append((many_subs(254, [("@m1", ["0>1:10"])], [E("PITCH_ENVELOPE", 1)]), ["idx-limit", "pitch"]))   # PEG operand 255
    out.append((many_subs(255, [("@m1", ["0>1:10"])], [E("PITCH_ENVELOPE", 1)]), ["idx-limit", "pitch"]))   # PEG operand 256 -> "off" before the fix
    out.append((many_subs(254, macro=1), ["idx-limit", "macro"]))                          # MTAB operand 255
    out.append((many_subs(255, macro=1), ["idx-limit", "macro"]))                          # MTAB operand 256
    # 16-bit stream offsets: 16 channels of two-byte notes; 2100 each = 67 KiB but every stream starts below 64 KiB
    # (accepted), 2300 each: channel P would start at 69015 (wrapped to 3479 before the fix) -> must reject
    for n in (2100, 2300):
        out.append(("mds | " + songgen.render({t: [E("NOTE", 10 + (i % 60), 1 + (i % 2), 0) for i in range(n)] for t in range(16)}), ["seq-64k"]))
    # a drum routine that calls a subroutine, the same subroutine called from the channel too: one converted copy
    # per drum state, every PAT index and drum slot resolving to the encoding of the named track (seeded change C09-8)
    for callee in ([E("PAN", 2), E("VOL_REL", 1)], [E("PAN", 2), E("NOTE", 44, 2, 1), E("VOL_REL", 1)], [E("PAN", 1), E("REST", 0, 0, 2)]):
        for chan_calls in (False, True):
            song = {0: ([E("JUMP", 110)] if chan_calls else []) + [E("DRUM_MODE", 1), E("NOTE", 83, 2, 1), E("NOTE", 84, 2, 1), E("DRUM_MODE", 0), E("NOTE", 12, 3, 1)],
                    83: [E("VOL", 5), E("JUMP", 110), E("NOTE", 43, 1, 0)], 84: [E("JUMP", 110), E("VOL", 3), E("NOTE", 45, 1, 0)], 110: callee}
            out.append(("mds | " + songgen.render(song), ["drum", "sub", "routine-call"]))
    # instruments / envelopes / macro / drum / shared subs in one song
    items = [make_item(k, i) for i, k in enumerate(["fm", "psg", "pitch", "pitchx", "sub", "drum", "macro", "2op"])]
    g, x, s = song_from_items(items, items, "nested")
    out.append((build_request(g, x, s), tags_for([i.kind for i in items], ["shared-sub"])))
    # FM on A, PSG on G, PCM on K with type checks in force
    pcm = make_item("pcm", 2)
    song = {0: [E("INS", 1), E("NOTE", 36, 4, 0), E("JUMP", 100)], 6: [E("INS", 7), E("NOTE", 30, 4, 0), E("JUMP", 100)],
            10: pcm.use + [E("NOTE", 12, 4, 0)], 100: [E("NOTE", 40, 2, 2)]}
    out.append((build_request([fm1, ("@7", ["psg", "15", "10"])] + pcm.groups, pcm.extra, song), ["fm", "psg", "pcm", "shared-sub"]))
    # two PCM instruments on the same wave file with different rate / offset overrides: two headers,
    # one copy of the sample data; and the same file twice without overrides: one header
    wname = "c09_same.wav"
    wtok = "W:%s=%s" % (wname, wav_bytes(40, 9).hex())
    for tagsets in ([["pcm", wname, "rate=8000"], ["pcm", wname, "rate=16000"]],
                    [["pcm", wname], ["pcm", wname, "rate=12000"]],
                    [["pcm", wname], ["pcm", wname]],
                    [["pcm", wname, "rate=11025"], ["pcm", wname, "rate=11025"], ["pcm", wname, "rate=4000"]]):
        groups = [("@%d" % (30 + i), t) for i, t in enumerate(tagsets)]
        evs = []
        for i in range(len(tagsets)):
            evs += [E("INS", 30 + i), E("NOTE", 12, 4, 0)]
        out.append((build_request(groups, [wtok], {10: evs}), ["pcm", "pcm-same-wave"]))
    # two different wave files, the later instruments reusing the data of an earlier one (with a
    # rate or offset override): the `pcmd` chunk must hold every sample, wherever the last header points
    w2name = "c09_other.wav"
    w2tok = "W:%s=%s" % (w2name, wav_bytes(8000, 5).hex())
    w1big = "W:%s=%s" % (wname, wav_bytes(9000, 9).hex())
    for wt, tagsets in ((wtok, [["pcm", wname], ["pcm", w2name], ["pcm", wname, "rate=8000"]]),
                        (w1big, [["pcm", wname], ["pcm", w2name], ["pcm", wname, "rate=8000"]]),
                        (w1big, [["pcm", wname], ["pcm", w2name], ["pcm", wname, "offset=100"]]),
                        (w1big, [["pcm", w2name], ["pcm", wname], ["pcm", w2name, "rate=22050"], ["pcm", wname, "offset=4000"]])):
        groups = [("@%d" % (30 + i), t) for i, t in enumerate(tagsets)]
        evs = []
        for i in range(len(tagsets)):
            evs += [E("INS", 30 + i), E("NOTE", 12, 4, 0)]
        out.append((build_request(groups, [wt, w2tok], {10: evs}), ["pcm", "pcm-reuse-earlier"]))
    # duplicate definitions share one entry; unused ones are not emitted
    out.append((build_request([("@1", fm_tokens(1)), ("@2", fm_tokens(1)), ("@3", fm_tokens(2)), ("@m1", ["0>1:10"]), ("@m2", ["0>1:10"]), ("@m3", ["0>2:10"])], [],
                              {12: [E("INS", 2), E("INS", 1), E("PITCH_ENVELOPE", 2), E("PITCH_ENVELOPE", 1), E("NOTE", 36, 6, 0)], 400: [E("NOTE", 1, 1, 0)]}),
                ["fm", "pitch", "dup-def", "unused-def"]))
    # the same envelope bytes used as extended and as normal data
    out.append((build_request([("@m1", ["0>5:10"]), ("@m2", ["0>5:10"])], [], {12: [E("PITCH_ENVELOPE", 1), E("PITCH_ENVELOPE", 2), E("NOTE", 36, 6, 0)]}), ["pitch-ext", "dup-def"]))
    # references made inside a macro track are registered but cannot be emitted
    out.append((build_request([fm1], [], {12: [E("PAN_ENVELOPE", 300), E("NOTE", 36, 6, 0)], 300: [E("INS", 1), E("PAN", 1), E("JUMP", 100), E("REST", 0, 0, 4)], 100: [E("NOTE", 3, 1, 0)]}),
                ["macro", "macro-ref"]))
    # macro track with loop, break, loop point and long waits
    out.append((build_request([], [], {12: [E("PAN_ENVELOPE", 300), E("NOTE", 36, 6, 0)],
                                       300: [E("PAN", 1), E("SEGNO"), E("LOOP_START"), E("VOL_REL", 1), E("REST", 0, 0, 700), E("LOOP_BREAK"), E("TRANSPOSE_REL", 1), E("NOTE", 3, 300, 0), E("LOOP_END", 3), E("DETUNE", 2), E("REST", 0, 0, 2)]}),
                ["macro"]))
    # drum routine shared between channels, and the same track as subroutine and as drum routine
    out.append((build_request([], [], {12: [E("DRUM_MODE", 1), E("NOTE", 200, 4, 0), E("DRUM_MODE", 0), E("JUMP", 200)], 13: [E("JUMP", 200), E("DRUM_MODE", 1), E("NOTE", 200, 4, 0), E("NOTE", 201, 4, 0)],
                                       200: [E("VOL", 3), E("NOTE", 20, 2, 0)], 201: [E("NOTE", 21, 0, 0)]}), ["drum", "sub", "shared-sub"]))
    # subroutine called with drum mode on and off: two entries
    out.append((build_request([], [], {12: [E("JUMP", 100), E("DRUM_MODE", 1), E("JUMP", 100), E("DRUM_MODE", 0), E("NOTE", 1, 1, 0)], 100: [E("NOTE", 20, 2, 0)], 20: [E("NOTE", 5, 0, 0)]}), ["drum", "sub"]))
    # malformed
    out.append((build_request([], [], {12: [E("JUMP", 100)]}), ["malformed"]))
    out.append((build_request([], [], {12: [E("INS", 9), E("NOTE", 1, 1, 0)]}), ["malformed"]))
    out.append((build_request([("@1", ["psg", "15"])], [], {0: [E("INS", 1), E("NOTE", 1, 1, 0)]}), ["malformed"]))
    out.append((build_request([], [], {12: [E("PAN_ENVELOPE", 300)]}), ["malformed"]))
    out.append((build_request([], [], {12: [E("PITCH_ENVELOPE", 3)]}), ["malformed"]))
    out.append((build_request([("@2", ["2op", "9", "1", "1", "1", "1", "0"])], [], {12: [E("NOTE", 1, 1, 0)]}), ["malformed"]))
    out.append((build_request([], [], {12: [E("JUMP", 100)], 100: [E("JUMP", 100)]}), ["malformed"]))
    # inputs of the repository fixes 696884e, 45b84a6, 54bd60e, d4781ad, 3905cd3
    out.append((build_request([("@1", [])], [], {12: [E("NOTE", 1, 1, 0)]}), ["malformed"]))                       # instrument without a type
    out.append((build_request([("@1", ["psg", "15"]), ("@24", ["2op", "1", "1", "1", "1", "1", "0"])], [], {12: [E("NOTE", 1, 1, 0)]}), ["malformed"]))   # 2op on a PSG instrument
    out.append((build_request([("@1", fm_tokens(1)), ("@2", ["2op", "1", "5", "5", "4", "4", "0"]), ("@3", ["2op", "2", "1", "2", "3", "4", "-4"])], [],
                              {12: [E("INS", 3), E("NOTE", 36, 6, 0), E("INS", 2), E("NOTE", 36, 6, 0)]}), ["fm", "2op"]))     # 2op on a 2op
    out.append((build_request([("@m1", ["0"] * 257)], [], {12: [E("PITCH_ENVELOPE", 1), E("NOTE", 1, 1, 0)]}), ["malformed"]))  # 257 nodes
    out.append((build_request([("@m1", ["0", "1"] * 128)], [], {12: [E("PITCH_ENVELOPE", 1), E("NOTE", 36, 6, 0)]}), ["pitch"]))   # 256 nodes: accepted
    out.append((build_request([("@m1", ["V0:1:1073741824"])], [], {12: [E("PITCH_ENVELOPE", 1), E("NOTE", 1, 1, 0)]}), ["malformed"]))
    out.append((build_request([], ["P:-32768="], {12: [E("PLATFORM", -32768), E("NOTE", 36, 6, 0)]}), ["malformed", "platform"]))   # empty platform command
    out.append((build_request([], [], {12: [E("JUMP", -25536), E("NOTE", 36, 6, 0)], 40000: [E("NOTE", 40, 2, 0)]}), ["sub"]))    # call to track 40000 = int16 -25536
    out.append((build_request([], [], {12: [E("JUMP", -1), E("DRUM_MODE", 1), E("JUMP", -1), E("NOTE", 36, 6, 0)], 65535: [E("NOTE", 40, 2, 0)], 36: [E("NOTE", 1, 0, 0)]}), ["sub", "drum"]))
    return out


KINDS = ["fm", "2op", "psg", "pitch", "pitchx", "sub", "drum", "macro", "pcm"]

PERM_SETS_QUICK = [["fm", "pitchx", "sub", "macro"], ["psg", "pitch", "drum", "sub"]]
PERM_SETS_THOROUGH = PERM_SETS_QUICK + [["2op", "fm", "pitch", "macro"], ["pcm", "fm", "sub", "drum"], ["macro", "macro", "sub", "sub"],
                                        ["pitch", "pitchx", "pitch", "psg"], ["fm", "fm", "psg", "pcm"], ["drum", "drum", "macro", "pitchx"]]


def perm_cases(rng, tier):
    sets = PERM_SETS_QUICK if tier == "quick" else PERM_SETS_THOROUGH
    for si, kinds in enumerate(sets):
        items = [make_item(k, i) for i, k in enumerate(kinds)]
        for dp in itertools.permutations(range(len(items))):
            for up in itertools.permutations(range(len(items))):
                if tier == "quick":
                    variants = ["flat"] if si == 0 else [rng.choice(["nested", "shared"])] if rng.random() < 0.5 else []
                else:
                    variants = ["flat", rng.choice(["nested", "shared"])]
                for v in variants:
                    # definition order = order of ids / tags: re-number the items in dp order
                    ditems = [make_item(kinds[j], n) for n, j in enumerate(dp)]
                    by_j = {j: ditems[n] for n, j in enumerate(dp)}
                    g, x, s = song_from_items(ditems, [by_j[j] for j in up], v)
                    yield Case(build_request(g, x, s), tags_for(kinds, ["perm", v]), "perm-" + v)
    # smaller sets: every subset of size <= 3 of the kinds, one order each + its reverse
    for r in (1, 2, 3):
        for kinds in itertools.combinations(KINDS, r):
            if tier == "quick" and r == 3 and rng.random() < 0.6:
                continue
            items = [make_item(k, i) for i, k in enumerate(kinds)]
            for up in (items, items[::-1]):
                g, x, s = song_from_items(items, up, rng.choice(["flat", "nested", "shared"]))
                yield Case(build_request(g, x, s), tags_for(kinds, ["subset"]), "subsets")


def random_song(rng):
    """songgen material on 1..4 channels with references sprinkled in; unused and duplicate definitions"""
    tags = set()
    kinds = [rng.choice(KINDS) for _ in range(rng.randrange(0, 7))]
    items = [make_item(k, i) for i, k in enumerate(kinds)]
    groups, extra = [], []
    order = list(items)
    rng.shuffle(order)
    for it in order:
        groups += it.groups
        extra += it.extra
    # duplicates / unused
    if rng.random() < 0.3 and groups:
        k, t = rng.choice(groups)
        if not (t and t[0] == "2op"):
            pre = "@m" if k.startswith("@m") else "@"
            groups.insert(rng.randrange(len(groups) + 1), (pre + str(60 + rng.randrange(5)), list(t)))
            tags.add("dup-def")
    if rng.random() < 0.3:
        groups.append(("@%d" % (70 + rng.randrange(5)), rng.choice([fm_tokens(rng.randrange(50, 60)), ["psg", "15", "3"]])))
        tags.add("unused-def")
    if rng.random() < 0.2:
        groups.append(("@m%d" % (70 + rng.randrange(5)), ["3>0:%d" % rng.randrange(2, 40)]))
        tags.add("unused-def")
    chans = rng.choice([[12], [12, 13], [0, 6, 12], [12, 13, 14, 15], [3, 12], [5, 10, 12]])
    subs = rng.choice([[], [100], [100, 101], [100, 101, 102]])
    g = songgen.G(rng, max_depth=rng.choice([0, 1, 2]), subs=subs, counts=[1, 2, 2, 3], allow_neg=False, p_segno=0.03,
                  notes=list(range(0, 90)), durs=[1, 2, 3, 6, 12, 24, 48, 127, 128, 129, 300],
                  cmds=["VOL", "TRANSPOSE", "PAN", "VOL_REL", "TEMPO_BPM", "DETUNE", "SLUR"], max_items=5)
    base = g.song(0)
    song = {}
    for sid in subs:
        song[sid] = base[sid]
    for c in chans:
        song[c] = g.seq(0, False, True)
    for it in items:
        song.update(it.tracks)
    # place uses: at loop depth 0 boundaries or anywhere (inside loops is fine too)
    hosts = [c for c in chans if c >= 12] + subs
    if not hosts:
        hosts = chans
    for it in items:
        for _ in range(rng.choice([1, 1, 2, 3])):
            h = rng.choice(hosts)
            if it.kind == "fm" and rng.random() < 0.3 and any(c < 6 for c in chans):
                h = rng.choice([c for c in chans if c < 6])
            if it.kind == "psg" and rng.random() < 0.3 and 6 in chans:
                h = 6
            if it.kind == "pcm" and rng.random() < 0.5 and (10 in chans or 5 in chans):
                h = 10 if 10 in chans else 5
            evs = song[h]
            k = rng.randrange(len(evs) + 1)
            if it.kind == "drum":
                # keep drum mode bracketed; notes between must be routine numbers
                song[h] = evs[:k] + it.use + evs[k:]
            else:
                song[h] = evs[:k] + it.use + evs[k:]
    if len(subs) >= 1 and len(chans) >= 2:
        tags.add("shared-sub")
    if rng.random() < 0.15:
        song[chans[0]].insert(0, E("PLATFORM", -32768))
        extra.append(rng.choice(["P:-32768=pcmrate,4", "P:-32768=lfo,3,5", "P:-32768=write,0x28,0xf0", "P:-32768=lforate,3", "P:-32768=fm3,1010"]))
        tags.add("platform")
    if rng.random() < 0.3:
        extra.append("V:%d" % rng.choice([0, 1, 5, 100, 127, 128, 255, 256, 1000]))
        tags.add("volume")
    if rng.random() < 0.2:
        extra.append("G:" + rng.choice(["bgm", "sfx", "x", "Group1"]))
    for k in kinds:
        tags.add({"pitchx": "pitch-ext"}.get(k, k))
    return build_request(groups, extra, song, noext=rng.random() < 0.1), sorted(tags) or ["plain"]


def malformed(rng):
    req, tags = random_song(rng)
    toks = req.split(" ")
    kind = rng.choice(["drop-track", "drop-def", "bad-def", "wrong-chan", "trunc"])
    bar = toks.index("|")
    if kind == "drop-track":
        tr = [i for i, t in enumerate(toks) if re.match(r"T\d{3}", t)]
        if tr:
            del toks[rng.choice(tr)]
    elif kind == "drop-def":
        semis = [i for i, t in enumerate(toks[:bar]) if t == ";"]
        if semis:
            a = rng.choice(semis)
            b = min([s for s in semis if s > a] + [bar])
            del toks[a:b]
    elif kind == "bad-def":
        toks[bar:bar] = [";", rng.choice(["@9", "@m9"])] + rng.choice([["psg", "x"], ["fm", "1", "2"], ["zzz"], ["V"], ["pcm", "missing.wav"], ["2op", "77", "1", "1", "1", "1", "0"]])
    elif kind == "wrong-chan":
        have = {t.split(":")[0] for t in toks if t.startswith("T")}
        for i, t in enumerate(toks):
            if t.startswith("T12:"):
                new = "T" + rng.choice(["0", "7", "11"])
                if new not in have:
                    toks[i] = new + t[3:]
    else:
        for i, t in enumerate(toks):
            if t.startswith("T1") and "," in t and rng.random() < 0.5:
                toks[i] = t[:t.rindex(",")]
    return " ".join(toks), ["malformed"]


def cases(rng, tier):
    global T
    T = songgen.event_types()
    clean_workdir()
    for req, tags in corpus():
        yield Case(req, ["corpus"] + list(tags), "corpus")
    yield from perm_cases(rng, tier)
    n = 500 if tier == "quick" else 6000
    for _ in range(n):
        req, tags = random_song(rng)
        yield Case(req, tags, "structured")
    for _ in range(120 if tier == "quick" else 1200):
        req, tags = malformed(rng)
        yield Case(req, tags, "malformed")


def judge_notes(cases, impl, judge):
    """hypothesis coverage of C09_full_partial2: the judge evaluates Spec/MdsFrag.fullHyps, exportSmall and fragB on the
    model's export of every accepted song it judged ok"""
    hist = {}
    for j in judge:
        if j.startswith("ok H="):
            k = j[3:]
            hist[k] = hist.get(k, 0) + 1
    if not hist:
        return []
    tot = sum(hist.values())
    return ["C09_full_partial2 residual hypotheses (fullHyps, exportSmall; fragB re-evaluated) on the %d accepted songs judged ok: %s"
            % (tot, ", ".join("%s x%d" % kv for kv in sorted(hist.items())))]


def outcome_class(a):
    if a.startswith("file="):
        return "ok"
    return a.split(" ")[0][:40]


def finding_key(case, impl, judge):
    if impl.startswith("crash") or impl == "timeout" or impl.startswith("uncaught"):
        m = re.search(r"(\w+\.cpp:\d+)", impl)
        return "crash:" + (m.group(1) if m else "unknown")
    if impl.startswith("exc:"):
        return "foreign-exception:" + impl.split(" ")[0][4:40]
    m = re.match(r"fail (\w[\w ]*?):", judge)
    if m:
        key = m.group(1).replace(" ", "-")
        if key == "resolve":
            if "does not hold the encoding" in judge: return "resolve:wrong-entry"
            if "resolves to no data entry" in judge: return "resolve:no-entry"
            if "more than one" in judge: return "resolve:ambiguous"
            if "does not resolve to a stream" in judge: return "resolve:no-stream"
            if "where the stream holds" in judge or "the stream ends before" in judge or "does not name" in judge: return "resolve:wrong-stream"
            if "compiled as" in judge: return "resolve:wrong-stream"
            return "resolve:other"
        return key
    return "other"


def shrink(req):
    if len(req) > 60000:
        # the 64 KiB cases are already minimal in kind; shrinking them event by event would take minutes
        return
    head, _, tail = req.partition(" | ")
    toks = tail.split()
    song = songgen.parse_request_song("x " + tail)
    extra = [t for t in toks if not (t[0] == "T" and t[1:2].isdigit())]
    groups = [g.split() for g in head[4:].split(";")]
    opt, groups = groups[0], [g for g in groups[1:] if g]

    def render(gs, ex, s):
        return "mds " + " ".join(opt) + (" " if opt else "") + " ".join("; " + " ".join(g) for g in gs) + " | " + " ".join(list(ex) + [songgen.render(s)])
    for i in range(len(groups)):
        yield render(groups[:i] + groups[i + 1:], extra, song)
    for i in range(len(extra)):
        yield render(groups, extra[:i] + extra[i + 1:], song)
    for s2 in songgen.shrink_song(song):
        if any(k < 16 for k in s2):
            yield render(groups, extra, s2)
