"""C02 — MDSDRV bytecode plays exactly the song."""
import itertools, re
from vlib.core import Case
from vlib import songgen

ID = "C02"
LEAN_MODULE = "Ctrmml.Properties.C02"
THEOREMS = ["C02_stream_ends_with_finish_partial", "C02_codec_roundtrip_linear", "C02_codec_roundtrip_segno",
            "C02_codec_roundtrip_segno_once", "C02_codec_roundtrip_loops_nobreak_partial",
            "C02_convert_structured_eq", "C02_codec_roundtrip_loops", "C02_codec_roundtrip_track",
            "C02_stream_at_offset_partial", "C02_call_return_partial", "C02_double_break_fixed",
            "C02_track_at_offset_partial", "C02_track_shapes_convert", "C02_drum_call_return_partial",
            "C02_drum_routine_at_offset_partial", "C02_song_roundtrip_partial",
            "C02_optimised_song_roundtrip_partial", "C02_optimised_song_roundtrip_nodrum_partial", "optOriginal_of_B"]
LEVEL = "proof"
STREAM = "conv.events+conv.seq"
CHUNK = 100
CASE_SECONDS = 60     # (default 10; the real optimiser needs about 20 s under ASan for the 1000-event case of the D2 family)
TECHNIQUE = "Lean 4 theorems over the converter model (codec register invariant, structure of emitted streams) + spec interpreter of the real bytes + differential correspondence model<->mdsdrv.cpp"
LEVEL_TEXT = ("see DESIGN §6 C02 and the theorem list in lean/Ctrmml/Properties/C02.lean. Three layers, all machine-checked. (1) Codec: convert_track (real model) followed by the spec "
              "interpreter Seq.run gives back the tick string for every single track over the linear fragment (all durations 0..65535, all adjacencies, 128-tick splitting, length "
              "disambiguation) with nested counted loops with ANY NUMBER of breaks per loop (only the first is emitted: D23 fix), subroutine calls (annotated with what the callee plays) "
              "and a depth-0 loop point + loop-back jump, at any offset of a chunk, in the three shapes end_hook produces (FINISH / SEGNO..JUMP / SEGNO..FINISH), in either drum-flag state "
              "(Codec.Mode: with the flag set a note byte calls its routine, which plays its commands and ends with DMFINISH = its note with the caller's length: C02_drum_call_return_partial, "
              "C02_drum_routine_at_offset_partial) and with FLG commands that switch the flag at the top level of a track; convert_track is proved "
              "equal to a structured two-pass encoder in both directions (C02_convert_structured_eq and its converse for streams < 64 KiB). (2) Writer: MDSDRV_Track_Writer run over a "
              "well-formed track of the fragment emits exactly the flat event list of its events (hidden hook calls inside repeated loop passes and calls change nothing; the writer's "
              "drum-mode state follows the DRUM_MODE events in text order; a drum routine's writer stops at its first note with DMFINISH), carried "
              "through the mutually recursive get_subroutine by an invariant. (3) Whole songs: C02_song_roundtrip_partial — for every song of the fragment (no pitch "
              "envelope; platform commands whose events are one- or two-argument commands without index operand (or `carry`) and on which converter and timeline agree; macro tracks "
              "(pan envelope on) included; front-end timing; called tracks without loop point and drum-mode switch; DRUM_MODE outside counted loops; every routine the "
              "converter registered = commands without time and loops of them before its first note; the loop section ends in the drum-mode state it starts in; <= 1 loop point per "
              "channel; chunk < 64 KiB) and every channel track in "
              "Timeline.inDomain, the interpreter started at the position the track table lists plays, after masking of index operands, exactly Timeline.expected (calls to any depth "
              "through the pointer table in either drum-mode state, notes in drum mode through their routines, what is replayed after the loop-back jump). (4) Optimised songs: "
              "C02_optimised_song_roundtrip_partial — C01_optimize_preserves composed with (3): if Opt.optimize returns a validated song that lies in the fragment, the chunk "
              "assembled from the OPTIMISED song plays Timeline.expected of the ORIGINAL song (Timeline.expected is a function of the observation obs that C01 preserves and of "
              "how drum routines resolve: SongOpt.expected_congr; extra hypothesis DrumAlike = the routines named by the notes of a performance that switches drum mode resolve "
              "alike in both songs, vacuous without drum mode: C02_optimised_song_roundtrip_nodrum_partial). Outside the fragment "
              "(platform `cmd` with index-bearing or unknown opcodes, optimised songs whose result leaves the fragment, drum mode switched inside loops / by callees = D27) "
              "the statement C02_full_statement is decided per case by the spec interpreter on the REAL bytes against Spec/Timeline; the judge marks the cases that are instances "
              "of the whole-song theorem (ok proved-fragment; for `convo` requests: ok proved-fragment (optimised) = C01's hypotheses on the original song, no drum mode, "
              "the optimiser model's result in the fragment and assembled by MdsFile.construct to exactly the real bytes) and cross-checks the constructor model the theorem is stated over (MdsFile.construct) against the real bytes.")
LEVEL_NOTE = ("Trusted: Lean kernel; Model/MdsCodec+MdsConv+MdsFile (byte-exact agreement with mdsdrv.cpp by differential testing); Spec/SeqInterp = my reconstruction of the MDSDRV "
              "sequence rules (driver source not in the repository); Spec/Timeline+Expand; instrument tables are inputs (C11 models them). Proved for all inputs: single tracks of the "
              "codec fragment, and whole songs of the fragment, drum mode included (partial: extra hypotheses = chunk < 64 KiB, at most one loop point per channel track, called tracks "
              "without loop point / drum-mode switch, drum-mode switches outside loops, routine tracks = timeless commands before the first note, loop section ending in the drum state it "
              "starts in, platform commands agreeing between converter and timeline (PlatAgree), acceptance by the constructor; for optimised songs additionally the hypotheses "
              "of C01_optimize_preserves on the original song, the result validated and in the fragment, drum routines resolving alike). Pitch envelope definitions travel in the "
              "conv requests since round 5 (M:<id>=<form>:<k>:<index>; the harness defines @M<id> in compact / extended / loop-mark / vibrato form and echoes pitch_map and "
              "pitch_extend as peg=, the model takes them from the request). Still decided per case by the "
              "oracle: exotic platform `cmd` opcodes, optimised songs outside those hypotheses (D2 repaired in 6f86090: a fold takes at most 255 repetitions, Properties/C01 C01_optimize_counts_le_255; the family `d2_cases` "
              "runs 254..257, 300, 509..511, 1000 repetitions through optimiser + converter), acceptance (that the converter accepts every encodable song). Known: D24 (loop point in a called channel track), "
              "D27 (drum mode decided in text order by the writer, in execution order by the driver). The oracle's domain (skip otherwise): Timeline.inDomain and, since repo fix b6d6699 "
              "(the converter refuses a drum routine whose ending note is inside a '[]' loop: err:drumNoteInLoop), Fragment.routineNotesOutsideLoops (every routine the "
              "specification calls, execution order, has its first note outside loops); the model must refuse exactly the same songs (correspondence).")
RULE = ("IR songs in the encodable domain from the song grammar (1..4 channel tracks, subroutines, drum routines, loops with breaks, loop point at depth 0, commands, platform commands, "
        "instruments, pitch envelopes) + pitch family (definitions in four forms, switched on / to another / off at top level, in loops around the break, in subroutines, behind the loop point) + adjacency sweep: ordered triples over {explicit note, implicit-length note, tie, rest<128, rest>=128, rest=last rest, command, SEGNO, LP, LPB, LPF, PAT} x durations "
        "{1,2,127,128,129,256,65535}; non-trivial = has loop/call/segno/long duration; distinct by request text")
EXPLANATION = "spec interpreter on the real seq bytes vs tick string of the expansion; model vs real converter byte-exact"
ASSUMPTIONS = ["MDSDRV sequence semantics as written in Spec/SeqInterp.lean", "ppqn = 24 for bpm_to_delta"]

CORPUS = [
    "conv T0:2.36.24.0,2.38.12.12,1.0.0.24",
    "conv V:5 T0:2.36.24.0,4.0.0.0,2.38.12.0,5.0.0.0,2.40.12.0,6.3.0.0,8.100.0.0,7.0.0.0,2.36.300.0 T100:2.41.6.6,13.7.0.0",
    "conv T0:2.36.2.0,2.36.2.0,7.0.0.0,1.0.0.4,2.36.2.0",       # D4 (fixed)
    "conv T0:2.36.2.0,7.0.0.0",                                    # D5 (fixed)
    "conv I:1=fm:3:1 I:2=psg:5:2 T0:17.1.0.0,2.36.2.0 T6:17.2.0.0,2.30.2.0",
    "conv T0:26.1.0.0,2.100.6.2,2.101.3.1 T100:13.7.0.0,2.40.0.0 T101:2.41.0.0",
    "conv P:-32768=pcmrate,4 P:-32767=lfo,3,5 T0:11.-32768.0.0,2.36.2.0,11.-32767.0.0",
    "convo 10 T0:26.1.0.0,2.7.24.0,2.7.24.0",                  # drum routine missing: the optimiser reports an input error (0e6e685)
    "conv P:-32768= T0:11.-32768.0.0,2.36.2.0",                  # empty platform command '' (fix d4781ad): input error, was tag[0] of an empty tag
    "conv P:-32768=, T0:2.36.2.0,11.-32768.0.0",
    "conv P:-32768=cmd,0xfc,2 T0:11.-32768.0.0,2.36.2.0",      # a raw `cmd` injects a loop break / loop end without loop start:
    "conv P:-32768=cmd,0xfb,2 T0:2.36.2.0,11.-32768.0.0",      # input error since fix 3e0ed67 (top() on an empty stack before)
    "conv P:-32768=cmd,0xfb,2 T0:4.0.0.0,2.36.2.0,6.2.0.0,11.-32768.0.0",
    "conv P:-32768=cmd,0xfa,0 T0:11.-32768.0.0,2.36.2.0",      # a loop start that is never closed
    "conv T0:4.0.0.0,2.36.24.0,5.0.0.0,2.38.24.0,5.0.0.0,2.40.24.0,6.2.0.0",                   # D23 (fixed): [c / d / e]2
    "conv T0:4.0.0.0,2.36.2.0,2.36.2.0,5.0.0.0,1.0.0.4,5.0.0.0,2.40.2.0,6.2.0.0",              # D23 (fixed): [c c / r / e]2
    # the non-vacuity song of C02_song_roundtrip_partial: A c L [d / *100 / e]2, *100 f r  (judge: ok proved-fragment)
    "conv T0:2.36.24.0,7.0.0.0,4.0.0.0,2.38.12.12,5.0.0.0,8.100.0.0,5.0.0.0,2.40.24.0,6.2.0.0 T100:2.41.6.6,1.0.0.3",
    # calls three deep, a break inside a called track, a zero-time loop section
    "conv T0:2.36.24.0,8.100.0.0,7.0.0.0,13.5.0.0 T100:4.0.0.0,8.101.0.0,5.0.0.0,2.38.6.0,6.3.0.0 T101:8.102.0.0,3.0.4.2 T102:2.50.1.1",
    "conv T0:2.36.24.0,7.0.0.0,2.38.24.0,7.0.0.0,2.40.24.0",     # two loop points: the last one counts (outside the proved fragment, judged by the oracle)
    "conv T0:8.1.0.0,2.36.24.0 T1:2.38.24.0,7.0.0.0,2.40.24.0",  # D24 (known): a call to a channel track that has a loop point never returns
    # macro tracks (pan envelope on / off): inside the whole-song theorem since round 4 (first-layer model: unmodelled)
    "conv T0:24.300.0.0,2.36.24.0,24.0.0.0,2.38.12.12 T300:21.1.0.0",
    "conv T0:4.0.0.0,24.300.0.0,8.100.0.0,5.0.0.0,24.301.0.0,6.2.0.0 T100:24.301.0.0,2.40.6.6 T300:21.1.0.0 T301:21.2.0.0,1.0.0.4",
    # D26 (fixed): the 'carry' platform command between a length-less note and a rest
    "conv P:-32768=carry T0:2.36.24.0,2.36.24.0,11.-32768.0.0,1.0.0.48,2.38.24.0",
    # drum mode inside the oracle's domain (routine ids < 94, routine notes with an on-time)
    "conv T0:26.1.0.0,2.80.6.2,2.81.3.1,26.0.0.0,2.36.3.1 T80:13.7.0.0,2.40.1.0 T81:21.1.0.0,4.0.0.0,14.1.0.0,6.2.0.0,2.41.1.0,2.42.1.0",
    "conv T0:2.80.4.0,7.0.0.0,26.1.0.0,4.0.0.0,2.80.6.2,5.0.0.0,2.80.3.1,6.3.0.0,26.0.0.0 T80:13.7.0.0,2.40.1.0",
    "conv T0:26.1.0.0,7.0.0.0,2.81.1.1,26.0.0.0 T81:4.0.0.0,6.2.0.0,2.2.1.0",   # D27 (known): replayed in the other drum-mode state
    "conv T0:4.0.0.0,2.36.24.0,26.1.0.0,6.2.0.0 T36:13.7.0.0,2.40.1.0,2.41.1.0",  # D27 (known): drum mode switched on inside a loop
    "conv T0:8.100.0.0,2.36.2.2 T100:2.36.1.1,26.1.0.0 T36:13.7.0.0,2.40.1.0",      # D27 (known): a subroutine switches drum mode for its caller
    "conv T0:26.1.0.0,8.100.0.0,26.0.0.0 T100:2.36.1.1 T36:13.7.0.0,2.40.1.0",     # a subroutine called in drum mode is written in drum mode
    "conv T0:26.1.0.0,2.32.24.0,26.0.0.0 T32:4.0.0.0,2.40.1.0,6.2.0.0",             # the routine's note inside a loop: refused (repo fix b6d6699), outside the domain
    "conv T0:26.1.0.0,2.32.24.0,26.0.0.0 T32:4.0.0.0,13.5.0.0,6.2.0.0,2.40.1.0",    # a loop before the routine's note: fine
    # pitch envelopes (`@M` definitions: M:<id>=<form>:<k>:<expected data bank index>; PITCH_ENVELOPE = event 23): compact, on / off
    "conv M:1=c:5:1 T0:23.1.0.0,2.36.24.0,23.0.0.0,2.38.12.12",
    # compact and extended (a slide too steep for the compact form), switched between
    "conv M:1=c:5:1 M:2=x:7:2 T0:23.2.0.0,2.36.24.0,23.1.0.0,2.38.24.0,23.0.0.0,2.40.24.0",
    # inside a loop with a break and inside a subroutine; loop mark and vibrato macro forms
    "conv M:3=l:9:1 M:4=v:1:2 T0:4.0.0.0,23.3.0.0,8.100.0.0,5.0.0.0,23.0.0.0,6.2.0.0 T100:23.4.0.0,2.40.6.6",
    # next to an instrument; two ids with the same bytes share one data bank entry; behind the loop point
    "conv I:1=fm:3:1 M:1=c:5:2 M:2=c:5:2 M:3=x:5:3 T0:17.1.0.0,23.1.0.0,2.36.2.0,7.0.0.0,23.2.0.0,23.3.0.0,2.36.2.0",
    "conv T0:23.7.0.0,2.36.2.0",                                   # an undefined pitch envelope: input error, outside the domain
    "conv M:1=c:5:1 T0:4.0.0.0,2.36.2.0,23.9.0.0,6.2.0.0",        # the same inside a loop
    "convo 0 M:1=c:5:1 M:2=x:6:2 T0:23.1.0.0,2.36.6.0,2.36.6.0,2.36.6.0,2.36.6.0,2.36.6.0,2.36.6.0,23.2.0.0,2.36.6.0,23.2.0.0,2.36.6.0,23.2.0.0,2.36.6.0,23.2.0.0,2.36.6.0",
]

DURS = [1, 2, 127, 128, 129, 256, 65535]


def adjacency_cases(rng, T, count):
    kinds = ["note", "note2", "tie", "rest", "restlong", "restsame", "cmd", "segno", "lp", "pat"]
    out = []
    for _ in range(count):
        evs = []
        depth = 0
        segno_done = False
        last_note_d = rng.choice(DURS)
        last_rest_d = rng.choice([1, 2, 127, 128])
        for k in [rng.choice(kinds) for _ in range(rng.randrange(3, 7))]:
            if k == "note":
                d = rng.choice(DURS); last_note_d = d
                evs.append((T["NOTE"], rng.randrange(0, 90), d, 0))
            elif k == "note2":
                evs.append((T["NOTE"], rng.randrange(0, 90), last_note_d, 0))
            elif k == "tie":
                evs.append((T["TIE"], 0, rng.choice(DURS), 0))
            elif k == "rest":
                d = rng.choice([1, 2, 127, 128]); last_rest_d = d
                evs.append((T["REST"], 0, 0, d))
            elif k == "restlong":
                evs.append((T["REST"], 0, 0, rng.choice([129, 256, 257, 1000, 65535])))
            elif k == "restsame":
                evs.append((T["REST"], 0, 0, last_rest_d))
            elif k == "cmd":
                evs.append((T[rng.choice(["VOL", "TRANSPOSE", "PAN", "VOL_REL", "SLUR"])], rng.randrange(0, 15), 0, 0))
            elif k == "segno" and depth == 0 and not segno_done:
                evs.append((T["SEGNO"], 0, 0, 0)); segno_done = True
            elif k == "lp" and depth < 2:
                evs.append((T["LOOP_START"], 0, 0, 0)); depth += 1
                if rng.random() < 0.5:
                    evs.append((T["NOTE"], 30, rng.choice(DURS), 0))
                    evs.append((T["LOOP_BREAK"], 0, 0, 0))
            elif k == "pat":
                evs.append((T["JUMP"], 100, 0, 0))
            if depth and rng.random() < 0.4:
                evs.append((T["LOOP_END"], rng.choice([1, 2, 3]), 0, 0)); depth -= 1
        while depth:
            evs.append((T["LOOP_END"], 2, 0, 0)); depth -= 1
        out.append({0: evs, 100: [(T["NOTE"], 50, rng.choice(DURS), 0), (T["REST"], 0, 0, 3)]})
    return out


PEG_FORMS = ["c", "x", "l", "v"]


def peg_defs(rng, ids, first_index):
    """`M:` tokens for the pitch envelope ids `ids`, with the data bank index each one gets: MDSDRV_Data::read_song adds
    the definitions in tag order after index 0 (the default PSG envelope) and the instruments; equal bytes share one entry"""
    toks, seen = [], {}
    nxt = first_index
    for i in ids:
        form = rng.choice(PEG_FORMS)
        k = rng.randrange(100)
        key = {"c": ("c", k % 100), "x": ("x", 1 + k % 100), "l": ("l", k % 100, k % 50, 1 + k % 7), "v": ("v", k % 5)}[form]
        if key not in seen:
            seen[key] = nxt
            nxt += 1
        toks.append("M:%d=%s:%d:%d" % (i, form, k, seen[key]))
    return toks


def pitch_cases(rng, T, count):
    """pitch envelopes end to end: `@M` definitions (compact, extended, with a loop mark, vibrato macro), switched on, to
    another one and off (`M0`), at the top level, inside counted loops (before and behind the break), in subroutines
    (which are written once and called from places with different envelopes), behind the loop point"""
    PE = lambda i: (T["PITCH_ENVELOPE"], i, 0, 0)
    LS, LB = (T["LOOP_START"], 0, 0, 0), (T["LOOP_BREAK"], 0, 0, 0)
    LE = lambda c: (T["LOOP_END"], c, 0, 0)
    N = lambda: (T["NOTE"], rng.randrange(30, 60), rng.choice([1, 6, 24, 130]), rng.choice([0, 0, 6]))
    for _ in range(count):
        ids = rng.sample(range(1, 30), rng.choice([1, 2, 3, 4]))
        defs = peg_defs(rng, ids, 1)
        pick = lambda: rng.choice(ids + [0])
        shape = rng.choice(["top", "loop", "loop-break", "sub", "sub-loop", "segno", "nested"])
        sub = [PE(pick()), N()] + ([PE(0)] if rng.random() < 0.5 else [])
        if shape == "top":
            song = {0: [PE(pick()), N(), PE(pick()), N(), PE(0), N()]}
        elif shape == "loop":
            song = {0: [N(), LS, PE(pick()), N(), PE(pick()), LE(rng.choice([2, 3])), N()]}
        elif shape == "loop-break":
            song = {0: [PE(pick()), LS, N(), PE(pick()), LB, PE(pick()), N(), LE(2), N()]}
        elif shape == "sub":
            song = {0: [PE(pick()), (T["JUMP"], 100, 0, 0), PE(pick()), (T["JUMP"], 100, 0, 0), N()], 100: sub}
        elif shape == "sub-loop":
            song = {0: [LS, (T["JUMP"], 100, 0, 0), LB, PE(pick()), N(), LE(3)], 100: sub}
        elif shape == "segno":
            song = {0: [PE(pick()), N(), (T["SEGNO"], 0, 0, 0), N(), PE(pick()), N()]}
        else:
            song = {0: [LS, PE(pick()), LS, N(), LB, PE(pick()), LE(2), N(), LE(2), PE(0), N()]}
        if rng.random() < 0.3:
            song[1] = [PE(pick()), N(), N()]
        yield Case("conv " + " ".join(defs + [songgen.render(song)]), ("pitch", shape), "pitch")


def nested_break_cases(T, tier):
    LS, LB = (T["LOOP_START"], 0, 0, 0), (T["LOOP_BREAK"], 0, 0, 0)
    LE = lambda c: (T["LOOP_END"], c, 0, 0)
    durs = (12, 24)
    kinds = ("note", "rest") if tier == "quick" else ("note", "rest", "tie")

    def tm(kind, k, d):
        if kind == "rest":
            return (T["REST"], 0, 0, d)
        if kind == "tie":
            return (T["TIE"], 0, d, 0)
        return (T["NOTE"], 36 + k, d, 0)
    for kind in kinds:
        for ds in itertools.product(durs, repeat=5):
            a, b, c, d, e = [tm("note" if i < 4 else kind, i, ds[i]) for i in range(5)]
            if kind == "rest":
                b = tm("rest", 1, ds[1])
            shapes = {
                "inner-after-break": [LS, a, LB, LS, b, LB, c, LE(2), d, LE(2), e],
                "inner-before-break": [LS, LS, a, LB, b, LE(2), c, LB, d, LE(2), e],
                "inner-mid": [LS, a, LS, b, LB, c, LE(2), LB, d, LE(2), e],
            }
            for name, evs in shapes.items():
                yield {0: evs}, name


def routine_call_cases(T):
    """Drum routines that call subroutines (seeded change C09-8: the callee was converted in the routine's
    drum state and cut at its first note).  The callee is written by a writer of its own with drum mode off:
    commands only (inside the oracle's domain), with a rest (time in front of the routine's note: the oracle
    skips, model and implementation are compared), with a note behind its commands (D27: written as a plain
    note, executed with the flag set), called by two routines and by the channel itself (one converted copy
    per drum state), and a callee that calls on."""
    ev = lambda t, p=0, on=0, off=0: (T[t], p, on, off)
    chan = lambda rids, tail=(): ([ev("DRUM_MODE", 1)] + [ev("NOTE", r, 2, 1) for r in rids] + [ev("DRUM_MODE", 0)]
                                   + list(tail) + [ev("NOTE", 12, 3, 1)])
    callees = {
        "commands": [ev("PAN", 2), ev("VOL_REL", 1)],
        "rest": [ev("PAN", 2), ev("REST", 0, 0, 2)],
        "note": [ev("PAN", 2), ev("NOTE", 44, 2, 1), ev("VOL_REL", 1)],
        "loop": [ev("LOOP_START"), ev("VOL_REL", 1), ev("LOOP_END", 3)],
        "chain": [ev("PAN", 1), ev("JUMP", 111), ev("VOL", 9)],
        "empty": [],
    }
    for name, callee in callees.items():
        for pos in ("first", "middle"):
            r83 = ([ev("JUMP", 110), ev("VOL", 5)] if pos == "first" else [ev("VOL", 5), ev("JUMP", 110), ev("VOL_REL", 2)]) + [ev("NOTE", 43, 1, 0)]
            song = {0: chan([83]), 83: r83, 110: callee}
            if name == "chain": song[111] = [ev("TRANSPOSE", 3)]
            yield Case("conv " + songgen.render(song), ("drum", "routine-call", name), "routine-call")
        # the same callee reached from two routines and from the channel (before and after drum mode)
        song = {0: [ev("JUMP", 110)] + chan([83, 84, 83], [ev("JUMP", 110)]), 83: [ev("JUMP", 110), ev("NOTE", 43, 1, 0)],
                84: [ev("VOL", 3), ev("JUMP", 110), ev("NOTE", 45, 1, 0)], 110: callee}
        if name == "chain": song[111] = [ev("TRANSPOSE", 3)]
        yield Case("conv " + songgen.render(song), ("drum", "routine-call", name, "shared"), "routine-call")


def _cases_orig(rng, tier):
    for c in CORPUS:
        yield Case(c, ("corpus",), "corpus")
    T = songgen.event_types()
    n_adj = 250 if tier == "quick" else 4000
    for song in adjacency_cases(rng, T, n_adj):
        flat = [e for e in song[0]]
        tags = {"adjacency"}
        if any(e[2] + e[3] >= 128 for e in flat): tags.add("long")
        if any(e[0] == T["SEGNO"] for e in flat): tags.add("segno")
        if any(e[0] == T["LOOP_START"] for e in flat): tags.add("loop")
        yield Case("conv " + songgen.render(song), sorted(tags), "adjacency")
    # length registers across nested loops that both have a break: the implicit note/rest length
    # after each loop end depends on which exit was taken (bounded-exhaustive over two lengths)
    for song, name in nested_break_cases(T, tier):
        yield Case("conv " + songgen.render(song), ("nested-break", name), "nested-break")
    for c in pitch_cases(rng, T, 60 if tier == "quick" else 800):
        yield c
    for c in routine_call_cases(T):
        yield c
    n = 300 if tier == "quick" else 5000
    made = 0
    while made < n:
        g = songgen.G(rng, max_depth=rng.choice([0, 1, 2, 3]), subs=rng.choice([[], [100], [100, 101]]),
                      counts=[1, 2, 2, 3, 4, 255], allow_neg=False, p_segno=0.0, notes=list(range(0, 94)),
                      durs=[1, 2, 3, 6, 12, 24, 48, 96, 127, 128, 129, 200, 300, 1000],
                      cmds=["VOL", "TRANSPOSE", "PAN", "VOL_REL", "TEMPO_BPM", "DETUNE", "TRANSPOSE_REL", "VOL_FINE", "TEMPO", "SLUR", "VOL_FINE_REL", "PORTAMENTO"])
        ntr = rng.choice([1, 1, 2, 4])
        song = g.song(ntr)
        tags = set()
        extra = []
        # loop point at depth 0 of a channel track
        for t in range(ntr):
            if rng.random() < 0.4:
                evs = song[t]
                cuts = [0]
                d = 0
                for i, e in enumerate(evs):
                    if e[0] == T["LOOP_START"]: d += 1
                    if e[0] == T["LOOP_END"]: d -= 1
                    if d == 0: cuts.append(i + 1)
                k = rng.choice(cuts)
                song[t] = evs[:k] + [g.ev("SEGNO")] + evs[k:]
                tags.add("segno")
        if rng.random() < 0.2:
            # routine ids below 94 and routine notes with an on-time: inside Timeline.inDomain (with ids 200/201
            # and zero-length routine notes every drum case was skipped by the judge)
            song[80] = [g.ev("VOL", 7), g.ev("NOTE", 40, 1, 0)]
            song[81] = [g.ev("PAN", 1), g.ev("LOOP_START"), g.ev("VOL_REL", 1), g.ev("LOOP_END", 2), g.ev("NOTE", 41, 1, 0)]
            # one drum case in ten has a routine whose note is inside a '[]' loop: refused by the converter since
            # repo fix b6d6699 (err:drumNoteInLoop) -- outside the encodable domain (skipped by the judge), but the
            # model has to refuse exactly the same songs
            rids = [80, 81]
            if rng.random() < 0.1:
                song[82] = [g.ev("VOL", 3), g.ev("LOOP_START"), g.ev("NOTE", 42, 1, 0), g.ev("LOOP_END", 2)]
                rids = [80, 81, 82]
                tags.add("drum-note-in-loop")
            evs = []
            for e in song[0]:
                if e[0] == T["NOTE"]:
                    e = (e[0], rng.choice(rids), e[2], e[3])
                evs.append(e)
            # drum mode is switched on behind the loop point (so that the replayed section starts in the state it was
            # written in); one case in five switches it on at the start of the track: with a loop point that is D27
            segs = [i for i, e in enumerate(evs) if e[0] == T["SEGNO"]]
            at = segs[-1] + 1 if segs and rng.random() < 0.8 else 0
            evs = evs[:at] + [g.ev("DRUM_MODE", 1)] + evs[at:]
            song[0] = evs + [g.ev("DRUM_MODE", 0), g.ev("NOTE", 12, 3, 1)]
            for sid in (100, 101):
                if sid in song:
                    song[sid] = [e for e in song[sid] if e[0] != T["NOTE"]] + [g.ev("REST", 0, 0, 1)]
            tags.add("drum")
        if rng.random() < 0.2:
            song[0].insert(rng.randrange(0, len(song[0]) + 1), g.ev("PLATFORM", -32768))
            extra.append(rng.choice(["P:-32768=pcmrate,4", "P:-32768=lfo,3,5", "P:-32768=write,0x28,0xf0", "P:-32768=lforate,3", "P:-32768=mode,1", "P:-32768=write,64,5",
                                     "P:-32768=carry", "P:-32768=fm3,1010"]))
            tags.add("platform")
        if rng.random() < 0.15:
            # a macro track (pan envelope on), switched on somewhere in channel 0 and possibly off again
            song[300] = [g.ev("PAN", 1), g.ev("REST", 0, 0, 4), g.ev("PAN", 2)]
            song[0].insert(rng.randrange(0, len(song[0]) + 1), g.ev("PAN_ENVELOPE", 300))
            if rng.random() < 0.5:
                song[0].append(g.ev("PAN_ENVELOPE", 0))
            tags.add("macro")
        if rng.random() < 0.25:
            extra.append("I:1=fm:%d:1" % rng.randrange(100))
            extra.append("I:2=psg:%d:2" % rng.randrange(100))
            song[0].insert(0, g.ev("INS", 1))
            tags.add("ins")
        if rng.random() < 0.2:
            # pitch envelopes: definitions behind the instruments (data bank indices continue), switched anywhere in
            # channel 0 (inside loops too) and in the first subroutine
            ids = rng.sample(range(1, 30), rng.choice([1, 2, 3]))
            extra.extend(peg_defs(rng, ids, 3 if "ins" in tags else 1))
            for _ in range(rng.choice([1, 2, 3])):
                song[0].insert(rng.randrange(0, len(song[0]) + 1), g.ev("PITCH_ENVELOPE", rng.choice(ids + [0])))
            if 100 in song and rng.random() < 0.5:
                song[100].insert(rng.randrange(0, len(song[100]) + 1), g.ev("PITCH_ENVELOPE", rng.choice(ids + [0])))
            tags.add("pitch")
        if any(songgen.expanded_size(song, t, T) > 1500 for t in range(ntr)):
            continue
        flat = [e for evs in song.values() for e in evs]
        types = {e[0] for e in flat}
        if T["LOOP_START"] in types: tags.add("loop")
        if T["LOOP_BREAK"] in types: tags.add("break")
        if T["JUMP"] in types: tags.add("call")
        if any(e[2] + e[3] >= 128 for e in flat): tags.add("long")
        made += 1
        yield Case("conv " + " ".join(extra + [songgen.render(song)]), sorted(tags) or ["plain"], "structured")


def _cases_plain(rng, tier):
    return _cases_orig(rng, tier)


def d2_cases(T, tier):
    """Repair of D2 (repo 6f86090): a phrase repeated back to back more than 255 times, optimised and
    compiled.  Before the repair `c` x 300 became `[c]300`, compiled to `fb 2c` = 44 passes.  Same family
    as checks/c01.py `d2_cases` (the optimiser model is slow on these songs: few cases, one to a chunk;
    more than 700 events go as `convox` = model does not answer, the spec interpreter alone decides)."""
    N = lambda k, d=6: (T["NOTE"], 36 + k, d, 0)
    LS = (T["LOOP_START"], 0, 0, 0)
    LE = lambda c: (T["LOOP_END"], c, 0, 0)
    quick = tier == "quick"
    out = []
    def add(name, song, score=10):
        cmd = "convox" if sum(len(v) for v in song.values()) > 700 else "convo"
        out.append(Case("%s %d %s" % (cmd, score, songgen.render(song)), ("optimised", "d2-cap", name), "d2-cap"))
    add("R=300", {0: [(T["NOTE"], 48, 6, 0)] * 300})     # the former known finding
    for r in ([255, 256, 257] if quick else [254, 255, 256, 257, 509, 510, 511, 1000]):
        add("R=%d" % r, {0: [N(0)] * r})
    add("rem", {0: [N(0), N(1)] * 100 + [N(0)]})
    add("nested", {0: [LS] + [N(0)] * 300 + [LE(2)]}, 0)
    add("two-tracks", {0: [N(0)] * 300, 1: [N(1)] * 260})
    if not quick:
        add("ctx", {0: [N(3), N(4)] + [N(0)] * 300 + [N(5)]}, 0)
        add("rem-below-cap", {0: [N(0), N(1)] * 254 + [N(0)]})
        add("rem-at-cap", {0: [N(0), N(1)] * 255 + [N(0)]})
        add("rem-above-cap", {0: [N(0), N(1)] * 300 + [N(0)]})
        add("rem-1000", {0: [N(0), N(1)] * 500 + [N(0)]})
        add("two-tracks-same", {0: [N(0)] * 300, 1: [N(0)] * 300})
        add("two-tracks-1000", {0: [N(0)] * 1000, 1: [N(1)] * 300})
    return out


def cases(rng, tier):
    """the heavy cases of the D2 family go one to a chunk, so that the (slow) optimiser model runs them in parallel"""
    heavy = None
    k = 0
    for c in _cases_all(rng, tier):
        if heavy is None:
            heavy = d2_cases(songgen.event_types(), tier)
        if k % CHUNK == 0 and heavy:
            yield heavy.pop(0)
            k += 1
        yield c
        k += 1
    for c in heavy or []:
        yield c


def _cases_all(rng, tier):
    """the unoptimised stream, then the same kind of songs through `mmlc -O` (optimise, then convert)"""
    for c in _cases_orig(rng, tier):
        yield c
    from checks import c01
    T = songgen.event_types()
    n = 150 if tier == "quick" else 2500
    made = 0
    while made < n:
        song = c01.motif_song(rng, T)
        if any(songgen.expanded_size(song, t, T) > 2000 for t in song if t < 16):
            continue
        # stay inside the encodable domain: loop point only at depth 0 (motif_song does that), notes in range
        made += 1
        yield Case("convo %d %s" % (rng.choice([0, 3, 10]), songgen.render(song)), ("optimised",), "optimised")


SIZE_LIMIT = {"n": 0}


def agree(case, impl, model):
    """correspondence: equal answers; `convox` requests (songs beyond the reach of the list-based optimiser
    model, Driver/Song.lean `optModelDeclines`) are decided by the spec interpreter on the real bytes alone"""
    if case.req.startswith("convox ") and model.startswith("MODEL:size-limit"):
        SIZE_LIMIT["n"] += 1
        return True
    return impl == model


def outcome_class(a):
    if a.startswith("seq="):
        return "ok"
    return a.split(" ")[0][:40]


PROVED = {"n": 0, "judged": 0}


def extra_fail(case, impl, judge):
    """never fails a case: counts the cases that are instances of the whole-song theorem"""
    if judge.startswith("ok"):
        PROVED["judged"] += 1
        if "proved-fragment" in judge:
            PROVED["n"] += 1
    return False


def _report():
    if PROVED["judged"]:
        print("[check] %d of %d cases judged ok are instances of the hypotheses of the whole-song theorem (ok proved-fragment)" % (PROVED["n"], PROVED["judged"]))


import atexit
atexit.register(_report)


def judge_notes(cases, impl, judge):
    if SIZE_LIMIT["n"]:
        yield "%d `convox` cases beyond the reach of the optimiser model: decided by the spec interpreter on the real bytes only" % SIZE_LIMIT["n"]


def segno_in_callee(req):
    """D24: some JUMP names a track that contains a loop point"""
    try:
        song = songgen.parse_request_song(req)
        T = songgen.event_types()
    except Exception:
        return False
    for evs in song.values():
        for e in evs:
            if e[0] == T["JUMP"]:
                tgt = e[1] % 65536
                if tgt in song and any(x[0] == T["SEGNO"] for x in song[tgt]):
                    return True
    return False


def drum_dynamic(req, budget=60000):
    """D27: some note is reached in a drum-mode state (execution order: the Player and the MDSDRV flag byte) that
    differs from the state the track writer had when it wrote the note (text order; a channel writer starts with
    drum mode off, a subroutine's writer with the state its caller's writer had at the call).  Played the way
    Basic_Player does: loops, breaks, calls, drum routines, the loop-back once."""
    try:
        song = songgen.parse_request_song(req)
        T = songgen.event_types()
    except Exception:
        return False

    class Bad(Exception):
        pass

    class Found(Exception):
        pass

    steps = [0]

    def text_state(evs, s0):
        d, st = s0, []
        for e in evs:
            st.append(d)
            if e[0] == T["DRUM_MODE"]:
                d = e[1] != 0
        return st

    def match_end(evs, i):
        depth = 0
        while i < len(evs):
            if evs[i][0] == T["LOOP_START"]: depth += 1
            if evs[i][0] == T["LOOP_END"]:
                if depth == 0: return i
                depth -= 1
            i += 1
        raise Bad()

    def play(tid, start, drum, s0, routine, depth):
        """-> drum state afterwards (a routine: ("note", state) at its first note)"""
        if depth > 12 or tid not in song: raise Bad()
        evs = song[tid]
        static = text_state(evs, s0)
        stack = []
        i = start
        while i < len(evs):
            steps[0] += 1
            if steps[0] > budget: raise Bad()
            e = evs[i]
            t = e[0]
            if t == T["LOOP_START"]:
                stack.append([i, None])
            elif t == T["LOOP_END"]:
                if not stack: raise Bad()
                if stack[-1][1] is None: stack[-1][1] = e[1]
                stack[-1][1] -= 1
                if stack[-1][1] > 0:
                    i = stack[-1][0]
                else:
                    stack.pop()
            elif t == T["LOOP_BREAK"]:
                if not stack: raise Bad()
                # the break is taken on the last pass of a loop that runs at least twice (on the first pass the
                # count is not yet known: a loop with count <= 1 plays its whole body once)
                if stack[-1][1] == 1:
                    j = match_end(evs, i + 1)
                    stack.pop()
                    i = j
            elif t == T["JUMP"]:
                # a subroutine called by a drum routine: the routine's writer has drum mode off (get_subroutine(n, 1, 0)),
                # so the callee is written with drum mode off (static[i] is False here) while the driver's flag is
                # still set: a note in the callee is D27 as well
                drum = play(e[1] % 65536, 0, drum, static[i], False, depth + 1)
            elif t == T["DRUM_MODE"]:
                if routine: raise Bad()
                drum = e[1] != 0
            elif t == T["NOTE"]:
                if routine:
                    return ("note", drum)
                if drum != static[i]: raise Found()
                if drum:
                    r = play(e[1] % 65536, 0, drum, False, True, depth + 1)
                    if not isinstance(r, tuple): raise Bad()
                    drum = r[1]
            elif t == T["END"]:
                break
            i += 1
        if routine: raise Bad()
        return drum

    try:
        for tid in song:
            if tid < 16:
                d = play(tid, 0, False, False, False, 0)
                segs = [i for i, e in enumerate(song[tid]) if e[0] == T["SEGNO"]]
                if segs:
                    play(tid, segs[-1] + 1, d, False, False, 0)
    except Found:
        return True
    except (Bad, RecursionError):
        return False
    return False


def finding_key(case, impl, judge):
    if impl.startswith("crash") or impl == "timeout" or impl.startswith("uncaught"):
        m = re.search(r"(\w+\.cpp:\d+)", impl)
        return "crash:" + (m.group(1) if m else "unknown")
    if "rejected" in judge:
        # refused for a routine note inside a loop although no drum note of the song (execution order) calls such a
        # routine: the writer took a plain note for a drum note (text order), which is D27
        if impl.startswith("err:drumNoteInLoop") and case.req.startswith("conv ") and drum_dynamic(case.req):
            return "drum-mode-dynamic"
        return "rejects-encodable:" + impl.split(" ")[0][:40]
    if case.req.startswith("conv ") and drum_dynamic(case.req):
        return "drum-mode-dynamic"
    if "interpreter stopped" in judge:
        m = re.search(r"stopped with Ctrmml.Seq.Stop.(\w+)", judge)
        return "stream-broken:" + (m.group(1) if m else "x")
    if case.req.startswith("conv ") and segno_in_callee(case.req):
        return "segno-in-callee"
    return "timeline-differs"


def shrink(req):
    toks = req.split()
    song = songgen.parse_request_song(req)
    extra = [t for t in toks[1:] if not (t[0] == "T" and t[1:2].isdigit())]
    for s2 in songgen.shrink_song(song):
        if any(k < 16 for k in s2):
            yield " ".join([toks[0]] + extra + [songgen.render(s2)])
