"""C03 — Compiled sequences always advance time and stay in bounds."""
import re
from vlib.core import Case
from vlib import songgen
from checks import c02

ID = "C03"
LEAN_MODULE = "Ctrmml.Properties.C03"
THEOREMS = ["C03_break_offset", "C03_jump_target", "C03_finish_last", "C03_stream_ends_with_terminator",
            "C03_codec_never_reads_outside_partial", "C03_codec_never_reads_outside_loops_partial",
            "C03_codec_never_reads_outside_segno_partial", "C03_stream_terminated_partial",
            "C03_stream_terminated_segno_partial", "C03_stream_terminated_loops_partial", "C03_track_wellformed_partial",
            "C03_stream_at_offset_wellformed_partial", "C03_song_wellformed_partial",
            "C03_optimised_song_wellformed_partial"]
LEVEL = "proof"
STREAM = "conv.seq"
CHUNK = 100
CASE_SECONDS = 60     # as C02: the real optimiser needs about 20 s under ASan for the 1000-event case of the D2 family (convwfox)
TECHNIQUE = "Lean 4 theorems on the encoder's address arithmetic (loop-break back-patch, loop-back offset, terminator) + well-formedness walker and interpreter run on the real bytes + differential correspondence model<->mdsdrv.cpp"
LEVEL_TEXT = ("Machine-checked theorems over the model of convert_track for the three places where an address is computed: the back-patched LPB/LPBL offset lands exactly on the "
              "instruction after the loop end (short and long form), the JUMP offset resolves to the position recorded at the loop point, FINISH is the last byte. Second layer (single "
              "streams, all inputs): for every event list whose bracket structure consists of rests/notes/ties (0..65535 ticks), slur and commands, subroutine calls, nested counted "
              "loops with any number of breaks per loop, on both sides of a depth-0 loop point, in the three shapes end_hook produces, at any offset of a chunk: the emitted stream ends "
              "with its terminator, the instruction walker accepts it (balanced loops, break targets, jump target on a depth-0 boundary of the stream) and the interpreter never stops "
              "with badRead/badOp/noLength/loopUnderflow. Third layer: C03_song_wellformed_partial — for every song of the fragment (see C02; since round 4 with drum mode: notes in drum "
              "mode through their routines, DRUM_MODE switched at the top level of channel tracks, subroutines called in drum mode) and every channel track in the "
              "domain: the walker accepts the stream the track table points at, the interpreter never reads outside / meets an unknown opcode / a missing length / an empty loop stack "
              "through all calls and returns however often the loop-back is followed, and a finished run with the jump followed twice passes >= 1 tick of note or rest time between the "
              "loop marks. C03_optimised_song_wellformed_partial: the same for the chunk of an OPTIMISED song (Opt.optimize result validated and in the fragment; "
              "hypotheses of C01_optimize_preserves on the original song; the expected tick string need only be defined for the original). Pitch envelopes are inside the fragment since round 5. "
              "The whole-chunk statement (C03_full_statement: every stream incl. unreferenced and drum/macro ones passes the walker, every loop-back round passes >= 1 "
              "tick) outside that fragment is decided per case by Spec/SeqWf + Spec/SeqInterp run on the REAL bytes of generated and degenerate songs; the model reproduces the real chunk "
              "byte for byte; the judge marks the cases that are instances of the whole-song theorem (ok proved-fragment).")
LEVEL_NOTE = ("Trusted: Lean kernel; Model/MdsCodec+MdsConv+MdsFile (agreement with mdsdrv.cpp by differential testing); Spec/SeqWf and Spec/SeqInterp (reconstructed MDSDRV format). "
              "Proved part = address arithmetic of the codec + per-stream well-formedness/safety at any offset + whole songs of the fragment, drum mode included (partial: chunk < 64 KiB, "
              "<= 1 loop point per channel track, called tracks without loop point / drum-mode switch, drum-mode switches outside loops, routine tracks = timeless commands before "
              "their first note, loop section ending in the drum state it starts in, platform commands agreeing between converter and timeline, loop point at depth 0); the walker on "
              "unreferenced / routine / macro streams themselves "
              "and songs outside the domain = oracle on real bytes. Known finding: a loop point inside a counted loop is accepted and compiled to a jump into "
              "the loop (D21).")
RULE = ("the C02 generators (adjacency sweep + structured songs + pitch family + optimised songs as convwfo/convwfox: optimise, convert, judge the bytes) plus a degenerate family: empty track, loop point last, loop point followed only by zero-time commands, "
        "command-only loop bodies, single call, counts {1,2,255}, loop point inside loops and subroutines; non-trivial = has loop/call/segno; distinct by request text")
EXPLANATION = "SeqWf.checkAll + interpreter (loop-back followed twice) on the real seq bytes; model vs real converter byte-exact"
ASSUMPTIONS = ["MDSDRV sequence semantics as written in Spec/SeqInterp.lean", "streams shorter than 64 KiB"]

DEGENERATE = [
    "convwf T0:",
    "convwf T0:7.0.0.0",
    "convwf T0:2.36.2.0,7.0.0.0",
    "convwf T0:2.36.2.0,7.0.0.0,13.5.0.0,18.2.0.0",
    "convwf T0:7.0.0.0,13.5.0.0",
    "convwf T0:4.0.0.0,13.5.0.0,6.255.0.0",
    "convwf T0:4.0.0.0,13.5.0.0,5.0.0.0,18.1.0.0,6.2.0.0",
    "convwf T0:8.100.0.0 T100:",
    "convwf T0:8.100.0.0 T100:13.1.0.0",
    "convwf T0:7.0.0.0,8.100.0.0 T100:13.1.0.0",
    "convwf T0:7.0.0.0,8.100.0.0 T100:2.30.1.0",
    "convwf T0:4.0.0.0,6.1.0.0,7.0.0.0,4.0.0.0,6.1.0.0",
    "convwf T0:2.1.1.0,4.0.0.0,2.2.1.0,5.0.0.0,2.3.1.0,6.2.0.0,7.0.0.0,1.0.0.1",
    # D21: loop point inside a counted loop (with and without a break before it)
    "convwf T0:4.0.0.0,2.36.24.0,5.0.0.0,2.38.24.0,7.0.0.0,2.40.24.0,6.2.0.0",
    "convwf T0:4.0.0.0,2.36.24.0,7.0.0.0,2.38.24.0,6.2.0.0",
    # loop point inside a subroutine
    "convwf T0:2.36.2.0,8.100.0.0,2.36.2.0 T100:2.30.1.0,7.0.0.0,2.31.1.0",
]


extra_fail = c02.extra_fail


def cases(rng, tier):
    for c in DEGENERATE:
        yield Case(c, ("degenerate",), "degenerate")
    for c in c02.cases(rng, tier):
        yield Case("convwf" + c.req[4:], c.tags, c.family)
    # loop-break distance sweep across the short/long form boundary: the tail after the break
    # compiles to 2n+s bytes (n two-byte commands, s one-byte slurs), offset = 2n+s+2
    Tt = songgen.event_types()
    for n_cmd in range(121, 133):
        for s1 in (0, 1):
            tail = [(Tt["VOL"], (i % 15) + 1, 0, 0) for i in range(n_cmd)] + [(Tt["SLUR"], 0, 0, 0)] * s1
            evs = [(Tt["LOOP_START"], 0, 0, 0), (Tt["NOTE"], 40, 6, 0), (Tt["LOOP_BREAK"], 0, 0, 0)] + tail + \
                  [(Tt["NOTE"], 41, 6, 0), (Tt["LOOP_END"], 2, 0, 0), (Tt["NOTE"], 42, 6, 0)]
            yield Case("convwf " + songgen.render({0: evs}), ("break-distance-%d" % (2 * n_cmd + s1 + 4),), "break-distance")
    # structurally broken songs (unbalanced brackets, breaks and ends outside loops, in channel tracks,
    # subroutines, macro tracks and drum routines): they must be refused, not compiled to a stream with
    # an open loop
    LS, LB, N = (Tt["LOOP_START"], 0, 0, 0), (Tt["LOOP_BREAK"], 0, 0, 0), (Tt["NOTE"], 40, 6, 0)
    LE = (Tt["LOOP_END"], 2, 0, 0)
    broken = {"open": [N, LS, N, N], "open-break": [N, LS, N, LB, N], "open2": [LS, LS, N, LE, N], "stray-end": [N, LE, N],
              "stray-break": [N, LB, N], "end-first": [LE, LS, N]}
    for name, evs in broken.items():
        yield Case("convwf " + songgen.render({0: evs}), ("broken", name), "broken")
        yield Case("convwf " + songgen.render({0: [N, (Tt["JUMP"], 100, 0, 0), N], 100: evs}), ("broken", name, "sub"), "broken")
        yield Case("convwf " + songgen.render({0: [(Tt["PAN_ENVELOPE"], 300, 0, 0), N], 300: [(Tt["PAN"], 1, 0, 0)] + [e if e[0] != Tt["NOTE"] else (Tt["REST"], 0, 0, 4) for e in evs]}),
                   ("broken", name, "macro"), "broken")
        yield Case("convwf " + songgen.render({0: [(Tt["DRUM_MODE"], 1, 0, 0), (Tt["NOTE"], 200, 4, 0), (Tt["NOTE"], 200, 4, 0)], 200: evs}), ("broken", name, "drum"), "broken")
    # loop points at every position, including inside loops and subroutines
    T = songgen.event_types()
    n = 150 if tier == "quick" else 2500
    made = 0
    while made < n:
        g = songgen.G(rng, max_depth=rng.choice([1, 2, 3]), subs=rng.choice([[], [100]]), counts=[1, 2, 3, 255], allow_neg=False,
                      p_segno=0.0, notes=list(range(0, 94)), durs=[1, 2, 3, 6, 12, 24], max_items=5)
        song = g.song(1)
        if songgen.expanded_size(song, 0, T) > 1500:
            continue
        k = rng.randrange(0, len(song[0]) + 1)
        song[0] = song[0][:k] + [g.ev("SEGNO")] + song[0][k:]
        made += 1
        yield Case("convwf " + songgen.render(song), ("segno-anywhere",), "segno-anywhere")


outcome_class = c02.outcome_class

SIZE_LIMIT = {"n": 0}


def agree(case, impl, model):
    """correspondence: equal answers; `convwfox` requests (optimised songs beyond the reach of the list-based optimiser
    model) are decided by the well-formedness oracle on the real bytes alone (as `convox` in C02)"""
    if case.req.startswith("convwfox ") and model.startswith("MODEL:size-limit"):
        SIZE_LIMIT["n"] += 1
        return True
    return impl == model


def judge_notes(cases, impl, judge):
    if SIZE_LIMIT["n"]:
        yield "%d `convwfox` cases beyond the reach of the optimiser model: decided by the well-formedness oracle on the real bytes only" % SIZE_LIMIT["n"]


def segno_in_loop(req):
    T = songgen.event_types()
    song = songgen.parse_request_song(req)
    for tid, evs in song.items():
        if tid >= 16:
            continue
        d = 0
        for e in evs:
            if e[0] == T["LOOP_START"]: d += 1
            elif e[0] == T["LOOP_END"]: d -= 1
            elif e[0] == T["SEGNO"] and d > 0:
                return True
    return False


def finding_key(case, impl, judge):
    if impl.startswith("crash") or impl == "timeout" or impl.startswith("uncaught"):
        m = re.search(r"(\w+\.cpp:\d+)", impl)
        return "crash:" + (m.group(1) if m else "unknown")
    if segno_in_loop(case.req):
        return "segno-in-loop"
    if c02.drum_dynamic(case.req):
        return "drum-mode-dynamic"
    if "spans no note or rest time" in judge:
        return "zero-time-loop"
    m = re.search(r"Bad\.(\w+)|Stop\.(\w+)", judge)
    return "wf:" + (m.group(1) or m.group(2) if m else "other")


def shrink(req):
    toks = req.split()
    song = songgen.parse_request_song(req)
    extra = [t for t in toks[1:] if not (t[0] == "T" and t[1:2].isdigit())]
    for s2 in songgen.shrink_song(song):
        if any(k < 16 for k in s2):
            yield " ".join([toks[0]] + extra + [songgen.render(s2)])
