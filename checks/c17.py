"""C17 — Diagnostics point at the offending command (fault injection with a known token map)."""
import copy, os, re
from vlib.core import Case, BUILD

ID = "C17"
LEAN_MODULE = "Ctrmml.Properties.C17"
THEOREMS = ["C17_stepR_erase", "C17_error_ref_is_fetched_command", "C17_missing_call_is_faulty_command", "C17_reference_on_chain",
            "C17_structural_error_ref", "C17_event_ref_is_command_start", "C17_unknown_command_column",
            "C17_parse_error_column", "C17_parse_error_column_bounds", "C17_line_error_position", "C17_file_error_position",
            "C17_missing_parameter_column", "C17_illegal_duration_column",
            "C17_converter_error_ref", "C17_writer_error_ref", "C17_converter_error_on_track",
            "C17_hook_item_is_fetched", "C17_hook_error_event",
            "C17_what_layout", "C17_what_reads_back", "C17_pipeline_parse_error"]
LEVEL = "proof"
STREAM = "diag.what"
CHUNK = 250
CASE_SECONDS = 10

FM, PSG, PCM = "ABCDEF", "GHIJ", "KL"
BAD_CHARS = "?!\"zwyuijmnSUWXYZABFHIJNO"
FM_PARAMS = " ".join(str((7 * i + 3) % 16) for i in range(42))


def workdir():
    d = os.path.join(BUILD, "tmp", "c17work")
    os.makedirs(d, exist_ok=True)
    return d


def hx(s):
    return s.encode("latin-1").hex() or "-"


def tid(name):
    if name[0] == "*":
        return int(name[1:])
    if name.isdigit():
        return 26 + int(name)
    return ord(name) - 65


class Tok:
    """one command.  kind: note rest tie oct shift len par ins call ls le br segno bar bad"""
    def __init__(self, text, kind, oval=4, callee=None):
        self.text, self.kind, self.oval, self.callee = text, kind, oval, callee
        self.fault = False
        self.sep = " "     # separator printed before the command


class Block:
    def __init__(self, alts):
        self.alts = alts   # one list of Tok per track of the group
        self.sep = " "


class Group:
    def __init__(self, names, typ, seq):
        self.names, self.typ, self.seq = names, typ, seq
        self.ids = [tid(n) for n in names]
        self.breaks = []     # indices of seq before which a new line starts
        self.rehead = {}     # break index -> True: repeat the track list, False: continuation line


class Song:
    def __init__(self):
        self.ins = {}        # id -> "fm" | "psg"
        self.groups = []
        self.file = "song.mml"
        self.ins_last = False   # instrument definitions after the track lines


# ------------------------------------------------------------------ valid songs
def gen_dur(rng):
    return rng.choice(["", "", "", "4", "8", "16", "2", "4.", "8.", ":12", ":30", "1", "32"])


def gen_note(rng, oval):
    return Tok(rng.choice("abcdefg") + rng.choice(["", "", "", "+", "-"]) + gen_dur(rng), "note", oval)


def gen_plain(rng, st):
    """a command that is neither loop, call nor block; st = {'oval':..}"""
    r = rng.random()
    if r < 0.45:
        return gen_note(rng, st["oval"])
    if r < 0.55:
        return Tok("r" + gen_dur(rng), "rest", st["oval"])
    if r < 0.62:
        st["oval"] = rng.randrange(2, 7)
        return Tok("o%d" % st["oval"], "oct", st["oval"])
    if r < 0.68:
        if st["oval"] < 6 and rng.random() < 0.5:
            st["oval"] += 1
            return Tok(">", "shift", st["oval"])
        if st["oval"] > 2:
            st["oval"] -= 1
            return Tok("<", "shift", st["oval"])
        return gen_note(rng, st["oval"])
    if r < 0.74:
        return Tok("l" + rng.choice(["4", "8", "16", "2", "8."]), "len", st["oval"])
    if r < 0.95:
        c = rng.choice("vvvqQtKp")
        v = {"v": rng.randrange(0, 16), "q": rng.randrange(0, 8), "Q": rng.randrange(1, 9), "t": rng.choice([60, 120, 150, 200]),
             "K": rng.randrange(-10, 11), "p": rng.randrange(1, 4)}[c]
        return Tok("%s%d" % (c, v), "par", st["oval"])
    if r < 0.98:
        return Tok("_%d" % rng.randrange(-5, 6), "transpose", st["oval"])
    return Tok("|", "bar", st["oval"])


def gen_seq(rng, n, st, depth, calls, ins_ids, ntracks, allow_segno):
    out = []
    have_segno = not allow_segno
    while len(out) < n:
        r = rng.random()
        if r < 0.10 and depth < 3 and n >= 3:
            body = gen_seq(rng, rng.randrange(1, 4), st, depth + 1, calls, ins_ids, ntracks, False)
            oval_in = st["oval"]
            out.append(Tok("[", "ls", st["oval"]))
            out += body
            if rng.random() < 0.4:
                out.append(Tok("/", "br", st["oval"]))
                out += gen_seq(rng, rng.randrange(1, 3), st, depth + 1, calls, ins_ids, ntracks, False)
            # octave shifts inside a loop body accumulate over the passes: pin the octave again
            cnt = rng.choice([2, 2, 3, 4])
            out.append(Tok("]" + (str(cnt) if rng.random() < 0.8 else ""), "le", st["oval"]))
            if st["oval"] != oval_in or any(t.kind == "shift" for t in body if isinstance(t, Tok)):
                st["oval"] = rng.randrange(2, 7)
                out.append(Tok("o%d" % st["oval"], "oct", st["oval"]))
        elif r < 0.18 and calls:
            c = rng.choice(calls)
            out.append(Tok("*%d" % c if rng.random() < 0.8 else "*%d" % c, "call", st["oval"], callee=c))
        elif r < 0.24 and ins_ids:
            out.append(Tok("@%d" % rng.choice(ins_ids), "ins", st["oval"]))
        elif r < 0.27 and depth == 0 and not have_segno and out:
            have_segno = True
            out.append(Tok("L", "segno", st["oval"]))
        elif r < 0.40 and ntracks > 1 and depth < 3:
            alts = []
            for _ in range(ntracks):
                alts.append([gen_note(rng, st["oval"]) if rng.random() < 0.7 else Tok("v%d" % rng.randrange(16), "par", st["oval"])
                             for _ in range(rng.randrange(1, 3))])
            out.append(Block(alts))
        else:
            t = gen_plain(rng, st)
            out.append(t)
            if t.kind == "note" and rng.random() < 0.12:
                out.append(Tok("^" + gen_dur(rng), "tie", st["oval"]))
    return out


def gen_song(rng, multi_line, multi_track, size):
    s = Song()
    s.file = rng.choice(["song.mml", "a.mml", "my_song.mml", "x-1.MML", "tune"])
    s.ins_last = rng.random() < 0.3
    fm_ids = rng.sample([1, 2, 5, 10, 100, 255, 300], rng.choice([1, 2]))
    psg_ids = rng.sample([3, 4, 20, 30, 200, 1000], rng.choice([1, 2]))
    for i in fm_ids:
        s.ins[i] = "fm"
    for i in psg_ids:
        s.ins[i] = "psg"
    # subroutine tracks: ids >= 16, later ones may be called by earlier ones
    nsub = rng.choice([0, 1, 1, 2, 3])
    pool = ["*20", "*21", "*100", "*1000", "Q", "R", "Z", "0", "7", "*16", "*300"]
    names = []
    while len(names) < nsub:
        n = rng.choice(pool)
        if tid(n) not in [tid(x) for x in names]:
            names.append(n)
    sub_ids = [tid(n) for n in names]
    # channel groups
    ngroups = rng.choice([1, 1, 2, 3])
    used = set()
    for _ in range(ngroups):
        typ = rng.choice(["fm", "fm", "psg", "pcm" if rng.random() < 0.3 else "fm"])
        letters = {"fm": FM, "psg": PSG, "pcm": PCM}[typ]
        free = [c for c in letters if c not in used]
        if not free:
            continue
        k = min(len(free), rng.choice([2, 2, 3]) if multi_track else 1)
        tr = sorted(rng.sample(free, k))
        used.update(tr)
        ins_ids = {"fm": fm_ids, "psg": psg_ids, "pcm": []}[typ]
        st = {"oval": 4}
        seq = [Tok("o4", "oct", 4)] + gen_seq(rng, size, st, 0, sub_ids, ins_ids, len(tr), True)
        s.groups.append(Group(tr, typ, seq))
    if not s.groups:
        s.groups.append(Group(["A"], "fm", [Tok("o4", "oct", 4), Tok("c", "note", 4)]))
    # make sure every subroutine is reachable from a channel
    for j, n in enumerate(names):
        st = {"oval": 4}
        seq = [Tok("o4", "oct", 4)] + gen_seq(rng, max(2, size // 2), st, 0, sub_ids[j + 1:], [], 1, False)
        s.groups.append(Group([n], "sub", seq))
    reach = reachable(s)
    for j, sid in enumerate(sub_ids):
        if sid not in reach:
            g = s.groups[0]
            g.seq.append(Tok("*%d" % sid, "call", 4, callee=sid))
            reach = reachable(s)
    rng.shuffle(s.groups) if rng.random() < 0.3 else None
    for g in s.groups:
        for i, e in enumerate(g.seq):
            e.sep = rng.choice([" ", " ", " ", "", "  ", "\t"]) if i else rng.choice([" ", " ", "  ", "\t"])
            if isinstance(e, Block):
                for a in e.alts:
                    for k, t in enumerate(a):
                        t.sep = " " if k else ""
        if multi_line and len(g.seq) > 2:
            nb = rng.choice([1, 1, 2, 3])
            g.breaks = sorted(set(rng.randrange(1, len(g.seq)) for _ in range(nb)))
            g.rehead = {b: rng.random() < 0.4 for b in g.breaks}
    return s


def all_toks(seq):
    for e in seq:
        if isinstance(e, Block):
            for a in e.alts:
                for t in a:
                    yield t
        else:
            yield e


def call_edges(s):
    ed = []
    for g in s.groups:
        for e in g.seq:
            if isinstance(e, Block):
                for k, a in enumerate(e.alts):
                    for t in a:
                        if t.callee is not None:
                            ed.append((g.ids[k], t.callee))
            elif e.callee is not None:
                for i in g.ids:
                    ed.append((i, e.callee))
    return sorted(set(ed))


def reachable(s):
    ed = call_edges(s)
    seen = set(i for g in s.groups if g.typ != "sub" for i in g.ids)
    ch = True
    while ch:
        ch = False
        for a, b in ed:
            if a in seen and b not in seen:
                seen.add(b)
                ch = True
    return seen


# ------------------------------------------------------------------ rendering with the token map
def render(s):
    """-> (lines, toks [(line, col, ids)], fault (line, col, ids) or None)"""
    lines = []
    ins_lines = []
    for i in sorted(s.ins):
        if s.ins[i] == "fm":
            ins_lines.append("@%d fm %s" % (i, FM_PARAMS))
        else:
            ins_lines.append("@%d psg 15 14 13 12" % i)
    if not s.ins_last:
        lines += ins_lines
    toks = []
    fault = None
    for g in s.groups:
        head = "".join(g.names)
        cur = head
        first = True
        for idx, e in enumerate(g.seq):
            if idx in g.breaks:
                lines.append(cur)
                cur = head if g.rehead.get(idx) else ""
                first = True
            sep = e.sep
            if first and not sep.strip(" \t") and sep == "":
                sep = " "
            if first and sep == "":
                sep = " "
            first = False
            cur += sep
            if isinstance(e, Block):
                cur += "{"
                for k, a in enumerate(e.alts):
                    if k:
                        cur += "/"
                    for t in a:
                        cur += t.sep
                        pos = (len(lines), len(cur), [g.ids[k]])
                        toks.append(pos)
                        if t.fault:
                            fault = pos
                        cur += t.text
                cur += "}"
            else:
                pos = (len(lines), len(cur), list(g.ids))
                if e.kind != "bar":
                    toks.append(pos)
                if e.fault:
                    fault = pos
                cur += e.text
        lines.append(cur)
    if s.ins_last:
        lines += ins_lines
    return lines, toks, fault


def request(s, kind):
    lines, toks, fault = render(s)
    if kind == "valid":
        f = "valid 0 0 -"
    else:
        if fault is None:
            return None
        f = "%s %d %d %s" % (kind, fault[0], fault[1], "+".join(str(i) for i in fault[2]))
    tm = " ".join("t:%d:%d:%s" % (l, c, "+".join(str(i) for i in ids)) for l, c, ids in toks)
    ce = " ".join("c:%d:%d" % e for e in call_edges(s))
    return "diag %s %s @ %s @ %s %s" % (s.file, " ".join(hx(l) for l in lines), f, tm, ce)


# ------------------------------------------------------------------ fault injection
def paths(s):
    """every command position: (group index, index in seq, alt index or None, index in alt or None, depth)"""
    out = []
    for gi, g in enumerate(s.groups):
        depth = 0
        for i, e in enumerate(g.seq):
            if isinstance(e, Block):
                for k, a in enumerate(e.alts):
                    for j in range(len(a)):
                        out.append((gi, i, k, j, depth))
            else:
                # depth at the insertion point in front of the command
                out.append((gi, i, None, None, depth))
                if e.kind == "le":
                    depth -= 1
                if e.kind == "ls":
                    depth += 1
    return out


def container(s, p):
    g = s.groups[p[0]]
    if p[2] is None:
        return g.seq, p[1]
    return g.seq[p[1]].alts[p[2]], p[3]


def insert_before(s, p, tok, flag=True):
    c, i = container(s, p)
    tok.fault = flag
    tok.sep = c[i].sep
    if c[i].sep == "":
        c[i].sep = " " if tok.text[-1:].isalnum() or tok.kind != "bad" else ""
    c.insert(i, tok)
    if p[2] is None:
        g = s.groups[p[0]]
        g.breaks = [b + 1 if b > i else b for b in g.breaks]
        g.rehead = {(b + 1 if b > i else b): v for b, v in g.rehead.items()}


def delete_at(s, p):
    c, i = container(s, p)
    del c[i]
    if p[2] is None:
        g = s.groups[p[0]]
        g.breaks = sorted(set(b - 1 if b > i else b for b in g.breaks if not (b == i and i == len(c))))
        g.breaks = [b for b in g.breaks if 0 < b < len(c)]
        g.rehead = {b: g.rehead.get(b, g.rehead.get(b + 1, False)) for b in g.breaks}


def channel_callers(s, ids):
    ed = call_edges(s)
    cur = set(ids)
    ch = True
    while ch:
        ch = False
        for a, b in ed:
            if b in cur and a not in cur:
                cur.add(a)
                ch = True
    return sorted(i for i in cur if i < 16)


def typ_of_channel(i):
    return "fm" if i < 6 else "psg" if i < 10 else "pcm" if i < 12 else "other"


KINDS = ["unknown-char", "missing-param", "illegal-duration", "unterminated-quote", "unterminated-cond", "unterminated-key", "loop-unclosed",
         "loop-stray-end", "stray-break", "missing-call", "missing-ins", "wrong-ins", "note-range", "missing-platform"]


def inject(rng, song, kind, p):
    """a copy of the song with one fault of `kind` at command position p, or None when the kind does not apply there"""
    s = copy.deepcopy(song)
    g = s.groups[p[0]]
    c, i = container(s, p)
    t = c[i]
    in_block = p[2] is not None
    ids = [g.ids[p[2]]] if in_block else g.ids
    if kind == "unknown-char":
        insert_before(s, p, Tok(rng.choice(BAD_CHARS), "bad"))
    elif kind == "missing-param":
        if t.kind not in ("oct", "par", "ins", "call"):
            return None
        nxt = c[i + 1] if i + 1 < len(c) else None
        t.text = t.text[0]
        t.callee = None
        t.fault = True
        if isinstance(nxt, Tok) and nxt.sep == "" and nxt.text[:1] in "+-":
            nxt.sep = " "
    elif kind == "illegal-duration":
        if t.kind not in ("note", "rest"):
            return None
        m = re.match(r"[a-gr][+\-]?", t.text)
        t.text = m.group(0) + rng.choice(["0", ":-1", "0.", ":-20"])
        t.fault = True
    elif kind == "unterminated-quote":
        insert_before(s, p, Tok(rng.choice(["'abc", "'", "'fm3 0011"]), "bad"))
    elif kind == "unterminated-cond":
        if in_block:
            return None
        insert_before(s, p, Tok("{", "bad"))
    elif kind == "unterminated-key":
        # a key signature without its '}' (an input error since fix 524ebc5)
        insert_before(s, p, Tok(rng.choice(["_{C", "_{+cf", "k{a", "_{", "_{=b "]), "bad"))
    elif kind == "loop-unclosed":
        if t.kind != "le":
            return None
        # the bracket that is left open: the matching one
        depth, j = 0, i
        while True:
            j -= 1
            if isinstance(c[j], Tok) and c[j].kind == "le":
                depth += 1
            elif isinstance(c[j], Tok) and c[j].kind == "ls":
                if depth == 0:
                    break
                depth -= 1
        c[j].fault = True
        delete_at(s, p)
    elif kind == "loop-stray-end":
        if in_block:
            return None
        insert_before(s, p, Tok("]" + rng.choice(["", "2", "3"]), "le"))
    elif kind == "stray-break":
        if in_block or p[4] != 0:
            return None
        insert_before(s, p, Tok("/", "br"))
    elif kind == "missing-call":
        defined = set(i for gg in s.groups for i in gg.ids)
        cand = [n for n in (99, 150, 1000, 17, 31, 65535, 400) if n not in defined]
        insert_before(s, p, Tok("*%d" % rng.choice(cand), "call"))
    elif kind == "missing-ins":
        cand = [n for n in (77, 9, 50, 999, 65535, 7) if n not in s.ins]
        insert_before(s, p, Tok("@%d" % rng.choice(cand), "ins"))
    elif kind == "wrong-ins":
        chans = channel_callers(s, ids)
        if not chans:
            return None
        ty = typ_of_channel(rng.choice(chans))
        wrong = [n for n, k in s.ins.items() if (ty == "fm" and k == "psg") or (ty == "psg" and k == "fm") or ty == "pcm"]
        if ty == "fm" and rng.random() < 0.2:
            wrong.append(0)
        if not wrong:
            return None
        insert_before(s, p, Tok("@%d" % rng.choice(wrong), "ins"))
    elif kind == "note-range":
        if t.kind != "note":
            return None
        t.fault = True
        back = Tok("o%d" % t.oval, "oct", t.oval)
        back.sep = " "
        c.insert(i + 1, back)
        up = Tok(rng.choice(["o9", "o9", "o10", "o12"]), "oct", 9)
        up.sep = t.sep if t.sep else " "
        t.sep = rng.choice(["", " "])
        c.insert(i, up)
        if not in_block:
            g.breaks = [b + 2 if b > i else b for b in g.breaks]
            g.rehead = {(b + 2 if b > i else b): v for b, v in g.rehead.items()}
    elif kind == "missing-platform":
        insert_before(s, p, Tok("%%%d" % rng.choice([5, 0, 77]), "platform"))
    else:
        raise ValueError(kind)
    return s


def layout_tags(song, multi_line, multi_track):
    return ["multi-line" if multi_line else "single-line", "multi-track" if multi_track else "single-track",
            "subs-%d" % min(3, sum(1 for g in song.groups if g.typ == "sub"))]


def fault_cases(rng, song, multi_line, multi_track, family, per_kind=None):
    base = layout_tags(song, multi_line, multi_track)
    yield Case(request(song, "valid"), base + ["valid"], family)
    ps = paths(song)
    for kind in KINDS:
        cand = ps
        if per_kind is not None and len(cand) > per_kind:
            cand = rng.sample(ps, per_kind)
        for p in cand:
            s2 = inject(rng, song, kind, p)
            if s2 is None:
                continue
            r = request(s2, kind)
            if r is None:
                continue
            if kind == "unterminated-cond":
                # the reader finds the end of a block textually: a later loop break '/' or a later '}' on the
                # same line would close the injected '{' (no fault of this kind is present then)
                lines2, _, f2 = render(s2)
                if "/" in lines2[f2[0]][f2[1] + 1:] or "}" in lines2[f2[0]][f2[1] + 1:]:
                    continue
            if kind == "unterminated-key":
                # a later '}' on the same line (the end of a conditional block) would close the signature
                lines2, _, f2 = render(s2)
                if "}" in lines2[f2[0]][f2[1] + 1:]:
                    continue
            g = song.groups[p[0]]
            where = "in-block" if p[2] is not None else "in-sub" if g.typ == "sub" else "on-channel"
            yield Case(r, base + [kind, where, "depth-%d" % min(p[4], 3)], family)


# ------------------------------------------------------------------ hand-written songs
def hand_song(spec):
    """spec: list of (names, typ, [token texts or ('{', [[..],[..]])]) with instruments 1=fm 3=psg"""
    s = Song()
    s.ins = {1: "fm", 3: "psg"}
    for names, typ, items in spec:
        seq = []
        oval = 4
        for it in items:
            if isinstance(it, tuple):
                seq.append(Block([[mk_tok(x, oval) for x in alt] for alt in it[1]]))
            else:
                t = mk_tok(it, oval)
                if t.kind == "oct":
                    oval = int(t.text[1:])
                    t.oval = oval
                seq.append(t)
        s.groups.append(Group(names, typ, seq))
    return s


def mk_tok(x, oval):
    c = x[0]
    if c in "abcdefg":
        return Tok(x, "note", oval)
    if c == "r":
        return Tok(x, "rest", oval)
    if c == "^":
        return Tok(x, "tie", oval)
    if c == "o":
        return Tok(x, "oct", oval)
    if c in "<>":
        return Tok(x, "shift", oval)
    if c == "l":
        return Tok(x, "len", oval)
    if c == "[":
        return Tok(x, "ls", oval)
    if c == "]":
        return Tok(x, "le", oval)
    if c == "/":
        return Tok(x, "br", oval)
    if c == "L":
        return Tok(x, "segno", oval)
    if c == "*":
        return Tok(x, "call", oval, callee=int(x[1:]))
    if c == "@":
        return Tok(x, "ins", oval)
    if c == "_":
        return Tok(x, "transpose", oval)
    return Tok(x, "par", oval)


HAND = [
    [(["A"], "fm", ["o4", "c", "d4", "e8.", "r", "@1", "v10", "[", "c", "/", "d", "]3", "L", "g", "^2"])],
    [(["A"], "fm", ["o4", "c", "*20", "d"]), (["*20"], "sub", ["o3", "e", "[", "f", "]2", "g"])],
    [(["A"], "fm", ["o4", "[", "c", "*20", "]2"]), (["G"], "psg", ["@3", "o5", "*20", "*21", "c"]),
     (["*20"], "sub", ["o4", "e", "*21"]), (["*21"], "sub", ["o2", "a", "b"])],
    [(["A", "B"], "fm", ["o4", "c", ("{", [["d", "e"], ["f"]]), "[", "g", ("{", [["a"], ["v5", "b"]]), "]2", "*16"]),
     (["Q"], "sub", ["c8", "d8"])],
    [(["G", "H", "I"], "psg", ["o4", "@3", "q2", ("{", [["c"], ["e"], ["g"]]), "L", "r4", "c"])],
    [(["K"], "pcm", ["o4", "c", "d"]), (["F"], "fm", ["@1", "o3", "c", "t120", "K-2", "p3", "Q6"])],
]

CORPUS_FUZZ = [
    ["A o4 c d e"], ["A o4 c ? e"], ["A [ c *20", "*20 d"], ["A [ c *20", "*20 d ]"], ["A o4 c *20", "*20 d @77 e"], ["A o4 c @77"],
    ["@1 psg 15 14", "A @1 c"], ["@1 psg 15 14", "G @1 c"], ["A o9 c"], ["A o4 c *20", "*20 o9 c"], ["A %5 c"], ["A c %5 c"], ["A c", "  d %5"],
    ["A c /"], ["A c ]"], ["A c *20", "*20 c ]"], ["A c *99"], ["A 'abc"], ["AB {c/d"], ["AB {c d"], ["AB c {d/e} ? f"], ["A \\=1"], ["A o"],
    ["A c0"], ["A c d", "A o"], ["A v"], ["A [[[[[[[[[[[c]]]]]]]]]]]"], ["A *20", "*20 *21", "*21 *20"], ["A c ]-1"], ["A [c]-1"],
    ["@1 foo 1", "A c"], ["@1 fm 1 2 3", "A @1 c"], ["@0 psg 1", "A @0 c"], ["A @0 c"], ["G @0 c"], ["A D1 c", "*0 d"], ["A D1 o9 c"],
    ["A D30 c", "*30 e", "*31 f"], ["A D30 d"], ["A D30 c", "*30 @77 e"], ["A D30 c", "*30 D0 o9 e"], ["A D30 c", "*30 v5"], ["A *20", "*20 D30 c", "*30 o9 D0 c"],
    ["A *20 c", "*20"], ["A [ *20", "*20"], ["A c L"], ["A L"], ["*20 c ]"], ["Q [ c"], ["A P5 c"], ["A M5 c"], ["A c\t?"],
    ["\tc"], [" A c"], ["A", "\t?"], ["A c", "", " ?"], ["#title x", " ?"], ["A c ; ?"], ["ABC c {d/e} f"], ["AB {c/d/e} f"], ["A }"],
    ["A {_{C"], ["A _{C"], ["A k{C"], ["A _{C} c"], ["AB {c/_{C}"], ["AB {c/_{C"], ["A {_{Q"], ["A _{C ; }"], ["A c _{+cf", "A d"], ["A {c _{C}"],
    ["A" + " " * 190 + "?"], ["A " + "c " * 120 + "?"], ["A o4 " + "c" * 10, "@300 psg 1 2", "G @300 c", "A @300 d"],
    # numbers beyond int / long, and commands that reach back where there is nothing to reach (grace note or
    # reverse rest first in a track, after a loop bracket, after the loop point): still a positioned InputError
    ["A o4 c3000000000"], ["A o4 c:3000000000"], ["A o4 c99999999999999999999"], ["A o3000000000 c"], ["A v99999999999999999999 c"],
    ["A l4 c", "A o4 d3000000000 e"], ["A ~c"], ["A o4 ~c d"], ["A o4 [c]2 ~d"], ["A o4 c L ~d"], ["A R8 c"], ["A o4 [c]2 R8"], ["A o4 c L R8"],
    # key signatures in the per-note form with a letter that is no note (seeded change C17-8: the exception type no longer
    # matched the handler in mml_transpose and the error lost its position)
    ["A _{-bz} c"], ["A o4 c _{+z}"], ["A c", "A l8 _{=q} d"], ["A _{+cf-x} c"], ["A k{z} c"], ["A _{-b z} c"], ["AB {c/d} _{-by} e"],
    # positions beyond 16 bits (seeded change C17-7: InputRef narrowed to uint16_t): a fault behind more than 65536 lines
    # and at a column beyond 65535, for parse errors and for errors found when the song is validated / converted
    ["; x"] * 65600 + ["A o4 c ? d"], ["A o4 c"] * 3 + [""] * 65700 + ["A d @77 e"], ["A" + " " * 66000 + "?"],
    ["A o4 c" + " " * 66000 + "@77 d"],
    ["A o4 r ~c"], ["A o4 c *20 ~d", "*20 e"], ["A \\=1,0 o4 c \\ ^"], ["A \\ c"], ["A o4 c ^3000000000"], ["A t3000000000 c"], ["A [c]3000000000"],
]


def fuzz_case(lines, name="t.mml"):
    return "diag %s %s" % (name, " ".join(hx(l) for l in lines))


ALPHABET = "abcdefghr^&o<>lQqR~Cs\\[]/L*'@_kKv()VpEMPGDtT{}|;%:.$x+-=, \t0123456789#?"


def mutate(rng, text):
    if not text:
        return rng.choice(ALPHABET)
    i = rng.randrange(len(text))
    r = rng.random()
    if r < 0.35:
        return text[:i] + text[i + 1:]
    if r < 0.7:
        return text[:i] + rng.choice(ALPHABET) + text[i:]
    if r < 0.9:
        return text[:i] + rng.choice(ALPHABET) + text[i + 1:]
    return text[:i]


def cases(rng, tier):
    quick = tier == "quick"
    for lines in CORPUS_FUZZ:
        yield Case(fuzz_case(lines), ("corpus",), "corpus")
    # ---- every fault kind at every command position of the hand-written songs, in two layouts
    for hi, spec in enumerate(HAND):
        for ml in (False, True):
            s = hand_song(spec)
            if ml:
                for g in s.groups:
                    if len(g.seq) > 3:
                        g.breaks = [len(g.seq) // 3, 2 * len(g.seq) // 3]
                        g.rehead = {g.breaks[0]: False, g.breaks[1]: True}
            mt = any(len(g.names) > 1 for g in s.groups)
            for c in fault_cases(rng, s, ml, mt, "exhaustive-hand"):
                yield c
    # ---- seeded random songs, every kind at every position
    n = 60 if quick else 600
    for i in range(n):
        ml, mt = bool(i & 1), bool(i & 2)
        s = gen_song(rng, ml, mt, rng.choice([3, 5, 8, 12]))
        for c in fault_cases(rng, s, ml, mt, "random-all-positions"):
            yield c
    # ---- bigger songs, sampled positions
    n = 40 if quick else 400
    for i in range(n):
        ml, mt = bool(i & 1), bool(i & 2)
        s = gen_song(rng, ml, mt, rng.choice([20, 30, 40]))
        for c in fault_cases(rng, s, ml, mt, "random-sampled-positions", per_kind=4):
            yield c
    # ---- malformed stream: mutated renderings, correspondence only
    n = 1500 if quick else 15000
    for i in range(n):
        s = gen_song(rng, bool(i & 1), bool(i & 2), rng.choice([2, 4, 8]))
        s.ins_last = True    # a mutated track line never becomes the continuation of an instrument line
        lines, _, _ = render(s)
        # instrument definitions stay as they are (their data is C11's subject); a platform command
        # that exists is outside the modelled pipeline, so no quote is ever closed
        body = [k for k in range(len(lines)) if not lines[k].startswith("@")]
        for _ in range(rng.choice([1, 1, 2, 3])):
            k = rng.choice(body)
            lines[k] = mutate(rng, lines[k])
            if lines[k].count("'") > 1:
                lines[k] = lines[k].replace("'", "", lines[k].count("'") - 1)
        yield Case(fuzz_case(lines, s.file), ("malformed",), "malformed")


def normalize(x):
    if x.startswith("crash") or "what=ub:" in x:
        return "CRASH"
    return x


def finding_key(case, impl, judge):
    if impl.startswith("crash") or impl == "timeout" or impl.startswith("uncaught"):
        m = re.search(r"at .*?(\w+\.cpp:\d+)", impl)
        return "crash:" + (m.group(1) if m else (impl.split(" ")[1] if " " in impl else impl))
    m = re.match(r"fail (\S+) kind=Ctrmml\.Diag\.Kind\.(\w+)", judge)
    if m:
        return "%s:%s" % (m.group(2), m.group(1))
    m = re.match(r"fail (\S+)", judge)
    return m.group(1) if m else "judge"


def not_fail(case, impl, judge):
    # the malformed stream carries no fault description: crashes there belong to C15
    return False


def outcome_class(a):
    m = re.match(r"stage=(\S+) what=(\S+)", a)
    if not m:
        return a.split(" ")[0][:24]
    if m.group(1) == "ok":
        return "accepted"
    w = m.group(2)
    mm = re.match(r"[^:]*:\d+:\d+:_(.*)", w)
    msg = mm.group(1) if mm else "NOPOS:" + w
    msg = re.sub(r"\d+", "N", msg)
    msg = re.sub(r"track_[A-Z]$", "track_X", msg)
    return (m.group(1) + ":" + msg)[:60]


def shrink(req):
    """drop whole lines / single characters of a line; the fault description (if any) is dropped with
    them, so shrinking only applies to correspondence differences and crashes"""
    parts = req.split(" ")
    if "@" in parts:
        return
    head, items = parts[:2], parts[2:]
    for i in range(len(items)):
        if len(items) > 1:
            yield " ".join(head + items[:i] + items[i + 1:])
    for i, it in enumerate(items):
        if it == "-":
            continue
        b = bytes.fromhex(it)
        for j in range(len(b)):
            nb = b[:j] + b[j + 1:]
            yield " ".join(head + items[:i] + [nb.hex() or "-"] + items[i + 1:])


TECHNIQUE = ("Lean 4 proof (invariants of the reader loop and of the player/validator/converter wrappers that carry the reference) + "
             "fault injection with a known token map: model<->real pipeline correspondence on what() and the spec clauses on the real messages")
LEVEL_TEXT = ("Machine-checked theorems over Lean models of the reader (input.cpp, mml_input.cpp) and of the reference that Basic_Player carries "
              "(player.cpp) through Song_Validator and the MDSDRV writer. Reader: the reference stamped on a command is the position of its first non-blank "
              "character; an 'unknown MML command' error is raised at exactly the offending character; EVERY parse_error raised inside parse_mml_track (all "
              "commands, '%', conditional blocks) is on the line being read, at or after the first character of the command of the failing round of the loop "
              "and at most one past the column get() reaches behind the end of the line (printed: at most two past the end) - proved by a column logic over all "
              "reader functions (C17_parse_error_column; the former full statement is now the theorem C17_parse_error_column_bounds); the same upper bound and "
              "the line for every parse_error of read_line / of a whole file (track list, tag key, every track of a multi-track line, blocks left open); the "
              "exact column of 'missing parameter' (where get_num gave up) and of 'illegal duration' (behind the number). Player/validator: an error carries "
              "the reference of the command fetched by the failing step (a missing call target: the JUMP itself); at every reachable state the reference is "
              "the position of a command on the current track or on a caller's. Converter: every InputError out of the loop over the channel tracks carries "
              "the reference of the command fetched by the failing writer step of one of those tracks (missing instrument / envelope / platform command, "
              "note range, wrong instrument type: the faulty command; anything thrown inside a JUMP's hook: the calling JUMP) or comes unchanged out of the "
              "writer of a drum routine; hence it is no position or a command of a track of the song. what(): the text is file:line+1:col+1: msg cut at 199 "
              "characters, the prefix is whole whenever it fits (file names up to 175 characters with ten-digit numbers), and the judge's reader gives file, "
              "line and column back. The event handed to event_hook is the fetched one (a final-pass LOOP_BREAK aside) and event_hook only fails for six "
              "event types, for INS / '%' / pitch envelope / plain NOTE with the error about that very event: so a missing or wrong instrument, an undefined "
              "platform command, a missing pitch envelope and a note out of range raised by a writer step carry the position of that command. Decided "
              "per case by the fault-injection oracle only: that conversion actually reaches the faulty command (completeness: 'it is the faulty command "
              "itself when that command is on a channel track'), the clause 'on a track that calls it' in terms of the generator's token map, and "
              "agreement of the models with the C++. Three defects were found and repaired (51fb87b: reference stayed in "
              "the subroutine after a return; 1763cac: '%n' events carried a stale or no reference; 524ebc5: an unterminated key signature let the read "
              "position run two past the end of the line, so a later diagnostic named a column three past it).")
LEVEL_NOTE = ("Trusted: Lean kernel (propext, Classical.choice, Quot.sound at most), the hand-written models Model/Lexer, Model/Mml (Model/MmlFix is now a "
              "re-export), Model/Player, Model/MdsConv and the wrappers of Model/Refs (agreement with the C++ established by differential testing on "
              "stage + what() of the whole pipeline, not proved), Spec/Diag (my reading of the property), the generator's token map. "
              "The converter theorems speak about Model/Refs' wrapper (which decides nothing itself: Proofs/Refs erase lemmas for the player part); "
              "the lower bound of C17_parse_error_column is the first character of the command of the failing loop round (CmdHead), which for the "
              "commands that stamp a reference is that reference's column (C17_event_ref_is_command_start).")
RULE = ("valid songs (FM/PSG/PCM channel tracks, subroutine tracks, loops with breaks, calls, instruments, loop point; single-/multi-line with "
        "continuation or repeated track list; single-/multi-track lines with conditional blocks) with ONE injected fault of each of 14 kinds at EVERY "
        "command position (hand-written songs and small random songs) or at sampled positions (large songs); the request carries the generator's "
        "token map (line, column, tracks of every command), call edges and the fault position; plus a corpus of probe inputs and a malformed stream "
        "(correspondence only). non-trivial = carries a fault, or is malformed; distinct by request text")
EXPLANATION = ("model = Model/Mml reader + Model/Refs (reference through Basic_Player, Song_Validator, MDSDRV writer) predicting stage and what(); "
               "judge = Spec/Diag.verdict (the property's clauses) on the real what() against the token map")
ASSUMPTIONS = ["file names without ':'; ASCII messages; lines shorter than 2^32",
               "instrument *data* is taken as well-formed (only id, type word and the fm parameter count are modelled); 2op/pcm instruments, pitch envelopes and defined platform commands answer unmodelled",
               "the VGM export path (MD_Driver) is not part of the modelled pipeline: the harness exports the mds format"]
