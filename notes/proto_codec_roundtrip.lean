/- Prototype: MDSDRV length-compression codec (linear fragment: rests, notes/ties, 1-byte commands).
   Literal model of convert_track's register logic + byte-at-a-time decoder; round trip on tick strings. -/

inductive Ev where
  | rest (n : Nat)
  | note (ty n : Nat)      -- ty in [0x81, 0xe0); 0x81 = tie
  | cmd (op a : Nat)       -- op in [0xe0, 0x100), one argument byte
  deriving Repr, DecidableEq

def U : Nat := 0xffff

structure Enc where
  out : List Nat
  lastRest : Nat
  lastNote : Nat
  lastType : Nat
  deriving Repr

def Enc.init : Enc := ⟨[], U, U, 0x80⟩

def noteish (t : Nat) : Bool := decide (0x81 ≤ t) && decide (t < 0xe0)

def lastGt80 (l : List Nat) : Bool :=
  match l.getLast? with
  | some b => decide (b > 0x80)
  | none => false

def needLen (e : Enc) : Bool := noteish e.lastType && lastGt80 e.out

def disamb (e : Enc) : Enc :=
  if needLen e then { e with lastType := 0x80, out := e.out ++ [e.lastNote] } else e

def restLoop (e : Enc) (arg : Nat) : Enc × Nat :=
  if arg ≥ 128 then
    let e1 := disamb e
    restLoop { e1 with out := e1.out ++ [0x7f], lastRest := 0x7f } (arg - 128)
  else (e, arg)
termination_by arg
decreasing_by omega

def encRest (e : Enc) (n : Nat) : Enc :=
  let (e1, a) := restLoop e (n - 1)
  let e2 := if a = e1.lastRest then { e1 with out := e1.out ++ [0x80] }
            else let e1' := disamb e1; { e1' with out := e1'.out ++ [a], lastRest := a }
  { e2 with lastType := 0x80 }

def noteLoop (e : Enc) (arg : Nat) : Enc × Nat :=
  if arg ≥ 128 then
    let e1 := if e.lastNote ≠ 0x7f then { e with out := e.out ++ [0x7f] } else e
    noteLoop { e1 with lastNote := 0x7f, out := e1.out ++ [0x81] } (arg - 128)
  else (e, arg)
termination_by arg
decreasing_by omega

def encNote (e : Enc) (ty n : Nat) : Enc :=
  let e0 := { e with out := e.out ++ [ty] }
  let (e1, a) := noteLoop e0 (n - 1)
  let e2 := if a ≠ e1.lastNote then { e1 with out := e1.out ++ [a], lastNote := a } else e1
  { e2 with lastType := ty }

def encEv (e : Enc) : Ev → Enc
  | .rest n => encRest e n
  | .note ty n => encNote e ty n
  | .cmd op a => { e with out := e.out ++ [op, a], lastType := op }

def encode (es : List Ev) : Enc := es.foldl encEv Enc.init

/-! ticks -/
inductive Tk where
  | on (ty : Nat) | hold | off | cmd (op a : Nat)
  deriving Repr, DecidableEq

def noteTicks (ty n : Nat) : List Tk :=
  if ty = 0x81 then List.replicate n .hold else .on ty :: List.replicate (n - 1) .hold

def evTicks : Ev → List Tk
  | .rest n => List.replicate n .off
  | .note ty n => noteTicks ty n
  | .cmd op a => [.cmd op a]

def specTicks (es : List Ev) : List Tk := (es.map evTicks).flatten

/-! decoder -/
inductive Mode where
  | idle | bare (ty : Nat) | arg (op : Nat)
  deriving Repr, DecidableEq

structure Dec where
  ticks : List Tk
  lastNote : Option Nat
  lastRest : Option Nat
  mode : Mode
  err : Bool
  deriving Repr

def Dec.init : Dec := ⟨[], none, none, .idle, false⟩

def idleByte (d : Dec) (b : Nat) : Dec :=
  if b < 0x80 then { d with ticks := d.ticks ++ List.replicate (b + 1) .off, lastRest := some b, mode := .idle }
  else if b = 0x80 then
    match d.lastRest with
    | some r => { d with ticks := d.ticks ++ List.replicate (r + 1) .off, mode := .idle }
    | none => { d with err := true }
  else if b < 0xe0 then { d with mode := .bare b }
  else { d with mode := .arg b }

def stepByte (d : Dec) (b : Nat) : Dec :=
  match d.mode with
  | .arg op => { d with ticks := d.ticks ++ [.cmd op b], mode := .idle }
  | .bare ty =>
      if b < 0x80 then { d with ticks := d.ticks ++ noteTicks ty (b + 1), lastNote := some b, mode := .idle }
      else match d.lastNote with
        | some l => idleByte { d with ticks := d.ticks ++ noteTicks ty (l + 1), mode := .idle } b
        | none => { d with err := true }
  | .idle => idleByte d b

def dec (bs : List Nat) : Dec := bs.foldl stepByte Dec.init

def flush (d : Dec) : List Tk :=
  match d.mode, d.lastNote with
  | .bare ty, some l => d.ticks ++ noteTicks ty (l + 1)
  | _, _ => d.ticks


theorem dec_append (a b : List Nat) : dec (a ++ b) = b.foldl stepByte (dec a) := by
  simp [dec, List.foldl_append]

theorem noteTicks_split (ty m k : Nat) (hm : m ≥ 1) :
    noteTicks ty (m + k) = noteTicks ty m ++ noteTicks 0x81 k := by
  unfold noteTicks
  by_cases h : ty = 0x81
  · simp [h, List.replicate_append_replicate]
  · simp [h]
    omega

/-- state predicate at any point where the decoder is between instructions -/
structure Good (e : Enc) (T : List Tk) : Prop where
  noErr : (dec e.out).err = false
  ticks : flush (dec e.out) = T
  noteReg : e.lastNote ≠ U → e.lastNote < 0x80 ∧ (dec e.out).lastNote = some e.lastNote
  restReg : e.lastRest ≠ U → e.lastRest < 0x80 ∧ (dec e.out).lastRest = some e.lastRest
  mode : (needLen e = true ∧ e.lastNote ≠ U ∧ ∃ ty, (dec e.out).mode = .bare ty)
       ∨ (needLen e = false ∧ (dec e.out).mode = .idle)

/-- decoder state with the pending bare note resolved -/
def settle (d : Dec) : Dec :=
  match d.mode, d.lastNote with
  | .bare ty, some l => { d with ticks := d.ticks ++ noteTicks ty (l + 1), mode := .idle }
  | _, _ => d

theorem step_high {e : Enc} {T : List Tk} (g : Good e T) (b : Nat) (hb : b ≥ 0x80) :
    stepByte (dec e.out) b = idleByte (settle (dec e.out)) b
    ∧ (settle (dec e.out)).ticks = T ∧ (settle (dec e.out)).mode = .idle
    ∧ (settle (dec e.out)).err = false
    ∧ (settle (dec e.out)).lastNote = (dec e.out).lastNote
    ∧ (settle (dec e.out)).lastRest = (dec e.out).lastRest := by
  rcases g.mode with ⟨_, hn, ty, hm⟩ | ⟨_, hm⟩
  · obtain ⟨_, hl⟩ := g.noteReg hn
    have ht := g.ticks
    have he := g.noErr
    simp [flush, hm, hl] at ht
    have hb' : ¬ b < 0x80 := by omega
    simp [stepByte, settle, hm, hl, hb', ht, he]
  · have ht := g.ticks
    have he := g.noErr
    simp [flush, hm] at ht
    simp [stepByte, settle, hm, ht, he]

theorem disamb_good {e : Enc} {T : List Tk} (g : Good e T) :
    Good (disamb e) T ∧ (dec (disamb e).out).mode = .idle ∧ needLen (disamb e) = false
    ∧ (disamb e).lastNote = e.lastNote ∧ (disamb e).lastRest = e.lastRest := by
  rcases g.mode with ⟨hnl, hn, ty, hm⟩ | ⟨hnl, hm⟩
  · obtain ⟨hlt, hl⟩ := g.noteReg hn
    have ht := g.ticks
    have he := g.noErr
    simp [flush, hm, hl] at ht
    have hd : dec (e.out ++ [e.lastNote]) =
        { (dec e.out) with ticks := (dec e.out).ticks ++ noteTicks ty (e.lastNote + 1),
                           lastNote := some e.lastNote, mode := .idle } := by
      simp [dec_append, stepByte, hm, hlt]
    have hnl' : needLen { e with lastType := 0x80, out := e.out ++ [e.lastNote] } = false := by
      simp [needLen, noteish]
    refine ⟨?_, ?_, ?_, ?_, ?_⟩
    · simp only [disamb, hnl, if_true]
      refine ⟨?_, ?_, ?_, ?_, ?_⟩
      · simp [hd, he]
      · simp [hd, flush, ht]
      · intro _; simp [hd, hlt]
      · intro h; simpa [hd] using g.restReg h
      · right; exact ⟨hnl', by simp [hd]⟩
    · simp [disamb, hnl, hd]
    · simp only [disamb, hnl, if_true]; exact hnl'
    · simp [disamb, hnl]
    · simp [disamb, hnl]
  · have : disamb e = e := by simp [disamb, hnl]
    rw [this]
    exact ⟨g, hm, hnl, rfl, rfl⟩

theorem lastGt80_concat (l : List Nat) (b : Nat) : lastGt80 (l ++ [b]) = decide (b > 0x80) := by
  simp [lastGt80]

theorem pushRest_good {e : Enc} {T : List Tk} (g : Good e T) (hm : (dec e.out).mode = .idle)
    (b : Nat) (hb : b < 0x80) :
    Good { e with out := e.out ++ [b], lastRest := b } (T ++ List.replicate (b + 1) .off)
    ∧ (dec (e.out ++ [b])).mode = .idle
    ∧ needLen { e with out := e.out ++ [b], lastRest := b } = false := by
  have ht := g.ticks
  simp [flush, hm] at ht
  have hd : dec (e.out ++ [b]) =
      { (dec e.out) with ticks := (dec e.out).ticks ++ List.replicate (b + 1) .off,
                         lastRest := some b, mode := .idle } := by
    simp [dec_append, stepByte, hm, idleByte, hb]
  have hnl : needLen { e with out := e.out ++ [b], lastRest := b } = false := by
    have : ¬ b > 0x80 := by omega
    simp [needLen, lastGt80_concat, this]
  refine ⟨⟨?_, ?_, ?_, ?_, ?_⟩, ?_, hnl⟩
  · simp [hd, g.noErr]
  · simp [hd, flush, ht]
  · intro h; simpa [hd] using g.noteReg h
  · intro _; simp [hd, hb]
  · right; exact ⟨hnl, by simp [hd]⟩
  · simp [hd]

theorem restLoop_good : ∀ (arg : Nat) (e : Enc) (T : List Tk), Good e T →
    ∃ e' a, restLoop e arg = (e', a) ∧ a < 128 ∧ a ≤ arg ∧
      Good e' (T ++ List.replicate (arg - a) .off) ∧ e'.lastNote = e.lastNote
      ∧ (arg < 128 → e' = e) := by
  intro arg
  induction arg using Nat.strongRecOn with
  | _ arg ih =>
    intro e T g
    unfold restLoop
    by_cases h : arg ≥ 128
    · simp only [h, if_true]
      obtain ⟨g1, hm1, _, hn1, _⟩ := disamb_good g
      obtain ⟨g2, _, _⟩ := pushRest_good g1 hm1 0x7f (by omega)
      obtain ⟨e', a, hr, ha, hle, g3, hn3, _⟩ := ih (arg - 128) (by omega) _ _ g2
      refine ⟨e', a, hr, ha, by omega, ?_, ?_, by omega⟩
      · have : T ++ List.replicate (0x7f + 1) Tk.off ++ List.replicate (arg - 128 - a) Tk.off
            = T ++ List.replicate (arg - a) Tk.off := by
          rw [List.append_assoc, List.replicate_append_replicate]; congr 2; omega
        rw [← this]; exact g3
      · rw [hn3]; exact hn1
    · simp only [h, if_false]
      exact ⟨e, arg, rfl, by omega, Nat.le_refl _, by simpa using g, rfl, fun _ => rfl⟩

theorem setType_good {e : Enc} {T : List Tk} (g : Good e T) (hm : (dec e.out).mode = .idle)
    (t : Nat) (ht : noteish t = false) : Good { e with lastType := t } T := by
  refine ⟨g.noErr, g.ticks, g.noteReg, g.restReg, ?_⟩
  right; exact ⟨by simp [needLen, ht], hm⟩

theorem encRest_good {e : Enc} {T : List Tk} (g : Good e T) (n : Nat) (hn : n ≥ 1) :
    Good (encRest e n) (T ++ List.replicate n .off) := by
  obtain ⟨e1, a, hr, ha, hle, g1, _, _⟩ := restLoop_good (n - 1) e T g
  unfold encRest
  rw [hr]
  simp only
  have hT : ∀ X : List Tk, T ++ List.replicate (n - 1 - a) Tk.off ++ List.replicate (a + 1) Tk.off = X →
      X = T ++ List.replicate n Tk.off := by
    intro X hX; rw [← hX, List.append_assoc, List.replicate_append_replicate]; congr 2; omega
  by_cases hc : a = e1.lastRest
  · simp only [hc, if_true]
    have hU : e1.lastRest ≠ U := by simp [U]; omega
    obtain ⟨_, hrr⟩ := g1.restReg hU
    obtain ⟨hs, hst, hsm, hse, hsn, hsr⟩ := step_high g1 0x80 (by omega)
    have hd : dec (e1.out ++ [0x80]) =
        { settle (dec e1.out) with
            ticks := (settle (dec e1.out)).ticks ++ List.replicate (e1.lastRest + 1) .off, mode := .idle } := by
      rw [dec_append]; simp only [List.foldl_cons, List.foldl_nil, hs]
      simp [idleByte, hsr, hrr]
    have g2 : Good { e1 with out := e1.out ++ [0x80] } (T ++ List.replicate n .off) ∧
        (dec (e1.out ++ [0x80])).mode = .idle := by
      refine ⟨⟨?_, ?_, ?_, ?_, ?_⟩, by simp [hd]⟩
      · simp [hd, hse]
      · apply hT; simp [hd, flush, hst, ← hc]
      · intro h; have := g1.noteReg h; simpa [hd, hsn] using this
      · intro h; have := g1.restReg h; simpa [hd, hsr] using this
      · right; refine ⟨?_, by simp [hd]⟩
        simp [needLen, lastGt80_concat]
    exact setType_good g2.1 g2.2 0x80 (by simp [noteish])
  · simp only [hc, if_false]
    obtain ⟨g2, hm2, _, _, _⟩ := disamb_good g1
    obtain ⟨g3, hm3, _⟩ := pushRest_good g2 hm2 a (by omega)
    have := setType_good g3 hm3 0x80 (by simp [noteish])
    rw [← hT _ rfl]; exact this

/-- mid-note state: a note/tie type byte `t` has been emitted, its length is still open -/
structure Pending (e : Enc) (T : List Tk) (t : Nat) : Prop where
  noErr : (dec e.out).err = false
  mode : (dec e.out).mode = .bare t
  ticks : (dec e.out).ticks = T
  noteReg : e.lastNote ≠ U → e.lastNote < 0x80 ∧ (dec e.out).lastNote = some e.lastNote
  restReg : e.lastRest ≠ U → e.lastRest < 0x80 ∧ (dec e.out).lastRest = some e.lastRest
  last : lastGt80 e.out = true

theorem noteLoop_good : ∀ (arg : Nat) (e : Enc) (T : List Tk) (t : Nat), Pending e T t →
    ∃ e' a t' T', noteLoop e arg = (e', a) ∧ a < 128 ∧ Pending e' T' t' ∧
      T' ++ noteTicks t' (a + 1) = T ++ noteTicks t (arg + 1) := by
  intro arg
  induction arg using Nat.strongRecOn with
  | _ arg ih =>
    intro e T t p
    unfold noteLoop
    by_cases h : arg ≥ 128
    · simp only [h, if_true]
      -- state after the optional 0x7f and the TIE byte
      have key : Pending
          { (if e.lastNote ≠ 0x7f then { e with out := e.out ++ [0x7f] } else e) with
              lastNote := 0x7f,
              out := (if e.lastNote ≠ 0x7f then { e with out := e.out ++ [0x7f] } else e).out ++ [0x81] }
          (T ++ noteTicks t 128) 0x81 := by
        by_cases hl : e.lastNote ≠ 0x7f
        · rw [if_pos hl]
          have hd : dec (e.out ++ [0x7f, 0x81]) =
              { (dec e.out) with ticks := (dec e.out).ticks ++ noteTicks t 128,
                                 lastNote := some 0x7f, mode := .bare 0x81 } := by
            rw [dec_append]
            simp [stepByte, p.mode, idleByte]
          refine ⟨?_, ?_, ?_, ?_, ?_, ?_⟩
          · simp [hd, p.noErr]
          · simp [hd]
          · simp [hd, p.ticks]
          · intro _; simp [hd]
          · intro hh; simpa [hd] using p.restReg hh
          · simp [lastGt80]
        · have hl' : e.lastNote = 0x7f := by simpa using hl
          simp only [hl, if_false]
          have hU : e.lastNote ≠ U := by simp [hl', U]
          obtain ⟨_, hdl⟩ := p.noteReg hU
          have hd : dec (e.out ++ [0x81]) =
              { (dec e.out) with ticks := (dec e.out).ticks ++ noteTicks t 128, mode := .bare 0x81 } := by
            rw [dec_append]
            simp [stepByte, p.mode, idleByte, hdl, hl']
          refine ⟨?_, ?_, ?_, ?_, ?_, ?_⟩
          · simp [hd, p.noErr]
          · simp [hd]
          · simp [hd, p.ticks]
          · intro _; simp [hd, hdl, hl']
          · intro hh; simpa [hd] using p.restReg hh
          · simp [lastGt80_concat]
      obtain ⟨e', a, t', T', hr, ha, p', hT⟩ := ih (arg - 128) (by omega) _ _ _ key
      refine ⟨e', a, t', T', hr, ha, p', ?_⟩
      rw [hT, List.append_assoc]
      congr 1
      have : arg + 1 = 128 + (arg - 128 + 1) := by omega
      rw [this, noteTicks_split t 128 (arg - 128 + 1) (by omega)]
    · simp only [h, if_false]
      exact ⟨e, arg, t, T, rfl, by omega, p, rfl⟩

theorem encNote_good {e : Enc} {T : List Tk} (g : Good e T) (ty n : Nat)
    (hty : noteish ty = true) (hn : n ≥ 1) :
    Good (encNote e ty n) (T ++ noteTicks ty n) := by
  have hty' : 0x81 ≤ ty ∧ ty < 0xe0 := by simpa [noteish] using hty
  obtain ⟨hs, hst, hsm, hse, hsn, hsr⟩ := step_high g ty (by omega)
  have hd0 : dec (e.out ++ [ty]) = { settle (dec e.out) with mode := .bare ty } := by
    rw [dec_append]; simp only [List.foldl_cons, List.foldl_nil, hs]
    have h1 : ¬ ty < 0x80 := by omega
    have h2 : ¬ ty = 0x80 := by omega
    simp [idleByte, h1, h2, hty'.2]
  have p0 : Pending { e with out := e.out ++ [ty] } T ty := by
    refine ⟨?_, ?_, ?_, ?_, ?_, ?_⟩
    · simp [hd0, hse]
    · simp [hd0]
    · simp [hd0, hst]
    · intro h; have := g.noteReg h; simpa [hd0, hsn] using this
    · intro h; have := g.restReg h; simpa [hd0, hsr] using this
    · have : ty > 0x80 := by omega
      simp [lastGt80_concat, this]
  obtain ⟨e1, a, t', T', hr, ha, p1, hT⟩ := noteLoop_good (n - 1) _ _ _ p0
  have hn1 : n - 1 + 1 = n := by omega
  rw [hn1] at hT
  unfold encNote
  simp only
  rw [hr]
  simp only
  by_cases hc : a ≠ e1.lastNote
  · rw [if_pos hc]
    have hd : dec (e1.out ++ [a]) =
        { (dec e1.out) with ticks := (dec e1.out).ticks ++ noteTicks t' (a + 1),
                            lastNote := some a, mode := .idle } := by
      rw [dec_append]; simp [stepByte, p1.mode, show a < 0x80 by omega]
    have hnl : needLen { e1 with out := e1.out ++ [a], lastNote := a, lastType := ty } = false := by
      have : ¬ a > 0x80 := by omega
      simp [needLen, lastGt80_concat, this]
    refine ⟨?_, ?_, ?_, ?_, ?_⟩
    · simp [hd, p1.noErr]
    · simp [hd, flush, p1.ticks, hT]
    · intro _; simp [hd]; omega
    · intro h; have := p1.restReg h; simpa [hd] using this
    · right; exact ⟨hnl, by simp [hd]⟩
  · have hc' : a = e1.lastNote := by simpa using hc
    rw [if_neg hc]
    have hU : e1.lastNote ≠ U := by rw [← hc']; simp [U]; omega
    obtain ⟨_, hl⟩ := p1.noteReg hU
    refine ⟨p1.noErr, ?_, p1.noteReg, p1.restReg, ?_⟩
    · simp [flush, p1.mode, hl, p1.ticks, ← hc', hT]
    · left
      refine ⟨?_, hU, t', p1.mode⟩
      simp [needLen, hty, p1.last]

theorem encCmd_good {e : Enc} {T : List Tk} (g : Good e T) (op a : Nat) (hop : op ≥ 0xe0) :
    Good { e with out := e.out ++ [op, a], lastType := op } (T ++ [.cmd op a]) := by
  obtain ⟨hs, hst, hsm, hse, hsn, hsr⟩ := step_high g op (by omega)
  have hd : dec (e.out ++ [op, a]) =
      { settle (dec e.out) with ticks := (settle (dec e.out)).ticks ++ [.cmd op a], mode := .idle } := by
    rw [dec_append]; simp only [List.foldl_cons, List.foldl_nil, hs]
    have h1 : ¬ op < 0x80 := by omega
    have h2 : ¬ op = 0x80 := by omega
    have h3 : ¬ op < 0xe0 := by omega
    simp [idleByte, h1, h2, h3, stepByte]
  have hnl : needLen { e with out := e.out ++ [op, a], lastType := op } = false := by
    have : ¬ (0x81 ≤ op ∧ op < 0xe0) := by omega
    simp [needLen, noteish]; intro h1 h2; omega
  refine ⟨?_, ?_, ?_, ?_, ?_⟩
  · simp [hd, hse]
  · simp [hd, flush, hst]
  · intro h; have := g.noteReg h; simpa [hd, hsn] using this
  · intro h; have := g.restReg h; simpa [hd, hsr] using this
  · right; exact ⟨hnl, by simp [hd]⟩

def validEv : Ev → Prop
  | .rest n => n ≥ 1
  | .note ty n => noteish ty = true ∧ n ≥ 1
  | .cmd op _ => op ≥ 0xe0

theorem init_good : Good Enc.init [] := by
  refine ⟨rfl, rfl, ?_, ?_, ?_⟩
  · intro h; exact absurd rfl h
  · intro h; exact absurd rfl h
  · right; exact ⟨rfl, rfl⟩

theorem encEv_good {e : Enc} {T : List Tk} (g : Good e T) (ev : Ev) (hv : validEv ev) :
    Good (encEv e ev) (T ++ evTicks ev) := by
  cases ev with
  | rest n => exact encRest_good g n hv
  | note ty n => exact encNote_good g ty n hv.1 hv.2
  | cmd op a => exact encCmd_good g op a hv

theorem foldl_good : ∀ (es : List Ev) (e : Enc) (T : List Tk), Good e T → (∀ ev ∈ es, validEv ev) →
    Good (es.foldl encEv e) (T ++ specTicks es)
  | [], e, T, g, _ => by simpa [specTicks] using g
  | ev :: es, e, T, g, hv => by
    have g1 := encEv_good g ev (hv ev (by simp))
    have := foldl_good es _ _ g1 (fun x hx => hv x (by simp [hx]))
    simpa [specTicks, List.append_assoc] using this

/-- The round trip: decoding the emitted bytes yields exactly the tick string of the events,
    for every list of valid events (any durations ≥ 1, any adjacency). -/
theorem codec_roundtrip (es : List Ev) (hv : ∀ ev ∈ es, validEv ev) :
    (dec (encode es).out).err = false ∧ flush (dec (encode es).out) = specTicks es := by
  have := foldl_good es Enc.init [] init_good hv
  exact ⟨this.noErr, by simpa [encode] using this.ticks⟩

#print axioms codec_roundtrip

/-! ### D4 witness: what the SEGNO case of convert_track does to this invariant.
    SEGNO emits nothing, resets both registers and overwrites `lastType` with 0x7f. -/
def encSegno (e : Enc) : Enc := { e with lastRest := U, lastNote := U, lastType := 0x7f }

/-- `c4 c4 L r2` : the rest length 0x2f lands right after the bare note byte and is decoded
    as that note's length. -/
theorem d4_witness :
    let e := encRest (encSegno (encNote (encNote Enc.init 0xa6 24) 0xa6 24)) 48
    e.out = [0xa6, 0x17, 0xa6, 0x2f] ∧
    flush (dec e.out) ≠ specTicks [.note 0xa6 24, .note 0xa6 24, .rest 48] := by
  decide +kernel

#print axioms d4_witness
